package main

// Phase "swallowed" (round 10): A FAULT AT A PARTICULAR POINT, swallowed, and the code around it
// carries on.
//
// Every statement the properties make about an operation holds whether or not ANOTHER evaluation
// failed a moment ago: `??` yields its right side when the left fails, try/catch continues after the
// try, and from then on the enclosing expression, the rest of the statement, the next statements and
// the next run on the same environment behave as if the failed evaluation had been written as its
// outcome. The engines produce faults, but a fault ends their case (the error is the result that is
// judged); what an operation leaves behind when it fails half-way - a scratch stack not trimmed, a
// remembered index or target, a half-built deferred call, an error kept for the next call, a shadow
// binding - is only visible to what runs AFTER the swallowed fault, in the same expression or later.
//
// The grid: FORM x FAULT x SWALLOWER, all fixed lists.
//   FORM      a program with one hole in an operand position of an expression form (arithmetic and
//             logic chains, list / map literals, argument lists of every call path, return lists,
//             multi-assignment, element op-assignment, index and slice operands, conditions, `in`,
//             defer arguments, builtin and unary operands), the other operands being probes p(k),
//             followed by fixed statements that use the same forms without any fault, and a final
//             read-back of every variable;
//   FAULT     an expression of the hole's type context that fails after evaluating a (pure) part of
//             itself: unbound name first / last / in the middle of a chain, throwing script function,
//             panicking host function, modulo zero, index out of range, member of nil, a failing call
//             of every call path (also a function whose BODY throws), a nested op-assignment whose
//             right side fails, a failing conversion for a typed parameter;
//   SWALLOWER ((FAULT) ?? V), a script function that catches (sw(func() { return FAULT }, V)),
//             a try/catch statement before the form (the hole is then a variable), and the form run
//             three times in a loop with the fault arriving in the first round only (the same nodes
//             are evaluated again after they failed once).
// The sibling program has (V) in place of the swallowed fault. Oracle: the program and its sibling
// record the same probe trace, end with the same value and error status, and read back the same
// variables. No expected value is stored anywhere; V is of the type the form needs.
//
// A second family (statement faults) puts a failing STATEMENT inside try/catch in a function whose
// enclosing scopes bind the names involved, then assigns all names afresh and reads them back at
// every level: what a failed statement did to its targets is not stated, what later assignments and
// reads do is (C04).

import (
	"fmt"
	"os"
	"strconv"
	"strings"

	"verifharness/internal/realrun"
	"verifharness/internal/wk"
)

type swCase struct {
	name  string
	props []string
	prog  string
	sib   string
}

const swPrelude = `zero = 0
yes = true
no = false
l9 = [1, 2, 3]
m9 = {"a": 1}
nl = nil
func thr(x) { throw "thr" }
func f3(a, b, c) { return a * 100 + b * 10 + c }
func f6(a, b, c, d, e, f) { return a + b + c + d + e + f }
func fv(h, rest...) { var acc = h; for r in rest { if r < 0 { throw "negative" }; acc += r }; return acc }
func fvv(rest...) { var acc = 0; for r in rest { if r < 0 { throw "negative" }; acc += r }; return acc }
func f5t(a, b, c, d, e) { if e < 0 { throw "negative" }; return a + b + c + d + e }
func sw(f, v) { try { return f() } catch e { return v } }
sort9 = import("sort")
strings9 = import("strings")
`

// forms: %s is the hole. kind = type context of the hole: "i" int, "b" bool, "s" string, "l" list
type swForm struct {
	name, kind string
	props      []string
	src        string
}

var swForms = []swForm{
	{"add-chain", "i", []string{"C05", "C07", "C03"}, "r = p(1) + %s + p(1000) + p(7)"},
	{"add-chain-left", "i", []string{"C05", "C07", "C03"}, "r = %s + p(1000) - p(7) + 3"},
	{"add-chain-right", "i", []string{"C05", "C07"}, "r = p(1) - p(2) + %s"},
	{"mul-chain", "i", []string{"C05", "C07", "C03"}, "r = p(2) * %s * p(3) % 1000"},
	{"mixed-arith", "i", []string{"C05", "C03"}, "r = p(1) + %s * p(3) - (p(4) | %s)"},
	{"float-chain", "i", []string{"C05"}, "r = p(1.5) + %s + p(2.25)"},
	{"string-chain", "s", []string{"C05", "C07"}, "r = p(\"a\") + %s + p(\"z\") + 1"},
	{"and-chain", "b", []string{"C07", "C03", "C08"}, "r = p(yes) && %s && p(yes) && p(7)"},
	{"or-chain", "b", []string{"C07", "C03", "C08"}, "r = p(no) || (%s && p(no)) || p(no) || p(8)"},
	{"and-or-mixed", "b", []string{"C07", "C03"}, "r = p(yes) && %s || p(no) && p(yes) || p(9)"},
	{"compare-chain", "i", []string{"C06", "C03"}, "r = [p(5) == %s, %s != p(5), p(4) < %s, %s in [p(5), 6]]"},
	{"list-literal", "i", []string{"C07", "C10"}, "r = [p(1), %s, p(2), [p(3), %s]]"},
	{"map-literal", "i", []string{"C07", "C10"}, "r = {\"a\": p(1), \"b\": %s, \"c\": p(2)}; r = [r.a, r.b, r.c, len(r)]"},
	{"call-3", "i", []string{"C07", "C11", "C04"}, "r = f3(p(1), %s, p(2))"},
	{"call-6", "i", []string{"C07", "C11", "C04"}, "r = f6(p(1), %s, p(2), p(3), %s, p(4))"},
	{"call-variadic", "i", []string{"C07", "C11"}, "r = fv(p(1), %s, p(2)) + fvv(%s, p(3))"},
	{"call-host", "i", []string{"C07", "C11"}, "r = pv(p(1), %s) + p(2)"},
	{"return-list", "i", []string{"C07", "C08"}, "g = func() { return p(1), %s, p(2) }; r = g()"},
	{"multi-assign", "i", []string{"C07", "C04"}, "x, y, z = p(1), %s, p(2); r = [x, y, z]"},
	{"elem-opassign", "i", []string{"C10", "C07", "C20"}, "a = [10, 20, 30]; a[0] += %s; a[p(1)] -= %s; r = a"},
	{"map-opassign", "i", []string{"C10", "C07", "C20"}, "m = {\"x\": 1, \"y\": 2}; m[\"x\"] += %s; m[p(\"y\")] *= %s; r = [m.x, m.y, len(m)]"},
	{"var-opassign", "i", []string{"C05", "C07", "C20"}, "v = 10; v += %s; v *= 2; v -= %s; r = v"},
	{"elem-store", "i", []string{"C10", "C07", "C20"}, "a = [1, 2, 3]; a[p(0)] = %s; a[%s - 4] = p(9); r = a"},
	{"index-operand", "i", []string{"C10", "C07", "C20"}, "a = [0, 1, 2, 3, 4, 5, 6]; r = [a[%s], a[p(1):%s], a[%s - 3:p(6)]]"},
	{"ternary", "b", []string{"C07", "C08"}, "r = [%s ? p(1) : p(2), p(yes) ? %s : p(3), p(no) ? p(4) : %s]"},
	{"if-condition", "b", []string{"C08"}, "r = 0; if %s { r = p(1) } else { r = p(2) }; if p(no) { r += 10 } else if %s { r += p(20) }"},
	{"loop-bound", "i", []string{"C08"}, "r = 0; for i = 0; i < %s; i++ { r += p(i) }; for i in range(%s) { if i == 2 { continue }; r += i }"},
	{"switch-subject", "i", []string{"C08", "C06"}, "r = 0; switch %s { case p(4): r = 4; case 5, 6: r = p(56); default: r = -1 }; switch p(5) { case %s: r += 100; default: r += 1000 }"},
	{"in-list", "i", []string{"C06"}, "r = [%s in [p(4), 5, 6], p(5) in [1, %s, 3], 9 in [%s]]"},
	{"defer-args", "i", []string{"C09", "C07"}, "g = func() { defer pv(\"d1\", p(1)); defer pv(\"d2\", %s); defer pv(\"d3\", p(3)); return p(4) }; r = g()"},
	{"builtin-operand", "i", []string{"C19", "C07"}, "r = [toString(%s), toFloat(%s), len(range(%s)), typeOf(%s)]"},
	{"unary", "i", []string{"C05", "C03"}, "r = [-%s, -(%s) + p(1), !(%s == 5)]"},
	{"string-index", "i", []string{"C10"}, "s = \"abcdefgh\"; r = [s[%s], s[1:%s], len(s[%s - 2:])]"},
	{"nested-functions", "i", []string{"C04", "C09"}, "g = func(k) { var loc = k; h = func() { return loc + %s }; q = h(); return [q, loc, k] }; r = [g(p(1)), g(p(2))]"},
}

// what runs after the form, in the same run: the same constructs without any fault
const swAfter = `
after1 = p(100) + p(200) + p(300) - 1
after2 = p(yes) && p(yes) && p(no) || p(11)
after3 = [p(21), p(22)]
after4 = f3(p(1), p(2), p(3)) + f6(1, 2, 3, 4, 5, p(6)) + fv(1, 2, 3) + fvv(4, 5) + f5t(1, 2, 3, 4, 5)
aa = [5, 6, 7]; aa[1] += p(10); aa[p(2)] *= 2
mm = {"k": 1}; mm["k"] += p(1)
x2, y2 = p(31), p(32)
g2 = func() { defer pv("gd", p(41)); return p(42), p(43) }
after5 = g2()
after6 = 0; for i = 0; i < 3; i++ { after6 += i }
after7 = sw(func() { return 77 }, 0)
after8 = [toInt("42"), len(range(1, 10, 3)), len(keys(m9)), typeOf(1), toString(5), strings9.ToUpper("ab"), strings9.Map(func(c) { return c + 1 }, "abc")]
ls9 = [3, 1, 2]; sort9.Slice(ls9, func(i, j) { return ls9[i] < ls9[j] })
[r, after1, after2, after3, after4, aa, mm.k, x2, y2, after5, after6, after7, after8, ls9]
`

// faults by type context; each fails after evaluating a pure part of itself. value = the fallback V.
type swFault struct{ name, kind, expr, v string }

var swFaults = []swFault{
	{"unbound-first", "i", "missing9 + 10", "5"},
	{"unbound-last", "i", "10 + 20 + missing9", "5"},
	{"unbound-middle", "i", "2 + missing9 + 30 - 1", "5"},
	{"unbound-mul", "i", "2 * 3 * missing9 * 4", "5"},
	{"throwing-fn-middle", "i", "2 + thr(1) + 30", "5"},
	{"host-panic-middle", "i", "2 + pe(99) + 30", "5"},
	{"mod-zero", "i", "(7 % zero) + 1", "5"},
	{"index-out-of-range", "i", "l9[99] + 1", "5"},
	{"member-of-nil", "i", "nl.field + 1", "5"},
	{"call3-arg-fails", "i", "f3(1, missing9, 2)", "5"},
	{"call6-arg-fails", "i", "f6(1, 2, 3, missing9, 5, 6)", "5"},
	{"variadic-arg-fails", "i", "fv(1, 2, thr(3), 4)", "5"},
	{"variadic-body-throws", "i", "fv(1, -2)", "5"},
	{"variadic-only-body-throws", "i", "fvv(1, -2, 3)", "5"},
	{"five-param-body-throws", "i", "f5t(1, 2, 3, 4, -5)", "5"},
	{"list-elem-fails", "i", "[1, missing9, 3][0]", "5"},
	{"nested-elem-opassign-fails", "i", "(l9[2] += thr(1))", "5"},
	{"nested-var-opassign-fails", "i", "(zero += missing9)", "5"},
	{"return-list-fails", "i", "func() { return 1, missing9, 3 }()[0]", "5"},
	{"defer-arg-fails", "i", "func() { defer pv(0, missing9); return 1 }()", "5"},
	{"wrong-arg-count", "i", "1 + f3(1, 2) + 3", "5"},
	{"sort-callback-throws", "i", "func() { q9 = [5, 3, 4, 1, 2]; n9 = 0; sort9.Slice(q9, func(i, j) { n9 += 1; if n9 == 2 { throw \"cmp\" }; return q9[i] < q9[j] }); return 1 }()", "5"},
	{"map-callback-throws", "i", "len(strings9.Map(func(c) { if c == 99 { throw \"bad rune\" }; return c }, \"abcd\"))", "5"},
	{"map-callback-unbound", "i", "len(strings9.Map(func(c) { if c == 98 { return missing9 }; return c }, \"abcd\"))", "5"},
	{"and-chain-fails", "b", "yes && missing9 && no", "yes"},
	{"or-chain-fails", "b", "no || missing9 || yes", "yes"},
	{"and-chain-host-panic", "b", "yes && yes && pe(98) && no", "yes"},
	{"compare-fails", "b", "1 + missing9 == 2", "yes"},
	{"in-fails", "b", "1 in [2, missing9, 1]", "yes"},
	{"ternary-fails", "b", "yes ? missing9 : no", "yes"},
	{"string-chain-fails", "s", "\"x\" + missing9 + \"y\"", "\"fb\""},
	{"string-index-fails", "s", "\"abc\"[9] + \"q\"", "\"fb\""},
	{"string-fn-fails", "s", "\"x\" + thr(1) + \"y\" + 1", "\"fb\""},
}

func swBuild() []swCase {
	var out []swCase
	fill := func(src, h string) string { return strings.ReplaceAll(src, "%s", h) }
	for _, f := range swForms {
		for _, ft := range swFaults {
			if ft.kind != f.kind {
				continue
			}
			sib := swPrelude + fill(f.src, "("+ft.v+")") + swAfter
			// swallower 1: ?? inside the expression
			out = append(out, swCase{f.name + "/" + ft.name + "/coalesce", f.props,
				swPrelude + fill(f.src, "(("+ft.expr+") ?? "+ft.v+")") + swAfter, sib})
			// swallower 2: a script function that catches
			out = append(out, swCase{f.name + "/" + ft.name + "/catching-function", f.props,
				swPrelude + fill(f.src, "sw(func() { return "+ft.expr+" }, "+ft.v+")") + swAfter, sib})
			// swallower 4: the form runs three times in a loop and the fault arrives in the first round only:
			// the same nodes are evaluated again after they failed once
			out = append(out, swCase{f.name + "/" + ft.name + "/loop-first-round", f.props,
				swPrelude + "r = 0\nrs9 = []\nfor it9 = 0; it9 < 3; it9++ {\n" + fill(f.src, "((it9 == 0 ? ("+ft.expr+") : "+ft.v+") ?? "+ft.v+")") + "\nrs9 += [r]\n}\n" + swAfter + "rs9\n",
				swPrelude + "r = 0\nrs9 = []\nfor it9 = 0; it9 < 3; it9++ {\n" + fill(f.src, "("+ft.v+")") + "\nrs9 += [r]\n}\n" + swAfter + "rs9\n"})
			// swallower 3: a try statement before the form; the hole reads the variable
			out = append(out, swCase{f.name + "/" + ft.name + "/try-before", f.props,
				swPrelude + "hv9 = 0\ntry { hv9 = " + ft.expr + " } catch e9 { hv9 = " + ft.v + " }\n" + fill(f.src, "hv9") + swAfter,
				swPrelude + "hv9 = " + ft.v + "\n" + fill(f.src, "hv9") + swAfter})
		}
	}
	// statement faults: a failing statement in a try inside a function whose enclosing scopes bind the names
	stmts := []struct{ name, stmt string }{
		{"multi-assign-second-target-index", "n1, l3[9] = 91, 92"},
		{"multi-assign-second-target-member", "n1, nl.field = 91, 92"},
		{"multi-assign-second-target-deref", "n1, *n2 = 91, 92"},
		{"multi-assign-third-value-fails", "n1, n2, n3 = 91, 92, missing9"},
		{"multi-assign-spread-short", "n1, n2, n3 = func() { return 1, missing9 }()"},
		{"var-second-value-fails", "var n1, n2 = 91, missing9"},
		{"opassign-fails", "n1 += missing9"},
		{"elem-opassign-fails", "l3[0] += missing9"},
		{"elem-opassign-index-fails", "l3[missing9] += 1"},
		{"delete-fails", "delete(m3, missing9)"},
		{"forin-body-fails", "for n1 in [7, 8] { n2 = missing9 }"},
		{"cfor-post-fails", "for n1 = 0; n1 < 3; n1 += missing9 { n2 = n1 }"},
		{"switch-case-fails", "switch n1 { case missing9: n2 = 5 }"},
		{"nested-fn-fails", "func() { n1 = 93; n2 = missing9 }()"},
		{"defer-in-block-fails", "func() { defer func() { n3 = missing9 }(); n1 = 94 }()"},
		{"throw-in-finally", "try { n1 = 95 } catch e { } finally { n2 = missing9 }"},
		{"defer-host-args-fail", "defer pv(\"dh\", missing9)"},
		{"defer-script-args-fail", "defer f3(1, missing9, 3)"},
		{"defer-variadic-args-fail", "defer fvv(1, 2, thr(3))"},
		{"defer-literal-args-fail", "defer func(a, b) { n3 = a }(1, missing9)"},
		{"go-args-fail", "go f3(1, missing9, 3)"},
		{"return-in-try-args-fail", "x9 = f6(1, 2, 3, 4, 5, missing9)"},
	}
	follow := "n1 = 41\nn2 = 42\nn3 = 43\nl3 = [4, 5, 6]\nm3 = {\"b\": 2}\nvar loc = n1 + n2\nrd(\"inner\", [n1, n2, n3, l3, len(m3), loc])\n"
	for _, st := range stmts {
		for _, place := range []string{"after", "in-catch", "in-finally"} {
			mk := func(faulty bool) string {
				body := ""
				switch place {
				case "after":
					if faulty {
						body = "try { " + st.stmt + " } catch e8 { }\n"
					}
					body += follow
				case "in-catch":
					if faulty {
						body = "try { " + st.stmt + " } catch e8 {\n" + follow + "}\n"
					} else {
						body = "try { throw \"plain\" } catch e8 {\n" + follow + "}\n"
					}
				case "in-finally":
					if faulty {
						body = "try { " + st.stmt + " } catch e8 { } finally {\n" + follow + "}\n"
					} else {
						body = "try { } catch e8 { } finally {\n" + follow + "}\n"
					}
				}
				return swPrelude + "r = 0\nn1 = 1\nn2 = 2\nn3 = 3\nl3 = [1, 2, 3]\nm3 = {\"a\": 1}\n" +
					"func outer() {\n  func inner() {\n" + body + "rd(\"inner-end\", [n1, n2, n3])\n  }\n" +
					"  inner()\n  rd(\"outer\", [n1, n2, n3, l3, len(m3)])\n  n1 = 51\n  rd(\"outer2\", n1)\n}\nouter()\nrd(\"top\", [n1, n2, n3, l3, len(m3)])\n" +
					"n1 = 61\nrd(\"top2\", n1)\n" + swAfter
			}
			out = append(out, swCase{"statement/" + st.name + "/" + place, []string{"C04", "C08", "C09"}, mk(true), mk(false)})
		}
	}
	// fault storms: the same fault swallowed N times in one run (N on the generic size marks), then the
	// fault-free constructs: a counter, a depth, a pool or a table that every handled failure leaks into
	storm := []struct{ name, expr, v string }{
		{"fn-body-throws", "thr(1)", "5"},
		{"nested-fn-body-throws", "f3(1, thr(2), 3)", "5"},
		{"variadic-body-throws", "fv(1, -2)", "5"},
		{"unbound", "1 + missing9", "5"},
		{"host-panic", "pe(97)", "5"},
		{"index-out-of-range", "l9[99]", "5"},
		{"callback-throws", "len(strings9.Map(func(c) { throw \"bad\" }, \"ab\"))", "5"},
		{"closure-throws", "func() { var loc = 1; throw \"x\" }()", "5"},
	}
	for _, st := range storm {
		for _, n := range []int{1000, 4097, 65537, 200000} {
			if st.name == "host-panic" && n > 4097 {
				continue // every pe() records an event: the budget of a run
			}
			for _, sw := range []string{"coalesce", "try"} {
				body := func(e string) string {
					if sw == "coalesce" {
						return "acc9 += (" + e + ") ?? " + st.v
					}
					return "try { acc9 += " + e + " } catch e7 { acc9 += " + st.v + " }"
				}
				mk := func(e string) string {
					return swPrelude + fmt.Sprintf("r = 0\nacc9 = 0\nfor i9 = 0; i9 < %d; i9++ { %s }\nr = acc9\ng9 = func(a) { for x in [1, 2, 3] { for y in [4, 5] { if y == 5 && x == a { return [x, y] } } }; return nil }\nr = [r, g9(2), g9(7)]\n", n, body(e)) + swAfter
				}
				out = append(out, swCase{fmt.Sprintf("storm-%d/%s/%s", n, st.name, sw), []string{"C04", "C05", "C07", "C08", "C09", "C11"}, mk(st.expr), mk(st.v)})
			}
		}
	}
	return out
}

var swGrid = swBuild()

func swFor(prop string) []swCase {
	var out []swCase
	for _, c := range swGrid {
		for _, p := range c.props {
			if p == prop {
				out = append(out, c)
				break
			}
		}
	}
	return out
}

func init() {
	wk.GenericPhases["swallowed"] = swRun
	wk.RegisterChild("generic-count", func(args []string) {
		if len(args) == 2 && args[0] == "swallowed" {
			fmt.Println(len(swFor(args[1])))
			return
		}
		fmt.Println(0)
	})
}

func swRun(c *wk.Case) {
	grid := swFor(c.W.Prop)
	if c.Index >= len(grid) {
		c.Excluded("beyond-grid")
		return
	}
	g := grid[c.Index]
	c.Begin(g.prog)
	c.Tag("swallowed:" + strings.SplitN(g.name, "/", 2)[0])
	a := realrun.Run(g.prog)
	b := realrun.Run(g.sib)
	c.Events(len(a.Trace) + len(b.Trace))
	input := map[string]interface{}{"case": g.name, "source": g.prog, "sibling_source": g.sib,
		"trace": a.Trace, "sibling_trace": b.Trace, "value": a.Value, "sibling_value": b.Value, "error": a.ErrText, "sibling_error": b.ErrText}
	if a.TimedOut || b.TimedOut || a.Overflow || b.Overflow {
		c.Inconclusive("watchdog", g.name, input)
		return
	}
	if a.Panicked {
		c.Violation(a.PanicSig, a.PanicVal, input)
		return
	}
	// the sibling has no fault at all: if it does not end normally the form is outside the domain
	if b.ErrText != "" || b.Panicked {
		c.Excluded("sibling-fails")
		if os.Getenv("VERIF_SW_DEBUG") != "" {
			fmt.Fprintf(os.Stderr, "SIBLING-FAILS %s: %s\n", g.name, b.ErrText)
		}
		c.Eval("swallowed|"+g.name, false)
		return
	}
	c.Eval("swallowed|"+g.name, true)
	parts := strings.Split(g.name, "/")
	sig := "swallowed:" + parts[0] + ":" + parts[len(parts)-1]
	if parts[0] == "statement" {
		sig = "swallowed:statement:" + parts[1] + ":" + parts[2]
	}
	if a.ErrText != "" {
		c.Violation(sig+":error", "a fault that is swallowed (by ??, a catching function or try/catch) must leave the code around it as if its outcome had been written there: the program ended with error "+strconv.Quote(a.ErrText)+", its fault-free sibling without", input)
		return
	}
	// probes recorded by the failing expression before it failed (pe) are its own; everything else must agree
	strip := func(t []string) []string {
		var o []string
		for _, e := range t {
			if strings.HasPrefix(e, "pe ") {
				continue
			}
			o = append(o, e)
		}
		return o
	}
	if x, y := strings.Join(strip(a.Trace), "\n"), strings.Join(strip(b.Trace), "\n"); x != y {
		c.Violation(sig+":trace", "the probes evaluated around a swallowed fault differ from those of the fault-free sibling", input)
		return
	}
	if a.Value != b.Value {
		c.Violation(sig+":value", "the values computed around and after a swallowed fault differ from those of the fault-free sibling: "+clipS(a.Value, 300)+" vs "+clipS(b.Value, 300), input)
	}
}
