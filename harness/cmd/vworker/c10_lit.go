package main

// C10, literal expressions evaluated more than once.
//
// Every operation of a C10 history is its own vm.Execute call, so every expression node
// is evaluated once. The operations here evaluate ONE literal expression node several
// times: the body of a script function that is called again and again (the function is
// defined once, its syntax tree lives as long as the environment), and the body of a
// loop. The Go model of `[[0, 0], [0, 0]]` / `{"k": [1]}` / `[]int64{1, 2}` is a composite
// literal: every evaluation yields fresh storage, at every nesting level. A store into
// (an inner container of) one result therefore addresses that result only ("in-range
// operations read or store exactly the addressed element"); two results never share
// storage (the live<->model address bijection of the state walk reports it even before
// anything is stored).

import (
	"fmt"
	"reflect"
	"strconv"
	"strings"
)

// c10Lit is a literal expression tree.
type c10Lit struct {
	kind byte     // 'v' scalar, 'l' untyped list, 'm' untyped map, 't' []int64{..}, 'M' map[string]int64{..}
	val  c10Val   // 'v'
	keys []c10Val // 'm', 'M': scalar keys, distinct
	kids []*c10Lit
	ints []int64 // 't', 'M' values
}

func c10LV(v c10Val) *c10Lit        { return &c10Lit{kind: 'v', val: v} }
func c10LL(kids ...*c10Lit) *c10Lit { return &c10Lit{kind: 'l', kids: kids} }
func c10LT(ns ...int64) *c10Lit     { return &c10Lit{kind: 't', ints: ns} }
func c10LI(n int64) *c10Lit         { return c10LV(c10Int(n)) }
func c10LS(s string) *c10Lit        { return c10LV(c10Str(s)) }
func (l *c10Lit) isContainer() bool { return l.kind != 'v' }
func c10LM(kv ...interface{}) *c10Lit { // key (c10Val), kid (*c10Lit), ...
	m := &c10Lit{kind: 'm'}
	for i := 0; i+1 < len(kv); i += 2 {
		m.keys = append(m.keys, kv[i].(c10Val))
		m.kids = append(m.kids, kv[i+1].(*c10Lit))
	}
	return m
}
func c10LTM(kv ...interface{}) *c10Lit { // key string, value int64, ...
	m := &c10Lit{kind: 'M'}
	for i := 0; i+1 < len(kv); i += 2 {
		m.keys = append(m.keys, c10Str(kv[i].(string)))
		m.ints = append(m.ints, int64(kv[i+1].(int)))
	}
	return m
}

func (l *c10Lit) src() string {
	var parts []string
	switch l.kind {
	case 'v':
		return l.val.src
	case 'l':
		for _, k := range l.kids {
			parts = append(parts, k.src())
		}
		return "[" + strings.Join(parts, ", ") + "]"
	case 'm':
		for i, k := range l.kids {
			parts = append(parts, l.keys[i].src+": "+k.src())
		}
		return "{" + strings.Join(parts, ", ") + "}"
	case 't':
		for _, n := range l.ints {
			parts = append(parts, strconv.FormatInt(n, 10))
		}
		return "[]int64{" + strings.Join(parts, ", ") + "}"
	}
	for i, n := range l.ints {
		parts = append(parts, l.keys[i].src+": "+strconv.FormatInt(n, 10))
	}
	return "map[string]int64{" + strings.Join(parts, ", ") + "}"
}

// build is one evaluation of the literal in the Go model: fresh storage at every level.
func (l *c10Lit) build() interface{} {
	switch l.kind {
	case 'v':
		return l.val.v
	case 'l':
		s := make([]interface{}, len(l.kids))
		for i, k := range l.kids {
			s[i] = k.build()
		}
		return s
	case 'm':
		m := make(map[interface{}]interface{}, len(l.kids))
		for i, k := range l.kids {
			m[l.keys[i].v] = k.build()
		}
		return m
	case 't':
		s := make([]int64, len(l.ints))
		copy(s, l.ints)
		return s
	}
	m := make(map[string]int64, len(l.ints))
	for i, n := range l.ints {
		m[l.keys[i].v.(string)] = n
	}
	return m
}

// c10LitSel is one selector of a path into a literal's value.
type c10LitSel struct {
	idx   int
	key   c10Val
	isKey bool
}

func (s c10LitSel) src() string {
	if s.isKey {
		return "[" + s.key.src + "]"
	}
	return "[" + strconv.Itoa(s.idx) + "]"
}

// containers lists the paths of all container nodes of the tree (the root has the empty path).
func (l *c10Lit) containers(prefix []c10LitSel, out *[][]c10LitSel, nodes *[]*c10Lit) {
	if !l.isContainer() {
		return
	}
	*out = append(*out, append([]c10LitSel(nil), prefix...))
	*nodes = append(*nodes, l)
	for i, k := range l.kids {
		sel := c10LitSel{idx: i}
		if l.kind == 'm' {
			sel = c10LitSel{key: l.keys[i], isKey: true}
		}
		k.containers(append(append([]c10LitSel(nil), prefix...), sel), out, nodes)
	}
}

func c10LitNav(root reflect.Value, path []c10LitSel) reflect.Value {
	cur := c10Unwrap(root)
	for _, s := range path {
		if !cur.IsValid() {
			return cur
		}
		if s.isKey {
			cur = c10Unwrap(cur.MapIndex(c10KeyValue(s.key.v, cur.Type().Key())))
		} else {
			cur = c10Unwrap(cur.Index(s.idx))
		}
	}
	return cur
}

// c10LitStore is an in-place store below a literal's value: `x<path><sel> = v` or `x<path><sel> += 1`.
type c10LitStore struct {
	path []c10LitSel
	sel  c10LitSel
	v    c10Val
	inc  bool // `+= 1` on an int64 element that exists
}

func (st c10LitStore) src(x string) string {
	t := x
	for _, s := range st.path {
		t += s.src()
	}
	t += st.sel.src()
	if st.inc {
		return t + " += 1"
	}
	return t + " = " + st.v.src
}

// apply performs the store on a model value built from the literal.
func (st c10LitStore) apply(root reflect.Value) {
	cont := c10LitNav(root, st.path)
	val := func(old reflect.Value, et reflect.Type) reflect.Value {
		if st.inc {
			return reflect.ValueOf(c10Unwrap(old).Int() + 1)
		}
		if st.v.v == nil {
			return reflect.Zero(et)
		}
		return reflect.ValueOf(st.v.v)
	}
	if st.sel.isKey {
		k := c10KeyValue(st.sel.key.v, cont.Type().Key())
		cont.SetMapIndex(k, val(cont.MapIndex(k), cont.Type().Elem()))
		return
	}
	e := cont.Index(st.sel.idx)
	e.Set(val(e, cont.Type().Elem()))
}

// ---- operations ----

type c10Factory struct {
	name string
	lit  *c10Lit
}

// opDefFactory: `func c10mkK() { return LIT }` (three spellings): one literal node that
// every later call evaluates again.
func (h *c10Hist) opDefFactory(lit *c10Lit, form int) *c10Op {
	name := "c10mk" + strconv.Itoa(len(h.facts))
	var src string
	switch form % 3 {
	case 0:
		src = "func " + name + "() { return " + lit.src() + " }"
	case 1:
		src = "func " + name + "() {\n  c10v = " + lit.src() + "\n  return c10v\n}"
	default:
		src = name + " = func() { return " + lit.src() + " }"
	}
	return &c10Op{src: src, opk: "literal-function-def", ck: c10Class(reflect.ValueOf(lit.build())), pk: "var", mut: true,
		commit: func(reflect.Value) { h.facts = append(h.facts, c10Factory{name, lit}) }}
}

// opLitCall: `dst = c10mkK()`: dst is bound to a fresh value of the literal.
func (h *c10Hist) opLitCall(dst string, k int) *c10Op {
	if k >= len(h.facts) || dst == "" {
		return nil
	}
	f := h.facts[k]
	nv := reflect.ValueOf(f.lit.build())
	return &c10Op{src: dst + " = " + f.name + "()", opk: "literal-call", ck: c10Class(nv), pk: "var", mut: true,
		commit: func(reflect.Value) { h.bind(dst, nv) }}
}

// opLitLoop: a loop whose body evaluates the literal, stores into the value in place and
// keeps the value:
//
//	dst = make([]interface, n)
//	for c10i = 0; c10i < n; c10i++ { c10x = LIT; c10x<path> = v; dst[c10i] = c10x }
//
// In the Go model every pass works on a value of its own. viaFunc wraps the literal in a
// function literal defined before the loop and called in it.
func (h *c10Hist) opLitLoop(dst string, lit *c10Lit, n int, stores []c10LitStore, viaFunc bool) *c10Op {
	if dst == "" || !lit.isContainer() {
		return nil
	}
	var b strings.Builder
	expr := lit.src()
	if viaFunc {
		b.WriteString("c10f = func() { return " + expr + " }\n")
		expr = "c10f()"
	}
	fmt.Fprintf(&b, "%s = make([]interface, %d)\nfor c10i = 0; c10i < %d; c10i++ {\n  c10x = %s\n", dst, n, n, expr)
	for _, st := range stores {
		b.WriteString("  " + st.src("c10x") + "\n")
	}
	b.WriteString("  " + dst + "[c10i] = c10x\n}")
	res := make([]interface{}, n)
	for i := range res {
		v := reflect.ValueOf(lit.build())
		for _, st := range stores {
			st.apply(v)
		}
		res[i] = v.Interface()
	}
	return &c10Op{src: b.String(), opk: "literal-loop", ck: c10Class(reflect.ValueOf(lit.build())), pk: "var", mut: true,
		commit: func(reflect.Value) { h.bind(dst, reflect.ValueOf(res)) }}
}

// ---- generator ----

// litTree draws a literal; container=true forces a container node.
func (g *c10Gen) litTree(depth int, container bool) *c10Lit {
	r := g.rn(100)
	if !container && (depth <= 0 || r < 45) {
		return c10LV(g.scalar())
	}
	switch {
	case r < 50 || (depth > 0 && r < 62):
		n := 1 + g.rn(3)
		l := &c10Lit{kind: 'l'}
		for i := 0; i < n; i++ {
			l.kids = append(l.kids, g.litTree(depth-1, false))
		}
		return l
	case r < 82:
		n := 1 + g.rn(2)
		m := &c10Lit{kind: 'm'}
		for i := 0; i < n; i++ {
			m.keys = append(m.keys, c10Str("k"+strconv.Itoa(i+1)))
			m.kids = append(m.kids, g.litTree(depth-1, false))
		}
		return m
	case r < 92:
		return c10LT(int64(g.rn(9)), int64(g.rn(9)))
	}
	return c10LTM("k1", g.rn(9), "k2", g.rn(9))
}

// nestedLit draws a literal whose root is an untyped list (or map) with at least one
// container below it.
func (g *c10Gen) nestedLit(rootMap bool) *c10Lit {
	root := &c10Lit{kind: 'l'}
	n := 1 + g.rn(3)
	at := g.rn(n)
	for i := 0; i < n; i++ {
		kid := g.litTree(2, i == at)
		root.kids = append(root.kids, kid)
		if rootMap {
			root.keys = append(root.keys, c10Str("k"+strconv.Itoa(i+1)))
		}
	}
	if rootMap {
		root.kind = 'm'
	}
	return root
}

// litStore draws an in-place store below the literal's value (inner containers favoured).
func (g *c10Gen) litStore(lit *c10Lit) (c10LitStore, bool) {
	var paths [][]c10LitSel
	var nodes []*c10Lit
	lit.containers(nil, &paths, &nodes)
	for try := 0; try < 6; try++ {
		i := g.rn(len(nodes))
		if i == 0 && len(nodes) > 1 && g.rn(4) > 0 {
			continue
		}
		node, st := nodes[i], c10LitStore{path: paths[i]}
		switch node.kind {
		case 'l':
			if len(node.kids) == 0 {
				continue
			}
			st.sel, st.v = c10LitSel{idx: g.rn(len(node.kids))}, g.scalar()
			if k := node.kids[st.sel.idx]; k.kind == 'v' && k.val.tag == "int" && g.rn(2) == 0 {
				st.inc = true
			}
		case 'm':
			if g.rn(3) > 0 {
				j := g.rn(len(node.keys))
				st.sel, st.v = c10LitSel{key: node.keys[j], isKey: true}, g.scalar()
				if k := node.kids[j]; k.kind == 'v' && k.val.tag == "int" && g.rn(2) == 0 {
					st.inc = true
				}
			} else {
				st.sel, st.v = c10LitSel{key: c10Str("k9"), isKey: true}, g.scalar()
			}
		case 't':
			st.sel, st.v = c10LitSel{idx: g.rn(len(node.ints))}, c10Int(int64(10+g.rn(9)))
			st.inc = g.rn(3) == 0
		default:
			st.sel, st.v = c10LitSel{key: node.keys[g.rn(len(node.keys))], isKey: true}, c10Int(int64(10+g.rn(9)))
			st.inc = g.rn(3) == 0
		}
		return st, true
	}
	return c10LitStore{}, false
}

// c10LitClash: the new store addresses an element an earlier store of the pass replaced, or
// goes through one (the literal's shape no longer describes what is there).
func c10LitClash(earlier []c10LitStore, st c10LitStore) bool {
	target := func(s c10LitStore) string {
		t := ""
		for _, x := range append(append([]c10LitSel(nil), s.path...), s.sel) {
			t += x.src()
		}
		return t
	}
	b := target(st)
	for _, e := range earlier {
		if a := target(e); strings.HasPrefix(a, b) || strings.HasPrefix(b, a) {
			return true
		}
	}
	return false
}

// litOp draws an operation that evaluates a literal node once more: a call of one of the
// history's literal functions, or a loop over a literal of its own.
func (g *c10Gen) litOp() *c10Op {
	h := g.h
	if len(h.facts) > 0 && g.rn(100) < 70 {
		k := g.rn(len(h.facts))
		t := c10USliceT
		if h.facts[k].lit.kind == 'm' {
			t = c10UMapT
		}
		return h.opLitCall(g.pickName(t), k)
	}
	lit := g.nestedLit(g.rn(4) == 0)
	var stores []c10LitStore
	for i, n := 0, g.rn(3); i < n; i++ {
		if st, ok := g.litStore(lit); ok && !c10LitClash(stores, st) {
			stores = append(stores, st)
		}
	}
	return h.opLitLoop(g.pickName(c10USliceT), lit, 2+g.rn(3), stores, g.rn(4) == 0)
}
