package main

// C15, round 8 ("volume and history").
//
// Nothing in the statement depends on how long a text is, where in it a character sits, how many
// statements or lines it has, how often ParseSrc was called before, with which texts, or what became
// of the trees it handed out. The older phases parse hundreds of thousands of SMALL texts, each two or
// three times, in short-lived workers; the long texts of phase scan are pure ASCII runs and are judged
// by totality only. The phases of this file keep the oracles of c15.go (c15Judge: totality, error type
// and position; keys of two parses of one text agree; c15ComposeJudge: the concatenation law) and move
// the workload:
//
//	bigsrc   sources of 4093..4099, 8189..8195, 65533..65539 and ~200000 bytes made of small pieces
//	         that each parse alone, the pieces carrying 2-, 3- and 4-byte characters (and invalid
//	         UTF-8 / NUL) in string, char, raw-string literals, identifiers, line and block comments;
//	         a leading comment of 0..11 (thorough 0..23) bytes shifts everything so that every
//	         character alignment occurs at every 4096- and 65536-byte position. Oracle: the
//	         concatenation law applied along the chain of pieces (see c15Nary), every statement and
//	         every node position compared. Also: 255..65537 statements / lines, one token or one
//	         line of 255..200000 bytes, and a fault injected on and next to those lines and
//	         columns (position oracle).
//	history  one case = one process history: a reference set (with "twins": same length, same
//	         beginning and end, one character different) is parsed in the young process, then
//	         ~19000 pairwise distinct texts stream through - most of them as triples A, B,
//	         A+"\n"+B judged by the law - and a reference is asked again after exactly N-1, N, N+1
//	         distinct other texts for N in 256, 1000, 1024, 4096; the whole set again between the
//	         windows, in alternating order; garbage collections forced; texts of one length built,
//	         parsed and dropped with collections in between (address reuse); the trees handed out
//	         for the reference set are dumped again at the end (a tree is a value).
//	hot      ONE text parsed thousands of times, every result compared with the first; other texts
//	         of the opposite outcome, blank texts and texts beyond 4 KiB in between; fresh copies of
//	         the text around the evaluation counts 256, 1000, 1024, 4096.
//	racehist (-race build) the history regime under concurrency: 8 goroutines stream distinct
//	         triples and ask the reference set thousands of times in one process; then thousands
//	         of goroutines alive at once, each parsing a reference and a text of its own.
//
// No phase knows a table size, counter or threshold of the parser: sizes and distances are the generic
// list 255..257, 1000, 1023..1025, 4095..4097, 65535..65537, ~200000.

import (
	"fmt"
	"math/rand"
	"reflect"
	"runtime"
	"sort"
	"strconv"
	"strings"
	"sync"

	"github.com/mattn/anko/ast"

	"verifharness/internal/astx"
	"verifharness/internal/fw"
	"verifharness/internal/wk"
)

const c15R8Rule = " Round 8 (volume and history; the oracles of the older phases applied to every parse): " +
	"phase bigsrc: sources of exactly 4093..4099, 8189..8195, 65533..65539 (quick tier: 65535..65537) and 200000 bytes built from small pieces that each parse alone (1-3 statements or a comment; 2-, 3-, 4-byte characters and mixed runs of 1..40 characters inside \"..\", '..', raw strings with line breaks, identifiers, # // and /* */ comments; invalid UTF-8 - lone lead and continuation bytes, truncated 3- and 4-byte sequences, surrogates, overlong forms - and NUL inside literals and comments; generated programs), behind a leading comment of 0..11 bytes (quick tier: 0..5 for the 64 KB and 0..2 for the 200000-byte sources; thorough 0..23) so that every character is cut at every byte by every multiple of 4096 and 65536 (the cuts that occurred are counted per token class), and ending in an ASCII comment, a comment or a string literal whose last character is multi-byte; the law is applied along the chain: pieces p1..pn parse alone => p1\\n..\\npn parses to stmts(p1)++..++stmts(pn), every statement compared by dump and every node by position shifted by the lines before its piece; on a mismatch the shortest failing chain prefix is searched by bisection and reported as the instance A = p1\\n..\\npk-1, B = pk of the law. Sources of 255..257, 1023..1025, 4095..4097 and 65535..65537 statements (plain; every third piece a comment or blank line; multi-line pieces; quick tier: of the last group 65537 plain only) with the same oracle, and a fault (stray bracket, unterminated string, stray byte) in the first, middle, last and last-but-one line judged by the error-position oracle. One token of 255..257, 1023..1025, 4095..4097, 65535..65537 and 200000 bytes (identifier, string, raw string over several lines, float numeral up to 65537 digits, line and block comment, blank run, one line of that many tokens; ASCII and 2-4-byte characters) between small pieces, same oracles, and a fault at the end of the long line. " +
	"phase history: one case is one history in one process - a reference set of ~70 texts (edge texts, corpus scripts, texts with multi-byte identifiers and literals, error texts, sources of 5 KB and 70 KB, a 300-byte identifier, a 5000-byte literal; for half of them a twin of the same length, beginning and end that differs in one character) is parsed and judged in the young process; then pairwise distinct texts stream through (triples A, B, A+\"\\n\"+B judged by the law, the parts being generated programs, corpus scripts, multi-byte templates, texts of one fixed length and fixed first and last 40 bytes that differ only in the middle, twins of the reference texts, now and then a source beyond 4 KiB or 64 KiB followed by small ones; token soup, byte soup and mutated corpus scripts judged as error texts), and one reference is asked before and again after exactly N-1, N, N+1 distinct other texts for N in 256, 1000, 1024, 4096 (quick tier: two histories, one with 256, 1000, 1024, one with 4096; thorough: ten histories with all four and one of 8192, 16384, 65536 each); between the windows the whole set is asked in alternating order (reference before twin, twin before reference) and the trees handed out in the young process are dumped again; runtime.GC() every 1500 texts and between windows; 600 texts of one length built in fresh memory, parsed, dropped and collected (address reuse). " +
	"phase hot: one text (small valid, small failing, blank, 5 KB and 70 KB with multi-byte characters) parsed 5000 (5 KB: 1100, 70 KB: 260; thorough 70000 / 4200 / 1100) times, every result equal to the first; between the rounds texts of the opposite outcome, blank texts, distinct texts and a source beyond 4 KiB; fresh copies of the text and a collection at the rounds 255..257, 999..1001, 1023..1025, 4095..4097. " +
	"phase racehist (-race build): 8 goroutines each stream distinct triples (judged by the law after the batch) and parse the reference set of the sequential young process again and again, >= 6000 parses in one process (thorough 40000); then 2000 (thorough 10000) goroutines alive at once, each parsing one reference and one text of its own; every result equals the sequential one."

var c15R8Assumptions = []string{
	"the length of a text, the byte offset of a character, the number of statements or lines, the number of earlier ParseSrc calls and their texts are not inputs of the clauses: a long or late parse is judged exactly like a short first one",
	"the concatenation law is applied along a chain: if p1..pn each parse alone then, by n-1 applications of the clause, p1\\n..\\npn parses to the concatenation of their statement lists with pk's nodes shifted by the lines of p1..pk-1; a violation is reported as the first instance (A = p1\\n..\\npk-1, B = pk) at which A parses to the chain of its pieces and A+\"\\n\"+B does not",
	"a tree handed out by ParseSrc is a value: later calls do not change it (the trees of the reference set are dumped again later; 'no memory between calls')",
	"WHAT a long token's text is in the tree (its spelling, as opposed to its position and its sameness between calls and between a text alone and inside a longer one) is C03's and C05's subject, not C15's: a change that alters a long literal the same way in every parse is not reported here",
	"astx.Dump shows the first 200 bytes and the length of a string literal; where a tree holds a longer literal the round-8 phases and the concatenation law compare a hash of the whole literal too",
	"CPU budget for the sources beyond 256 KB (65537 statements, ~700 KB): the same 20 CPU-seconds per input",
}

func c15R8Phases(tier string) []fw.Phase {
	nHist, nHot, nRace := 2, len(c15R8HotKinds), 1
	if tier == "thorough" {
		nHist, nHot, nRace = 10, 3*len(c15R8HotKinds), 6
	}
	return []fw.Phase{
		{Name: "bigsrc", Cases: len(c15R8BigCases(tier)), Chunk: 1, TimeoutS: 1200, MemMB: 6144},
		{Name: "history", Cases: nHist, Chunk: 1, TimeoutS: 1800, MemMB: 6144},
		{Name: "hot", Cases: nHot, Chunk: 1, TimeoutS: 1200, MemMB: 6144},
		{Name: "racehist", Race: true, Cases: nRace, Chunk: 1, TimeoutS: 1800},
	}
}

func c15R8Run(c *wk.Case) bool {
	switch c.Phase {
	case "bigsrc":
		c15R8Big(c)
	case "history":
		c15R8History(c)
	case "hot":
		c15R8Hot(c)
	case "racehist":
		c15R8RaceHist(c)
	default:
		return false
	}
	return true
}

// ---------------------------------------------------------------------------
// shared: reporting, piece cache, the law along a chain

// c15R8 is the per-case state of a round-8 case.
type c15R8 struct {
	c     *wk.Case
	viols int                 // violations reported by this case (the case stops widening after a few)
	alone map[string]*c15Res  // pieces parsed alone
	cuts  map[string]int      // character cuts by 4096/65536 multiples that occurred
	sizes map[string]struct{} // sizes / distances reached (evidence)
}

func newC15R8(c *wk.Case) *c15R8 {
	return &c15R8{c: c, alone: map[string]*c15Res{}, cuts: map[string]int{}, sizes: map[string]struct{}{}}
}

const c15R8MaxViols = 3

func (h *c15R8) done() bool { return h.viols >= c15R8MaxViols }

func (h *c15R8) reached(format string, a ...interface{}) {
	h.sizes[fmt.Sprintf(format, a...)] = struct{}{}
}

func (h *c15R8) finish() {
	for k, n := range h.cuts {
		h.c.Tag("r8:cut:" + k)
		h.c.Count("r8_characters_cut_by_a_block_multiple", n)
	}
	for k := range h.sizes {
		h.c.Tag("reached:" + k)
	}
}

// parse parses one text under the monitor, judges it (totality, error type, position) and returns the result.
func (h *c15R8) parse(gen, src string) *c15Res {
	h.c.Begin(c15BeginInput(gen, src))
	r := c15Parse(src, c15CPUBudget, true)
	h.c.Events(1)
	if !c15Judge(h.c, gen, src, r) {
		h.viols++
	}
	return r
}

// pieceAlone parses a piece alone (once per case).
func (h *c15R8) pieceAlone(gen, p string) *c15Res {
	if r, ok := h.alone[p]; ok {
		return r
	}
	r := h.parse(gen, p)
	h.alone[p] = r
	return r
}

// c15R8Lines is the number of lines a piece occupies in a chain (its own line breaks plus the joining one).
func c15R8Lines(p string) int { return strings.Count(p, "\n") + 1 }

// chainMatches reports whether res (the parse of the pieces joined by "\n") is the chain of the pieces'
// own statement lists; when not, it says at which piece the first difference is and what it is.
func (h *c15R8) chainMatches(pieces []string, res *c15Res) (ok bool, piece int, what string) {
	if !res.ok {
		// the failing piece is unknown: the error line tells where the parser gave up
		if res.pe != nil {
			line, at := 0, len(pieces)-1
			for i, p := range pieces {
				line += c15R8Lines(p)
				if res.pe.Pos.Line <= line {
					at = i
					break
				}
			}
			return false, at, fmt.Sprintf("the chain does not parse: %q at %d:%d", res.pe.Message, res.pe.Pos.Line, res.pe.Pos.Column)
		}
		return false, len(pieces) - 1, "the chain does not parse"
	}
	got := astx.StmtList(res.tree)
	gi, shift := 0, 0
	for i, p := range pieces {
		ra := h.alone[p]
		for _, want := range astx.StmtList(ra.tree) {
			if gi >= len(got) {
				return false, i, fmt.Sprintf("the chain has %d statements, fewer than its pieces", len(got))
			}
			s := got[gi]
			if g, w := astx.Dump(s, astx.Opts{}), astx.Dump(want, astx.Opts{}); g != w {
				return false, i, fmt.Sprintf("statement %d (piece %d): got %s want %s", gi, i, c15ClipS(g, 300), c15ClipS(w, 300))
			} else if strings.Contains(g, "…(") && c15LongLits(s) != c15LongLits(want) {
				return false, i, fmt.Sprintf("statement %d (piece %d): a string literal of more than 200 bytes differs behind its first 200 bytes: %s", gi, i, c15ClipS(g, 300))
			}
			if typ, msg := c15PosDiff(s, want, shift); msg != "" {
				return false, i, fmt.Sprintf("statement %d (piece %d, shifted by %d lines), %s: %s", gi, i, shift, typ, msg)
			}
			gi++
		}
		shift += c15R8Lines(p)
	}
	if gi != len(got) {
		return false, len(pieces) - 1, fmt.Sprintf("the chain has %d statements, its pieces %d", len(got), gi)
	}
	return true, 0, ""
}

// c15Nary applies the concatenation law along the chain of pieces (every piece must parse alone; those
// that do not are judged as error texts and left out). It returns the text parsed and whether the law held.
func (h *c15R8) nary(gen, cls string, pieces []string) (string, bool) {
	c := h.c
	kept := pieces[:0:0]
	for _, p := range pieces {
		if r := h.pieceAlone(gen+":piece", p); r.ok {
			kept = append(kept, p)
		} else {
			c.Excluded("r8-piece-does-not-parse-alone")
		}
	}
	pieces = kept
	if len(pieces) == 0 {
		return "", true
	}
	whole := strings.Join(pieces, "\n")
	res := h.parse(gen, whole)
	nst := 0
	if res.ok {
		nst = len(astx.StmtList(res.tree))
	}
	c.Eval(whole, nst > 1)
	c.Tag("gen:" + gen)
	c.Count("r8_chain_pieces", len(pieces))
	if res.panicked || (!res.ok && res.pe == nil) {
		return whole, false // reported by c15Judge
	}
	ok, at, what := h.chainMatches(pieces, res)
	if ok {
		c.Count("r8_chain_statements_compared", nst)
		return whole, true
	}
	h.viols++
	// the shortest prefix of the chain that is not the chain of its pieces (bisection; the property of a
	// prefix is not monotone in general, so the result is verified and the first guess kept otherwise)
	lo, hi := 1, at+1 // prefix lengths: lo-1 pieces is fine (0 pieces: trivially), hi pieces fails (assumed)
	if hi > len(pieces) {
		hi = len(pieces)
	}
	fails := func(k int) (bool, *c15Res) {
		if k <= 1 {
			return false, h.alone[pieces[0]]
		}
		r := h.parse(gen+":prefix", strings.Join(pieces[:k], "\n"))
		okk, _, _ := h.chainMatches(pieces[:k], r)
		return !okk, r
	}
	if f, _ := fails(hi); !f {
		hi = len(pieces)
	}
	for lo < hi {
		mid := (lo + hi) / 2
		if f, _ := fails(mid); f {
			hi = mid
		} else {
			lo = mid + 1
		}
	}
	k := lo // pieces[:k] fails, pieces[:k-1] holds
	if k >= 2 {
		a := strings.Join(pieces[:k-1], "\n")
		fa, ra := fails(k - 1)
		if !fa && ra.ok {
			// the instance of the clause: A parses (to the chain of its pieces), B parses, A+"\n"+B is judged
			b := pieces[k-1]
			c.Tag("r8:chain-violation-reduced-to-a-pair")
			if _, held := c15ComposeCls(c, gen, cls, a, b, ra, h.alone[b]); !held {
				return whole, false
			}
		}
	}
	c.Violation("compose:chain:"+cls, fmt.Sprintf("pieces p1..p%d each parse alone but p1\\n..\\np%d is not the chain of their statement lists (first difference at piece %d: %s)", len(pieces), len(pieces), at, what),
		map[string]interface{}{"gen": gen, "pieces": len(pieces), "len": len(whole), "src": c15Clip(whole), "piece": c15Clip(pieces[at]),
			"phase": c.Phase, "case": c.Index, "replay": "the case is rebuilt from (VERIF_SEED, phase, case index)"})
	return whole, false
}

// noteCuts records which characters of src are cut by a multiple of 4096 / 65536 (evidence only).
func (h *c15R8) noteCuts(kind, src string) {
	for _, bs := range []int{4096, 65536} {
		for pos := bs; pos < len(src); pos += bs {
			b := src[pos]
			if b < 0x80 || b >= 0xC0 {
				continue
			}
			st := pos - 1
			for st > pos-4 && st > 0 && src[st] >= 0x80 && src[st] < 0xC0 {
				st--
			}
			w := 0
			switch lead := src[st]; {
			case lead >= 0xF0:
				w = 4
			case lead >= 0xE0:
				w = 3
			case lead >= 0xC0:
				w = 2
			}
			h.cuts[fmt.Sprintf("%s:%d-byte-character-after-byte-%d@%d", kind, w, pos-st, bs)]++
		}
	}
}

// ---------------------------------------------------------------------------
// characters and pieces

var (
	c15R8Letters = map[int][]rune{1: []rune("abcxyzQ_"), 2: []rune("éжßñ"), 3: []rune("日本語あ"), 4: {0x1D4B3, 0x20000, 0x1D4D0, 0x2A6A5}}
	c15R8Symbols = map[int][]rune{1: []rune("ab -+;#q"), 2: []rune("é©ж§"), 3: []rune("日€→語"), 4: []rune("😀🚀𝄞𠀀")}
	// invalid UTF-8 and NUL, as they may stand inside a literal or a comment
	c15R8Invalid = []string{"\xff", "\xc3", "\xe6\x97", "\xf0\x9f\x98", "\xf0\x9f", "\x80", "\xbf\xbf", "\x00", "\xed\xa0\x80", "\xc0\x80", "\xf4\x90\x80\x80", "\xfe", "\xe2\x82\xe2\x82\xac"}
)

// c15R8Run_ makes a run of n characters of byte width w (0: mixed widths).
func c15R8Chars(r *rand.Rand, w, n int, letters bool) string {
	tab := c15R8Symbols
	if letters {
		tab = c15R8Letters
	}
	var b strings.Builder
	for i := 0; i < n; i++ {
		ww := w
		if ww == 0 {
			ww = 1 + r.Intn(4)
		}
		l := tab[ww]
		b.WriteRune(l[r.Intn(len(l))])
	}
	return b.String()
}

// c15R8InvalidRun mixes valid multi-byte characters with invalid bytes.
func c15R8InvalidRun(r *rand.Rand, n int) string {
	var b strings.Builder
	for i := 0; i < n; i++ {
		if r.Intn(3) == 0 {
			b.WriteString(c15R8Chars(r, 0, 1, false))
		} else {
			b.WriteString(c15R8Invalid[r.Intn(len(c15R8Invalid))])
		}
	}
	return b.String()
}

var c15R8PieceKinds = []string{"string", "charquote", "rawstring", "ident", "comment-line", "comment-block", "mixed", "invalid"}

// c15R8Piece makes piece i of a kind: one to three statements or a comment, the multi-byte characters in
// the token class the kind names.
func c15R8Piece(r *rand.Rand, kind string, i int) string {
	name := "v" + strconv.Itoa(i)
	w := []int{3, 2, 4, 0, 3, 4}[i%6]
	run := c15R8Chars(r, w, 1+r.Intn(40), false)
	switch kind {
	case "string":
		return name + ` = "` + strings.NewReplacer(`"`, "", `\`, "").Replace(run) + `"`
	case "charquote":
		return name + ` = '` + run + `'`
	case "rawstring":
		if r.Intn(3) == 0 {
			return name + " = `" + run + "\n" + c15R8Chars(r, w, 1+r.Intn(20), false) + "`"
		}
		return name + " = `" + run + "`"
	case "ident":
		id := c15R8Chars(r, w, 1+r.Intn(30), true)
		if r.Intn(4) == 0 {
			return id + strconv.Itoa(i) + "." + c15R8Chars(r, w, 1+r.Intn(8), true) + " = " + id
		}
		return id + strconv.Itoa(i) + " = " + strconv.Itoa(i)
	case "comment-line":
		switch r.Intn(4) {
		case 0:
			return "# " + run
		case 1:
			return "// " + run
		case 2:
			return name + " = " + strconv.Itoa(i) + " // " + run
		}
		return name + " = " + strconv.Itoa(i) + " # " + run
	case "comment-block":
		switch r.Intn(3) {
		case 0:
			return "/* " + run + "\n" + c15R8Chars(r, w, 1+r.Intn(20), false) + " */"
		case 1:
			return name + " = /* " + run + " */ " + strconv.Itoa(i)
		}
		return name + " = " + strconv.Itoa(i) + " /* " + run + "\n" + run + " */"
	case "invalid":
		bad := c15R8InvalidRun(r, 1+r.Intn(12))
		switch r.Intn(5) {
		case 0:
			return name + ` = "` + bad + `"`
		case 1:
			return name + " = `" + bad + "\n" + bad + "`"
		case 2:
			return name + " = 1 # " + bad
		case 3:
			return "/* " + bad + " */ " + name + " = '" + bad + "'"
		}
		return "// " + bad
	}
	// mixed
	switch r.Intn(9) {
	case 0:
		return name + " = func(a) {\n\treturn a + \"" + run + "\" // " + run + "\n}"
	case 1:
		return "if " + name + " == `" + run + "` {\n\t" + c15R8Chars(r, w, 3, true) + " = [1, \"" + run + "\",\n\t\t2]\n} else {\n}"
	case 2:
		return name + " = 1; " + c15R8Chars(r, w, 2, true) + " = '" + run + "'; f(" + name + ")"
	case 3:
		return ""
	case 4:
		return name + " = {\"" + run + "\": " + strconv.Itoa(i) + ",\n\"k\": `" + run + "`}"
	default:
		return c15R8Piece(r, c15R8PieceKinds[r.Intn(6)], i)
	}
}

// c15R8Tail makes the last piece of a source, exactly n >= 1 bytes long: an ASCII comment, a comment or
// a string literal whose last character is multi-byte.
func c15R8Tail(form, n int) string {
	mb := []string{"é", "日", "😀"}[form%3]
	switch {
	case form%3 == 1 && n >= 1+len(mb):
		return "#" + strings.Repeat("-", n-1-len(mb)) + mb
	case form%3 == 2 && n >= 7+len(mb):
		return `z = "` + strings.Repeat("-", n-6-len(mb)) + mb + `"`
	}
	return "#" + strings.Repeat("-", n-1)
}

// c15R8Fit puts a leading comment of pad bytes and as many of the pieces as fit in front of a tail so that
// the joined text has exactly total bytes.
func c15R8Fit(pieces []string, total, pad, tailForm int) []string {
	var out []string
	n := 0 // length of out joined
	add := func(p string) {
		if len(out) > 0 {
			n++
		}
		n += len(p)
		out = append(out, p)
	}
	if pad > 0 {
		add("#" + strings.Repeat("-", pad-1))
	}
	for _, p := range pieces {
		if n+1+len(p)+1+1 > total {
			break
		}
		add(p)
	}
	if rest := total - n - 1; rest >= 1 && len(out) > 0 {
		add(c15R8Tail(tailForm, rest))
	}
	return out
}

// ---------------------------------------------------------------------------
// phase bigsrc

type c15R8BigCase struct {
	kind string // a piece kind, "manystmts" or "longtoken"
	grp  int    // size group
}

var c15R8Sizes = [][]int{{255, 256, 257}, {1023, 1024, 1025}, {4095, 4096, 4097}, {65535, 65536, 65537}, {200000}}

func c15R8BigCases(tier string) []c15R8BigCase {
	var out []c15R8BigCase
	for _, k := range c15R8PieceKinds {
		for g := 0; g < 3; g++ { // byte totals: around 4096 and 8192, around 65536, 200000
			out = append(out, c15R8BigCase{k, g})
		}
	}
	for g := 0; g < 4; g++ { // statement / line counts: the first four size groups
		out = append(out, c15R8BigCase{"manystmts", g})
	}
	for g := 0; g < 5; g++ { // token / line lengths: all size groups
		out = append(out, c15R8BigCase{"longtoken", g})
	}
	if tier == "thorough" {
		// PRNG-varied repetitions of the piece kinds (other pieces, other cuts)
		for rep := 0; rep < 2; rep++ {
			for _, k := range c15R8PieceKinds {
				for g := 0; g < 3; g++ {
					out = append(out, c15R8BigCase{k, g})
				}
			}
		}
	}
	return out
}

func c15R8Big(c *wk.Case) {
	cases := c15R8BigCases(c.Tier)
	if c.Index >= len(cases) {
		return
	}
	bc := cases[c.Index]
	h := newC15R8(c)
	defer h.finish()
	switch bc.kind {
	case "manystmts":
		h.manyStmts(c15R8Sizes[bc.grp])
	case "longtoken":
		h.longToken(c15R8Sizes[bc.grp])
	default:
		h.bigPieces(bc.kind, bc.grp)
	}
}

func (h *c15R8) bigPieces(kind string, grp int) {
	c := h.c
	thorough := c.Tier == "thorough"
	var totals []int
	pads := 12
	if thorough {
		pads = 24
	}
	switch grp {
	case 0:
		totals = []int{4093, 4094, 4095, 4096, 4097, 4098, 4099, 8189, 8190, 8191, 8192, 8193, 8194, 8195}
	case 1:
		totals = []int{65535, 65536, 65537}
		if thorough {
			totals = []int{65533, 65534, 65535, 65536, 65537, 65538, 65539}
		} else {
			pads = 6
		}
	default:
		totals = []int{200000}
		if !thorough {
			pads = 3
		}
	}
	max := totals[len(totals)-1]
	var pieces []string
	for n, i := 0, 0; n < max; i++ {
		p := c15R8Piece(c.Rng, kind, i)
		pieces = append(pieces, p)
		n += len(p) + 1
	}
	gen, cls := "r8:bigsrc:"+kind, "r8:"+kind
	for ti, total := range totals {
		for pad := 0; pad < pads; pad++ {
			if h.done() {
				return
			}
			chain := c15R8Fit(pieces, total, pad, ti+pad)
			src, _ := h.nary(gen, cls, chain)
			h.noteCuts(kind, src)
			c.Count("r8_big_sources", 1)
			if len(src) == total {
				h.reached("source_bytes=%d", total)
			}
		}
	}
	// the error-position oracle on the same sources: a fault in the last piece before the tail
	for pad := 0; pad < 3 && !h.done(); pad++ {
		chain := c15R8Fit(pieces, max, pad, pad)
		if len(chain) < 3 {
			continue
		}
		for _, fault := range c15R8Faults {
			bad := append(append([]string{}, chain[:len(chain)-2]...), fault, chain[len(chain)-1])
			src := strings.Join(bad, "\n")
			r := h.parse(gen+":fault", src)
			c.Eval(src, true)
			if r.ok {
				c.Tag("r8:fault-text-parses")
			} else {
				c.Count("r8_fault_positions_judged", 1)
			}
		}
	}
}

var c15R8Faults = []string{")", `q = "open é日😀`, "$", "x = = 1", "q = 1a", "`open 日本"}

// manyStmts: sources of n statements / lines for n in ns.
func (h *c15R8) manyStmts(ns []int) {
	c := h.c
	gen, cls := "r8:bigsrc:manystmts", "r8:manystmts"
	for _, n := range ns {
		for variant := 0; variant < 3; variant++ {
			if h.done() {
				return
			}
			if n > 5000 && c.Tier != "thorough" && (variant != 0 || n != ns[len(ns)-1]) {
				continue // quick tier: the largest count, plain; the neighbours and the variants in the thorough tier
			}
			pieces := make([]string, 0, n)
			stmts := 0
			for i := 0; stmts < n; i++ {
				var p string
				switch {
				case variant == 1 && i%3 == 1:
					p = []string{"", "# c", "// é日", "/* c */"}[i/3%4]
				case variant == 2 && i%5 == 2:
					p = "s" + strconv.Itoa(i) + " = `a\nb" + strconv.Itoa(i) + "`"
					stmts++
				case i%7 == 3:
					p = "é" + strconv.Itoa(i) + " = \"日" + strconv.Itoa(i) + "\""
					stmts++
				case i%11 == 5:
					p = "f(" + strconv.Itoa(i) + ")"
					stmts++
				default:
					p = "a" + strconv.Itoa(i) + " = " + strconv.Itoa(i)
					stmts++
				}
				pieces = append(pieces, p)
			}
			src, _ := h.nary(gen, cls, pieces)
			h.reached("statements=%d", n)
			if strings.Count(src, "\n")+1 >= n {
				h.reached("lines>=%d", n)
			}
			c.Count("r8_big_sources", 1)
			if variant != 0 {
				continue
			}
			// a fault in the first, the middle, the last-but-one and the last line
			for fi, at := range []int{0, n / 2, n - 2, n - 1} {
				if n > 5000 && c.Tier != "thorough" && fi < 2 {
					continue
				}
				fault := c15R8Faults[(fi+n)%len(c15R8Faults)]
				bad := append([]string{}, pieces...)
				bad[at] = fault
				s := strings.Join(bad, "\n")
				r := h.parse(gen+":fault", s)
				c.Eval(s, true)
				if !r.ok {
					c.Count("r8_fault_positions_judged", 1)
					h.reached("fault_line=%d", at+1)
				}
			}
		}
	}
}

// longToken: one token (or one line) of n bytes between small pieces.
func (h *c15R8) longToken(ns []int) {
	c := h.c
	gen, cls := "r8:bigsrc:longtoken", "r8:longtoken"
	r := c.Rng
	fill := func(w, n int, letters bool) string { // a run of exactly n bytes (n >= 4)
		var b strings.Builder
		for b.Len() < n {
			rest := n - b.Len()
			ww := w
			if ww == 0 {
				ww = 1 + r.Intn(4)
			}
			if ww > rest {
				ww = rest
			}
			if letters {
				b.WriteRune(c15R8Letters[ww][r.Intn(4)])
			} else {
				b.WriteRune(c15R8Symbols[ww][r.Intn(4)])
			}
		}
		return b.String()
	}
	for _, n := range ns {
		for w := 0; w <= 4; w++ { // 0: mixed widths; 1: ASCII
			var longs []string
			body := fill(w, n, false)
			body = strings.NewReplacer(`"`, "-", `\`, "-", "'", "-", "`", "-", "#", "-", ";", "-").Replace(body)
			longs = append(longs,
				fill(w, n, true)+" = 1",
				`x = "`+body+`"`,
				"x = `"+body[:n/2]+"\n"+body[n/2:]+"`",
				"x = 1 # "+body,
				"/* "+body[:n/3]+"\n"+body[n/3:]+" */ x = 2",
				"x = '"+body+"' + y",
			)
			if w == 1 {
				longs = append(longs, "x = 1"+strings.Repeat(" ", n)+"+ 2", "x = [1"+strings.Repeat(", 1", n/3)+"]", "x = 1"+strings.Repeat(" + y", n/4))
				if n <= 65537 {
					longs = append(longs, "x = 1."+strings.Repeat("0", n), "x = 0."+strings.Repeat("0", n-1)+"1")
				}
			}
			for li, long := range longs {
				if h.done() {
					return
				}
				if n > 70000 && c.Tier != "thorough" && (w == 2 || w == 4) {
					continue
				}
				pieces := []string{"a = 1", c15R8Piece(r, "mixed", li), long, "é = \"日本語\"", c15R8Piece(r, "string", li+1), "b = `😀`", "z"}
				h.nary(gen, cls, pieces)
				c.Count("r8_big_sources", 1)
				h.reached("token_or_line_bytes=%d", n)
				// a fault behind the long token on its own (last) line, and on the line after it
				for fi, f := range []string{" )", "\n$", " \"open"} {
					if fi > 0 && n > 5000 && c.Tier != "thorough" {
						break
					}
					s := "a = 1\n" + long + f
					res := h.parse(gen+":fault", s)
					c.Eval(s, true)
					if !res.ok {
						c.Count("r8_fault_positions_judged", 1)
					}
				}
			}
		}
	}
}

// ---------------------------------------------------------------------------
// phase history

type c15R8Ref struct {
	gen, src string
	key      string // c15R8Key of the result in the young process
	tree     ast.Stmt
	dump     string // key of the dump of tree taken in the young process
	twin     int    // index of the twin in the set, -1 when none
	ok       bool
}

// c15LongLits is the part of a tree's identity that astx.Dump leaves out: the dump shows the first 200
// bytes and the length of a literal; this lists a hash of every longer string literal in full.
func c15LongLits(root interface{}) string {
	var b strings.Builder
	for _, n := range astx.Nodes(root) {
		if le, ok := n.Node.(*ast.LiteralExpr); ok && le.Literal.IsValid() && le.Literal.Kind() == reflect.String {
			if s := le.Literal.String(); len(s) > 200 {
				b.WriteString(strconv.FormatUint(fw.Hash64(s), 16) + "/" + strconv.Itoa(len(s)) + " ")
			}
		}
	}
	return b.String()
}

// c15R8ResKey is what must be the same between two parses of one text: the key of c15.go (shortened) and
// the long literals in full.
func c15R8ResKey(r *c15Res) string {
	k := c15R8Key(r.key())
	if r.ok && strings.Contains(r.dump, "…(") {
		k += " long-literals:" + c15LongLits(r.tree)
	}
	return k
}

// c15R8TreeKey is the same for a tree handed out earlier, dumped now.
func c15R8TreeKey(t ast.Stmt) string {
	d := astx.Dump(t, astx.Opts{Pos: true})
	k := c15R8Key("ok:" + d)
	if strings.Contains(d, "…(") {
		k += " long-literals:" + c15LongLits(t)
	}
	return k
}

// c15R8Key shortens a result key: long keys are replaced by their beginning and a hash.
func c15R8Key(k string) string {
	if len(k) <= 1024 {
		return k
	}
	return k[:256] + "…#" + strconv.FormatUint(fw.Hash64(k), 16) + "/" + strconv.Itoa(len(k))
}

// c15R8TwinOf changes one character in the middle of a text (a letter or digit, replaced by another
// one): same length, same beginning, same end.
func c15R8TwinOf(s string) (string, bool) {
	mid := len(s) / 2
	for d := 0; d < len(s)/2; d++ {
		for _, i := range []int{mid + d, mid - d} {
			if i < 0 || i >= len(s) {
				continue
			}
			ch := s[i]
			prevOK := i == 0 || s[i-1] < 0x80
			switch {
			case !prevOK:
			case ch >= 'a' && ch <= 'y', ch >= 'A' && ch <= 'Y', ch >= '0' && ch <= '8':
				// keep keywords intact: only inside identifiers that carry a digit or '_' next to it, literals, numbers
				if i+1 < len(s) && (s[i+1] >= '0' && s[i+1] <= '9' || s[i+1] == '_') || ch <= '9' {
					return s[:i] + string(ch+1) + s[i+1:], true
				}
			}
		}
	}
	return "", false
}

// c15R8BigText builds a source of about n bytes from mixed pieces (multi-byte characters throughout).
func c15R8BigText(r *rand.Rand, n, salt int) string {
	var b strings.Builder
	for i := 0; b.Len() < n; i++ {
		if i > 0 {
			b.WriteByte('\n')
		}
		b.WriteString(c15R8Piece(r, c15R8PieceKinds[i%7], salt*100000+i))
	}
	return b.String()
}

func (h *c15R8) refSet() []*c15R8Ref {
	c := h.c
	r := c.Rng
	var refs []*c15R8Ref
	add := func(gen, src string, withTwin bool) {
		refs = append(refs, &c15R8Ref{gen: gen, src: src, twin: -1})
		if withTwin {
			if t, ok := c15R8TwinOf(src); ok {
				i := len(refs) - 1
				refs = append(refs, &c15R8Ref{gen: gen + ":twin", src: t, twin: i})
				refs[i].twin = i + 1
			}
		}
	}
	for _, s := range []string{"a", "a;\n", "x = `r\nw`", "if a {\n} else if b {\n} else {\n}", "a = func() {\n return 1\n}", "switch a {\ncase 1:\n b\n}", "# c", "", "\n\n", "é = 1", "a = <- c", "{\n\"a\": 1,\n}"} {
		add("ref:edge", s, false)
	}
	if v := c15ValidCorpus(); len(v) > 0 {
		for i := 0; i < 8; i++ {
			add("ref:corpus", v[r.Intn(len(v))], i%2 == 0)
		}
	}
	for i := 0; i < 8; i++ {
		add("ref:multibyte", "名前_"+strconv.Itoa(i)+"_"+c15R8Chars(r, 0, 12, true)+"_1 = \"値 "+c15R8Chars(r, 0, 20, false)+" 12345678 "+c15R8Chars(r, 3, 8, false)+"\"\nf(名前_"+strconv.Itoa(i)+"_x)", true)
	}
	for _, s := range []string{c15DisturbErr, "a1 = 1\nb2 = (2\n", "x_1 = \"open 日本", "k1 = 1\n$", "v1 = 1 1", "/* open\n c1", "q1 = `open", "a_1 = 1e1e1", "f(1,\n  2\n", "x1 = 1\ny1 = [\nz1 = }"} {
		add("ref:error", s, true)
	}
	add("ref:5KB", c15R8BigText(r, 5000, 1), true)
	add("ref:5KB", c15R8BigText(r, 5000, 2), true)
	add("ref:70KB", c15R8BigText(r, 70000, 3), true)
	add("ref:long-identifier", "x = "+strings.Repeat("idé", 50)+"_1_"+strings.Repeat("日z", 40), true)
	add("ref:long-literal", "x = \""+strings.Repeat("0123456789日本語😀 ", 220)+"\"\ny = 1", true)
	return refs
}

type c15R8Hist struct {
	*c15R8
	refs     []*c15R8Ref
	seen     map[uint64]struct{}
	distinct int // pairwise distinct stream texts parsed so far
	uniq     int
	sinceGC  int
	fixedA   string // frame of the same-length family
	corpus   []string
}

// ask parses a member of the reference set again and compares with the young result.
func (t *c15R8Hist) ask(i int, why string) {
	ref := t.refs[i]
	c := t.c
	r := t.parse(ref.gen, ref.src)
	c.Count("r8_reference_reasks", 1)
	if k := c15R8ResKey(r); k != ref.key {
		t.viols++
		young := &c15Res{ok: ref.ok}
		c.Violation("nondet:history:"+c15DiffClass(young, r), fmt.Sprintf("a text parsed in the young process and again %s gives another result: %s  vs  %s", why, c15ClipS(ref.key, 300), c15ClipS(k, 300)),
			map[string]interface{}{"gen": ref.gen, "len": len(ref.src), "src": c15Clip(ref.src), "after_distinct_texts": t.distinct, "phase": c.Phase, "case": c.Index})
	}
}

// treesUnchanged dumps the trees handed out in the young process again.
func (t *c15R8Hist) treesUnchanged() {
	for _, ref := range t.refs {
		if !ref.ok {
			continue
		}
		t.c.Events(1)
		if d := c15R8TreeKey(ref.tree); d != ref.dump {
			t.viols++
			t.c.Violation("nondet:tree-changed-later", "the tree ParseSrc returned in the young process has changed after later calls: "+c15ClipS(ref.dump, 300)+"  vs  "+c15ClipS(d, 300),
				map[string]interface{}{"gen": ref.gen, "len": len(ref.src), "src": c15Clip(ref.src), "after_distinct_texts": t.distinct})
			ref.dump = d
		}
	}
}

func (t *c15R8Hist) block(reverse bool, why string) {
	n := len(t.refs)
	for k := 0; k < n && !t.done(); k++ {
		i := k
		if reverse {
			i = n - 1 - k
		}
		t.ask(i, why)
	}
	t.treesUnchanged()
}

// fresh counts a stream text (true when it was not parsed before in this history).
func (t *c15R8Hist) fresh(s string) bool {
	hh := fw.Hash64(s)
	if _, ok := t.seen[hh]; ok {
		t.c.Tag("r8:stream-text-repeated")
		return false
	}
	t.seen[hh] = struct{}{}
	t.distinct++
	t.sinceGC++
	if t.sinceGC >= 1500 {
		t.sinceGC = 0
		runtime.GC()
		t.c.Count("r8_forced_collections", 1)
	}
	return true
}

// validPart draws a text for one side of a triple; it carries a unique name, so it is new.
func (t *c15R8Hist) validPart() (string, string) {
	c, r := t.c, t.c.Rng
	t.uniq++
	u := strconv.Itoa(t.uniq)
	switch k := r.Intn(40); {
	case k < 10:
		return c15Program(c) + "\nu" + u + " = " + u, "program"
	case k < 16 && len(t.corpus) > 0:
		return "u" + u + " = `" + u + "`\n" + t.corpus[r.Intn(len(t.corpus))], "corpus"
	case k < 24:
		return "名" + u + " = \"" + c15R8Chars(r, 0, 1+r.Intn(30), false) + "\" // " + c15R8Chars(r, 0, r.Intn(10), false), "multibyte"
	case k < 30:
		// one length, one beginning, one end: only the 8 digits in the middle differ
		return t.fixedA + fmt.Sprintf("m = \"%08d\"", t.uniq) + "\n" + t.fixedA, "same-length-family"
	case k < 34:
		// a twin of a reference text (already distinct from it), made unique by a trailing statement
		ref := t.refs[r.Intn(len(t.refs))]
		if tw, ok := c15R8TwinOf(ref.src); ok && ref.ok {
			return tw + "\nu" + u, "reference-twin"
		}
		return "u" + u + "[" + u + "] = nil", "program"
	case k < 35:
		n := []int{4100, 5000, 9000, 66000}[r.Intn(4)]
		if n > 60000 && r.Intn(4) != 0 {
			n = 4200
		}
		return "u" + u + " = 0\n" + c15R8BigText(r, n, t.uniq%1000), "beyond-4KiB"
	case k < 37:
		return c15Pick(c, c15EdgeTexts) + "\nu" + u + "++", "edge"
	default:
		return c15R8Piece(r, c15R8PieceKinds[r.Intn(len(c15R8PieceKinds))], t.uniq), "piece"
	}
}

// single parses one new text that is (mostly) not a program.
func (t *c15R8Hist) single() {
	c, r := t.c, t.c.Rng
	t.uniq++
	head := "u" + strconv.Itoa(t.uniq) + " = 1\n"
	var s, gen string
	switch k := r.Intn(10); {
	case k < 3:
		s, gen = head+c15TokenSoup(c), "token-soup"
	case k < 5:
		s, gen = head+c15ByteSoup(c), "byte-soup"
	case k < 8 && len(t.corpus) > 0:
		m, _ := c15Mutate(c, t.corpus)
		s, gen = head+m, "mutant"
	default:
		s, gen = head+c15Pick(c, c15R8Faults), "fault"
	}
	t.fresh(s)
	t.parse("r8:stream:"+gen, s)
	c.Eval(s, true)
	c.Tag("gen:r8:stream:" + gen)
}

// triple parses A, B and A+"\n"+B (at most `room` new texts) and applies the law.
func (t *c15R8Hist) triple(room int) {
	c := t.c
	a, ga := t.validPart()
	t.fresh(a)
	ra := t.parse("r8:stream:"+ga, a)
	c.Eval(a, true)
	if room < 2 {
		return
	}
	b, gb := t.validPart()
	t.fresh(b)
	rb := t.parse("r8:stream:"+gb, b)
	c.Eval(b, true)
	if room < 3 || !ra.ok || !rb.ok {
		return
	}
	t.fresh(a + "\n" + b)
	c.Tag("r8:stream-part:"+ga, "r8:stream-part:"+gb)
	if _, held := c15ComposeCls(c, "r8:stream-pair", "r8:stream", a, b, ra, rb); !held {
		t.viols++
	}
	c.Count("r8_stream_triples", 1)
}

// stream lets exactly n pairwise distinct new texts through.
func (t *c15R8Hist) stream(n int) {
	target := t.distinct + n
	for t.distinct < target && !t.done() {
		room := target - t.distinct
		if room >= 3 && t.c.Rng.Intn(8) != 0 {
			t.triple(room)
		} else {
			t.single()
		}
	}
}

// c15R8Distances: the distances N of a history case. Quick tier: the cases of the phase share the list
// (even cases 256, 1000, 1024; odd cases 4096); thorough tier: the whole list plus one of 8192, 16384, 65536.
func c15R8Distances(tier string, index int) []int {
	if tier == "thorough" {
		return []int{256, 1000, 1024, 4096, []int{8192, 16384, 65536}[index%3]}
	}
	if index%2 == 1 {
		return []int{4096}
	}
	return []int{256, 1000, 1024}
}

func c15R8History(c *wk.Case) {
	t := &c15R8Hist{c15R8: newC15R8(c), seen: map[uint64]struct{}{}, corpus: c15ValidCorpus()}
	defer t.finish()
	t.fixedA = "frame_begin_" + c15R8Chars(c.Rng, 0, 10, true) + " = \"" + c15R8Chars(c.Rng, 0, 30, false) + "\"\n"
	// the young process: the reference set first
	t.refs = t.refSet()
	for _, ref := range t.refs {
		r := t.parse(ref.gen, ref.src)
		c.Eval(ref.src, strings.TrimSpace(ref.src) != "")
		ref.key, ref.ok = c15R8ResKey(r), r.ok
		if r.ok {
			ref.tree, ref.dump = r.tree, c15R8TreeKey(r.tree)
		}
	}
	c.Count("r8_reference_texts", len(t.refs))
	// a member and its twin must differ (or the twin generator is vacuous); evidence only
	for _, ref := range t.refs {
		if ref.twin >= 0 && ref.key != t.refs[ref.twin].key {
			c.Tag("r8:twin-with-another-result")
		}
	}
	t.block(false, "right after the reference set")
	// exact distances
	dists := c15R8Distances(c.Tier, c.Index)
	turn := c.Index
	for _, n := range dists {
		for _, d := range []int{n - 1, n, n + 1} {
			if t.done() {
				return
			}
			i := turn % len(t.refs)
			turn += 7
			t.ask(i, "to start a distance window")
			before := t.distinct
			t.stream(d)
			if t.done() {
				return
			}
			if t.distinct-before == d {
				t.reached("reask_distance=%d", d)
			}
			t.ask(i, fmt.Sprintf("after exactly %d distinct other texts", d))
			runtime.GC()
			t.block(turn%2 == 1, fmt.Sprintf("after %d distinct other texts of the history", t.distinct))
		}
	}
	// garbage: texts of one length built in fresh memory, parsed, dropped, collected
	for k := 0; k < 600 && !t.done(); k++ {
		var b strings.Builder
		t.uniq++
		fmt.Fprintf(&b, "g = \"%010d\"\nh = [g, `%010d`]", t.uniq, t.uniq*7)
		a := b.String()
		var b2 strings.Builder
		fmt.Fprintf(&b2, "j%010d(g)", t.uniq)
		bb := b2.String()
		t.fresh(a)
		ra := t.parse("r8:garbage", a)
		t.fresh(bb)
		rb := t.parse("r8:garbage", bb)
		if ra.ok && rb.ok {
			t.fresh(a + "\n" + bb)
			if _, held := c15ComposeCls(c, "r8:garbage", "r8:garbage", a, bb, ra, rb); !held {
				t.viols++
			}
		}
		if k%8 == 7 {
			runtime.GC()
		}
	}
	c.Count("r8_garbage_rounds", 600)
	t.block(true, "at the end of the history")
	c.Count("r8_history_distinct_texts_in_one_process", t.distinct)
	t.reached("distinct_texts_in_one_process>=%d", t.distinct/1000*1000)
}

// ---------------------------------------------------------------------------
// phase hot

var c15R8HotKinds = []string{"valid", "failing", "blank", "5KB", "70KB"}

func c15R8Hot(c *wk.Case) {
	h := newC15R8(c)
	defer h.finish()
	kind := c15R8HotKinds[c.Index%len(c15R8HotKinds)]
	r := c.Rng
	rounds := 5000
	if c.Tier == "thorough" {
		rounds = 70000
	}
	var text string
	switch kind {
	case "valid":
		text = "f = func(a, b...) {\n\treturn a + \"" + c15R8Chars(r, 0, 12, false) + "\" // c\n}\n" + c15R8Chars(r, 3, 4, true) + " = f(1)[2:3]\n" + c15Program(c)
		if rr := h.parse("r8:hot:probe", text); !rr.ok {
			text = "f = func(a, b...) {\n\treturn a + \"" + c15R8Chars(r, 0, 12, false) + "\" // c\n}\nx = f(1)[2:3]"
		}
	case "failing":
		text = "a = 1\nb = \"" + c15R8Chars(r, 0, 8, false) + "\"\nc = [b,\n\"open " + c15R8Chars(r, 3, 3, false)
	case "blank":
		text = "\n# " + c15R8Chars(r, 0, 6, false) + "\n\n/* c\n */\n"
	case "5KB":
		text = c15R8BigText(r, 5000, 7)
		rounds = map[bool]int{false: 1100, true: 4200}[c.Tier == "thorough"]
	case "70KB":
		text = c15R8BigText(r, 70000, 8)
		rounds = map[bool]int{false: 260, true: 1100}[c.Tier == "thorough"]
	}
	marks := map[int]bool{}
	for _, m := range []int{256, 1000, 1024, 4096} {
		marks[m-1], marks[m], marks[m+1] = true, true, true
	}
	others := []string{c15DisturbErr, c15DisturbOK, "", "\n", "$", "x = `open"}
	first := h.parse("r8:hot:"+kind, text)
	c.Eval(text, true)
	k0 := c15R8ResKey(first)
	big := ""
	for i := 1; i <= rounds && !h.done(); i++ {
		cur := text
		if marks[i] {
			cur = strings.Clone(text) // the same text in other memory
			runtime.GC()
		}
		res := h.parse("r8:hot:"+kind, cur)
		c.Count("r8_hot_evaluations", 1)
		if k := c15R8ResKey(res); k != k0 {
			h.viols++
			c.Violation("nondet:hot:"+c15DiffClass(first, res), fmt.Sprintf("parse %d of one text differs from the first: %s  vs  %s", i+1, c15ClipS(k0, 300), c15ClipS(k, 300)),
				map[string]interface{}{"gen": "r8:hot:" + kind, "len": len(text), "src": c15Clip(text), "evaluation": i + 1, "phase": c.Phase, "case": c.Index})
		}
		// between the rounds: the opposite outcome, blank, distinct, large
		switch {
		case i%3 == 1:
			h.parse("r8:hot:other", others[i/3%len(others)])
		case i%3 == 2:
			h.parse("r8:hot:other", "n"+strconv.Itoa(i)+" = "+strconv.Itoa(i)+"; \"é"+strconv.Itoa(i)+"\"")
		case i%500 == 0:
			if big == "" {
				big = c15R8BigText(r, 4200, 9)
			}
			h.parse("r8:hot:other", big)
		}
	}
	h.reached("evaluations_of_one_text=%d", rounds)
	// the first tree is a value
	if first.ok {
		if d := astx.Dump(first.tree, astx.Opts{Pos: true}); d != first.dump || (strings.Contains(d, "…(") && !strings.HasSuffix(k0, c15LongLits(first.tree))) {
			c.Violation("nondet:tree-changed-later", "the tree of the first parse has changed after later calls", map[string]interface{}{"gen": "r8:hot:" + kind, "len": len(text), "src": c15Clip(text)})
		}
	}
}

// ---------------------------------------------------------------------------
// phase racehist (-race build)

type c15R8Trip struct {
	a, b       string
	ra, rb, ab *c15Res
}

func c15R8RaceHist(c *wk.Case) {
	h := newC15R8(c)
	defer h.finish()
	t := &c15R8Hist{c15R8: h, seen: map[uint64]struct{}{}, corpus: c15ValidCorpus()}
	t.fixedA = "frame_begin = \"" + c15R8Chars(c.Rng, 0, 30, false) + "\"\n"
	t.refs = t.refSet()
	var refs []*c15R8Ref
	for _, ref := range t.refs {
		if len(ref.src) > 6000 { // the 70 KB source costs too much under the race detector
			continue
		}
		c.Begin(c15BeginInput(ref.gen, ref.src))
		r := c15Parse(ref.src, c15CPUBudgetRace, true)
		c15Judge(c, ref.gen, ref.src, r)
		ref.key = c15R8ResKey(r)
		refs = append(refs, ref)
	}
	const G = 8
	batches, per := 4, 40
	crowd := 1500
	if c.Tier == "thorough" {
		batches, per, crowd = 34, 50, 10000
	}
	type diff struct {
		ref      *c15R8Ref
		got, why string
	}
	var mu sync.Mutex
	var diffs []diff
	parses := 0
	for bt := 0; bt < batches && !h.done(); bt++ {
		// the texts are drawn by the case goroutine (one PRNG), the parses are concurrent
		work := make([][]*c15R8Trip, G)
		for g := 0; g < G; g++ {
			for k := 0; k < per; k++ {
				a, _ := t.validPart()
				b, _ := t.validPart()
				if len(a) > 6000 || len(b) > 6000 {
					continue
				}
				work[g] = append(work[g], &c15R8Trip{a: a, b: b})
			}
		}
		c.Begin(map[string]interface{}{"gen": "r8:racehist-batch", "batch": bt, "goroutines": G, "triples_per_goroutine": per})
		var wg sync.WaitGroup
		start := make(chan struct{})
		c15Enter(c15CPUBudgetRace)
		for g := 0; g < G; g++ {
			wg.Add(1)
			go func(g int) {
				defer wg.Done()
				<-start
				for k, tr := range work[g] {
					tr.ra = c15Parse(tr.a, 0, false)
					ref := refs[(k+g*(bt+1))%len(refs)]
					if bt%2 == 0 {
						ref = refs[(k+bt)%len(refs)] // every goroutine the same reference at about the same time
					}
					if kk := c15R8ResKey(c15Parse(ref.src, 0, false)); kk != ref.key {
						mu.Lock()
						diffs = append(diffs, diff{ref, kk, fmt.Sprintf("batch %d, goroutine %d, step %d", bt, g, k)})
						mu.Unlock()
					}
					tr.rb = c15Parse(tr.b, 0, false)
					if tr.ra.ok && tr.rb.ok {
						tr.ab = c15Parse(tr.a+"\n"+tr.b, 0, false)
					}
				}
			}(g)
		}
		close(start)
		wg.Wait()
		c15Leave()
		for g := 0; g < G; g++ {
			for _, tr := range work[g] {
				parses += 3
				c.Events(3)
				if !c15Judge(c, "r8:racehist", tr.a, tr.ra) || !c15Judge(c, "r8:racehist", tr.b, tr.rb) {
					h.viols++
					continue
				}
				if tr.ab == nil {
					continue
				}
				parses++
				c.Events(1)
				c.Eval(tr.a+"\x00"+tr.b, true)
				if !c15ComposeJudge(c, "r8:racehist", ":r8:concurrent", tr.a, tr.b, tr.ra, tr.rb, tr.ab) {
					h.viols++
				}
				if h.done() {
					break
				}
			}
		}
		runtime.GC()
	}
	// a crowd: thousands of goroutines alive at once
	c.Begin(map[string]interface{}{"gen": "r8:racehist-crowd", "goroutines": crowd})
	var wg sync.WaitGroup
	start := make(chan struct{})
	own := make([]string, crowd)
	ownRes := make([]*c15Res, crowd)
	for i := range own {
		own[i] = "w" + strconv.Itoa(i) + " = \"é" + strconv.Itoa(i) + "日\"\nw" + strconv.Itoa(i) + "++"
	}
	c15Enter(c15CPUBudgetRace)
	for i := 0; i < crowd; i++ {
		wg.Add(1)
		go func(i int) {
			defer wg.Done()
			<-start
			ref := refs[i%len(refs)]
			if kk := c15R8ResKey(c15Parse(ref.src, 0, false)); kk != ref.key {
				mu.Lock()
				diffs = append(diffs, diff{ref, kk, fmt.Sprintf("goroutine %d of %d alive at once", i, crowd)})
				mu.Unlock()
			}
			ownRes[i] = c15Parse(own[i], 0, false)
		}(i)
	}
	close(start)
	wg.Wait()
	c15Leave()
	parses += 2 * crowd
	c.Events(2 * crowd)
	for i, r := range ownRes {
		// the sequential parse of the same text afterwards
		c.Begin(c15BeginInput("r8:racehist-crowd", own[i]))
		seq := c15Parse(own[i], c15CPUBudgetRace, true)
		if !c15Judge(c, "r8:racehist-crowd", own[i], r) {
			h.viols++
		} else if k, w := r.key(), seq.key(); k != w && !h.done() {
			h.viols++
			c.Violation("nondet:concurrent:crowd", "a parse among thousands of concurrent ones differs from the sequential parse of the same text: "+c15ClipS(k, 300)+"  vs  "+c15ClipS(w, 300), c15Input("r8:racehist-crowd", own[i]))
		}
	}
	sort.Slice(diffs, func(i, j int) bool { return diffs[i].why < diffs[j].why })
	seen := map[string]bool{}
	for _, d := range diffs {
		if seen[d.ref.src] || h.done() {
			continue
		}
		seen[d.ref.src] = true
		h.viols++
		c.Violation("nondet:concurrent:history", "a concurrent parse ("+d.why+") differs from the sequential parse of the same text in the young process: "+c15ClipS(d.got, 300)+"  vs  "+c15ClipS(d.ref.key, 300), c15Input(d.ref.gen, d.ref.src))
	}
	c.Count("r8_concurrent_parses_in_one_process", parses)
	h.reached("concurrent_parses_in_one_process>=%d", parses/1000*1000)
	h.reached("goroutines_alive_at_once=%d", crowd)
}
