package main

// C06 extensions (round 7): two more kinds of operand the statement quantifies over
// ("for every pair of values") and the script can hold.
//
//   - phase "ptr": pointers. What '&x' yields for a script variable, for an element of an
//     untyped list or map (a pointer to an interface cell), what the host binds (*interface{},
//     *int64, *float64, *string, *bool, *uint64) and what '&t[1]' / '&st.F' yield for a typed
//     host slot (a pointer into a typed slot) - as the left and as the right operand of ==, !=,
//     `in` and switch, against nil, booleans, numbers, numeral and other strings, containers,
//     host integers and other pointers (to an equal cell, to a cell of another kind, to nil, to
//     a pointer, to a typed slot; the pointer itself and an alias of it).
//     The statement does not say whether a pointer equals what it points to, so the reference
//     for a pair with a pointer in it is "unspecified" and the LAWS decide: == symmetric, != its
//     negation, `in` and switch (single case, 4 and 6 case values, longer lists) the same relation;
//     one pointer answers the same whether it is read from the variable, from a list element, a
//     map member, a function result or an alias (relation on values); a non-nil pointer is not
//     nil ("nil equals only nil"). The dereferenced pointer (*p) is the pointee: for (*p, b) the
//     reference rules of the statement apply in full.
//
//   - phase "uns": host integers of the Go types the script has no literal for - uint64, uint,
//     uintptr, uint32, uint16, uint8 and int, int32, int16, int8 - with the unsigned values up to
//     2^64-1 (0, 2^32, 2^53+1, 2^63-1, 2^63, 2^63+1, 2^64-1 ...). "Two values of the same
//     primitive type are equal exactly when Go's == says so" (same Go type: rule "same");
//     a host integer against a float: == must be the observed (<= && >=) (rule "lege");
//     against a string: the string must be a decimal numeral denoting exactly that integer (rule
//     "strnum", math/big); against nil: false; inside containers: structural. Two integers of
//     DIFFERENT Go types (uint64 against int64, uint8 against uint16 ...): see c06IntMathRule.
//     The values reach the script as host variables, elements of []interface{} and of typed
//     slices ([]uint64 ...), map members, struct fields, results of Go and script functions,
//     through pointers; typed lists of these element types are right operands of `in` (phase
//     typed's scenario: in = switch = OR of the observed ==).

import (
	"fmt"
	"math"
	"math/big"
	"math/bits"
	"reflect"
	"strconv"
	"strings"

	"github.com/mattn/anko/env"

	"verifharness/internal/ank"
)

// c06IntMathRule: two integers of different Go integer types (a uint64 against the script's
// int64, a uint8 against a uint16) are "equal exactly when they are the same integer". The
// statement names Go's == for two values of one primitive type and gives no separate rule for
// two integer types; it does, however, speak of "an integer" and of "that number" as of
// mathematical objects (the int/float rule, the numeral rule), and a wrap-around answer
// (-1 == uint64(2^64-1), repaired in 0e3d1da as a C06/C10 finding) contradicts the numeral rule
// through the numeral both would have to denote. With false, such pairs are judged by the laws only.
const c06IntMathRule = true

// ---------------------------------------------------------------------------
// model: host integers ('u') and pointers ('P')

type c06HostInt struct {
	name   string // the Go type
	label  string // how the type is called in signatures and tags ("int" is the script's int64 there)
	signed bool
	bits   uint
	field  string // field of c06R7St holding a value of this type
}

var c06HostInts = []c06HostInt{
	{"uint64", "uint64", false, 64, "U64"}, {"uint", "uint", false, bits.UintSize, "U"}, {"uintptr", "uintptr", false, bits.UintSize, "UP"},
	{"uint32", "uint32", false, 32, "U32"}, {"uint16", "uint16", false, 16, "U16"}, {"uint8", "uint8", false, 8, "U8"},
	{"int", "goint", true, bits.UintSize, "I"}, {"int32", "int32", true, 32, "I32"}, {"int16", "int16", true, 16, "I16"}, {"int8", "int8", true, 8, "I8"},
}

const (
	c06WU64 = byte(iota)
	c06WU
	c06WUP
	c06WU32
	c06WU16
	c06WU8
	c06WI
	c06WI32
	c06WI16
	c06WI8
)

// a struct the host binds (by pointer): its fields are typed slots of every kind
type c06R7St struct {
	U64 uint64
	U   uint
	UP  uintptr
	U32 uint32
	U16 uint16
	U8  uint8
	I   int
	I32 int32
	I16 int16
	I8  int8
	I64 int64
	F   float64
	S   string
	B   bool
}

// c06HU: a value of the unsigned type w; c06HI: a value of type w given as an int64
// (which has to fit: the pools and generators only ask for values of the type's range)
func c06HU(w byte, u uint64) c06V {
	if c06HostInts[w].signed {
		return c06V{k: 'u', w: w, i: int64(u)}
	}
	return c06V{k: 'u', w: w, u: u}
}

func c06HI(w byte, i int64) c06V {
	if c06HostInts[w].signed {
		return c06V{k: 'u', w: w, i: i}
	}
	return c06V{k: 'u', w: w, u: uint64(i)}
}

// c06HostIntOfBits: the value of type w with the low bits of raw (truncated / sign-extended)
func c06HostIntOfBits(w byte, raw uint64) c06V {
	h := c06HostInts[w]
	if h.signed {
		sh := 64 - h.bits
		return c06V{k: 'u', w: w, i: int64(raw<<sh) >> sh}
	}
	if h.bits < 64 {
		raw &= 1<<h.bits - 1
	}
	return c06V{k: 'u', w: w, u: raw}
}

func c06HostIntBig(v c06V) *big.Int {
	if c06HostInts[v.w].signed {
		return big.NewInt(v.i)
	}
	return new(big.Int).SetUint64(v.u)
}

// the mathematical value of an int64 or host integer
func c06IntBig(v c06V) *big.Int {
	if v.k == 'i' {
		return big.NewInt(v.i)
	}
	return c06HostIntBig(v)
}

func c06HostIntFits(w byte, b *big.Int) bool {
	h := c06HostInts[w]
	if h.signed {
		lim := new(big.Int).Lsh(big.NewInt(1), h.bits-1)
		return b.Cmp(new(big.Int).Neg(lim)) >= 0 && b.Cmp(lim) < 0
	}
	return b.Sign() >= 0 && b.BitLen() <= int(h.bits)
}

// the value b as type w (b must fit)
func c06HostIntFromBig(w byte, b *big.Int) c06V {
	if c06HostInts[w].signed {
		return c06V{k: 'u', w: w, i: b.Int64()}
	}
	return c06V{k: 'u', w: w, u: b.Uint64()}
}

func c06HostIntType(w byte) reflect.Type {
	return reflect.TypeOf(c06GoValR7(c06V{k: 'u', w: w}))
}

// a nil pointer of type *int64 the host binds. Whether it counts as "nil" the statement does
// not say: every pair with it is judged by the laws only (also against nil).
func c06NilPtr() c06V { return c06V{k: 'P', w: 2, el: []c06V{c06Nil()}} }

func c06Ptr(typed bool, pointee c06V) c06V {
	v := c06V{k: 'P', el: []c06V{pointee}}
	if typed {
		v.w = 1
	}
	return v
}

func c06IsR7(v c06V) bool { return v.k == 'u' || v.k == 'P' }

// true when a 'u' or 'P' value occurs in v
func c06HoldsR7(v c06V) bool {
	if c06IsR7(v) {
		return true
	}
	for _, e := range v.el {
		if c06HoldsR7(e) {
			return true
		}
	}
	return false
}

func c06GoValR7(v c06V) interface{} {
	if v.k == 'u' {
		switch v.w {
		case c06WU64:
			return v.u
		case c06WU:
			return uint(v.u)
		case c06WUP:
			return uintptr(v.u)
		case c06WU32:
			return uint32(v.u)
		case c06WU16:
			return uint16(v.u)
		case c06WU8:
			return uint8(v.u)
		case c06WI:
			return int(v.i)
		case c06WI32:
			return int32(v.i)
		case c06WI16:
			return int16(v.i)
		}
		return int8(v.i)
	}
	// a pointer the host makes: a new one on every call, pointing to a new cell
	pt := v.el[0]
	if v.w == 2 {
		return (*int64)(nil)
	}
	if v.w == 1 {
		switch pt.k {
		case 'i':
			x := pt.i
			return &x
		case 'f':
			x := pt.f
			return &x
		case 's':
			x := pt.s
			return &x
		case 'b':
			x := pt.b
			return &x
		case 'u', 'P': // *uint64 ...; a pointer to a pointer variable (**int64, **interface{})
			g := reflect.ValueOf(pt.goVal())
			rv := reflect.New(g.Type())
			rv.Elem().Set(g)
			return rv.Interface()
		}
	}
	var cell interface{} = pt.goVal()
	return &cell
}

// a slice of the Go type w holding el
func c06HostIntSlice(w byte, el []c06V) interface{} {
	s := reflect.MakeSlice(reflect.SliceOf(c06HostIntType(w)), len(el), len(el))
	for j, e := range el {
		s.Index(j).Set(reflect.ValueOf(e.goVal()))
	}
	return s.Interface()
}

func c06KeyR7(v c06V) string {
	if v.k == 'u' {
		return c06HostInts[v.w].name + "(" + c06HostIntBig(v).String() + ")"
	}
	pt := v.el[0]
	if v.w == 2 {
		return "(*int64)(nil)"
	}
	if v.w == 1 {
		return "&typed-slot(" + pt.key() + ")"
	}
	return "&cell(" + pt.key() + ")"
}

func c06DescR7(v c06V) string {
	if v.k == 'u' {
		b := new(big.Int).Abs(c06HostIntBig(v))
		band := ">=2^63"
		switch {
		case b.Sign() == 0:
			band = "0"
		case b.Cmp(big.NewInt(1000000)) < 0:
			band = "<1e6"
		case b.Cmp(big.NewInt(c06P53)) < 0:
			band = "<2^53"
		case b.IsInt64():
			band = "<2^63"
		}
		return c06HostInts[v.w].label + "[" + band + "]"
	}
	if v.w == 2 {
		return "ptr[nil-pointer]"
	}
	if v.w == 1 {
		return "ptr[typed:" + v.el[0].desc() + "]"
	}
	return "ptr[cell:" + v.el[0].desc() + "]"
}

// the reference for a pair with a host integer or a pointer in it
func c06RefR7(a, b c06V) (c06Tri, string) {
	if (a.k == 'P' && a.w == 2) || (b.k == 'P' && b.w == 2) {
		return c06Unspec, "ptr" // a nil pointer: nil or not, the statement does not say
	}
	if a.k == 'n' || b.k == 'n' {
		return c06T(a.k == b.k), "nil" // a pointer to something (whatever it points to) and a host integer are not nil
	}
	if a.k == 'P' || b.k == 'P' {
		return c06Unspec, "ptr" // the statement does not say what a pointer is equal to: laws only
	}
	ac, bc := a.k == 'L' || a.k == 'M', b.k == 'L' || b.k == 'M'
	if ac || bc {
		return c06StructR7(a, b), "struct"
	}
	if a.k == 'b' || b.k == 'b' {
		return c06Unspec, "bool"
	}
	u, o := a, b
	if u.k != 'u' {
		u, o = b, a
	}
	switch o.k {
	case 'u':
		if o.w == u.w {
			return c06T(c06HostIntBig(u).Cmp(c06HostIntBig(o)) == 0), "same" // Go's == on two values of one integer type
		}
		fallthrough
	case 'i':
		if !c06IntMathRule {
			return c06Unspec, "intmath"
		}
		return c06T(c06IntBig(u).Cmp(c06IntBig(o)) == 0), "intmath"
	case 'f':
		return c06Unspec, "lege" // decided by the observed <= and >=
	}
	return c06StrNum(o.s, u), "strnum"
}

// structural comparison when a host integer or a pointer occurs in a or b
func c06StructR7(a, b c06V) c06Tri {
	if (a.k == 'P' && a.w == 2) || (b.k == 'P' && b.w == 2) {
		return c06Unspec
	}
	if a.k == 'n' || b.k == 'n' {
		return c06T(a.k == b.k)
	}
	if a.k == 'P' || b.k == 'P' {
		return c06Unspec
	}
	ac, bc := a.k == 'L' || a.k == 'M', b.k == 'L' || b.k == 'M'
	switch {
	case ac && bc:
		if a.k != b.k || len(a.el) != len(b.el) {
			return c06False
		}
		r := c06True
		if a.k == 'L' {
			for j := range a.el {
				r = c06And(r, c06Struct(a.el[j], b.el[j]))
			}
			return r
		}
		for j, k := range a.keys {
			found := false
			for l, k2 := range b.keys {
				if k == k2 {
					found = true
					r = c06And(r, c06Struct(a.el[j], b.el[l]))
				}
			}
			if !found {
				return c06False
			}
		}
		return r
	case ac || bc:
		o := a
		if ac {
			o = b
		}
		if o.k == 'b' {
			return c06Unspec
		}
		return c06False // a container is never structurally equal to a number
	}
	// two primitive leaves, at least one a host integer
	if a.k == 'u' && b.k == 'u' && a.w == b.w {
		return c06T(c06HostIntBig(a).Cmp(c06HostIntBig(b)) == 0)
	}
	// leaves of different primitive types: unspecified unless they differ under every reading
	if want, _ := c06RefR7(a, b); want == c06False {
		return c06False
	}
	return c06Unspec
}

// ---------------------------------------------------------------------------
// supplying operands

// r7Sup collects what the operands of one pair need: statements, host bindings
type c06Sup struct {
	pre    strings.Builder
	binds  map[string]interface{}
	bindsS map[string]string
}

func c06NewSup() *c06Sup {
	return &c06Sup{binds: map[string]interface{}{}, bindsS: map[string]string{}}
}

func (s *c06Sup) bind(name string, v interface{}, shown string) {
	s.binds[name] = v
	s.bindsS[name] = shown
}

func (s *c06Sup) bindFn() func(e *env.Env) {
	return func(e *env.Env) {
		for k, v := range s.binds {
			e.Define(k, v)
		}
	}
}

// an expression denoting the plain value v that can stand on the right of '=':
// its literal, or a host variable when it has none
func (s *c06Sup) valueExpr(v c06V, n string, style int) string {
	if v.k == 'P' {
		mk := "var"
		if v.w == 1 {
			mk = "host"
		}
		x, _ := s.ptr(v, n+"0", mk, style)
		return x
	}
	if l, ok := v.lit(style); ok && !(v.k == 'f' && v.f == 0 && math.Signbit(v.f)) {
		return l
	}
	s.bind(n+"v", v.goVal(), v.key())
	return n + "v"
}

var c06PtrMakesCell = []string{"var", "elem", "member", "mapindex", "inline", "funcresult", "listed", "hostvar-addr", "host", "host-elem", "via-ptrptr"}
var c06PtrMakesTyped = []string{"host", "typed-elem", "field", "host-elem"}
var c06PtrMakesNil = []string{"host", "host-elem", "host-member"}

func c06PtrMakes(p c06V) []string {
	if p.w == 2 {
		return c06PtrMakesNil
	}
	if p.w == 1 {
		return c06PtrMakesTyped
	}
	return c06PtrMakesCell
}

// ptr supplies the pointer p in the way mk; names are prefixed with n. ok=false when the
// way does not apply to this pointer.
func (s *c06Sup) ptr(p c06V, n, mk string, style int) (expr string, ok bool) {
	pt := p.el[0]
	if p.w == 2 {
		switch mk {
		case "host":
			s.bind(n, p.goVal(), p.key())
			return n, true
		case "host-elem":
			s.bind(n+"s", []interface{}{nil, p.goVal()}, "[nil, "+p.key()+"]")
			return n + "s[1]", true
		case "host-member":
			s.bind(n+"m", map[interface{}]interface{}{"k": p.goVal()}, "{\"k\": "+p.key()+"}")
			return n + "m.k", true
		}
		return "", false
	}
	if p.w == 1 {
		switch mk {
		case "host":
			s.bind(n, p.goVal(), p.key())
			return n, true
		case "host-elem":
			s.bind(n+"s", []interface{}{nil, p.goVal()}, "[nil, "+p.key()+"]")
			return n + "s[1]", true
		case "typed-elem":
			var sl interface{}
			switch pt.k {
			case 'i':
				sl = []int64{0, pt.i}
			case 'f':
				sl = []float64{0, pt.f}
			case 's':
				sl = []string{"", pt.s}
			case 'b':
				sl = []bool{false, pt.b}
			case 'u':
				sl = c06HostIntSlice(pt.w, []c06V{c06HI(pt.w, 0), pt})
			default:
				return "", false
			}
			s.bind(n+"t", sl, "typed slice [zero, "+pt.key()+"]")
			s.pre.WriteString(n + " = &" + n + "t[1]; ")
			return n, true
		case "field":
			st := &c06R7St{}
			f := ""
			switch pt.k {
			case 'i':
				st.I64, f = pt.i, "I64"
			case 'f':
				st.F, f = pt.f, "F"
			case 's':
				st.S, f = pt.s, "S"
			case 'b':
				st.B, f = pt.b, "B"
			case 'u':
				f = c06HostInts[pt.w].field
				reflect.ValueOf(st).Elem().FieldByName(f).Set(reflect.ValueOf(pt.goVal()))
			default:
				return "", false
			}
			s.bind(n+"st", st, "&struct{"+f+": "+pt.key()+"}")
			s.pre.WriteString(n + " = &" + n + "st." + f + "; ")
			return n, true
		}
		return "", false
	}
	switch mk {
	case "host":
		s.bind(n, p.goVal(), p.key())
		return n, true
	case "host-elem":
		s.bind(n+"s", []interface{}{nil, p.goVal()}, "[nil, "+p.key()+"]")
		return n + "s[1]", true
	case "hostvar-addr":
		s.bind(n+"h", pt.goVal(), pt.key())
		s.pre.WriteString(n + " = &" + n + "h; ")
		return n, true
	}
	l := s.valueExpr(pt, n, style)
	switch mk {
	case "var":
		s.pre.WriteString(n + "x = " + l + "; " + n + " = &" + n + "x; ")
		return n, true
	case "elem":
		s.pre.WriteString(n + "a = [0, " + l + "]; " + n + " = &" + n + "a[1]; ")
		return n, true
	case "member":
		s.pre.WriteString(n + "m = {\"k\": " + l + "}; " + n + " = &" + n + "m.k; ")
		return n, true
	case "mapindex":
		s.pre.WriteString(n + "m = {\"k\": " + l + "}; " + n + " = &" + n + "m[\"k\"]; ")
		return n, true
	case "inline":
		s.pre.WriteString(n + "x = " + l + "; ")
		return "(&" + n + "x)", true
	case "funcresult":
		s.pre.WriteString(n + "x = " + l + "; " + n + "f = func(){ return &" + n + "x }; ")
		return n + "f()", true
	case "listed":
		s.pre.WriteString(n + "x = " + l + "; " + n + "s = [&" + n + "x]; ")
		return n + "s[0]", true
	case "via-ptrptr":
		s.pre.WriteString(n + "x = " + l + "; " + n + "1 = &" + n + "x; " + n + "pp = &" + n + "1; ")
		return "(*" + n + "pp)", true
	}
	return "", false
}

var c06HostIntRoutes = []string{"variable", "element", "typedelement", "member", "funcresult", "hostfunc", "field", "scriptvar", "deref-typed", "deref-cell"}

// hostInt supplies the host integer v through the given route
func (s *c06Sup) hostInt(v c06V, n, route string) string {
	switch route {
	case "element":
		s.bind(n+"s", []interface{}{nil, v.goVal()}, "[nil, "+v.key()+"]")
		return n + "s[1]"
	case "typedelement":
		s.bind(n+"t", c06HostIntSlice(v.w, []c06V{c06HI(v.w, 0), v}), "[]"+c06HostInts[v.w].name+" [0, "+v.key()+"]")
		return n + "t[1]"
	case "member":
		s.bind(n+"m", map[interface{}]interface{}{"k": v.goVal()}, "{\"k\": "+v.key()+"}")
		return n + "m.k"
	case "funcresult":
		s.bind(n, v.goVal(), v.key())
		return "func(){ return " + n + " }()"
	case "hostfunc":
		rv := reflect.ValueOf(v.goVal())
		s.bind(n+"f", reflect.MakeFunc(reflect.FuncOf(nil, []reflect.Type{rv.Type()}, false),
			func([]reflect.Value) []reflect.Value { return []reflect.Value{rv} }).Interface(), "Go func() "+c06HostInts[v.w].name+" returning "+v.key())
		return n + "f()"
	case "field":
		st := &c06R7St{}
		f := c06HostInts[v.w].field
		reflect.ValueOf(st).Elem().FieldByName(f).Set(reflect.ValueOf(v.goVal()))
		s.bind(n+"st", st, "&struct{"+f+": "+v.key()+"}")
		return n + "st." + f
	case "scriptvar":
		s.bind(n, v.goVal(), v.key())
		s.pre.WriteString(n + "v = " + n + "; ")
		return n + "v"
	case "deref-typed":
		tp := c06Ptr(true, v)
		s.bind(n+"p", tp.goVal(), tp.key())
		return "(*" + n + "p)"
	case "deref-cell":
		s.bind(n, v.goVal(), v.key())
		s.pre.WriteString(n + "p = &" + n + "; ")
		return "(*" + n + "p)"
	}
	s.bind(n, v.goVal(), v.key())
	return n
}

// plain supplies a value of the old kinds (how: 0 literal, 1 host variable, 2 script variable,
// 3 element of a host list); falls back to the host variable when there is no literal
func (s *c06Sup) plain(v c06V, n string, how int) (string, string) {
	l, hasLit := v.lit(how / 4 % 2)
	switch how % 4 {
	case 0:
		if hasLit {
			return l, "literal"
		}
	case 2:
		if hasLit {
			s.pre.WriteString(n + "v = " + l + "; ")
			return n + "v", "scriptvar"
		}
	case 3:
		s.bind(n+"s", []interface{}{nil, v.goVal()}, "[nil, "+v.key()+"]")
		return n + "s[1]", "element"
	}
	s.bind(n, v.goVal(), v.key())
	return n, "variable"
}

// any supplies an operand of any kind; sel picks the way (no PRNG)
func (s *c06Sup) any(v c06V, n string, sel int) (string, string) {
	switch v.k {
	case 'P':
		mks := c06PtrMakes(v)
		for k := 0; k < len(mks); k++ {
			mk := mks[(sel+k)%len(mks)]
			if x, ok := s.ptr(v, n, mk, sel%2); ok {
				return x, "ptr-" + mk
			}
		}
	case 'u':
		rt := c06HostIntRoutes[sel%len(c06HostIntRoutes)]
		return s.hostInt(v, n, rt), rt
	}
	if c06HoldsR7(v) { // a container with a host integer in it: only the host can make it
		s.bind(n, v.goVal(), v.key())
		return n, "variable"
	}
	return s.plain(v, n, sel)
}

func (s *c06Sup) pair(a, b c06V, A, B, mode string) *c06Pair {
	return &c06Pair{a: a, b: b, A: A, B: B, pre: s.pre.String(), bind: s.bindFn(), mode: mode, bindsS: s.bindsS}
}

func c06Swap(p *c06Pair) *c06Pair {
	q := *p
	q.a, q.b, q.A, q.B = p.b, p.a, p.B, p.A
	if j := strings.Index(p.mode, "/"); j >= 0 {
		q.mode = p.mode[j+1:] + "/" + p.mode[:j]
	}
	return &q
}

// ---------------------------------------------------------------------------
// phase ptr

func c06PtrPointees() []c06V {
	one := c06I(1)
	return []c06V{
		one, c06F(1), c06S("1"), c06B(true), c06Nil(), c06I(0), c06I(1000000), c06F(1.5), c06S("1.5"), c06S("abc"), c06S(""),
		c06L(one), c06M("a", one), c06Ptr(false, one), c06Ptr(true, one), c06HU(c06WU64, 1<<63),
	}
}

// partners of a pointer; "self" and "alias" (the pointer itself) are added by the caller
func c06PtrPartners() []c06V {
	one := c06I(1)
	return []c06V{
		c06Nil(), c06B(true), c06B(false), one, c06I(0), c06I(2), c06I(1000000), c06F(1), c06F(0), c06F(1.5), c06F(1e6),
		c06S("1"), c06S("1.0"), c06S("1.5"), c06S("abc"), c06S(""), c06S("true"), c06S("1e6"),
		c06L(one), c06L(c06F(1)), c06M("a", one), c06L(),
		c06Ptr(false, one), c06Ptr(false, c06F(1)), c06Ptr(false, c06S("1")), c06Ptr(false, c06B(true)), c06Ptr(false, c06Nil()),
		c06Ptr(false, c06L(one)), c06Ptr(true, one), c06Ptr(true, c06F(1)), c06Ptr(true, c06S("1")),
		c06HU(c06WU64, 1), c06HU(c06WU64, 1<<63), c06HU(c06WU8, 1),
		c06Ptr(true, c06Ptr(true, one)), c06Ptr(true, c06Ptr(false, c06F(1))),
		c06NilPtr(), c06L(c06Ptr(false, one)), c06M("a", c06Ptr(false, one)), c06L(c06Ptr(true, c06F(1))),
	}
}

func c06PtrEnumCases() int { return len(c06PtrPointees()) + 1 }

// routes: one pointer read through several expressions has to compare the same
// (equality is a relation on values). One vm.Execute.
func (r *c06Run) ptrRoutes(base *env.Env, p *c06Pair) {
	c := r.c
	names := []string{"direct", "paren", "list-element", "map-member", "func-result", "alias"}
	routes := []string{p.A, "(" + p.A + ")", "[" + p.A + "][0]", "{\"k\": " + p.A + "}.k", "func(){ return " + p.A + " }()", "r7al"}
	parts := make([]string, 0, 2*len(routes))
	for _, x := range routes {
		parts = append(parts, x+" == "+p.B, p.B+" == "+x)
	}
	src := p.pre + "r7al = " + p.A + "; [" + strings.Join(parts, ", ") + "]"
	e := base.NewEnv()
	if p.bind != nil {
		p.bind(e)
	}
	hkey := "routes\x00" + p.mode + "\x00" + p.a.key() + "\x00" + p.b.key()
	c.Begin(map[string]interface{}{"a": p.a.key(), "b": p.b.key(), "mode": p.mode, "src": src})
	o := ank.Exec(e, src)
	c.Eval(src+"\x00"+hkey, true)
	c.Events(len(parts))
	c.Tag("mode:ptr-routes")
	got := ank.Render(o.Val)
	switch {
	case o.Panicked:
		got = "panic: " + o.PanicVal
	case o.Err != nil:
		got = "error: " + o.Err.Error()
	}
	pairD := p.a.desc() + "," + p.b.desc()
	inp := map[string]interface{}{"a": p.a.key(), "b": p.b.key(), "mode": p.mode, "src": src, "got": got, "bindings": p.bindsS}
	lst, isList := o.Val.([]interface{})
	if o.Panicked || o.Err != nil || !isList || len(lst) != len(parts) {
		r.viol("noresult:ptr-routes:"+pairD, fmt.Sprintf("%s gave %s instead of a list of booleans", src, got), inp)
		return
	}
	bs := make([]bool, len(lst))
	for j := range lst {
		b, ok := lst[j].(bool)
		if !ok {
			r.viol("noresult:ptr-routes:"+pairD, fmt.Sprintf("%s gave %s instead of a list of booleans", src, got), inp)
			return
		}
		bs[j] = b
	}
	for j := 1; j < len(routes); j++ {
		if bs[2*j] != bs[0] {
			r.viol(fmt.Sprintf("prov-ptr:%s:direct=%v,%s=%v", pairD, bs[0], names[j], bs[2*j]),
				fmt.Sprintf("one pointer compares differently depending on where it is read from: (%s) = %v but (%s) = %v", parts[0], bs[0], parts[2*j], bs[2*j]), inp)
		}
		if bs[2*j+1] != bs[1] {
			r.viol(fmt.Sprintf("prov-ptr:%s:direct=%v,%s=%v", p.b.desc()+","+p.a.desc(), bs[1], names[j], bs[2*j+1]),
				fmt.Sprintf("one pointer compares differently depending on where it is read from: (%s) = %v but (%s) = %v", parts[1], bs[1], parts[2*j+1], bs[2*j+1]), inp)
		}
	}
}

// ptrPair: the pointer P made in the way mk against the partner b (supplied in a way chosen
// by seq), all observations in both operand orders.
func (r *c06Run) ptrPair(base *env.Env, P c06V, mk string, b c06V, seq int) {
	s := c06NewSup()
	A, ok := s.ptr(P, "p", mk, seq%2)
	if !ok {
		return
	}
	B, howB := s.any(b, "q", seq)
	p1 := s.pair(P, b, A, B, "ptr-"+mk+"/"+howB)
	r.ptrObserve(base, p1, seq)
	// the pointee read through the pointer is a plain value: the reference rules apply
	if seq%3 == 0 && P.w != 2 {
		pd := s.pair(P.el[0], b, "(*"+A+")", B, "deref-"+mk+"/"+howB)
		r.observe(base, pd)
		r.observe(base, c06Swap(pd))
	}
}

func (r *c06Run) ptrObserve(base *env.Env, p1 *c06Pair, seq int) {
	if j := strings.Index(p1.mode, "/"); j >= 0 {
		r.c.Tag("ptr:pointer="+p1.mode[:j], "ptr:partner="+p1.mode[j+1:])
	}
	o1 := r.observe(base, p1)
	if seq%3 == 1 {
		r.wide(base, p1, o1, p1.B, []int{seq % 4}, seq%2 == 0)
	}
	p2 := c06Swap(p1)
	o2 := r.observe(base, p2)
	if seq%3 == 2 {
		r.wide(base, p2, o2, p2.B, []int{seq % 4}, seq%2 == 0)
	}
	r.ptrRoutes(base, p1)
}

// the pointer against itself and against an alias of it
func (r *c06Run) ptrSelf(base *env.Env, P c06V, mk string, seq int) {
	s := c06NewSup()
	A, ok := s.ptr(P, "p", mk, seq%2)
	if !ok {
		return
	}
	if strings.HasPrefix(A, "(&") || strings.HasSuffix(A, "()") {
		return // '&x' written twice, a function called twice: two pointers
	}
	r.ptrObserve(base, s.pair(P, P, A, A, "ptr-"+mk+"/self"), seq)
	s.pre.WriteString("r7q = " + A + "; ")
	r.ptrObserve(base, s.pair(P, P, A, "r7q", "ptr-"+mk+"/alias"), seq+1)
}

func (r *c06Run) ptrEnum(base *env.Env, idx int) {
	partners := c06PtrPartners()
	if idx == len(c06PtrPointees()) {
		// the nil pointer, and lists / maps holding pointers, against every partner
		one := c06I(1)
		for ai, a := range []c06V{c06NilPtr(), c06L(c06Ptr(false, one)), c06M("a", c06Ptr(false, one)), c06L(c06Ptr(true, one)), c06L(c06NilPtr())} {
			for bi, b := range partners {
				if a.k == 'P' {
					for mi, mk := range c06PtrMakes(a) {
						r.ptrPair(base, a, mk, b, ai+mi+bi)
					}
					continue
				}
				s := c06NewSup()
				A, howA := s.any(a, "p", 1)
				B, howB := s.any(b, "q", ai+bi)
				r.ptrObserve(base, s.pair(a, b, A, B, howA+"/"+howB), ai+bi)
			}
		}
		return
	}
	pt := c06PtrPointees()[idx]
	for _, typed := range []bool{false, true} {
		if typed && !(pt.k == 'i' || pt.k == 'f' || pt.k == 's' || pt.k == 'b' || pt.k == 'u' || pt.k == 'P') {
			continue
		}
		P := c06Ptr(typed, pt)
		for mi, mk := range c06PtrMakes(P) {
			r.ptrSelf(base, P, mk, mi)
			for bi, b := range partners {
				r.ptrPair(base, P, mk, b, idx+mi+bi)
			}
		}
		// longer lists and multi-case switches (host-made pointers)
		for bi, b := range partners {
			if bi%4 == idx%4 {
				r.multi(base, P, b, partners[(bi*7+idx+3)%len(partners)])
				r.multi(base, b, P, partners[(bi*5+idx+1)%len(partners)])
			}
		}
	}
}

func (r *c06Run) ptrRand(base *env.Env) {
	rng := r.c.Rng
	for k := 0; k < 8; k++ {
		pt := c06Norm(c06RandValue(rng))
		if rng.Intn(8) == 0 {
			pt = c06RandHostInt(rng, byte(rng.Intn(len(c06HostInts))))
		}
		typed := rng.Intn(4) == 0 && (pt.k == 'i' || pt.k == 'f' || pt.k == 's' || pt.k == 'b' || pt.k == 'u')
		P := c06Ptr(typed, pt)
		if !typed && rng.Intn(10) == 0 {
			P = c06Ptr(false, P) // a pointer to a pointer
		}
		var b c06V
		switch q := rng.Intn(10); {
		case q < 6:
			b = c06Norm(c06Derive(rng, pt))
		case q < 7:
			b = c06Copy(pt)
		default:
			b = c06Norm(c06RandValue(rng))
		}
		if rng.Intn(4) == 0 {
			b = c06Ptr(rng.Intn(3) == 0 && (b.k == 'i' || b.k == 'f' || b.k == 's' || b.k == 'b'), b)
		}
		mks := c06PtrMakes(P)
		mk := mks[rng.Intn(len(mks))]
		seq := rng.Intn(1 << 20)
		r.ptrPair(base, P, mk, b, seq)
		if k%4 == 0 {
			r.multi(base, P, b, c06RandValue(rng))
		}
	}
}

// ---------------------------------------------------------------------------
// phase uns

func c06UnsValues() []c06V {
	var out []c06V
	for _, w := range []byte{c06WU64, c06WU, c06WUP} {
		if c06HostInts[w].bits != 64 {
			continue
		}
		for _, u := range []uint64{0, 1, 200, 1 << 32, 1<<53 + 1, 1<<63 - 1, 1 << 63, 1<<63 + 1, math.MaxUint64} {
			out = append(out, c06HU(w, u))
		}
	}
	out = append(out, c06HU(c06WU64, math.MaxUint64-1), c06HU(c06WU64, 1<<63+1024), c06HU(c06WU64, 1<<53))
	for _, u := range []uint64{0, 200, 1 << 31, math.MaxUint32} {
		out = append(out, c06HU(c06WU32, u))
	}
	for _, u := range []uint64{200, math.MaxUint16} {
		out = append(out, c06HU(c06WU16, u))
	}
	for _, u := range []uint64{0, 200, 255} {
		out = append(out, c06HU(c06WU8, u))
	}
	for _, i := range []int64{-1, 200, math.MaxInt64, math.MinInt64} {
		if c06HostInts[c06WI].bits == 64 {
			out = append(out, c06HI(c06WI, i))
		}
	}
	for _, i := range []int64{-1, 200, math.MinInt32} {
		out = append(out, c06HI(c06WI32, i))
	}
	out = append(out, c06HI(c06WI16, 200), c06HI(c06WI16, -1), c06HI(c06WI8, -56), c06HI(c06WI8, 127))
	return out
}

func c06UnsPartners() []c06V {
	out := append([]c06V{}, c06UnsValues()...)
	for _, i := range []int64{0, 1, -1, 200, -56, 255, 65535, 1 << 31, -(1 << 31), 1<<32 - 1, 1 << 32, 1<<53 + 1, math.MaxInt64, math.MaxInt64 - 1, math.MinInt64, math.MinInt64 + 1, -1024} {
		out = append(out, c06I(i))
	}
	two64 := math.Ldexp(1, 64)
	for _, f := range []float64{0, math.Copysign(0, -1), 1, 200, 200.5, -1, 255, 1 << 32, 1 << 53, 1 << 63, math.Nextafter(1<<63, 0), math.Nextafter(1<<63, two64), two64, math.Nextafter(two64, 0),
		-(1 << 63), 1e20, math.NaN(), math.Inf(1), math.Inf(-1)} {
		out = append(out, c06F(f))
	}
	for _, s := range []string{"0", "1", "200", "0200", "200.0", "2e2", "200.5", "255", "65535", "4294967295", "4294967296", "9007199254740993", "9223372036854775807", "9223372036854775808",
		"9223372036854775809", "18446744073709551615", "18446744073709551614", "18446744073709551616", "18446744073709551615.0", "1.8446744073709551615e19", "18446744073709551615.5",
		"1.8446744073709552e19", "9.223372036854775808e18", "-1", "-56", "-0", "-9223372036854775808", "-18446744073709551615", "abc", "", "1e400", "0x10", "+200", "true"} {
		out = append(out, c06S(s))
	}
	out = append(out, c06Nil(), c06B(true), c06B(false), c06L(), c06L(c06I(200)), c06L(c06HU(c06WU64, math.MaxUint64)), c06L(c06HU(c06WU64, 200)), c06L(c06HU(c06WU8, 200)),
		c06M("a", c06HU(c06WU64, 1<<63)), c06Ptr(true, c06HU(c06WU64, math.MaxUint64)), c06Ptr(false, c06HU(c06WU64, math.MaxUint64)), c06Ptr(true, c06HU(c06WU8, 200)), c06Ptr(false, c06I(200)))
	return out
}

func c06UnsEnumCases() int { return len(c06UnsValues()) }

var c06UnsListModes = []string{"host", "hostfunc", "view", "listelem", "member", "scriptvar", "funcresult"}

// a typed list of u's Go type around u: neighbours and u itself
func c06UnsListOf(u c06V) c06TL {
	t := c06TL{ek: 'u', w: u.w, el: []c06V{}}
	b := c06HostIntBig(u)
	for _, d := range []int64{-1, 1} {
		if n := new(big.Int).Add(b, big.NewInt(d)); c06HostIntFits(u.w, n) {
			t.el = append(t.el, c06HostIntFromBig(u.w, n))
		}
	}
	t.el = append(t.el, c06Copy(u))
	return t
}

// a typed list of b's kind holding b (nil when b's kind has no typed list)
func c06ListOfPartner(b c06V) (c06TL, bool) {
	switch b.k {
	case 'i', 'f', 's', 'b':
		t := c06TL{ek: b.k}
		t.el = []c06V{t.pad(), c06Copy(b)}
		return t, true
	case 'u':
		return c06UnsListOf(b), true
	case 'n', 'L', 'M':
		if c06HoldsR7(b) {
			return c06TL{}, false
		}
		return c06TL{ek: 'I', el: []c06V{c06S("pad"), c06Copy(b)}}, true
	}
	return c06TL{}, false
}

// the typed scenario of phase typed for subject x and list t, list supplied in the given mode
func (r *c06Run) unsTyped(base *env.Env, x c06V, t c06TL, mode string, sel int) {
	binds, bindsS := map[string]interface{}{}, map[string]string{}
	preL, L, ok := c06TLSupply(t, mode, binds, bindsS)
	if !ok {
		return
	}
	s := c06NewSup()
	s.binds, s.bindsS = binds, bindsS
	X, howX := s.any(x, "p", sel)
	r.typedScenario(base, x, t, X, howX, s.pre.String(), preL, L, mode, binds, bindsS)
}

// unsPair: host integer u against b: host variables in both orders, one more route, a wide
// switch, and the typed lists of both kinds as right operands of `in`
func (r *c06Run) unsPair(base *env.Env, u, b c06V, seq int) {
	c := r.c
	p1 := c06Var(u, b)
	o1 := r.observe(base, p1)
	p2 := c06Var(b, u)
	o2 := r.observe(base, p2)
	// another route for u, the partner as a literal / script variable / element / pointer ...
	s := c06NewSup()
	rt := c06HostIntRoutes[1+seq%(len(c06HostIntRoutes)-1)]
	A := s.hostInt(u, "p", rt)
	B, howB := s.any(b, "q", seq/3)
	p3 := s.pair(u, b, A, B, rt+"/"+howB)
	c.Tag("uns:route=" + rt)
	o3 := r.observe(base, p3)
	p4 := c06Swap(p3)
	o4 := r.observe(base, p4)
	switch seq % 4 {
	case 0:
		r.wide(base, p1, o1, p1.B, []int{seq / 4 % 4}, true)
	case 1:
		r.wide(base, p2, o2, p2.B, []int{seq / 4 % 4}, true)
	case 2:
		r.wide(base, p3, o3, p3.B, []int{seq / 4 % 4}, false)
	case 3:
		r.wide(base, p4, o4, p4.B, []int{seq / 4 % 4}, false)
	}
	// one relation on values: the answer does not depend on the route
	if o1 != nil && o3 != nil && o1["eq"].v != o3["eq"].v {
		r.viol(fmt.Sprintf("prov:%s,%s:variable=%v,%s=%v", u.desc(), b.desc(), o1["eq"].v, rt, o3["eq"].v),
			fmt.Sprintf("the same pair compares differently depending on how the operands are supplied: (%s)=%v as host variables, (%s)=%v as %s",
				o1["eq"].src, o1["eq"].v, o3["eq"].src, o3["eq"].v, p3.mode), p3.input(o3))
	}
	if b.k != 'P' {
		// b in a list of u's Go type
		r.unsTyped(base, b, c06UnsListOf(u), c06UnsListModes[seq%len(c06UnsListModes)], seq)
	}
	// u in a typed list of b's kind
	if t, ok := c06ListOfPartner(b); ok {
		r.unsTyped(base, u, t, c06UnsListModes[(seq+3)%len(c06UnsListModes)], seq+1)
	}
	if seq%6 == 0 {
		r.multi(base, u, b, c06UnsPartners()[(seq*7+5)%len(c06UnsPartners())])
	}
}

func (r *c06Run) unsEnum(base *env.Env, idx int) {
	u := c06UnsValues()[idx]
	for bi, b := range c06UnsPartners() {
		r.unsPair(base, u, b, idx*3+bi)
	}
}

// a random value of the host integer type w: boundary-heavy
func c06RandHostInt(rng c06Rng, w byte) c06V {
	h := c06HostInts[w]
	var raw uint64
	switch rng.Intn(8) {
	case 0:
		raw = uint64(rng.Intn(300))
	case 1:
		raw = uint64(1)<<uint(rng.Intn(64)) + uint64(rng.Intn(5)) - 2
	case 2:
		raw = ^uint64(0) - uint64(rng.Intn(4)) // the largest unsigned values; -1 ... -4 of a signed type
	case 3:
		raw = uint64(1)<<63 + uint64(rng.Intn(5)) - 2
	case 4:
		raw = rng.Uint64()
	case 5:
		raw = rng.Uint64() >> uint(rng.Intn(64))
	case 6:
		raw = uint64(1)<<(h.bits-1) + uint64(rng.Intn(5)) - 2 // around the largest signed value of the width
	default:
		raw = rng.Uint64() | 1<<63
	}
	return c06HostIntOfBits(w, raw)
}

// numeral spellings of an integer (all of them decimal numerals of the statement's grammar;
// the last one may round: the oracle decides)
func c06SpellBig(rng c06Rng, b *big.Int) string {
	s := b.String()
	sign, d := "", s
	if strings.HasPrefix(s, "-") {
		sign, d = "-", s[1:]
	}
	switch rng.Intn(8) {
	case 0, 1:
		return s
	case 2:
		return s + ".0"
	case 3:
		return s + "e0"
	case 4:
		return sign + "0" + d
	case 5: // trailing zeros into an exponent
		t := strings.TrimRight(d, "0")
		if t == "" || t == d {
			return s + ".00"
		}
		return sign + t + "e" + strconv.Itoa(len(d)-len(t))
	case 6: // scientific form with every digit
		if len(d) > 1 {
			return sign + d[:1] + "." + d[1:] + "e" + strconv.Itoa(len(d)-1)
		}
		return s + "e+0"
	}
	f, _ := new(big.Float).SetInt(b).Float64()
	return strconv.FormatFloat(f, 'e', -1, 64)
}

// a value related to the host integer v
func c06DeriveU(rng c06Rng, v c06V) c06V {
	b := c06HostIntBig(v)
	other := func() c06V { // the same number as another integer type, when it has one
		for try := 0; try < 6; try++ {
			w := byte(rng.Intn(len(c06HostInts)))
			if w != v.w && c06HostIntFits(w, b) {
				return c06HostIntFromBig(w, b)
			}
		}
		if b.IsInt64() {
			return c06I(b.Int64())
		}
		return c06Copy(v)
	}
	switch rng.Intn(12) {
	case 0, 1:
		return c06Copy(v)
	case 2, 3:
		return other()
	case 4:
		if b.IsInt64() {
			return c06I(b.Int64())
		}
		return c06I(int64(b.Uint64())) // the wrapped-around cousin: a different number
	case 5:
		f, _ := new(big.Float).SetInt(b).Float64()
		return c06F(f)
	case 6, 7:
		return c06S(c06SpellBig(rng, b))
	case 8: // a neighbour of the same type
		n := new(big.Int).Add(b, big.NewInt(int64(rng.Intn(2)*2-1)))
		if c06HostIntFits(v.w, n) {
			return c06HostIntFromBig(v.w, n)
		}
		return c06Copy(v)
	case 9: // the same bits read as another type of the same width class (a different number when the sign bit is set)
		raw := v.u
		if c06HostInts[v.w].signed {
			raw = uint64(v.i)
		}
		return c06HostIntOfBits(byte(rng.Intn(len(c06HostInts))), raw)
	case 10:
		f, _ := new(big.Float).SetInt(b).Float64()
		return c06F(math.Nextafter(f, math.Inf(rng.Intn(2)*2-1)))
	}
	return c06S(c06SpellBig(rng, new(big.Int).Add(b, big.NewInt(int64(rng.Intn(3)-1)))))
}

func (r *c06Run) unsRand(base *env.Env) {
	rng := r.c.Rng
	for k := 0; k < 10; k++ {
		w := byte(rng.Intn(len(c06HostInts)))
		if rng.Intn(2) == 0 {
			w = byte(rng.Intn(3)) // the 64-bit unsigned types: values beyond the int64 range
		}
		u := c06RandHostInt(rng, w)
		var b c06V
		switch q := rng.Intn(10); {
		case q < 7:
			b = c06DeriveU(rng, u)
		case q < 8:
			b = c06RandHostInt(rng, byte(rng.Intn(len(c06HostInts))))
		default:
			b = c06Norm(c06RandValue(rng))
		}
		switch rng.Intn(12) {
		case 0:
			b = c06L(b)
			if rng.Intn(2) == 0 {
				lu := c06L(u) // both in lists: structural
				r.observe(base, c06Var(lu, b))
				r.observe(base, c06Var(b, lu))
				continue
			}
		case 1:
			b = c06Ptr(rng.Intn(2) == 0 && (b.k == 'i' || b.k == 'f' || b.k == 's' || b.k == 'b' || b.k == 'u'), b)
		}
		r.unsPair(base, u, b, rng.Intn(1<<20))
	}
}

// ---------------------------------------------------------------------------
// plan text

// text spliced into the Plan's Rule (it goes through fmt.Sprintf: no percent signs)
func c06R7Rule() string {
	nm := len(c06PtrMakesCell) + len(c06PtrMakesTyped)
	return fmt.Sprintf("phase ptr: first %d enumerated cases = %d pointees (1, 1.0, \"1\", true, nil, 0, 10^6, 1.5, numeral and other strings, a list, a map, a pointer, a uint64 2^63) "+
		"x {pointer to an interface cell, pointer into a typed slot} x %d ways of making the pointer (&x of a script variable, &a[1], &m.k, &m[\"k\"], (&x) written as the operand, result of a function, "+
		"element of a list of pointers, &h of a host variable, *interface{} / *T bound by the host, element of a host list, *pp of a pointer to the pointer, &t[1] of a typed host slice, &st.F of a host struct) "+
		"x %d partners (nil, booleans, int64, float64, numeral and other strings, containers, pointers to equal / differently typed / nil / container cells and to typed slots, uint64 and uint8 values) "+
		"plus the pointer itself and an alias of it; per pair: a==b, b==a, a!=b, a in [b], switch a {case b} in both operand orders, switches over 4 and 6 case values, longer lists / multi-case switches, "+
		"one vm.Execute comparing the pointer read directly, parenthesised, from a list element, a map member, a function result and an alias (all must agree), and every third pair (*p) against the partner "+
		"with the full reference rules for the pointee; then PRNG cases of 8 pairs (random pointee incl. containers and host integers, partner derived from the pointee 7 times of 10, pointer partners, pointer to pointer). "+
		"Reference for a pair with a pointer: unspecified (laws only) except that a pointer is not nil. "+
		"phase uns: first %d enumerated cases = %d host integers (uint64, uint, uintptr: 0, 1, 200, 2^32, 2^53+1, 2^63-1, 2^63, 2^63+1, 2^64-1; uint32, uint16, uint8, int, int32, int16, int8 at their bounds) "+
		"x %d partners (all of these, boundary int64 incl. the wrapped-around cousins -1, -56, MinInt64, floats around 2^63 and 2^64, NaN, +-Inf, numerals of the values in integer / fraction / exponent spelling "+
		"and one above / below, non-numerals, nil, booleans, containers holding host integers, pointers to them); per pair: the full set of observations (with <= and >= against floats) in both operand orders as host variables "+
		"and through one more route (element of []interface{}, element of a typed slice, map member, struct field, result of a script / Go function, script variable, dereferenced pointer), a wide switch, "+
		"partner in a typed list of the host integer's Go type and the host integer in a typed list of the partner's kind (phase typed's scenario); "+
		"then PRNG cases of 10 pairs (random type, boundary-heavy random value, partner derived: same value in another type, wrapped-around cousin, float, neighbour, numeral spellings). ",
		c06PtrEnumCases(), len(c06PtrPointees()), nm, len(c06PtrPartners()), c06UnsEnumCases(), len(c06UnsValues()), len(c06UnsPartners()))
}

func c06R7Assumptions() []string {
	return []string{
		"a pointer ('&x', a *T bound by the host) is a value the statement's laws quantify over, but the statement does not say what a pointer is equal to (itself only, or what it points to): " +
			"for a pair with a pointer operand only symmetry, negation, in/switch agreement and independence of where the pointer is read from are checked, plus 'nil equals only nil' (a pointer to a nil cell is not nil); " +
			"the dereferenced pointer (*p) is the pointee and is judged by the full rules; ordering operators on pointers are not C06's",
		"host integers of the Go types uint64, uint, uintptr, uint32, uint16, uint8, int, int32, int16, int8 are primitive values: same Go type = Go's ==; against a float = the observed <= and >=; " +
			"against a string = the numeral denotes exactly that integer (math/big); two integers of different Go types are equal exactly when they are the same integer (c06IntMathRule: the statement's 'integer' and 'that number' " +
			"are read as mathematical; a wrap-around answer would contradict the numeral rule); float32 is not generated (the statement has no rule for a float32 against a float64); " +
			"containers whose leaves are integers of different Go types: laws only",
	}
}
