package main

// C01 workload, part 2: generators for the open-ended parts of the grammar that
// a fixed operand table cannot enumerate — function literals of every
// parameter-list shape, numerals (as source literals and as strings that the
// VM converts or compares numerically) of every magnitude, and type expressions
// of every shape (including the ones reflect refuses to build) in every
// position a type can be written. The oracle is unchanged: whatever the text
// is, the call returns; a panic that reaches the caller or kills the worker is
// the violation.

import (
	"math/rand"
	"reflect"
	"regexp"
	"runtime"
	"strconv"
	"strings"
)

// Defects of the pinned tree found by this workload and reported in
// /tmp/strengthen/C01-genuine.md. While a constant is true exactly the input
// class named in its comment is kept out of the generated domain; flip it to
// false once /repo is repaired (the inputs then join case 0 as well).

// c01PendingFix_nilIfaceMethod: member syntax naming a METHOD of a nil value
// whose static type is a non-empty interface (result of a Go function declared
// to return `error`/an interface with methods that returns nil, or the zero
// value of such a type reached through make(type T, thatResult)):
// `gNilErr().Error()` panicked "reflect: Method on nil interface value" in
// invokeMemberExpr. Repaired in /repo by 36188d8, hence false: the crossing of
// such operands with the method-name member templates ($J method templates, $Y /
// $W holes) is in the workload.
const c01PendingFix_nilIfaceMethod = false

// c01PendingFix_nilModule: a nil module pointer (zero value of a type defined
// with make(type M, someModule): make([]M, 1)[0], []M{nil}[0], a struct field,
// a channel element ...) that is assigned to a name or used with member syntax
// panics with a nil dereference in env.(*Env).Copy / GetValue / SetValue.
// Excluded: module operands in the zero-value-of-a-defined-type templates ($Z /
// $W holes) and the defined type TMod in generated type expressions.
const c01PendingFix_nilModule = false

// c01PendingFix_nilIfaceStore: a nil value whose static type is a non-empty
// interface (see above) that is sent into a channel of interface elements or
// stored as key/element of a map of interface keys/elements leaves a corrupted
// interface word behind ({nil type, data 0x14}: go1.23 reflect.assignTo hands
// Send/SetMapIndex a one-word Value for a two-word interface); the Go runtime
// dies with "fatal error: invalid pointer found on stack" when it next moves a
// stack that holds the word. Excluded: such operands (and the defined type TErr,
// whose zero value is one) everywhere except in the $J templates, none of which
// sends or stores into a map.
const c01PendingFix_nilIfaceStore = false

// types a script has defined with make(type ...) in the prelude
var c01TypePrelude = `
make(type TInt, 1)
make(type TStr, "s")
make(type TList, [])
make(type TMap, {})
make(type TFunc, vFunc)
make(type TFuncV, vFuncV)
make(type TStruct, vStruct)
make(type TChan, vChan)
make(type TPtr, vPtr)
make(type TDur, toDuration(1))
make(type TErr, gNilErr())
module vTMod { make(type MT, [1]) }
`

var c01BaseTypes = []string{"int64", "int64", "string", "string", "bool", "float64", "interface", "interface", "int", "int32", "uint", "uint32", "uint64", "byte", "rune", "float32",
	"TInt", "TStr", "TList", "TMap", "TFunc", "TFuncV", "TStruct", "TChan", "TPtr", "TDur", "vTMod.MT",
	"nosuch", "vMod.nosuch", "nosuch.T", "vInt.T", "vMod.x", "vTMod.vTMod.MT", "error"}

var c01HashableTypes = []string{"string", "string", "int64", "interface", "bool", "float64", "*int64", "chan int64", "struct{A int64}", "TInt", "TStr", "TPtr", "TDur", "TChan", "byte"}

// key types reflect.MapOf refuses
var c01UnhashableTypes = []string{"[]string", "[]interface", "map[string]int64", "TFunc", "TList", "TMap", "struct{A []int64}", "[][]int64", "struct{A int64, B map[string]string}", "TStruct"}

var c01FieldNames = []string{"A", "B", "C", "D", "Xy", "A1", "Éa", "Z_"}

// field names reflect.StructOf refuses
var c01BadFieldNames = []string{"a", "b", "_", "éa", "x1"}

func c01Pick(r *rand.Rand, l []string) string { return l[r.Intn(len(l))] }

// c01Type writes one type expression: every production of type_data, nested.
func c01Type(r *rand.Rand, depth int) string {
	if depth >= 3 || r.Intn(100) < 30+20*depth {
		return c01Pick(r, c01BaseTypes)
	}
	switch r.Intn(13) {
	case 0, 1:
		return "[]" + c01Type(r, depth+1)
	case 2:
		return "[][]" + c01Type(r, depth+1)
	case 3:
		return "*" + c01Type(r, depth+1)
	case 4, 5, 6:
		return "map[" + c01KeyType(r, depth+1) + "]" + c01Type(r, depth+1)
	case 7, 8:
		return "chan " + c01Type(r, depth+1)
	default:
		n := 1 + r.Intn(4)
		var fs []string
		var names []string
		for i := 0; i < n; i++ {
			name := c01FieldNames[(i+r.Intn(2))%len(c01FieldNames)]
			switch x := r.Intn(100); {
			case x < 10:
				name = c01Pick(r, c01BadFieldNames)
			case x < 18 && len(names) > 0:
				name = names[r.Intn(len(names))] // duplicate field
			}
			names = append(names, name)
			fs = append(fs, name+" "+c01Type(r, depth+1))
		}
		sep := ", "
		if r.Intn(6) == 0 {
			sep = ",\n"
		}
		return "struct{" + strings.Join(fs, sep) + "}"
	}
}

func c01KeyType(r *rand.Rand, depth int) string {
	switch x := r.Intn(100); {
	case x < 60:
		return c01Pick(r, c01HashableTypes)
	case x < 80:
		return c01Pick(r, c01UnhashableTypes)
	default:
		return c01Type(r, depth)
	}
}

var c01Sizes = []string{"0", "1", "2", "3", "vInt", "$A", "$A", "-1", "\"2\"", "1.5"}

// c01TypedExpr writes one expression in which a type is spelled out: typed
// slice/map literals of any dimension, make/new in all their arities.
func c01TypedExpr(r *rand.Rand) string {
	t := c01Type(r, 0)
	n, m := c01Pick(r, c01Sizes), c01Pick(r, c01Sizes)
	switch r.Intn(17) {
	case 0:
		return "[]" + t + "{}"
	case 1:
		return "[]" + t + "{$A}"
	case 2:
		return "[]" + t + "{$A, $B}"
	case 3:
		return "[][]" + t + "{}"
	case 4:
		return "[][]" + t + "{$A}"
	case 5:
		return "[][][]" + t + "{[$A]}"
	case 6:
		return "map[" + c01KeyType(r, 1) + "]" + t + "{}"
	case 7:
		return "map[" + c01KeyType(r, 1) + "]" + t + "{$A: $B}"
	case 8:
		return "make(" + t + ")"
	case 9:
		return "make(" + t + ", " + n + ")"
	case 10:
		return "make(" + t + ", " + n + ", " + m + ")"
	case 11:
		return "make([]" + t + ", " + n + ")"
	case 12:
		return "make([]" + t + ", " + n + ", " + m + ")"
	case 13:
		return "new(" + t + ")"
	case 14:
		return "make(chan " + t + ", " + n + ")"
	case 15:
		return "make(map[" + c01KeyType(r, 1) + "]" + t + ")"
	default:
		return "make([]" + t + ", 1)[0]"
	}
}

var c01FuncBodies = []string{"", "", "return 1", "return a", "return [a, b]", "return len(a)", "a[0] = 1", "throw 1", "return fn", "return a...", "$A", "return $A", "a = 1; return a", "defer func(){ }()", "return func(...){ }"}

// c01FuncLit writes one function literal or declaration: 0..6 parameters (now and then hundreds), with
// duplicates, variadic with and without a named parameter, named and anonymous.
func c01FuncLit(r *rand.Rand) string {
	var b strings.Builder
	b.WriteString("func")
	if r.Intn(4) == 0 {
		b.WriteString(" fn")
	}
	b.WriteString("(")
	np := []int{0, 0, 0, 1, 1, 2, 3, 4, 5, 6}[r.Intn(10)]
	names := []string{"a", "b", "c", "d", "e", "f"}
	if r.Intn(25) == 0 {
		// a long parameter list (up to the hundreds)
		np = c01ManyParams(r)
		for len(names) < np {
			names = append(names, "p"+strconv.Itoa(len(names)))
		}
	}
	for i := 0; i < np; i++ {
		if i > 0 {
			b.WriteString(", ")
		}
		if i > 0 && r.Intn(10) == 0 && np <= 6 {
			b.WriteString(names[r.Intn(i)]) // duplicate parameter name
		} else {
			b.WriteString(names[i])
		}
	}
	if r.Intn(5) < 2 {
		if r.Intn(4) == 0 {
			b.WriteString(" ")
		}
		b.WriteString("...")
	}
	b.WriteString(") { ")
	b.WriteString(c01Pick(r, c01FuncBodies))
	b.WriteString(" }")
	return b.String()
}

var c01Mantissas = []string{"0", "1", "5", "12", "-1", "+3", "007", "0.5", "12.5", ".5", "5.", "0.000", "-0.0", "9999", "1.0", "3.00",
	"9223372036854775807", "9223372036854775808", "-9223372036854775808", "-9223372036854775809", "18446744073709551615", "18446744073709551616",
	"4611686018427387904.0", "9223372036854775807.5"}

var c01Exponents = []string{"", "", "", "e0", "e1", "E2", "e-1", "e+1", "e-2", "e18", "e19", "e30", "e-30", "e308", "e309", "e-323", "e-324", "e-400", "e400",
	"e2147483647", "e-2147483647", "e2147483648", "e-2147483648", "e-2147483649", "e-3000000000", "e3000000000", "e-4294967296", "E-99999999999999999999", "e99999999999999999999",
	"e-9223372036854775808", "e", "e-", "e+", "e1e1", "e1.5"}

var c01OddNumerals = []string{"Inf", "-inf", "+Infinity", "NaN", "nan", "0x10", "0x1p-2", "0x", "0b101", "0b", "0o7", "1_000", " 1", "1 ", "1\\n", "１２", "1e１", "--1", "+-1", "1..2", ".", "-", "+", "e5", ".e1", "0x1p-3000000000", "1e-0", "0e-3000000000", "0.0e99999999999999999999"}

// exponents of unquoted numerals: the value stays below 10^4 or leaves the int64 range
var c01SafeExponents = []string{"", "", "e0", "e1", "E2", "e-1", "e-2", "e30", "e-30", "e308", "e309", "e-323", "e-324", "e-400", "e400", "e2147483647", "e-2147483648", "e-2147483649",
	"e-3000000000", "e3000000000", "E-99999999999999999999", "e99999999999999999999", "e", "e-"}

var c01SafeMantissas = []string{"0", "1", "5", "12", "-1", "007", "0.5", "12.5", ".5", "5.", "0.000", "1.0"}

// c01NumeralText writes the text of a numeral. Integer numerals (which the VM
// accepts as a size or a repeat count, also from a string) are either below
// 10^4 or beyond the int64 range: allocation sizes in between are outside the
// guarantee. Quoted numerals with a fraction or an exponent never become a size;
// unquoted ones (safe=true) are float values, which the VM does truncate to a
// size, so their exponents keep the value below 10^4 or beyond the int64 range.
func c01NumeralText(r *rand.Rand, safe bool) string {
	switch x := r.Intn(100); {
	case x < 8 && !safe:
		return c01Pick(r, c01OddNumerals)
	case x < 14:
		// long digit strings (at least 20 digits: beyond the int64 range)
		d := strings.Repeat(string(rune('1'+r.Intn(9))), 20+r.Intn(400))
		switch r.Intn(4) {
		case 0:
			return d
		case 1:
			return "0." + strings.Repeat("0", 20+r.Intn(400)) + "1"
		case 2:
			return d + "." + d
		default:
			if safe {
				return d + "e" + d
			}
			return d + "e-" + d
		}
	}
	if safe {
		return c01Pick(r, c01SafeMantissas) + c01Pick(r, c01SafeExponents)
	}
	return c01Pick(r, c01Mantissas) + c01Pick(r, c01Exponents)
}

// c01Numeral writes a numeral operand: mostly a string holding a numeral (the
// VM compares and converts such strings numerically), sometimes a source literal.
func c01Numeral(r *rand.Rand) string {
	if r.Intn(4) == 0 {
		return c01NumeralText(r, true)
	}
	q := "\""
	if r.Intn(8) == 0 {
		q = "`"
	}
	return q + c01NumeralText(r, false) + q
}

// number-valued operands of every width a script can reach
var c01NumOperands = []string{"vInt", "vNeg", "vBig", "vMax", "0", "0", "1", "-1", "5", "12", "9223372036854775807", "-9223372036854775807 - 1", "len(vList)", "vStruct.A", "vTSlice[0]",
	"toInt(3)", "make(int32)", "make(int)", "make(uint64)", "make(uint)", "make(byte)", "make(rune)", "toByteSlice(\"a\")[0]", "toRuneSlice(\"a\")[0]", "gAdd(1, 2)", "toDuration(5)", "*vPtr",
	"1.0", "2.5", "vFloat", "make(float32)", "0.0", "1e-320", "true", "false"}

// operands whose value is nil with a non-empty interface as static type
var c01NilIfaceOperands = []string{"gNilErr()", "gErrOnly(nil)", "gErrOnly(vNil)", "gNilStr()"}

// Go functions over typed containers / pointers / channels / functions and their nil results
var c01HostOperands = []string{"gNilErr", "gErrOnly", "gNilStr", "gStr", "gStr()", "gErrOnly(1)", "gSl", "gMp", "gPt", "gCh", "gVarT", "gNilMap()", "gNilSl()", "gNilPtr()", "gNilFn()", "gNilCh()", "gFnRet()", "gCb", "gCbV", "toDuration(1)"}

var c01MethodOperands, c01ZeroOperands, c01ZeroMethodOperands []string

func init() {
	if !c01PendingFix_nilModule {
		// the type of a module, and whatever type "T" an earlier statement of the script defined
		c01BaseTypes = append(c01BaseTypes, "TMod", "TMod", "T")
		c01TypePrelude += "make(type TMod, vMod)\n"
	}
	if !c01PendingFix_nilIfaceStore {
		// the interface type error, whose zero value is a nil non-empty interface
		c01BaseTypes = append(c01BaseTypes, "TErr", "TErr")
		c01HashableTypes = append(c01HashableTypes, "TErr")
	}
	c01Operands = append(c01Operands, c01HostOperands...)
	for _, o := range c01Operands {
		c01MethodOperands = append(c01MethodOperands, o)
		if !(c01PendingFix_nilModule && strings.Contains(o, "vMod")) {
			c01ZeroOperands = append(c01ZeroOperands, o)
			c01ZeroMethodOperands = append(c01ZeroMethodOperands, o)
		}
	}
	if !c01PendingFix_nilIfaceStore {
		// the nil interface results join every general-purpose position
		c01Operands = append(c01Operands, c01NilIfaceOperands...)
		c01ZeroOperands = append(c01ZeroOperands, c01NilIfaceOperands...)
		if !c01PendingFix_nilIfaceMethod {
			c01MethodOperands = append(c01MethodOperands, c01NilIfaceOperands...)
			c01ZeroMethodOperands = append(c01ZeroMethodOperands, c01NilIfaceOperands...)
		}
	}
	c01Templates = append(c01Templates, c01NilIfaceTemplates...)
	if !c01PendingFix_nilIfaceMethod {
		c01Templates = append(c01Templates, "$J.Error()", "$J.String()", "$J.Error", "x = $J; x.String", "func(a) { return a.Error() }($J)", "make(type T, $J); x = make([]T, 1); x[0].Error()", "make(type T, $J); s = make(struct{A T}); s.A.String()")
	}
	c01Templates = append(c01Templates, c01ShapeTemplates...)
	c01Fixed = append(c01Fixed, c01ShapeFixed...)
	if !c01PendingFix_nilIfaceStore {
		c01SoupTokens = append(c01SoupTokens, "gNilErr", "TErr")
		c01Fixed = append(c01Fixed, "c = make(chan interface, 1); c <- gNilStr(); <- c", "m = {}; m.k = gNilErr(); m.k", "m = {}; m[gNilErr()] = 1; keys(m)[0]", "map[string]interface{\"k\": gNilErr()}.k", "{gNilErr(): gNilErr()}", "c = make(chan interface, 1); c <- []TErr{nil}[0]; [<- c]")
	}
	if !c01PendingFix_nilIfaceMethod {
		c01SoupTokens = append(c01SoupTokens, "Error", "String", ".Error()")
		c01Fixed = append(c01Fixed, "gNilErr().Error()", "x = gNilErr(); x.Error", "gNilStr().String()", "make(type T, gNilErr()); x = make([]T, 1); x[0].Error()")
	}
	if !c01PendingFix_nilModule {
		c01Fixed = append(c01Fixed, "make(type M, vMod); x = make([]M, 1)[0]", "make(type M, vMod); x = make([]M, 1); x[0].y", "make(type M, vMod); x = []M{nil}; x[0].y = 1",
			"make(type M, vMod); var x = make([]M, 1)[0]", "make(type M, vMod); x = new(M); *x = nil; y = *x", "make(type M, vMod); c = make(chan M, 1); c <- nil; (<- c).y", "make(type M, vMod); s = make(struct{A M}); s.A.y",
			"make(type M, vMod); for v in make([]M, 1) { make(v.Q) }", "make(type M, vMod); for v in make([]M, 1) { new(v.b.Q) }", "make(type M, vMod); for v in make([]M, 1) { w, z = v, 1 }")
	}
}

var c01HoleRe = regexp.MustCompile(`\$[A-Z]`)

// c01Hole fills one hole. $A $B $C: any operand (mostly the table, sometimes a
// generated function literal / numeral / typed expression, so that those reach
// every position of every production); $F function literal; $N numeral;
// $I number-valued operand; $T type; $K key type; $E typed expression;
// $J nil result of a Go function whose result type is a non-empty interface;
// $Y operand in front of a method-name member; $Z operand whose type is
// defined and zero-valued; $W both.
func c01Hole(r *rand.Rand, h string, depth int) string {
	switch h {
	case "$F":
		return c01FuncLit(r)
	case "$N":
		return c01Numeral(r)
	case "$I":
		return c01Pick(r, c01NumOperands)
	case "$T":
		return c01Type(r, 0)
	case "$K":
		return c01KeyType(r, 0)
	case "$E":
		return c01TypedExpr(r)
	case "$J":
		return c01Pick(r, c01NilIfaceOperands)
	case "$Y":
		return c01Pick(r, c01MethodOperands)
	case "$Z":
		return c01Pick(r, c01ZeroOperands)
	case "$W":
		return c01Pick(r, c01ZeroMethodOperands)
	}
	if s, ok := c01HoleR4(r, h); ok {
		return s
	}
	if s, ok := c01HoleR5(r, h); ok {
		return s
	}
	if depth < 2 && r.Intn(100) < 14 {
		switch x := r.Intn(10); {
		case x < 2:
			return c01FuncLit(r)
		case x < 5:
			return c01Numeral(r)
		default:
			return c01TypedExpr(r)
		}
	}
	return c01Operands[r.Intn(len(c01Operands))]
}

// every place a function literal, a numeral, a type can be written
var c01ShapeTemplates = []string{
	// function literals and declarations
	"$F", "$F", "$F()", "$F($A)", "$F($A, $B)", "$F($A...)", "$F($A, $B...)", "$F(...)", "go $F()", "go $F($A)", "go $F($A...)", "defer $F()", "defer $F($A)", "defer $F($A...)",
	"[$F]", "[$F, $F][1]($A)", "{\"k\": $F}", "{\"k\": $F}.k($A)", "x = $F", "x = $F; x($A)", "var x = $F; x($A, $B)", "x, y = $F, $F", "x = [$F, $F]; x[0]($A); x[1]($A...)",
	"if true { $F }", "if $F { }", "if false { } else { $F }", "for x in [1] { $F }", "for { $F; break }", "for i = 0; i < 2; i++ { $F }", "for x in $F { }",
	"try { $F } catch e { }", "try { throw 1 } catch e { $F } finally { $F }", "try { } finally { $F }", "switch 1 { case 1: $F }", "switch 1 { default: $F }", "switch $F { case $F: 1 }",
	"module mf { $F }", "module mf { $F }; mf.fn($A)", "module mf { x = $F }; mf.x($A)", "func outer() { $F }; outer()", "func outer() { return $F }; outer()($A)", "func outer(a) { return $F }; go outer(1)($A)",
	"gApply($F)", "gApply2($F, $A)", "gSort($A, $F)", "gCb($F)", "gCbV($F)", "gId($F)($A)", "gVar($F, $F)", "$F == $F", "$F + $A", "$A + $F", "len($F)", "$F.x", "$F.x = $A", "$F[$A]", "$F[$A] = $B", "$F[$A:$B]",
	"*$F", "&$F", "-$F", "!$F", "x = &$F; *x", "make(type TF, $F); make(TF)", "make(type TF, $F); x = make(TF); x($A)", "make(type TF, $F); x = make([]TF, 1)[0]; x($A)", "make(type TF, $F); go make(TF)($A)",
	"$F <- $A", "<- $F", "$A <- $F", "c = make(chan interface, 1); c <- $F; (<- c)($A)", "delete($F)", "close($F)", "keys($F)", "typeOf($F)", "kindOf($F)", "toString($F)", "defined($F)",
	"$A ? $F : $F", "$A ?? $F", "throw $F", "return $F", "$F in $A", "$A in [$F]", "x = $F; x++", "x = $F; x += $A", "vFunc($F)($A)", "vMod.f = $F; vMod.f($A)", "$F; fn($A)", "$F; go fn($A...)",
	// numerals: compared, converted, indexed with, counted with
	"$I == $N", "$N == $I", "$I != $N", "$N != $I", "$A == $N", "$N != $A", "$N == $N", "$I in [$N]", "$N in [$I, $A]", "$I in [$A, $N]", "$I in {$N: 1}", "$N in $A",
	"switch $I { case $N: 1 }", "switch $N { case $I: 1\ndefault: 2 }", "switch $I { case $A, $N: 1 }", "switch $A { case $N, $N: 1 }", "$I < $N", "$N >= $I", "$I + $N", "$N + $I", "$N * $I", "$I - $N", "$I / $N", "$I % $N",
	"$N << $I", "$I >> $N", "$I & $N", "$N | $I", "$I && $N", "toInt($N)", "toFloat($N)", "toString($N)", "toBool($N)", "toDuration($N)", "toChar($N)", "toRune($N)", "toIntSlice([$N])", "toFloatSlice([$N, $I])",
	"vList[$N]", "vList[$N] = 1", "vStr[$N:]", "vList[$N:$N]", "vTSlice[:$N]", "make([]int64, $N)", "make(chan int64, $N)", "vStr * $N", "$N * vStr", "x = $N; x++", "x = $I; x += $N", "x = $N; x--; x",
	"-$N", "^$N", "!$N", "$N ? 1 : 2", "{$N: 1}[$I]", "m = {}; m[$N] = 1; m[$I]", "m = {$I: 1}; m[$N]", "map[int64]string{$N: $N}", "map[string]int64{$N: $N}", "[]int64{$N}", "[]float64{$N, $I}", "[]string{$N, $I}",
	"gAdd($N, $I)", "gTyped($N, $N)", "gVarT($N, $I)", "gSl([$N])", "vTSlice[0] = $N", "vStruct.A = $N", "vTMap.k = $N", "vChan <- $N", "*vPtr = $N", "p = new(float64); *p = $N", "for i = $N; i < 2; i++ { break }", "if $I == $N { 1 } else { 2 }",
	"func(a) { return a == $N }($I)", "for x in [$I, $A] { if x == $N { break } }", "delete(vMap, $N)", "vMap[$N]", "x = $N; x[0]", "len($N)", "$N[$I]", "$N[$I:$I]", "for c in $N { }",
	// types in every position a type can be written
	"[]$T{}", "[]$T{$A}", "[]$T{$A, $B}", "[][]$T{}", "[][]$T{$A}", "[][][]$T{[$A]}", "[]$T{\n$A,\n}", "map[$K]$T{}", "map[$K]$T{$A: $B}", "map[$T]$T{$A: $B, $B: $C}", "make($T)", "make($T, $A)", "make($T, $A, $B)", "new($T)",
	"make([]$T, $A)", "make([]$T, 1)[0]", "make([]$T, 1, 2)", "make([][]$T, 2)[1]", "make(chan $T, $A)", "make(chan $T)", "make(map[$K]$T)", "make(map[$T]$T)", "make(*$T)", "make(struct{A $T, B $T})", "make(struct{A $T, a $T})", "make(struct{A $T, A $T})",
	"new(struct{A $T})", "new([]$T)", "new(map[$K]$T)", "new(chan $T)", "new(*$T)", "x = make($T); x.A = $A; x", "x = make($T); x.A.B = $A", "x = new($T); *x = $A; *x", "x = make([]$T, 2); x[0] = $A; x[1]", "x = []$T{$A}; x += $B; x", "x = []$T{}; x[0] = $A; x",
	"x = make(map[$K]$T); x[$A] = $B; x[$A]", "x = make(map[$K]$T); x.k = $A; delete(x, \"k\")", "c = make(chan $T, 1); c <- $A; <- c", "c = make(chan $T, 1); c <- $A; close(c); for v in c { v }", "make(type X, make($T)); []X{$A}", "make(type X, make($T)); make(X)",
	"make(type X, make($T)); new(X)", "make(type X, make($T)); make([]X, 1)[0]", "make(type X, $E); make([]X, 1)[0]", "make(type X, new($T)); make(map[X]X)", "make(type X, make($T)); make(chan X, 1)", "make(type X, $E); map[X]X{$A: $B}", "make(type X, $E); make(struct{A X, B []X})",
	"func(a) { return []$T{a} }($A)", "func() { return make($T) }()", "go func() { []$T{} }()", "go func() { make($T) }()", "defer func() { new($T) }()", "for v in []$T{$A, $B} { v }", "for k, v in map[$K]$T{$A: $B} { k }", "len([]$T{$A})", "[]$T{$A}[0]", "[]$T{$A}[0].A",
	"[]$T{$A}[0] = $B", "map[$K]$T{$A: $B}[$A]", "map[$K]$T{$A: $B}.k", "gId([]$T{})", "gSl([]$T{$A})", "gMp(map[$K]$T{$A: $B})", "gPt(new($T))", "gCh(make(chan $T))", "gVarT([]$T{$A}...)", "vFunc5([]$T{$A, $B}...)", "gCb(func(a, m) { return []$T{$A} })",
	"x = $E; x.A = $A", "x = $E; x[0] = $A; x", "x = $E; x[$A] = $B", "x = $E; x.A[0] = $A", "x = $E; x <- $A", "x = $E; *x = $A", "x = $E; x += $A", "x = $E; x[$A:$B]", "x = $E; x()", "x = $E; x.A()", "for k, v in $E { }", "$E == $E", "{$E: 1}", "$E in $E", "len($E)", "*$E", "<- $E",
	"keys($E)", "toString($E)", "typeOf($E)", "gId($E)", "vFunc($E)", "vFuncV($E...)", "delete($E, $A)", "close($E)", "$E + $E", "[$E, $E]", "x = [$E]; x[0][0] = $A", "x, y = $E", "var x, y = $E", "vStruct.C = $E", "vNStruct.M = $E", "vNStruct.S = $E", "vTSlice = $E", "vNMap[0] = $E", "*vPtr = $E",
	"module mt { make(type Q, $E) }; make(mt.Q)", "module mt { make(type Q, $E) }; []mt.Q{$A}", "module mt { make(type Q, $E) }; make(map[mt.Q]mt.Q)", "make(vMod.$T)", "make(type int64, $A); make(int64)", "make(type T, $A); make(map[T]T)", "make(type T, $A); make(chan T, 1)", "make(type T, $A); make(struct{A T})",
	// element sizes that grow through defined types: chan / slice / map of a large struct (kilobytes, not an allocation problem)
	"make(type S1, make(struct{A int64, B int64, C int64, D int64})); make(type S2, make(struct{A S1, B S1, C S1, D S1})); make(type S3, make(struct{A S2, B S2, C S2, D S2})); make(type S4, make(struct{A S3, B S3, C S3, D S3})); make(type S5, make(struct{A S4, B S4, C S4, D S4})); make(type S6, make(struct{A S5, B S5, C S5, D S5})); make(type S7, make(struct{A S6, B S6, C S6, D S6})); c = make(chan S7, 1); c <- make(S7); x = <- c; m = make(map[S7]S7); m[x] = x; s = make([]S7, 1); s[0] = x; [][]S7{s}; new(S7); make(chan S6); map[string]S7{\"k\": x}",
	// zero values of defined types: the type of any value, then its zero value used in every way
	"make(type T, $Z); x = make([]T, 1)[0]; x", "make(type T, $Z); x = make([]T, 1)[0]; x.y", "make(type T, $Z); x = make([]T, 1)[0]; x.y = $A", "make(type T, $Z); x = make([]T, 1)[0]; x()", "make(type T, $Z); x = make([]T, 1)[0]; x($A)", "make(type T, $Z); x = make([]T, 1)[0]; go x()",
	"make(type T, $Z); var x = make([]T, 1)[0]; x[0]", "make(type T, $Z); x, y = make([]T, 1)[0], 1; x[0] = 1", "make(type T, $Z); x = make([]T, 1); x[0].y; x[0].y = $A; x[0]()", "make(type T, $Z); x = []T{nil}; x[0].y; x[0].y = 1", "make(type T, $Z); x = make([]T, 1)[0]; for a in x { }", "make(type T, $Z); x = make([]T, 1)[0]; *x",
	"make(type T, $Z); x = make([]T, 1)[0]; *x = $A", "make(type T, $Z); x = make([]T, 1)[0]; x <- 1", "make(type T, $Z); x = make([]T, 1)[0]; x + $A", "make(type T, $Z); x = make([]T, 1)[0]; x == $A", "make(type T, $Z); x = make([]T, 1)[0]; len(x)", "make(type T, $Z); x = make([]T, 1)[0]; make(x.y)", "make(type T, $Z); x = make([]T, 1)[0]; make(type U, x); make(U)",
	"make(type T, $Z); x = new(T); *x", "make(type T, $Z); x = new(T); *x = nil; y = *x; y.y", "make(type T, $Z); x = new(T); (*x).y", "make(type T, $Z); s = make(struct{A T}); s.A.y; s.A = $A", "make(type T, $Z); s = make(struct{A T}); y = s.A; y()", "make(type T, $Z); m = make(map[string]T); m.k = nil; m.k.y", "make(type T, $Z); c = make(chan T, 1); c <- nil; (<- c).y",
	"make(type T, $Z); c = make(chan T, 1); c <- nil; y = <- c; y.y = 1", "make(type T, $Z); for v in make([]T, 2) { v.y; v() }", "make(type T, $Z); for v in make([]T, 2) { w = v }", "make(type T, $Z); func(a) { a.y }(make([]T, 1)[0])", "make(type T, $Z); func(a) { b = a; return b }(make([]T, 1)[0])", "make(type T, $Z); gId(make([]T, 1)[0]).y", "make(type T, $Z); x = make(T); x.y; x()", "make(type T, $Z); x = make(T); y = x; y.y = $A",
	"make(type T, $Z); for v in make([]T, 1) { make(v.Q) }", "make(type T, $Z); for v in make([]T, 1) { new(v.b.Q) }", "make(type T, $Z); for v in []T{nil} { []v.Q{} }", "make(type T, $Z); for v in make([]T, 1) { map[v.Q]v.Q{} }", "make(type T, $Z); for v in make([]T, 1) { v.y(); v.y++ }",
	"make(type T, $Z); for v in make([]T, 1) { w, z = v, 1; var u = v }", "make(type T, $Z); for v in make([]T, 1) { v.y.z = $A }", "make(type T, $Z); for k, v in map[string]T{\"k\": nil} { v.y; make(v.Q) }",
	"make(type T, $Z); x = make(*T); y = *x; y.y", "make(type T, $Z); x = make([]*T, 1)[0]; x.y", "make(type T, $Z); x = [make([]T, 1)[0]]; y = x[0]; y.y",
	"make(type T, $W); x = make([]T, 1)[0]; x.Error()", "make(type T, $W); x = make([]T, 1)[0]; x.String()", "make(type T, $W); x = make([]T, 1); x[0].Error", "make(type T, $W); s = make(struct{A T}); s.A.String", "make(type T, $W); x = make([]*T, 1)[0]; x.String()", "make(type T, $W); for v in make([]T, 2) { v.Error() }", "make(type T, $W); x = make(T); x.Error(); x.String()",
	// members that are Go methods (errors, durations) and Go functions over typed values
	"$Y.Error()", "$Y.String()", "$Y.Error", "$Y.String", "x = $Y; x.Error()", "x = $Y; x.String", "x = $Y; x.Error().x", "try { throw $Y } catch e { e.Error() }", "try { $A } catch e { e.Error(); e.Error }", "try { $A } catch e { e.Error = 1 }", "[$Y][0].Error()", "{\"k\": $Y}.k.String()",
	"func(a) { return a.Error() }($Y)", "go func(a) { a.Error() }($Y)", "defer $Y.Error()", "go $Y.String()", "$Y.Hours()", "$Y.Error = $A", "$Y.String += 1", "$Y.Error($A)", "$Y.String($A...)", "x = $Y.Error; x()", "x = [$Y.String]; x[0]()", "for x in [$Y] { x.Error() }", "vList[0] = $Y; vList[0].Error()", "vIStruct.A = $Y; vIStruct.A.Error()",
	"gErrOnly($A)", "gErrOnly($A) == nil", "x = gErrOnly($A); x", "gSl($A)", "gMp($A)", "gPt($A)", "*gPt($A)", "gCh($A)", "gVarT($A, $B)", "gVarT($A...)", "gVarT($A, $B...)", "gCb($A)", "gCbV($A)", "gCb(func(a, m) { return $A })", "gCb(func(a, m) { m.x = 1; a[5] = 1; return [] })", "gCbV(func(a...) { return $A })",
	"gFnRet()($A)", "gFnRet()($A...)", "go gFnRet()($A)", "gNilFn()($A)", "go gNilFn()($A)", "defer gNilFn()($A)", "x = gNilMap(); x[$A] = $B; x", "x = gNilSl(); x[$A] = $B; x", "x = gNilSl(); x += $A", "x = gNilPtr(); *x = $A", "go gSl($A...)", "go gVarT($A...)", "defer gMp($A)", "go gErrOnly($A)",
}

// nil values of non-empty interface types (Go functions declared to return
// error / an interface with methods that return nil) in every production that
// neither sends them into a channel nor stores them into a map
var c01NilIfaceTemplates = []string{
	"$J", "$J == nil", "$J != $A", "$A == $J", "$J + 1", "$A + $J", "$J()", "$J($A)", "*$J", "*$J = 1", "$J[0]", "$J[0] = 1", "$J[1:2]", "for x in $J { }", "len($J)", "$J.x", "$J.x = 1", "x = $J; x", "var x = $J; x == nil",
	"[$J]", "[$J, $J][1]", "a = [1]; a[0] = $J; a", "a = []; a += $J; a", "a = [$J]; a += [$J]; a", "gId($J)", "vFunc($J)", "vFuncV($J, $J)", "vFunc5($J, 1, 2, 3, $J)", "gErrOnly($J)", "gVar($J, $J)", "gTyped($J, $J)", "gSl($J)", "gApply($J)",
	"$J in [nil]", "nil in [$J]", "$J in $J", "switch $J { case nil: 1 }", "switch nil { case $J: 1 }", "make(type T, $J); make(T)", "make(type T, $J); make([]T, 1)[0]", "make(type T, $J); new(T)", "make(type T, $J); []T{nil, $J}", "make(type T, $J); x = make([]T, 2); x[0] = $J; x",
	"make(type T, $J); s = make(struct{A T, B interface}); s.A = $J; s.B = $J; s", "make(type T, $J); func(a) { return []T{a} }($J)", "throw $J", "try { throw $J } catch e { e }", "return $J", "return $J, $J", "if $J { }", "for $J { break }", "$J ? 1 : 2", "$J ?? 1", "!$J", "-$J", "^$J", "&$J",
	"toString($J)", "typeOf($J)", "kindOf($J)", "toBool($J)", "toInt($J)", "keys($J)", "s = make(struct{A interface}); s.A = $J; s", "p = new(interface); *p = $J; *p", "p = &$J; *p", "go vFunc($J)", "defer vFunc($J)", "go $J()", "defer $J()", "func() { return $J }()", "x, y = $J, $J; [x, y]",
	"$J <- 1", "<- $J", "close($J)", "delete($J, 1)", "x = $J; x++", "x = $J; x += 1", "vList[0] = $J; vList", "vIStruct.A = $J; vIStruct", "vStruct.A = $J", "vTSlice[0] = $J", "*vPtr = $J", "module mj { x = $J }; mj.x", "func f(a...) { return a }; f($J, $J)", "vFuncV([$J]...)",
}

// representative inputs of the generated classes, run once in case 0 (the
// classes themselves are generated; these keep one of each in every run)
var c01ShapeFixed = []string{
	"func(...) { }", "func fn(...) { }", "go func(...) { }()", "defer func(...) { }()", "[func(...) { }]", "if true { func(...) { return 1 } }", "x = func(...) { }; x(1, 2)", "func(a, a) { }(1, 2)", "func(a, b, c, d, e, f...) { return f }(1)",
	"5 == \"1e-3000000000\"", "5 != \"12.5E-99999999999999999999\"", "0 in [\"1e-3000000000\"]", "switch 5 { case \"1e-2147483649\": 1 }", "5 == \"1e3000000000\"", "1 == \"0.1e1\"", "1e-3000000000", "5 == \"0x1p-3000000000\"",
	"[]map[[]string]string{}", "[]struct{a int64}{}", "[][]struct{A int64, A string}{}", "[]map[string]map[map[string]int64]int64{}", "[]chan struct{_ int64}{}", "[]*map[TFunc]int64{nil}", "map[[]string]string{}", "make(map[[]string]string)", "new(struct{a int64})", "make([]struct{A int64, A int64}, 1)", "make(chan map[TList]int64, 1)",
	"make(type X, make(struct{a int64}))", "[]TErr{nil}[0]", "x = make([]TErr, 1); x[0] = gNilErr(); x", "make([]TErr, 1)[0] == nil", "gNilErr()", "gNilErr() == nil", "x = gNilErr(); x.x", "gNilStr()", "gNilFn()(1)", "go gNilFn()(1)",
}

var c01RangeExpRe = regexp.MustCompile(`[0-9.][eEpP][+-]?[0-9]+`)
var c01RangeDigitsRe = regexp.MustCompile(`[0-9]{5,}`)

// c01ContainNumerals keeps generated numerals small where they could become the
// span of range(): an astronomically large span exhausts memory inside one host
// call, which is outside the guarantee.
func c01ContainNumerals(src string) string {
	src = c01RangeExpRe.ReplaceAllStringFunc(src, func(m string) string { return m[:1] })
	return c01RangeDigitsRe.ReplaceAllString(src, "7")
}

// ---- observation point: the host keeps the returned value while its stack moves ----
//
// A value handed back to the host must be a sound Go value: the runtime checks
// every pointer word of a stack frame whenever it moves that stack (growth,
// shrinking during GC) and ends the process with "fatal error: invalid pointer
// found on stack" when a word is junk. c01HoldResult does what any embedder may
// do with the result - keep it (and the nil interface values reachable in it) in
// local variables of a goroutine whose stack then grows - so that a corrupted
// value kills the worker deterministically, with this input in flight, instead
// of once in millions of runs at an unrelated place. A sound value costs one
// goroutine and one stack copy. (If the runtime happens to start the goroutine
// with a stack larger than the big frame, nothing moves and nothing is learnt.)
func c01HoldResult(val interface{}) {
	held := make([]interface{}, 1, 8)
	held[0] = val
	budget := 200
	c01CollectNilIfaces(reflect.ValueOf(val), 0, &held, &budget)
	done := make(chan struct{})
	go func() {
		defer close(done)
		c01HoldAcrossGrowth(held)
	}()
	<-done
}

var c01SinkIdx int

//go:noinline
func c01HoldAcrossGrowth(vals []interface{}) {
	var loc [8]interface{} // local pointer slots of this frame
	copy(loc[:], vals)
	c01BigFrame(c01SinkIdx)
	runtime.KeepAlive(loc[c01SinkIdx&7]) // loc is read after the call: its slots are live while the stack moves
}

//go:noinline
func c01BigFrame(i int) byte {
	var pad [192 << 10]byte
	pad[i&1023] = 1
	return pad[(i+1)&1023]
}

// c01CollectNilIfaces walks the result (bounded in depth and nodes, so cycles
// are harmless) and copies the nil interface values it finds out of their
// containers: map elements, channel buffers and slices live on the heap, where
// nobody validates them until they are copied into a frame like this.
func c01CollectNilIfaces(v reflect.Value, depth int, held *[]interface{}, budget *int) {
	if !v.IsValid() || depth > 4 || *budget <= 0 || len(*held) >= cap(*held) {
		return
	}
	*budget--
	switch v.Kind() {
	case reflect.Interface:
		if v.IsNil() {
			if v.CanInterface() {
				*held = append(*held, v.Interface())
			}
			return
		}
		c01CollectNilIfaces(v.Elem(), depth+1, held, budget)
	case reflect.Ptr:
		if !v.IsNil() {
			c01CollectNilIfaces(v.Elem(), depth+1, held, budget)
		}
	case reflect.Slice, reflect.Array:
		for i := 0; i < v.Len() && i < 16; i++ {
			c01CollectNilIfaces(v.Index(i), depth+1, held, budget)
		}
	case reflect.Map:
		it := v.MapRange()
		for n := 0; n < 16 && it.Next(); n++ {
			c01CollectNilIfaces(it.Key(), depth+1, held, budget)
			c01CollectNilIfaces(it.Value(), depth+1, held, budget)
		}
	case reflect.Struct:
		for i := 0; i < v.NumField() && i < 16; i++ {
			if v.Type().Field(i).PkgPath == "" {
				c01CollectNilIfaces(v.Field(i), depth+1, held, budget)
			}
		}
	}
}
