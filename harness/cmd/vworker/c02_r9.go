package main

// C02, two further phases (same oracle as everywhere in C02: return, error text "execution
// interrupted", probe budget, goroutine-state classification of a call that does not return).
//
//   - gohost: every core (bare and under the stateless wrappers) is preceded by `go` statements whose
//     callee is a HOST function: one that returns, one that panics, builtins called with arguments
//     they fail on, a host function that keeps calling a script callback (ticker / poller shape) and
//     is inside that callback, or between two calls of it, when the cancellation arrives, a host
//     function that calls a callback which throws. Whatever becomes of those goroutines, the
//     cancellation has to end the call.
//   - shared: G = 2..8 host goroutines run one core each (separate environments, separate trees,
//     some with script goroutines of their own) under ONE shared cancellable context - a standard
//     one, or a host type wrapping one whose Done() takes 1-5 ms - and are released together by a
//     barrier host function so that their first channel operations / polls overlap; after cancel()
//     EVERY call must return with "execution interrupted" within its budget. Each call is judged
//     by itself; a watchdog alone decides nothing.

import (
	"context"
	"fmt"
	"runtime"
	"strings"
	"sync"
	"sync/atomic"
	"time"

	"github.com/mattn/anko/env"

	"verifharness/internal/ank"
	"verifharness/internal/fw"
	"verifharness/internal/wk"
)

const c02R9Rule = " Further phases (c02_r9.go, same oracle): " +
	"phase gohost: every core of the main table that does not cancel itself and the round-8 cores, bare and under every stateless wrapper once, preceded by 1-4 `go` statements with a HOST callee out of: a function that returns, a function that panics (with an error, with a string), builtins called so that they fail (keys(1), keys(\"s\"), typeOf(nil)), a host function that writes to a nil map, a host function that calls a script callback once, one that calls a throwing callback, a ticker-shaped host function that calls a script callback again and again until the callback fails (so that the cancellation arrives inside the callback or between two calls), the same through the reflect call path (six arguments, variadic); the goroutines are given time to end (or to be inside their callback) before the cancel; cancelled by the k-th probe or once the core is announced. " +
	"phase shared: G = 2..8 host goroutines call vm.ExecuteContext at the same time with ONE context value (WithCancel, WithCancel below WithValue, a child cancelled through its parent, or a host type that wraps one of these and whose Done() sleeps 1-5 ms) on separate environments and separately parsed trees; each runs one blocked or spinning core (some with 1-3 script goroutines that block too) and calls the host function barrier() immediately before the core, which lets all of them go on together (or after 200 ms); the context is cancelled 0-3 ms later; 12 (thorough 40) trials per case, every call of every trial judged."

var c02R9Assumptions = []string{
	"phase gohost: goroutines whose callee is a host function are outside the bound only while they are inside that host function; what they do or how they end (return, panic captured by the interpreter) must not keep the call from returning after the cancel; callbacks invoked by such a host function are script code: at most one probe event per callback goroutine after the cancel",
	"phase shared: the statement is per call: sharing one context between calls is ordinary use (one request context, several scripts); a context type supplied by the host may take its time in Done() - that time is host code, so a call is given 4 s plus the CPU budget as everywhere; what is judged is that no call stays parked in vm frames / keeps running after the cancel",
}

func c02R9Phases(tier string) []fw.Phase {
	nGo, nShared := len(c02R8RerunCores())+len(c02R8WrapperNames), 12
	if tier == "thorough" {
		nGo, nShared = 12*nGo, 200
	}
	return []fw.Phase{
		{Name: "gohost", Cases: nGo, Chunk: 6, TimeoutS: 900},
		{Name: "shared", Cases: nShared, Chunk: 2, TimeoutS: 900, Jobs: 4},
	}
}

func c02R9Run(c *wk.Case) bool {
	switch c.Phase {
	case "gohost":
		c02R9GoHost(c)
	case "shared":
		c02R9Shared(c)
	default:
		return false
	}
	return true
}

// ---------------------------------------------------------------------------
// phase gohost

var c02R9GoStmts = []struct {
	name, stmt string
	callback   bool // a script callback may be running when the cancel lands: one probe more
}{
	{"returns", "go hret(1)", false},
	{"panics-with-error", "go hpanicE()", false},
	{"panics-with-string", "go hpanicS(1, 2)", false},
	{"builtin-keys-of-number", "go keys(1)", false},
	{"builtin-typeOf-nil", "go typeOf(nil)", false},
	{"builtin-keys-of-string", "go keys(\"s\")", false},
	{"host-nil-map-write", "go hnilmap(1)", false},
	{"callback-once", "go honce(func() { gx = 1 })", false},
	{"callback-throws", "go honce(func() { throw \"from callback\" })", false},
	{"ticker-callback", "go hevery(func() { gy = 1 })", true},
	{"ticker-callback-with-probe", "go hevery(func() { tick() })", true},
	{"ticker-callback-blocks", "go hevery(func() { <- never })", true},
	{"ticker-reflect-path-6", "go hevery6(func() { gz = 1 }, 2, 3, 4, 5, 6)", true},
	{"ticker-variadic", "go heveryV(func() { gv = 1 }, func() { gw = 1 })", true},
	{"ticker-through-script-function", "func gst() { hevery(func() { gu = 1 }) }\ngo gst()", true},
}

func c02R9BindHost(e *env.Env, stop <-chan struct{}, inCallback *int64) {
	e.Define("hret", func(a int64) int64 { return a })
	e.Define("hpanicE", func() { panic(fmt.Errorf("host function failed")) })
	e.Define("hpanicS", func(a, b int64) { panic("host function failed") })
	e.Define("hnilmap", func(a int64) { var m map[int64]int64; m[a] = a })
	e.Define("honce", func(f func()) { f() })
	every := func(fs ...func()) {
		// ticker / poller shape: calls its callbacks until one of them fails (the panic of the adapter
		// unwinds this function) or the case is over
		for {
			for _, f := range fs {
				atomic.AddInt64(inCallback, 1)
				f()
			}
			select {
			case <-stop:
				return
			default:
				runtime.Gosched()
			}
		}
	}
	e.Define("hevery", func(f func()) { every(f) })
	e.Define("hevery6", func(f func(), a, b, c, d, g int64) { every(f) })
	e.Define("heveryV", func(fs ...func()) { every(fs...) })
}

func c02R9GoHost(c *wk.Case) {
	cores := c02R8RerunCores()
	ws := c02R8Wrappers()
	per := len(cores) + len(ws)
	slot, round := c.Index%per, c.Index/per
	var core c02Core
	var wrappers []int
	trailing := c.Rng.Intn(2) == 0
	if slot < len(cores) {
		core = cores[slot]
		if round > 0 && c.Rng.Intn(2) == 0 {
			wrappers = []int{ws[c.Rng.Intn(len(ws))]}
		}
	} else {
		wrappers = []int{ws[slot-len(cores)]}
		core = cores[((slot-len(cores))*5+round+int(c.W.Seed))%len(cores)]
	}
	syncMode := !core.blocked && core.ticks > 0
	n := 1 + c.Rng.Intn(4)
	var names []string
	prefix, extra := "", int64(0)
	for i := 0; i < n; i++ {
		g := c02R9GoStmts[(c.Index+i*4+c.Rng.Intn(3))%len(c02R9GoStmts)]
		names = append(names, g.name)
		prefix += g.stmt + "\n"
		if g.callback {
			extra += 2
		}
	}
	// hsettle(): a host call that gives the goroutines a moment to end / to get into their callbacks
	src := prefix + "hsettle()\n" + c02R8Program(core, wrappers, trailing, !syncMode)
	kind := "spin"
	if core.blocked {
		kind = "blocked"
	}
	wname := "none"
	if len(wrappers) > 0 {
		wname = c02Wrappers[wrappers[0]].name
	}
	ctx, cancel, cname := c02R8Context(c.Rng.Intn(8))
	defer cancel()
	k := int64(0)
	if syncMode {
		k = int64(1 + c.Rng.Intn(40))
	}
	p := c02R8NewProbe(cancel, k)
	e := c02R8Bind(c02R8Root(), p)
	stop := make(chan struct{})
	defer close(stop)
	var inCallback int64
	c02R9BindHost(e, stop, &inCallback)
	e.Define("hsettle", func() {
		for i := 0; i < 40; i++ {
			time.Sleep(50 * time.Microsecond)
		}
	})
	s := &c02R8Spec{phase: "gohost", form: strings.Join(names[:1], "+") + ":" + core.name + "<" + wname, kind: kind, src: src, env: e, p: p, ctx: ctx, sync: syncMode,
		desc:   fmt.Sprintf("gohost:%s:%s<%s>:%s:k%d", strings.Join(names, "+"), core.name, wname, cname, k),
		budget: c02R8Budget(core, wrappers) + extra, settle: true, delay: time.Duration(c.Rng.Intn(500)) * time.Microsecond}
	r := c02R8Exec(c, s)
	for _, nm := range names {
		c.Tag("gohost:" + nm)
	}
	c.Count("gohost_callback_invocations", int(atomic.LoadInt64(&inCallback)))
	if r == "stuck" {
		c.Bail()
	}
}

// ---------------------------------------------------------------------------
// phase shared

// c02SlowCtx: a context type of the host whose Done() takes its time
type c02SlowCtx struct {
	context.Context
	d time.Duration
}

func (s c02SlowCtx) Done() <-chan struct{} {
	time.Sleep(s.d)
	return s.Context.Done()
}

var c02R9SharedCores = []c02Core{
	{name: "recv-expr", src: "<- sch", blocked: true, setup: "sch = make(chan int64)"},
	{name: "recv-stmt", src: "v = <- sch", blocked: true, setup: "sch = make(chan int64)"},
	{name: "recv-stmt-ok", src: "v, ok = <- sch", blocked: true, setup: "sch = make(chan interface)"},
	{name: "send-unbuffered", src: "sch <- 1", blocked: true, setup: "sch = make(chan int64)"},
	{name: "send-full-buffer", src: "sch <- 2", blocked: true, setup: "sch = make(chan interface, 1)\nsch <- 1"},
	{name: "range-chan", src: "for v in sch { tick() }", blocked: true, setup: "sch = make(chan int64)"},
	{name: "forward", src: "sout <- sch", blocked: true, setup: "sch = make(chan int64)\nsout = make(chan int64)"},
	{name: "recv-in-function-6", src: "func rf(a, b, c, d, e, f) { return <- a }\nrf(sch, 2, 3, 4, 5, 6)", blocked: true, setup: "sch = make(chan int64)"},
	{name: "recv-host-channel", src: "v = <- never", blocked: true},
	{name: "loop-forever", src: "for { tick() }", ticks: 1},
	{name: "recursion-1", src: "func rec(a) { tick(); rec(a) }\nrec(1)", ticks: 1},
	{name: "loop-tickless", src: "for { }"},
	{name: "spin-try-inside", src: "for { try { tick(); throw 1 } catch e { } }", ticks: 1},
}

// script goroutines of a call that block too; they pass the barrier like the main flow
var c02R9SharedGoroutines = []string{
	"go func() { barrier(); <- sgc }()",
	"go func(a) { barrier(); sgc <- a }(1)",
	"go func() { barrier(); for v in sgc { } }()",
	"go func() { barrier(); v, ok = <- sgc }()",
}

func c02R9Shared(c *wk.Case) {
	trials := 12
	if c.Tier == "thorough" {
		trials = 40
	}
	ws := c02R8Wrappers()
	for trial := 0; trial < trials; trial++ {
		g := 2 + c.Rng.Intn(7)
		base, cancel, cname := c02R8Context(c.Rng.Intn(5))
		if cname == "WithTimeout(1h)" {
			base, cancel, cname = c02R8Context(0)
		}
		var ctx context.Context = base
		reach := time.Duration(0) // time the calls need from the barrier to their cores
		if (c.Index+trial)%2 == 0 {
			d := time.Duration(1+c.Rng.Intn(5)) * time.Millisecond
			// every statement poll of every call asks the context: a handful of them lie between the
			// barrier and the core
			reach = 8 * d
			ctx = c02SlowCtx{base, d}
			cname = fmt.Sprintf("host-type(Done takes %v) around %s", d, cname)
		}
		// the barrier: everybody waits until all g main flows have arrived (or 200 ms have passed)
		var arrived int64
		gate := make(chan struct{})
		var gateOnce sync.Once
		barrier := func(main bool) {
			if main && atomic.AddInt64(&arrived, 1) >= int64(g) {
				gateOnce.Do(func() { close(gate) })
			}
			select {
			case <-gate:
			case <-time.After(200 * time.Millisecond):
			}
		}
		type call struct {
			s    *c02R8Spec
			o    ank.Out
			done chan struct{}
			core c02Core
		}
		calls := make([]*call, g)
		var descs []string
		for i := range calls {
			core := c02R9SharedCores[c.Rng.Intn(len(c02R9SharedCores))]
			var wrappers []int
			if c.Rng.Intn(4) == 0 {
				wrappers = []int{ws[c.Rng.Intn(len(ws))]}
			}
			inner := core
			inner.src = "barrier()\n" + core.src
			src := c02R8Program(inner, wrappers, c.Rng.Intn(2) == 0, false)
			if n := c.Rng.Intn(4); n > 0 && c.Rng.Intn(2) == 0 {
				pre := "sgc = make(chan int64)\n"
				for j := 0; j < n; j++ {
					pre += c02R9SharedGoroutines[c.Rng.Intn(len(c02R9SharedGoroutines))] + "\n"
				}
				src = pre + src
			}
			p := c02R8NewProbe(func() {}, 0)
			e := c02R8Bind(c02R8Root(), p)
			first := int32(0)
			e.Define("barrier", func() { barrier(atomic.CompareAndSwapInt32(&first, 0, 1)) })
			kind := "spin"
			if core.blocked {
				kind = "blocked"
			}
			wname := "none"
			if len(wrappers) > 0 {
				wname = c02Wrappers[wrappers[0]].name
			}
			calls[i] = &call{core: core, done: make(chan struct{}), s: &c02R8Spec{phase: "shared", form: core.name + "<" + wname, kind: kind, src: src, env: e, p: p, ctx: ctx,
				budget: c02R8Budget(core, wrappers) + 4}}
			descs = append(descs, core.name+"<"+wname)
		}
		desc := fmt.Sprintf("shared:%d-calls:%s:[%s]", g, cname, strings.Join(descs, ","))
		input := func(i int) map[string]interface{} {
			return map[string]interface{}{"case": desc, "call": i, "program_of_this_call": calls[i].s.src, "context_shared_by_all_calls": cname}
		}
		c.Begin(map[string]interface{}{"case": desc})
		for _, cl := range calls {
			cl := cl
			go func() {
				cl.o = c02R8Call(cl.s)
				close(cl.done)
			}()
		}
		// all at their cores (or the barrier gave up waiting), then the cancel
		select {
		case <-gate:
		case <-time.After(2 * time.Second):
		}
		time.Sleep(reach + time.Duration(c.Rng.Intn(3000))*time.Microsecond)
		cancel()
		for _, cl := range calls {
			atomic.StoreInt32(&cl.s.p.cancelled, 1)
		}
		cpu0 := procCPU()
		deadline := make(chan struct{})
		dt := time.AfterFunc(4*time.Second, func() { close(deadline) })
		pending := 0
		for _, cl := range calls {
			select {
			case <-cl.done:
			case <-deadline:
				pending++
			}
		}
		dt.Stop()
		stuck := false
		if pending > 0 {
			// wait on while the process still burns CPU below the budget; then classify
			for i := 0; i < 100 && procCPU()-cpu0 < 3.0; i++ {
				n := 0
				for _, cl := range calls {
					select {
					case <-cl.done:
					default:
						n++
					}
				}
				if pending = n; n == 0 {
					break
				}
				s1 := c02R9States(c02R8Stacks())
				time.Sleep(300 * time.Millisecond)
				s2 := c02R9States(c02R8Stacks())
				if s1["parked-in-vm"] >= n && s2["parked-in-vm"] >= n {
					break
				}
			}
		}
		if pending > 0 {
			s1 := c02R9States(c02R8Stacks())
			time.Sleep(300 * time.Millisecond)
			s2 := c02R9States(c02R8Stacks())
			burn := procCPU() - cpu0
			for i, cl := range calls {
				select {
				case <-cl.done:
					continue
				default:
				}
				detail := fmt.Sprintf("call %d of %d under one shared context had not returned after cancel() returned (the others: %d returned); states of the interpreter goroutines still inside vm.ExecuteContext: %v / %v; process CPU since cancel: %.2f s", i, g, g-pending, s1, s2, burn)
				switch {
				case s1["parked-in-vm"] >= 1 && s2["parked-in-vm"] >= 1 && cl.s.kind == "blocked", s1["parked-in-vm"] >= pending && s2["parked-in-vm"] >= pending:
					c.Violation("not-stopped:"+cl.s.kind+":parked-in-vm:shared-context:"+cl.core.name, detail, input(i))
				case burn >= 1.5 && s1["running"]+s2["running"] > 0:
					c.Violation("not-stopped:"+cl.s.kind+":still-running:shared-context:"+cl.core.name, detail, input(i))
				default:
					c.Inconclusive("no-return-unclassified", detail, input(i))
				}
				stuck = true
			}
		}
		time.Sleep(300 * time.Microsecond)
		for i, cl := range calls {
			select {
			case <-cl.done:
			default:
				continue
			}
			p := cl.s.p
			c.Eval(fmt.Sprintf("%s:call%d", desc, i), true)
			c.Events(int(atomic.LoadInt64(&p.ticks)))
			if cl.o.Panicked {
				c.Violation(cl.o.PanicSig, "panic: "+cl.o.PanicVal, input(i))
				continue
			}
			if et := ank.ErrText(cl.o.Err); et != "execution interrupted" {
				c.Violation("swallowed:"+cl.s.kind+":shared-context:"+cl.s.form, fmt.Sprintf("call %d of %d under one shared context returned (%s, error %q) instead of the error \"execution interrupted\"", i, g, c02R8Clip(ank.Render(cl.o.Val)), et), input(i))
				continue
			}
			if a := atomic.LoadInt64(&p.after); a > cl.s.budget {
				c.Violation("ran-on:"+cl.s.kind+":shared-context:"+cl.s.form, fmt.Sprintf("call %d of %d: %d probe events after cancel() had returned (budget %d)", i, g, a, cl.s.budget), input(i))
			}
		}
		c.Tag(fmt.Sprintf("shared:calls=%d", g))
		if strings.HasPrefix(cname, "host-type") {
			c.Tag("shared:context-with-slow-Done")
		}
		if stuck {
			c.Bail()
			return
		}
		if c.WantSample() {
			c.Sample(map[string]interface{}{"case": desc, "program_of_call_0": calls[0].s.src, "calls": g, "error_of_call_0": ank.ErrText(calls[0].o.Err)})
		}
	}
}

// c02R9States classifies every goroutine that is inside c02R8Call
func c02R9States(dump string) map[string]int {
	out := map[string]int{}
	for _, g := range strings.Split(dump, "\n\n") {
		if strings.Contains(g, "main.c02R8Call") {
			out[c02Classify(strings.Replace(g, "main.c02R8Call", "main.c02Exec", 1))]++
		}
	}
	return out
}
