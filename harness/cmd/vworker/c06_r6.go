package main

// C06 extensions (round 6):
//
//   - phase "inf": the infinities against decimal numerals whose value lies beyond
//     the float64 range. "A string and a number are equal exactly when the string is
//     a decimal numeral denoting that number": a numeral such as "1e400", "2e308",
//     "-1e400", a 310-digit integer or "1" + 1200 zeros + "e-600" is well formed and
//     denotes a finite number that no float64 holds, so it equals no float at all -
//     in particular not the infinity a float64 parser rounds it to. Both signs, short
//     numerals (up to 800 characters: strconv.ParseFloat reports the overflow itself)
//     and long ones (beyond 800 digits the scale has to come from exact arithmetic),
//     in ==, !=, in, switch, in both operand orders, with the infinity bound by the
//     host, read from a typed slot or computed by the script (1e308 * 10). The largest
//     finite floats, NaN, 0 and the extreme int64 values are paired with the same
//     numerals, and numerals just INSIDE the range with +-MaxFloat64 (they do denote it
//     after rounding) and with the infinities (they do not).
//
//   - phase "typed": typed lists as the right operand of `in`. "membership (`in`) and
//     switch case matching use the same relation" as ==: for a list tl of any Go type
//     ([]string, []int64, []float64, []bool, []interface{}), x in tl holds exactly when
//     x == tl[j] holds for some j - whether the list was bound by the host, returned by a
//     host function (or strings.Split / strings.Fields), made by make(), written as a
//     typed literal, taken as a view of a longer slice or stored in a container. The
//     elements are read back with tl[j]; x == tl[j], tl[j] == x and x != tl[j] are observed
//     in the same environment and judged by the reference rules of the statement, and
//     `in`, its negation, `in` over the untyped list [tl[0], tl[1], ...] and the switches
//     over the same elements must all be the OR of the observed ==.
//     Typed lists never are operands of == here: whether a []string equals the list
//     literal with the same elements is not something the statement speaks about.

import (
	"fmt"
	"math"
	"reflect"
	"strconv"
	"strings"

	"github.com/mattn/anko/env"
	_ "github.com/mattn/anko/packages" // strings.Split / strings.Fields as sources of []string

	"verifharness/internal/ank"
)

// text spliced into the Plan's Rule (it goes through fmt.Sprintf: no percent signs)
func c06R6Rule() string {
	return fmt.Sprintf("phase inf: first %d enumerated cases = every one of %d decimal numerals of both signs whose value is beyond the float64 range "+
		"(exponent form, 310..1201-digit integers, fractions, 799..802 characters around strconv's 800-digit limit, more than 800 integer digits with a negative exponent, leading zeros) "+
		"x {+Inf, -Inf} with the full set of observations in both operand orders (infinity bound by the host, read from a []float64 slot, computed by the script as 1e308 * 10), "+
		"x {+-MaxFloat64, NaN, 0.0, 1.0, MaxInt64, MinInt64} as host variables, plus %d numerals just inside the range against +-MaxFloat64 and the infinities; "+
		"then PRNG cases of 12 pairs (random mantissa of 1..2500 digits, random point position and exponent spelling, value 1e309..1e5310 or just inside the range, random sign, random provenance). "+
		"Reference: no numeral denotes an infinity; a numeral inside the range denotes the float64 it rounds to. "+
		"phase typed: first %d enumerated cases = %d typed lists ([]string, []int64, []float64, []bool, []interface{}; numerals, words, boundary numbers, NaN, +-Inf, nil and containers as elements, empty lists) "+
		"x %d subjects (nil, booleans, int64, float64, numeral and other strings, containers) x every way of supplying the list that applies "+
		"(host variable, host function result, strings.Split / strings.Fields, make + element stores, typed literal, view of a longer slice, element of a list, map member, script variable, script function result); "+
		"then PRNG cases of 10 scenarios (random element type and elements, subject derived from an element 7 times of 10, random provenance of list and subject). "+
		"Per scenario: x in L, x in tl, !(x in tl), x in [tl[0], ...], switch x {case tl[0], ...}, switch with one case per element, and x == tl[j], tl[j] == x, x != tl[j] for every j; "+
		"in = switch = OR of the observed ==, the selected case is the first equal element, == follows the statement's rule for (x, element). ",
		c06InfEnumCases(), len(c06OverflowNumerals()), len(c06InsideNumerals()),
		c06TypedEnumCases(), len(c06TypedLists()), len(c06TypedSubjects()))
}

// ---------------------------------------------------------------------------
// phase inf: numerals beyond the float64 range

func c06Z(n int) string { return strings.Repeat("0", n) }

// decimal numerals (positive spelling; the negative one is "-" + s) whose exact
// value is larger than every float64: they denote no float.
func c06OverflowNumerals() []string {
	return []string{
		// short: strconv.ParseFloat reports the overflow
		"1e309", "2e308", "1e400", "1.8e308", "1.7976931348623159e308", "17976931348623159e292", "9e308", "1e999", "1e+400", "1.0e400", "0.001e312", "1000000e303",
		"1e20000", "00001e400", "0.0000000001e410",
		"1" + c06Z(309), "1" + c06Z(400), "17976931348623159" + c06Z(292), "2" + c06Z(308), "1" + c06Z(309) + ".0", "1" + c06Z(309) + ".5", "1" + c06Z(350) + "e-40",
		"1" + c06Z(350) + "e+40", "1." + c06Z(300) + "1e309",
		// around the 800 characters / 800 digits that strconv keeps
		"1" + c06Z(798), "1" + c06Z(799), "1" + c06Z(800), "1" + c06Z(801), "1." + c06Z(794) + "e400", "1." + c06Z(795) + "e400", "1." + c06Z(796) + "e400",
		"1" + c06Z(795) + "e-90", "1" + c06Z(796) + "e-90", "1" + c06Z(797) + "e-90", "9" + strings.Repeat("9", 799), "9" + strings.Repeat("9", 800),
		// long: more digits than strconv keeps, the scale is in the digits it drops
		"1" + c06Z(1200) + "e-600", "1" + c06Z(1200), "1" + c06Z(1200) + ".0", "1" + c06Z(1200) + "e-891", "1" + c06Z(1200) + "e-850", "1" + c06Z(3000) + "e-2000",
		"0." + c06Z(900) + "1e1400", "17976931348623159" + c06Z(1200) + "e-908", "2" + c06Z(1000) + "e-692", "1" + c06Z(900) + "." + c06Z(300) + "e-500",
		c06Z(900) + "1e400", "1." + c06Z(1500) + "1e309", "12345678901234567890" + strings.Repeat("1234567890", 100) + "e-700",
	}
}

// numerals just INSIDE the range: all of them round to MaxFloat64 (and none of them
// is written as an integer, so the reference prescribes equality with MaxFloat64)
func c06InsideNumerals() []string {
	return []string{
		"1.7976931348623157e308", "1.7976931348623158e308", "1.79769313486231575e308", "17976931348623157e292", "179769313486231570.0e291",
		"1.7976931348623157" + strings.Repeat("3", 900) + "e308", // long fraction
		"17976931348623157" + strings.Repeat("4", 900) + "e-608", // more than 800 integer digits, negative exponent
		"17976931348623158" + c06Z(1200) + "e-908",               // the same, trailing zeros
		"0." + c06Z(850) + "17976931348623157e1159",              // leading zeros behind the point
		"17976931348623157" + c06Z(292) + ".5", "17976931348623157" + c06Z(292) + ".0",
	}
}

// numbers every overflowing numeral is paired with besides the infinities
func c06InfOthers() []c06V {
	return []c06V{c06F(math.MaxFloat64), c06F(-math.MaxFloat64), c06F(math.NaN()), c06F(0), c06F(1), c06I(math.MaxInt64), c06I(math.MinInt64)}
}

const c06InfPerCase = 3 // overflowing numerals per enumerated case

func c06InfEnumCases() int {
	n := len(c06OverflowNumerals())
	return (n+c06InfPerCase-1)/c06InfPerCase + 1
}

// the infinity computed by the script
func c06InfExpr(f float64) string {
	if f < 0 {
		return "(-1e308 * 10)"
	}
	return "(1e308 * 10)"
}

// infPair: one infinity (or other number) against one numeral, all observations.
func (r *c06Run) infPair(base *env.Env, num c06V, s string, full bool) {
	c := r.c
	sv := c06S(s)
	want, _ := c06Ref(num, sv)
	c.Tag("inf:" + num.desc() + "," + sv.desc() + ":" + want.String())
	if !full {
		for _, p := range []*c06Pair{c06Var(num, sv), c06Var(sv, num)} {
			r.observe(base, p)
		}
		return
	}
	other := c06F(-num.f)
	r.fullPair(base, num, sv, other)
	r.fullPair(base, sv, num, c06S("-"+strings.TrimPrefix(s, "-")))
	if num.k == 'f' && math.IsInf(num.f, 0) {
		// the infinity computed by the script, the numeral written as a literal
		if l, ok := sv.lit(0); ok {
			X := c06InfExpr(num.f)
			p1 := &c06Pair{a: num, b: sv, A: X, B: l, mode: "computed/literal"}
			o1 := r.observe(base, p1)
			r.wide(base, p1, o1, l, []int{len(s) % 4}, true)
			p2 := &c06Pair{a: sv, b: num, A: l, B: X, mode: "literal/computed"}
			o2 := r.observe(base, p2)
			r.wide(base, p2, o2, X, []int{(len(s) + 1) % 4}, false)
			// through script variables
			r.observe(base, &c06Pair{a: num, b: sv, pre: "pv = " + X + "; qv = " + l + "; ", A: "pv", B: "qv", mode: "scriptvar/scriptvar"})
		}
		// read from a typed slot
		tb := func(e *env.Env) {
			e.Define("pt", []float64{0, num.f})
			e.Define("qt", []string{"", s})
		}
		bs := map[string]string{"pt": "[]float64 [0, " + num.key() + "]", "qt": "[]string [\"\", " + sv.key() + "]"}
		r.observe(base, &c06Pair{a: num, b: sv, A: "pt[1]", B: "qt[1]", bind: tb, bindsS: bs, mode: "typedelement/typedelement"})
		r.observe(base, &c06Pair{a: sv, b: num, A: "qt[1]", B: "pt[1]", bind: tb, bindsS: bs, mode: "typedelement/typedelement"})
	}
}

// a random decimal numeral (positive spelling) beyond the float64 range (inside=false)
// or just inside it (inside=true: it rounds to MaxFloat64)
func c06RandBigNumeral(rng c06Rng, inside bool) string {
	var nd int
	switch q := rng.Intn(20); {
	case q < 12:
		nd = 1 + rng.Intn(25)
	case q < 17:
		nd = 300 + rng.Intn(521) // around the 800-digit limit
	default:
		nd = 801 + rng.Intn(1700)
	}
	d := make([]byte, nd)
	for j := range d {
		d[j] = byte('0' + rng.Intn(10))
	}
	if d[0] == '0' {
		d[0] = byte('1' + rng.Intn(9))
	}
	// value = 0.d1d2d3... x 10^e10
	e10 := 310 + rng.Intn(6)
	switch rng.Intn(3) {
	case 0:
		e10 = 310 + rng.Intn(700)
	case 1:
		e10 = 310 + rng.Intn(5000)
	}
	if inside {
		// 0.17976931348623157ddd... x 10^309: at least MaxFloat64's shortest spelling and below
		// 1.7976931348623158e308, which is still nearer to MaxFloat64 than to 2^1024
		lead := "17976931348623157"
		if nd < len(lead) {
			nd = len(lead)
			d = make([]byte, nd)
		}
		copy(d, lead)
		for j := len(lead); j < nd; j++ {
			d[j] = byte('0' + rng.Intn(10))
		}
		e10 = 309
	}
	// digits in front of the point: 1..nd, or all digits plus zeros (an integer) when that stays affordable
	var s string
	ip := 1 + rng.Intn(nd)
	switch q := rng.Intn(6); {
	case q == 0:
		ip = 1
	case q == 1:
		ip = nd
	case q == 2 && e10 >= nd && e10 <= 3000 && !inside:
		// written out as an integer, no exponent (or "e0" / ".0")
		s = string(d) + c06Z(e10-nd)
		return s + []string{"", "", ".0", "e0", ".5"}[rng.Intn(5)]
	case q == 3:
		// 0.000ddd e(e10+zeros)
		z := rng.Intn(12)
		if rng.Intn(4) == 0 {
			z = 700 + rng.Intn(400)
		}
		return "0." + c06Z(z) + string(d) + "e" + strconv.Itoa(e10+z)
	}
	s = string(d[:ip])
	if ip < nd {
		s += "." + string(d[ip:])
	} else if rng.Intn(3) == 0 {
		s += ".0"
	}
	ex := e10 - ip
	es := strconv.Itoa(ex)
	if ex >= 0 && rng.Intn(3) == 0 {
		es = "+" + es
	}
	if rng.Intn(8) == 0 {
		s = c06Z(1+rng.Intn(4)) + s
	}
	return s + "e" + es
}

func (r *c06Run) infCase(base *env.Env) {
	c := r.c
	over := c06OverflowNumerals()
	nEnum := c06InfEnumCases()
	pinf, ninf := c06F(math.Inf(1)), c06F(math.Inf(-1))
	switch {
	case c.Index < nEnum-1:
		lo := c.Index * c06InfPerCase
		hi := lo + c06InfPerCase
		if hi > len(over) {
			hi = len(over)
		}
		for _, s := range over[lo:hi] {
			for _, sp := range []string{s, "-" + s} {
				r.infPair(base, pinf, sp, true)
				r.infPair(base, ninf, sp, true)
				for _, o := range c06InfOthers() {
					r.infPair(base, o, sp, false)
				}
			}
		}
		return
	case c.Index == nEnum-1:
		// just inside the range: the numeral denotes +-MaxFloat64 and no infinity
		for _, s := range c06InsideNumerals() {
			for _, sp := range []string{s, "-" + s} {
				r.infPair(base, pinf, sp, false)
				r.infPair(base, ninf, sp, false)
				r.infPair(base, c06F(math.MaxFloat64), sp, false)
				r.infPair(base, c06F(-math.MaxFloat64), sp, false)
			}
		}
		return
	}
	rng := c.Rng
	for k := 0; k < 12; k++ {
		inside := rng.Intn(5) == 0
		s := c06RandBigNumeral(rng, inside)
		neg := rng.Intn(2) == 0
		if neg {
			s = "-" + s
		}
		// the number: the infinity of the same sign 6 times of 10
		var num c06V
		sign := 1.0
		if neg {
			sign = -1
		}
		switch q := rng.Intn(10); {
		case q < 6:
			num = c06F(math.Inf(int(sign)))
		case q < 7:
			num = c06F(math.Inf(-int(sign)))
		case q < 9:
			num = c06F(sign * math.MaxFloat64)
		default:
			num = c06InfOthers()[rng.Intn(len(c06InfOthers()))]
		}
		sv := c06S(s)
		want, _ := c06Ref(num, sv)
		c.Tag("inf:" + num.desc() + "," + sv.desc() + ":" + want.String())
		a, b := num, sv
		if rng.Intn(2) == 0 {
			a, b = b, a
		}
		var pre strings.Builder
		binds := map[string]interface{}{}
		sup := func(v c06V, n string) (string, string) {
			if v.k == 'f' && math.IsInf(v.f, 0) && rng.Intn(4) == 0 {
				return c06InfExpr(v.f), "computed"
			}
			return c06Supply(rng, v, n, &pre, binds)
		}
		A, howA := sup(a, "p")
		B, howB := sup(b, "q")
		c.Tag("supply:"+howA, "supply:"+howB)
		bind := func(e *env.Env) {
			for k, v := range binds {
				e.Define(k, v)
			}
		}
		rb := c06RenderBinds(binds)
		p1 := &c06Pair{a: a, b: b, A: A, B: B, pre: pre.String(), bind: bind, mode: howA + "/" + howB, bindsS: rb}
		o1 := r.observe(base, p1)
		r.wide(base, p1, o1, B, []int{k % 4}, k%2 == 0)
		r.observe(base, &c06Pair{a: b, b: a, A: B, B: A, pre: pre.String(), bind: bind, mode: howB + "/" + howA, bindsS: rb})
		if k%4 == 0 {
			r.multi(base, a, b, c06RandValue(rng))
		}
	}
}

// ---------------------------------------------------------------------------
// phase typed: typed lists as the right operand of `in`

type c06TL struct {
	ek byte // element type: 's' string, 'i' int64, 'f' float64, 'b' bool, 'I' interface{}, 'u' a host integer type (c06_r7.go)
	el []c06V
	w  byte // 'u': index into c06HostInts
}

// the type as anko spells it
func (t c06TL) typeName() string {
	switch t.ek {
	case 'u':
		return "[]" + c06HostInts[t.w].name
	case 's':
		return "[]string"
	case 'i':
		return "[]int64"
	case 'f':
		return "[]float64"
	case 'b':
		return "[]bool"
	}
	return "[]interface"
}

// the Go slice of the elements el (of this list's element type)
func (t c06TL) goSlice(el []c06V) interface{} {
	switch t.ek {
	case 'u':
		return c06HostIntSlice(t.w, el)
	case 's':
		out := make([]string, len(el))
		for j, e := range el {
			out[j] = e.s
		}
		return out
	case 'i':
		out := make([]int64, len(el))
		for j, e := range el {
			out[j] = e.i
		}
		return out
	case 'f':
		out := make([]float64, len(el))
		for j, e := range el {
			out[j] = e.f
		}
		return out
	case 'b':
		out := make([]bool, len(el))
		for j, e := range el {
			out[j] = e.b
		}
		return out
	}
	out := make([]interface{}, len(el))
	for j, e := range el {
		out[j] = e.goVal()
	}
	return out
}

func (t c06TL) goVal() interface{} { return t.goSlice(t.el) }

func (t c06TL) key() string {
	parts := make([]string, len(t.el))
	for j := range t.el {
		parts[j] = t.el[j].key()
	}
	return t.typeName() + " [" + strings.Join(parts, ", ") + "]"
}

// an element of this list's type that is not meant to match anything (padding of views)
func (t c06TL) pad() c06V {
	switch t.ek {
	case 'u':
		return c06HI(t.w, 77)
	case 's':
		return c06S("pad")
	case 'i':
		return c06I(-77777)
	case 'f':
		return c06F(-77777.5)
	case 'b':
		return c06B(false)
	}
	return c06S("pad")
}

func (t c06TL) lits() ([]string, bool) {
	out := make([]string, len(t.el))
	for j, e := range t.el {
		l, ok := e.lit(1)
		if !ok {
			return nil, false
		}
		if t.ek == 'f' && e.f == 0 && math.Signbit(e.f) {
			return nil, false // a script has no literal for the float -0
		}
		out[j] = l
	}
	return out, true
}

var c06TLModes = []string{"host", "hostfunc", "split", "fields", "make", "literal", "view", "listelem", "member", "scriptvar", "funcresult"}

// c06TLSupply supplies the list in the given way: statements to run first, the
// expression L denoting the list, host bindings. ok=false when the way does not
// apply to this list.
func c06TLSupply(t c06TL, mode string, binds map[string]interface{}, bindsS map[string]string) (pre, L string, ok bool) {
	n := len(t.el)
	switch mode {
	case "host":
		binds["ys"] = t.goVal()
		bindsS["ys"] = t.key()
		return "", "ys", true
	case "hostfunc":
		switch v := t.goVal().(type) {
		case []string:
			binds["mk"] = func() []string { return v }
		case []int64:
			binds["mk"] = func() []int64 { return v }
		case []float64:
			binds["mk"] = func() []float64 { return v }
		case []bool:
			binds["mk"] = func() []bool { return v }
		case []interface{}:
			binds["mk"] = func() []interface{} { return v }
		default: // a slice of another element type (c06_r7.go): a Go function with that result type
			rv := reflect.ValueOf(v)
			binds["mk"] = reflect.MakeFunc(reflect.FuncOf(nil, []reflect.Type{rv.Type()}, false),
				func([]reflect.Value) []reflect.Value { return []reflect.Value{rv} }).Interface()
		}
		bindsS["mk"] = "Go func() " + t.typeName() + "{} returning " + t.key()
		return "", "mk()", true
	case "split", "fields":
		if t.ek != 's' || n == 0 {
			return "", "", false
		}
		sep := ","
		if mode == "fields" {
			sep = " "
		}
		for _, e := range t.el {
			if strings.Contains(e.s, sep) {
				return "", "", false
			}
			if f := strings.Fields(e.s); mode == "fields" && (len(f) != 1 || f[0] != e.s) {
				return "", "", false // empty, or white space inside
			}
		}
		parts := make([]string, n)
		for j, e := range t.el {
			parts[j] = e.s
		}
		joined, ok := c06S(strings.Join(parts, sep)).lit(0)
		if !ok {
			return "", "", false
		}
		if mode == "fields" {
			return `strings = import("strings"); `, "strings.Fields(" + joined + ")", true
		}
		return `strings = import("strings"); `, "strings.Split(" + joined + `, ",")`, true
	case "make":
		ls, ok := t.lits()
		if !ok {
			return "", "", false
		}
		var sb strings.Builder
		fmt.Fprintf(&sb, "tm = make(%s, %d); ", t.typeName(), n)
		for j, l := range ls {
			if t.el[j].k == 'n' {
				continue // the zero value of an interface element
			}
			fmt.Fprintf(&sb, "tm[%d] = %s; ", j, l)
		}
		return sb.String(), "tm", true
	case "literal":
		ls, ok := t.lits()
		if !ok || n == 0 {
			return "", "", false
		}
		return "", t.typeName() + "{" + strings.Join(ls, ", ") + "}", true
	case "view":
		padded := append(append([]c06V{t.pad()}, t.el...), t.pad(), t.pad())
		binds["yv"] = t.goSlice(padded)
		bindsS["yv"] = c06TL{ek: t.ek, el: padded, w: t.w}.key()
		return "", fmt.Sprintf("yv[1:%d]", n+1), true
	case "listelem":
		binds["box"] = []interface{}{nil, t.goVal()}
		bindsS["box"] = "[nil, " + t.key() + "]"
		return "", "box[1]", true
	case "member":
		binds["mm"] = map[interface{}]interface{}{"k": t.goVal()}
		bindsS["mm"] = `{"k": ` + t.key() + "}"
		return "", "mm.k", true
	case "scriptvar":
		binds["ys"] = t.goVal()
		bindsS["ys"] = t.key()
		return "tv = ys; ", "tv", true
	case "funcresult":
		binds["ys"] = t.goVal()
		bindsS["ys"] = t.key()
		return "", "func(){ return ys }()", true
	}
	return "", "", false
}

func c06TypedLists() []c06TL {
	S := func(ss ...string) c06TL {
		t := c06TL{ek: 's', el: []c06V{}}
		for _, s := range ss {
			t.el = append(t.el, c06S(s))
		}
		return t
	}
	I := func(is ...int64) c06TL {
		t := c06TL{ek: 'i', el: []c06V{}}
		for _, i := range is {
			t.el = append(t.el, c06I(i))
		}
		return t
	}
	F := func(fs ...float64) c06TL {
		t := c06TL{ek: 'f', el: []c06V{}}
		for _, f := range fs {
			t.el = append(t.el, c06F(f))
		}
		return t
	}
	B := func(bs ...bool) c06TL {
		t := c06TL{ek: 'b', el: []c06V{}}
		for _, b := range bs {
			t.el = append(t.el, c06B(b))
		}
		return t
	}
	X := func(vs ...c06V) c06TL { return c06TL{ek: 'I', el: append([]c06V{}, vs...)} }
	return []c06TL{
		S("a", "5", "2.50", "1e3", "-0"), S("true", "", "abc"), S("5"), S(), S("1e400", "-1e400", "0x10", "x"), S("9007199254740993", "1000000", "1e6"),
		S("false", "0"), S("6", "7", "5"), S("nil", "1", "1.0"),
		I(5, 1000, 0), I(1000000, -1, math.MaxInt64), I(), I(c06P53 + 1), I(0), I(1, 1, 6),
		F(5, 2.5, 1000), F(1e6, math.Copysign(0, -1), math.NaN(), math.Inf(1)), F(math.MaxFloat64, math.Inf(-1)), F(), F(0.1, 7.5),
		B(true), B(false), B(false, true), B(),
		X(c06S("5"), c06I(6), c06F(7.5), c06B(true), c06Nil()), X(c06Nil()), X(), X(c06L(c06S("5")), c06M("a", c06I(1)), c06L()),
		X(c06S("1e3"), c06F(2.5), c06S("")), X(c06I(1000000), c06F(1e6), c06S("1e6")),
	}
}

func c06TypedSubjects() []c06V {
	out := []c06V{c06Nil(), c06B(true), c06B(false)}
	for _, i := range []int64{0, 1, 5, 6, 1000, 1000000, c06P53 + 1, math.MaxInt64} {
		out = append(out, c06I(i))
	}
	for _, f := range []float64{0, math.Copysign(0, -1), 1, 5, 6, 2.5, 1000, 1e6, 7.5, 0.1, math.NaN(), math.Inf(1), math.Inf(-1), math.MaxFloat64} {
		out = append(out, c06F(f))
	}
	for _, s := range []string{"5", "5.0", "6", "2.5", "2.50", "1e3", "1000", "abc", "", "a", "true", "false", "0", "-0", "1e400", "1e6", "x", "pad"} {
		out = append(out, c06S(s))
	}
	return append(out, c06L(c06S("5")), c06L(), c06M(), c06L(c06S("a"), c06S("5"), c06S("2.50"), c06S("1e3"), c06S("-0")))
}

func c06TypedEnumCases() int { return len(c06TypedLists()) }

// the subject supplied in a way chosen by `how` (no PRNG): host variable, literal, typed slot
func c06SubjSupply(x c06V, how int, binds map[string]interface{}, bindsS map[string]string) (string, string) {
	switch how % 3 {
	case 1:
		if l, ok := x.lit(how / 3 % 2); ok {
			return l, "literal"
		}
	case 2:
		switch x.k {
		case 'i':
			binds["pt"] = []int64{0, x.i}
			bindsS["pt"] = "[]int64 [0, " + x.key() + "]"
			return "pt[1]", "typedelement"
		case 'f':
			binds["pt"] = []float64{0, x.f}
			bindsS["pt"] = "[]float64 [0, " + x.key() + "]"
			return "pt[1]", "typedelement"
		case 's':
			binds["pt"] = []string{"", x.s}
			bindsS["pt"] = "[]string [\"\", " + x.key() + "]"
			return "pt[1]", "typedelement"
		case 'b':
			binds["pt"] = []bool{false, x.b}
			bindsS["pt"] = "[]bool [false, " + x.key() + "]"
			return "pt[1]", "typedelement"
		}
	}
	binds["p"] = x.goVal()
	bindsS["p"] = x.key()
	return "p", "variable"
}

// typedScenario: subject x (expression X) against the typed list t supplied as L.
func (r *c06Run) typedScenario(base *env.Env, x c06V, t c06TL, X, howX, preX, preL, L, mode string, binds map[string]interface{}, bindsS map[string]string) {
	c := r.c
	n := len(t.el)
	T := t.typeName()
	e := base.NewEnv()
	for k, v := range binds {
		e.Define(k, v)
	}
	pre := preX + preL
	preTL := pre + "tl = " + L + "; "
	hkey := "typed\x00" + mode + "\x00" + howX + "\x00" + x.key() + "\x00" + t.key()
	c.Begin(map[string]interface{}{"x": x.key(), "list": t.key(), "mode": mode, "X": X, "L": L, "prelude": preTL})
	c.Tag("typed:list=" + T + ":mode=" + mode)
	c.Tag("typed:subject=" + x.kind() + ":" + howX)

	elems := make([]string, n)
	for j := range elems {
		elems[j] = fmt.Sprintf("tl[%d]", j)
	}
	obs := map[string]c06Obs{}
	obs["in-direct"] = r.exec(e, pre+X+" in "+L, hkey, false)
	obs["in-var"] = r.exec(e, preTL+X+" in tl", hkey, false)
	obs["not-in"] = r.exec(e, preTL+"!("+X+" in tl)", hkey, false)
	obs["in-untyped"] = r.exec(e, preTL+X+" in ["+strings.Join(elems, ", ")+"]", hkey, false)
	if n > 0 {
		obs["switch-list"] = r.exec(e, preTL+"switch "+X+" { case "+strings.Join(elems, ", ")+": true; default: false }", hkey, false)
		var sb strings.Builder
		for j, el := range elems {
			fmt.Fprintf(&sb, " case %s: %d;", el, j+1)
		}
		obs["switch-cases"] = r.exec(e, preTL+"switch "+X+" {"+sb.String()+" default: 0 }", hkey, true)
	}
	// x == tl[j], tl[j] == x, x != tl[j] for every j, in one vm.Execute
	var E, Q, N []bool
	eqSrc := ""
	if n > 0 {
		parts := make([]string, 0, 3*n)
		for _, el := range elems {
			parts = append(parts, X+" == "+el, el+" == "+X, X+" != "+el)
		}
		eqSrc = preTL + "[" + strings.Join(parts, ", ") + "]"
		o := ank.Exec(e, eqSrc)
		c.Eval(eqSrc+"\x00"+hkey, true)
		c.Events(3 * n)
		got := ank.Render(o.Val)
		switch {
		case o.Panicked:
			got = "panic: " + o.PanicVal
		case o.Err != nil:
			got = "error: " + o.Err.Error()
		}
		obs["eq-elements"] = c06Obs{src: eqSrc, got: got}
		lst, isList := o.Val.([]interface{})
		good := !o.Panicked && o.Err == nil && isList && len(lst) == 3*n
		for j := 0; good && j < len(lst); j++ {
			_, isBool := lst[j].(bool)
			good = good && isBool
		}
		if good {
			for j := 0; j < n; j++ {
				E, Q, N = append(E, lst[3*j].(bool)), append(Q, lst[3*j+1].(bool)), append(N, lst[3*j+2].(bool))
			}
		}
	}
	inp := func() map[string]interface{} {
		ob := map[string]string{}
		for k, o := range obs {
			ob[k+": "+o.src] = o.got
		}
		m := map[string]interface{}{"x": x.key(), "list": t.key(), "list_supplied_as": mode, "subject_supplied_as": howX, "X": X, "L": L, "observed": ob}
		if len(bindsS) > 0 {
			m["bindings"] = bindsS
		}
		return m
	}
	where := T + ":" + x.kind()
	if n > 0 && E == nil {
		r.viol("noresult:typed-eq:"+where, fmt.Sprintf("%s gave %s instead of a list of booleans", eqSrc, obs["eq-elements"].got), inp())
		return
	}
	for _, k := range []string{"in-direct", "in-var", "not-in", "in-untyped", "switch-list", "switch-cases"} {
		if o, present := obs[k]; present && !o.ok {
			r.viol("noresult:typed-"+k+":"+where, fmt.Sprintf("%s gave %s", o.src, o.got), inp())
			return
		}
	}
	anyE, anyQ := false, false
	firstE, firstQ := int64(0), int64(0)
	for j := 0; j < n; j++ {
		el := t.el[j]
		pairD := x.desc() + "," + el.desc()
		if E[j] && firstE == 0 {
			firstE = int64(j + 1)
		}
		if Q[j] && firstQ == 0 {
			firstQ = int64(j + 1)
		}
		anyE, anyQ = anyE || E[j], anyQ || Q[j]
		if E[j] != Q[j] {
			a, b, tl := x.desc(), el.desc(), x.desc()
			if !E[j] {
				tl = el.desc()
			}
			if b < a {
				a, b = b, a
			}
			r.viol("sym:"+a+"~"+b+":true-with-lhs="+tl,
				fmt.Sprintf("== is not symmetric: (%s == tl[%d]) = %v but (tl[%d] == %s) = %v with tl[%d] = %s of a %s", X, j, E[j], j, X, Q[j], j, el.key(), T), inp())
		}
		if N[j] == E[j] {
			r.viol(fmt.Sprintf("neg:%s:eq=%v,ne=%v", pairD, E[j], N[j]),
				fmt.Sprintf("!= is not the negation of ==: (%s == tl[%d]) = %v and (%s != tl[%d]) = %v with tl[%d] = %s of a %s", X, j, E[j], X, j, N[j], j, el.key(), T), inp())
		}
		want, rule := c06Ref(x, el)
		c.Tag("typed-rule:" + rule + ":" + want.String())
		if want != c06Unspec && E[j] != (want == c06True) {
			r.viol(fmt.Sprintf("%s:%s:got=%v", rule, pairD, E[j]),
				fmt.Sprintf("rule %q: (%s == tl[%d]) = %v, the statement prescribes %v for %s vs %s (element of a %s)", rule, X, j, E[j], want, x.key(), el.key(), T), inp())
		}
	}
	// membership and switch matching are the existential closure of the == observed
	// above; where == is asymmetric (reported by sym) either operand order is accepted
	for _, k := range []string{"in-direct", "in-var", "in-untyped"} {
		if g := obs[k].v; g != anyE && g != anyQ {
			sig := fmt.Sprintf("in-typed:%s:anyeq=%v,in=%v", where, anyE, g)
			if k == "in-untyped" {
				sig = fmt.Sprintf("in-elements-of-typed:%s:anyeq=%v,in=%v", where, anyE, g)
			}
			r.viol(sig, fmt.Sprintf("membership disagrees with ==: (%s) = %v, but %s == tl[j] holds for %v of the elements of tl = %s (per element: %v)",
				obs[k].src, g, X, map[bool]string{true: "one", false: "none"}[anyE], t.key(), E), inp())
		}
	}
	if obs["not-in"].v == obs["in-var"].v {
		r.viol("in-typed-not:"+where, fmt.Sprintf("(%s) = %v and (%s) = %v", obs["in-var"].src, obs["in-var"].v, obs["not-in"].src, obs["not-in"].v), inp())
	}
	if n > 0 {
		if g := obs["switch-list"].v; g != anyE && g != anyQ {
			r.viol(fmt.Sprintf("switch-typed:%s:anyeq=%v,switch=%v", where, anyE, g),
				fmt.Sprintf("switch matching disagrees with ==: (%s) = %v, but == with the elements of tl = %s gives %v", obs["switch-list"].src, g, t.key(), E), inp())
		}
		if g := obs["switch-cases"].n; g != firstE && g != firstQ {
			r.viol(fmt.Sprintf("switch-typed-cases:%s:anyeq=%v", where, anyE),
				fmt.Sprintf("(%s) selected %d, but == with the elements of tl = %s gives %v: case %d expected", obs["switch-cases"].src, g, t.key(), E, firstE), inp())
		}
	}
	if anyE {
		c.Tag("typed:member:" + T)
	} else {
		c.Tag("typed:not-member:" + T)
	}
	if c.WantSample() {
		m := inp()
		m["reference"] = "x in tl = switch = OR over j of the observed x == tl[j]; == follows the statement's rule for (x, element)"
		c.Sample(m)
	}
}

// a random element of the list's type
func c06RandTypedElem(rng c06Rng, ek byte) c06V {
	switch ek {
	case 's':
		switch rng.Intn(4) {
		case 0:
			return c06S(c06RandStrings[rng.Intn(len(c06RandStrings))])
		case 1:
			return c06S(c06Spell(rng, c06F(c06RandFloat(rng))))
		case 2:
			return c06S([]string{"true", "false", "", "0", "1", "5", "nil"}[rng.Intn(7)])
		}
		return c06S(c06Spell(rng, c06I(c06RandInt(rng))))
	case 'i':
		return c06I(c06RandInt(rng))
	case 'f':
		return c06F(c06RandFloat(rng))
	case 'b':
		return c06B(rng.Intn(2) == 0)
	}
	if rng.Intn(6) == 0 {
		return c06Norm(c06RandContainer(rng, 1))
	}
	return c06RandLeaf(rng)
}

func (r *c06Run) typedCase(base *env.Env) {
	c := r.c
	lists := c06TypedLists()
	if c.Index < len(lists) {
		t := lists[c.Index]
		for si, x := range c06TypedSubjects() {
			for mi, mode := range c06TLModes {
				binds, bindsS := map[string]interface{}{}, map[string]string{}
				preL, L, ok := c06TLSupply(t, mode, binds, bindsS)
				if !ok {
					continue
				}
				X, howX := c06SubjSupply(x, si+mi, binds, bindsS)
				r.typedScenario(base, x, t, X, howX, "", preL, L, mode, binds, bindsS)
			}
		}
		return
	}
	rng := c.Rng
	for k := 0; k < 10; k++ {
		t := c06TL{ek: []byte{'s', 's', 'i', 'f', 'b', 'I', 'I'}[rng.Intn(7)], el: []c06V{}}
		for n := rng.Intn(6); n > 0; n-- {
			if len(t.el) > 0 && rng.Intn(4) == 0 {
				t.el = append(t.el, c06Copy(t.el[rng.Intn(len(t.el))]))
				continue
			}
			t.el = append(t.el, c06RandTypedElem(rng, t.ek))
		}
		var x c06V
		switch q := rng.Intn(10); {
		case q < 7 && len(t.el) > 0:
			x = c06Derive(rng, t.el[rng.Intn(len(t.el))])
			if rng.Intn(3) == 0 {
				x = c06Derive(rng, x)
			}
		case q < 8 && len(t.el) > 0:
			x = c06Copy(t.el[rng.Intn(len(t.el))])
		default:
			x = c06RandValue(rng)
		}
		x = c06Norm(x)
		binds, bindsS := map[string]interface{}{}, map[string]string{}
		var preL, L, mode string
		for {
			mode = c06TLModes[rng.Intn(len(c06TLModes))]
			var ok bool
			if preL, L, ok = c06TLSupply(t, mode, binds, bindsS); ok {
				break
			}
		}
		var pre strings.Builder
		xb := map[string]interface{}{}
		X, howX := c06Supply(rng, x, "p", &pre, xb)
		for k, v := range xb {
			binds[k] = v
			bindsS[k] = ank.Render(v)
		}
		r.typedScenario(base, x, t, X, howX, pre.String(), preL, L, mode, binds, bindsS)
	}
}
