package main

// C18, phase "bytes-cwd-cr": three families of runs the other phases never
// make. All are judged by the oracle of c18.go (c18Judge: stdout(CLI) ==
// stdout(library) ++ one diagnostic line iff the library returned an error;
// exit 0/4), here with c18JudgeSpell on top (the diagnostic line contains the
// library's error text in the command's one-line form), and all are supplied
// both ways (file argument, -e).
//
//   A. THE BYTES OF THE FILE ARE THE SOURCE. "Running the command on a script
//      file executes the source": the library driver gets the very bytes that
//      are written to the file (and that -e gets as its word). Scripts whose
//      meaning depends on bytes a text-minded reader might touch: raw
//      (back-quoted) string literals that span lines in files with CR LF, lone
//      CR, LF CR or mixed line ends, lone CRs inside expressions, trailing
//      blanks, tabs, form feeds, a byte order mark, a final ^Z, no final
//      newline. The scripts print the length, the bytes and the quoted form of
//      such literals, compare them with escaped spellings, and reach another
//      verdict (throw) when the length is not the one written.
//
//   B. RELATIVE PATHS MEAN THE WORKING DIRECTORY. The command is started in a
//      working directory that is not the script's (script given by absolute
//      path, ../proj/x.ank, proj/x.ank, through a symbolic link, ...); the
//      library driver runs the same source in that working directory. Scripts
//      load(), read, stat, open and glob relative paths that exist only next
//      to the script, only in the working directory, in both (with different
//      content) or nowhere; loaded files load again. vm.Execute knows nothing
//      of a script file, so whatever it finds or misses, the command finds or
//      misses (exit 4, "open lib.ank: no such file or directory").
//
//   C. ONE DIAGNOSTIC LINE, WHATEVER THE ERROR TEXT: failing scripts whose
//      error text holds carriage returns without a line feed, CR LF pairs,
//      LF CR, several of them, at the start, at the end - thrown strings, Go
//      errors, import/load of such names, a command-line argument, raw string
//      literals holding the bytes - and unreadable files whose name holds
//      them. c18OneLine accepts no line break (LF or CR) inside the line.

import (
	"math/rand"
	"os"
	"path/filepath"
	"strconv"
	"strings"

	"verifharness/internal/wk"
)

// ---------------------------------------------------------------------------
// family A: bytes of the file

// segments of a multi-line raw string (no back quote)
var c18RawSegs = []string{"line one", "", "  indented", "trailing blank ", "tab\there", "x", "héllo wörld", "# not a comment", "// nor this", "\"quoted\"", "back\\slash \\n stays", "{", "end;", "日本語", "100%", "\ttab first", "  "}

// what separates the segments inside the literal / the statements of the file
var c18InnerEOLs = []string{"\r\n", "\r\n", "\r\n", "\n", "\r", "\n\r", "\r\r\n", "\r\n\r\n", " \r\n", "\t\n"}

// c18AnkoQuote spells s as an anko double-quoted literal (\r, \n, \t, \\, \" escaped)
func c18AnkoQuote(s string) string {
	return "\"" + strings.NewReplacer("\\", "\\\\", "\"", "\\\"", "\r", "\\r", "\n", "\\n", "\t", "\\t").Replace(s) + "\""
}

// c18RawObservers: statements about the string variable v that holds the raw
// literal whose true content is val
func c18RawObserver(r *rand.Rand, v, val string, feat *[]string) string {
	n := strconv.Itoa(len(val))
	switch r.Intn(16) {
	case 0, 1:
		*feat = append(*feat, "r6:raw:len")
		return "println(\"len\", len(" + v + "))"
	case 2:
		*feat = append(*feat, "r6:raw:quoted")
		return "printf(\"%q\\n\", " + v + ")"
	case 3:
		*feat = append(*feat, "r6:raw:printed")
		return "print(" + v + ")\nprintln(\"|\")"
	case 4:
		*feat = append(*feat, "r6:raw:bytes")
		return "for b in toByteSlice(" + v + ") {\n  print(b, \" \")\n}\nprintln()"
	case 5:
		*feat = append(*feat, "r6:raw:count")
		return "cnt = import(\"strings\")\nprintln(cnt.Count(" + v + ", \"\\r\"), cnt.Count(" + v + ", \"\\n\"), cnt.Index(" + v + ", \"\\r\\n\"), cnt.Index(" + v + ", \"\\r\"))"
	case 6:
		*feat = append(*feat, "r6:raw:equals-escaped")
		return "println(" + v + " == " + c18AnkoQuote(val) + ", " + v + " == " + c18AnkoQuote(strings.Replace(val, "\r\n", "\n", -1)) + ")"
	case 7, 8:
		// the verdict depends on the length: the library succeeds
		*feat = append(*feat, "r6:raw:verdict-ok-iff-length")
		return "if len(" + v + ") != " + n + " {\n  throw(\"literal has \" + toString(len(" + v + ")) + \" bytes\")\n}\nprintln(\"length as written\")"
	case 9:
		// ... the library fails
		*feat = append(*feat, "r6:raw:verdict-error-iff-length")
		return "if len(" + v + ") == " + n + " {\n  throw(\"literal has \" + toString(len(" + v + ")) + \" bytes\")\n}\nprintln(\"other length\")"
	case 10:
		*feat = append(*feat, "r6:raw:thrown")
		return "println(\"throwing\")\nthrow(" + v + ")"
	case 11:
		*feat = append(*feat, "r6:raw:split")
		return "for part in import(\"strings\").Split(" + v + ", \"\\n\") {\n  printf(\"%d:%q\\n\", len(part), part)\n}"
	case 12:
		*feat = append(*feat, "r6:raw:map-key")
		return "mk = {}\nmk[" + v + "] = 1\nprintln(mk[" + c18AnkoQuote(val) + "], len(mk))"
	case 13:
		*feat = append(*feat, "r6:raw:switch")
		return "switch " + v + " {\ncase " + c18AnkoQuote(val) + ":\n  println(\"as written\")\ncase " + c18AnkoQuote(strings.Replace(strings.Replace(val, "\r\n", "\n", -1), "\r", "\n", -1)) + ":\n  println(\"line feeds only\")\ndefault:\n  println(\"something else\")\n}"
	case 14:
		*feat = append(*feat, "r6:raw:last-byte")
		return "if len(" + v + ") > 0 {\n  println(toByteSlice(" + v + ")[len(" + v + ") - 1], toByteSlice(" + v + ")[0])\n}"
	default:
		*feat = append(*feat, "r6:raw:sum")
		return "sum = 0\nfor b in toByteSlice(" + v + ") {\n  sum += toInt(b)\n}\nprintln(\"sum\", sum)"
	}
}

// c18GenBytes: a script written line by line, the line ends chosen per style,
// with raw string literals that span lines.
func c18GenBytes(r *rand.Rand) c18Script {
	var feat []string
	style := r.Intn(10)
	eol := func() string {
		switch {
		case style < 6:
			return "\r\n"
		case style < 7:
			return "\n"
		case style < 8:
			return c18InnerEOLs[r.Intn(len(c18InnerEOLs))]
		default:
			if r.Intn(2) == 0 {
				return "\r\n"
			}
			return "\n"
		}
	}
	feat = append(feat, "r6:eol-style:"+[]string{"crlf", "crlf", "crlf", "crlf", "crlf", "crlf", "lf", "any", "crlf-lf-mixed", "crlf-lf-mixed"}[style])
	var lines []string // logical lines, without their line end
	add := func(st string) { lines = append(lines, strings.Split(st, "\n")...) }
	if r.Intn(4) == 0 {
		add(r5pick(r, []string{"#!/usr/bin/env anko", "# a comment", "// a comment", "/* a comment\n   over two lines */", "println(\"start\")"}))
	}
	nlit := 1 + r.Intn(2)
	for i := 0; i < nlit; i++ {
		v := "raw" + strconv.Itoa(i)
		k := 2 + r.Intn(3)
		if r.Intn(8) == 0 {
			k = 1
		}
		val := ""
		for j := 0; j < k; j++ {
			if j > 0 {
				if r.Intn(4) > 0 {
					// the literal's line ends are the file's
					val += eol()
				} else {
					val += c18InnerEOLs[r.Intn(len(c18InnerEOLs))]
				}
			}
			val += c18RawSegs[r.Intn(len(c18RawSegs))]
		}
		if r.Intn(5) == 0 {
			val += eol() // the back quote sits at the start of a line
		}
		if strings.Contains(val, "\r") {
			feat = append(feat, "r6:raw:holds-cr")
		}
		// the literal goes in as ONE logical line: its line ends are its own
		switch r.Intn(5) {
		case 0:
			feat = append(feat, "r6:raw:as-argument")
			lines = append(lines, "println(len(`"+val+"`))")
			lines = append(lines, v+" = `"+val+"`")
		case 1:
			feat = append(feat, "r6:raw:in-function")
			lines = append(lines, "func get"+v+"() {", "  return `"+val+"`", "}", v+" = get"+v+"()")
		case 2:
			feat = append(feat, "r6:raw:in-list")
			lines = append(lines, "lst"+v+" = [1, `"+val+"`, 2]", v+" = lst"+v+"[1]")
		default:
			lines = append(lines, v+" = `"+val+"`")
		}
		for j, n := 0, 1+r.Intn(3); j < n; j++ {
			add(c18RawObserver(r, v, val, &feat))
		}
	}
	if r.Intn(3) == 0 {
		// bytes between tokens: a lone CR is a blank, not a line end
		feat = append(feat, "r6:bytes:between-tokens")
		lines = append(lines, r5pick(r, []string{
			"println(1 +\r2)", "lcr = [1,\r2,\r3]\rprintln(lcr)", "println(\"a\")\rprintln(\"b\")", "x9 = 4\r\rprintln(x9)", "println(\"t\")\t", "println(\"f\")\f", "println(\"v\") \v",
			"println(\"sp\")   ", "if true {\r  println(\"in if\")\r}", "println(\"dq\rcr\")", "println(len(\"dq\rcr\"))", "s9 = \"unterminated\r", "s9 = 'single\rquoted'\rprintln(s9)",
			"# comment with a CR\rprintln(\"after comment CR\")", "// comment with a CR\rprintln(\"after comment CR\")", "/* block\r\ncomment */ println(\"after block\")", "println(\"nbsp\")\u00a0", "println(\"ls\")\u2028println(\"ls2\")",
		}))
	}
	if r.Intn(3) == 0 {
		lines = append(lines, "println(\"end\")")
	}
	var b strings.Builder
	switch r.Intn(14) {
	case 0:
		feat = append(feat, "r6:bytes:bom")
		b.WriteString("\xef\xbb\xbf")
	case 1:
		feat = append(feat, "r6:bytes:leading-blank-lines")
		b.WriteString(eol() + eol())
	}
	for i, l := range lines {
		b.WriteString(l)
		if i < len(lines)-1 {
			b.WriteString(eol())
		}
	}
	switch r.Intn(10) {
	case 0:
		feat = append(feat, "r6:bytes:no-final-line-end")
	case 1:
		feat = append(feat, "r6:bytes:final-ctrl-z")
		b.WriteString(eol() + "\x1a")
	case 2:
		feat = append(feat, "r6:bytes:final-cr")
		b.WriteString("\r")
	case 3:
		feat = append(feat, "r6:bytes:final-blank-lines")
		b.WriteString(eol() + "  " + eol() + eol())
	default:
		b.WriteString(eol())
	}
	src := b.String()
	return c18Script{Src: src, Feats: feat, UsesArgs: false}
}

// ---------------------------------------------------------------------------
// family B: working directory other than the script's

// c18Place: where the command is started and how the script is named.
// Cwd and the script's directory are relative to the scratch directory.
type c18Place struct {
	Name      string
	Cwd       string
	ScriptDir string
	Form      string // abs | rel | abs-dotdot | symlink (a link in the working directory)
}

var c18Places = []c18Place{
	{"work:abs", "work", "proj", "abs"},
	{"work:rel", "work", "proj", "rel"},
	{"parent:rel", ".", "proj", "rel"},
	{"parent:abs", ".", "proj", "abs"},
	{"work:abs-dotdot", "work", "proj", "abs-dotdot"},
	{"subdir:rel", "proj/sub", "proj", "rel"},
	{"work:symlink", "work", "proj", "symlink"},
	{"own-dir:rel", "proj", "proj", "rel"}, // the control: the script's directory is the working directory
	{"own-dir:abs", "proj", "proj", "abs"},
}

// c18SetupPlaces furnishes the scratch directory: proj/ (the script's home)
// and work/ hold files of the same and of different names.
func c18SetupPlaces(dir string) {
	w := func(rel, body string) {
		p := filepath.Join(dir, rel)
		os.MkdirAll(filepath.Dir(p), 0o755)
		os.WriteFile(p, []byte(body), 0o644)
	}
	w("proj/lib.ank", "println(\"proj lib loaded\")\nfromlib = \"proj\"\n")
	w("work/lib.ank", "println(\"work lib loaded\")\nfromlib = \"work\"\n")
	w("proj/only-proj.ank", "println(\"only-proj loaded\")\nonlyproj = 1\n")
	w("work/only-work.ank", "println(\"only-work loaded\")\nonlywork = 1\n")
	w("proj/sub/helper.ank", "println(\"helper loaded\")\nhelper = func(v) { return v + 1 }\n")
	w("proj/chain.ank", "println(\"chain start\")\nload(\"only-proj.ank\")\nprintln(\"chain end\")\n")
	w("work/chain-work.ank", "println(\"chain-work start\")\nload(\"only-work.ank\")\nload(\"only-proj.ank\")\nprintln(\"chain-work end\")\n")
	w("proj/crlf-lib.ank", "println(\"crlf lib\")\r\nrawlib = `a\r\nb`\r\nprintln(len(rawlib))\r\n")
	w("proj/data.txt", "proj data\n")
	w("work/notes.txt", "work notes\n")
	w("proj/common.txt", "common of proj\n")
	w("work/common.txt", "common of work\n")
	os.MkdirAll(filepath.Join(dir, "work/sub"), 0o755)
}

var c18RelTargets = []string{
	"lib.ank", "lib.ank", "./lib.ank", "only-proj.ank", "only-proj.ank", "only-work.ank", "sub/helper.ank", "./sub/helper.ank", "../proj/only-proj.ank", "../work/only-work.ank",
	"proj/only-proj.ank", "work/only-work.ank", "chain.ank", "chain-work.ank", "proj/chain.ank", "../proj/chain.ank", "crlf-lib.ank", "nosuch.ank", "sub", "data.txt", "../only-proj.ank", "..//proj/lib.ank", "helper.ank", "../lib.ank", "sub/../only-proj.ank",
}

var c18RelData = []string{"data.txt", "notes.txt", "common.txt", "./data.txt", "../proj/data.txt", "proj/data.txt", "../work/notes.txt", "nosuch.txt", "lib.ank", "sub/helper.ank", "../data.txt"}

// c18GenCwd: a script that names files by relative path. dir is the scratch
// directory (absolute targets are spelled with it).
func c18GenCwd(r *rand.Rand, dir string) c18Script {
	var feat []string
	var stmts []string
	tgt := func() string {
		if r.Intn(10) == 0 {
			feat = append(feat, "r6:cwd:absolute-target")
			return filepath.Join(dir, r5pick(r, []string{"proj/only-proj.ank", "proj/lib.ank", "work/only-work.ank", "proj/nosuch.ank", "proj/chain.ank"}))
		}
		return c18RelTargets[r.Intn(len(c18RelTargets))]
	}
	if r.Intn(2) == 0 {
		stmts = append(stmts, "println(\"start\")")
	}
	for i, n := 0, 1+r.Intn(3); i < n; i++ {
		switch k := r.Intn(20); {
		case k < 6:
			feat = append(feat, "r6:cwd:load")
			stmts = append(stmts, "load("+c18AnkoQuote(tgt())+")", "println(\"loaded\", defined(\"fromlib\"), defined(\"onlyproj\"), defined(\"onlywork\"), defined(\"helper\"))")
		case k < 8:
			feat = append(feat, "r6:cwd:load-caught")
			stmts = append(stmts, "try {\n  load("+c18AnkoQuote(tgt())+")\n  println(\"load ok\")\n} catch lerr {\n  println(\"load failed:\", lerr)\n}")
		case k < 10:
			feat = append(feat, "r6:cwd:load-in-function")
			fn := "ld" + strconv.Itoa(i)
			stmts = append(stmts, "func "+fn+"(p) {\n  println(\"loading\", p)\n  return load(p)\n}", "println(\"result\", "+fn+"("+c18AnkoQuote(tgt())+"))")
		case k < 11:
			feat = append(feat, "r6:cwd:load-which-copy")
			stmts = append(stmts, "load("+c18AnkoQuote(r5pick(r, []string{"lib.ank", "./lib.ank"}))+")", "println(\"lib of\", fromlib)")
		case k < 13:
			feat = append(feat, "r6:cwd:readfile")
			stmts = append(stmts, "rb, rerr = import(\"io/ioutil\").ReadFile("+c18AnkoQuote(c18RelData[r.Intn(len(c18RelData))])+")", "println(toString(rb), rerr)")
		case k < 14:
			feat = append(feat, "r6:cwd:stat")
			stmts = append(stmts, "fi, serr = import(\"os\").Stat("+c18AnkoQuote(tgt())+")", "println(\"stat\", serr == nil, serr)")
		case k < 15:
			feat = append(feat, "r6:cwd:open")
			stmts = append(stmts, "fh, oerr = import(\"os\").Open("+c18AnkoQuote(c18RelData[r.Intn(len(c18RelData))])+")", "println(\"open\", oerr == nil, oerr)")
		case k < 16:
			feat = append(feat, "r6:cwd:getwd")
			stmts = append(stmts, "println(import(\"os\").Getwd())")
		case k < 17:
			feat = append(feat, "r6:cwd:abs")
			stmts = append(stmts, "println(import(\"path/filepath\").Abs("+c18AnkoQuote(tgt())+"))")
		case k < 18:
			feat = append(feat, "r6:cwd:glob")
			stmts = append(stmts, "println(import(\"path/filepath\").Glob("+c18AnkoQuote(r5pick(r, []string{"*.txt", "only-*.ank", "sub/*", "*/lib.ank", "../*/data.txt"}))+"))")
		case k < 19:
			feat = append(feat, "r6:cwd:readdir")
			stmts = append(stmts, "des, derr = import(\"io/ioutil\").ReadDir("+c18AnkoQuote(r5pick(r, []string{"sub", "../proj/sub", "../work/sub", "nosuchdir"}))+")", "println(len(des), derr)")
		default:
			feat = append(feat, "r6:cwd:chdir-then-load")
			stmts = append(stmts, "println(import(\"os\").Chdir("+c18AnkoQuote(r5pick(r, []string{"../proj", "../work", "sub", "proj", "nosuchdir"}))+"))", "load("+c18AnkoQuote(tgt())+")", "println(\"loaded after chdir\")")
		}
	}
	if r.Intn(2) == 0 {
		stmts = append(stmts, "println(\"end\", len(args))")
	}
	src := strings.Join(stmts, "\n") + "\n"
	return c18Script{Src: src, Feats: feat, UsesArgs: strings.Contains(src, "args")}
}

// runScriptAt supplies one script both ways from the working directory of
// place pl: the script file lives in pl.ScriptDir under the name base.
func (x *c18Ctx) runScriptAt(sc *c18Script, args []string, pl c18Place, base, eForm string) {
	c := x.c
	scriptPath := filepath.Join(x.dir, pl.ScriptDir, base)
	cwd := filepath.Join(x.dir, pl.Cwd)
	if err := os.WriteFile(scriptPath, []byte(sc.Src), 0o644); err != nil {
		c.Inconclusive("cannot-write-script", err.Error(), nil)
		return
	}
	defer os.Remove(scriptPath)
	var fileArg string
	switch pl.Form {
	case "abs":
		fileArg = scriptPath
	case "abs-dotdot":
		fileArg = cwd + "/../" + pl.ScriptDir + "/" + base
	case "symlink":
		link := filepath.Join(cwd, "link-to-script.ank")
		os.Remove(link)
		rel, err := filepath.Rel(cwd, scriptPath)
		if err == nil {
			err = os.Symlink(rel, link)
		}
		if err != nil {
			c.Inconclusive("cannot-link-script", err.Error(), nil)
			return
		}
		defer os.Remove(link)
		fileArg = "link-to-script.ank"
	default:
		rel, err := filepath.Rel(cwd, scriptPath)
		if err != nil {
			c.Inconclusive("cannot-name-script", err.Error(), nil)
			return
		}
		fileArg = rel
	}
	y := *x
	y.dir = cwd
	y.place = pl.Name
	c.Tag("place:" + pl.Name)
	c.Begin(map[string]interface{}{"src": sc.Src, "args": args, "stage": "library", "cwd": cwd})
	lib := c18RunLib(y.self, cwd, sc.Src, args)
	c.Tag("library-runs")
	y.check("file", sc, append([]string{fileArg}, args...), args, &lib)
	var eargs []string
	for _, a := range args {
		if !strings.HasPrefix(a, "-") {
			eargs = append(eargs, a)
		}
	}
	libE := &lib
	if !c18SameArgs(eargs, args) {
		l2 := c18RunLib(y.self, cwd, sc.Src, eargs)
		c.Tag("library-runs")
		libE = &l2
	}
	var argv []string
	if eForm == "e=" {
		argv = append([]string{"-e=" + sc.Src}, eargs...)
	} else {
		argv = append([]string{"-e", sc.Src}, eargs...)
	}
	y.check(eForm, sc, argv, eargs, libE)
}

// ---------------------------------------------------------------------------
// family C: line breaks in error texts

// error texts (the real bytes)
var c18CrTexts = []string{
	"10%\r20%\rfailed", "a\rb", "a\r\nb", "\r", "\r\n", "line\r", "\rstart", "a\n\rb", "a\r\r\nb", "first\nsecond\r\nthird\rfourth", "ends in CRLF\r\n", "tab\tand\rcr",
	"copying 1/3\rcopying 2/3\rdisk full", "C:\\dir\\file\r\n", "\r\r", "\n", "x\r\n\r\ny", "cr at end of words \r", "ünï\rcödé", "no break at all", "\\r is not a CR", "\\n\r", "field\r\nfield\r\n",
}

var c18CrArgs = []string{"a\rb", "a\r\nb", "\r", "tail\r", "\rhead", "plain", "two\nlines", "10%\r20%"}

func c18CrStmt(r *rand.Rand, text string, feat *[]string, needArg *string) string {
	q := c18AnkoQuote(text)
	switch k := r.Intn(16); {
	case k < 3:
		*feat = append(*feat, "r6:route:throw-string")
		return "throw(" + q + ")"
	case k < 4:
		*feat = append(*feat, "r6:route:throw-go-error")
		return "throw(import(\"errors\").New(" + q + "))"
	case k < 5:
		*feat = append(*feat, "r6:route:import-missing")
		return "import(" + q + ")"
	case k < 6:
		*feat = append(*feat, "r6:route:load-missing")
		return "load(\"nosuch-\" + " + q + ")"
	case k < 7:
		*feat = append(*feat, "r6:route:throw-through-calls")
		return "func fail2(m) {\n  throw(m)\n}\nfunc fail1(m) {\n  fail2(\"failed: \" + m)\n}\nfail1(" + q + ")"
	case k < 8:
		*feat = append(*feat, "r6:route:errorf")
		return "throw(import(\"fmt\").Errorf(\"%s after %d tries\", " + q + ", " + strconv.Itoa(r.Intn(9)) + "))"
	case k < 10:
		*feat = append(*feat, "r6:route:quotes-argument")
		*needArg = c18CrArgs[r.Intn(len(c18CrArgs))]
		return "if len(args) > 0 {\n  throw(\"bad argument: \" + args[0])\n}\nprintln(\"no arguments\")"
	case k < 12:
		if !strings.Contains(text, "`") {
			// the bytes themselves, in a raw literal (the same bytes in the file and in the -e word)
			*feat = append(*feat, "r6:route:throw-raw-literal")
			return "throw(`" + text + "`)"
		}
		return "throw(" + q + ")"
	case k < 13:
		*feat = append(*feat, "r6:route:throw-again")
		return "try {\n  throw(" + q + ")\n} catch first {\n  throw(\"again: \" + toString(first))\n}"
	case k < 14:
		*feat = append(*feat, "r6:route:go-panic")
		return "import(\"regexp\").MustCompile(\"(\" + " + q + ")"
	case k < 15:
		*feat = append(*feat, "r6:route:text-computed")
		return "cr = \"\\r\"\nthrow(\"step 1\" + cr + \"step 2\" + " + r5pick(r, []string{"cr", "\"\"", "cr + \"\\n\"", "\"\\n\" + cr"}) + " + " + q + ")"
	default:
		*feat = append(*feat, "r6:route:progress-output-then-throw")
		return "print(\"10%\\r20%\\r\")\nthrow(" + q + ")"
	}
}

func c18GenCr(r *rand.Rand) (c18Script, []string) {
	var feat []string
	var stmts []string
	args := c18GenArgs(r)
	for i, n := 0, r.Intn(3); i < n; i++ {
		stmts = append(stmts, r5pick(r, []string{"println(\"start\")", "print(\"progress 50%\\r\")", "print(\"dos line\\r\\n\")", "printf(\"%q\\n\", \"a\\rb\")", "x0 = 5", "println(\"a\\rb\")"}))
	}
	text := c18CrTexts[r.Intn(len(c18CrTexts))]
	switch r.Intn(5) {
	case 0:
		text = "error: " + text
	case 1:
		text = text + c18CrTexts[r.Intn(len(c18CrTexts))]
	}
	switch {
	case strings.Contains(strings.Replace(text, "\r\n", "", -1), "\r"):
		feat = append(feat, "r6:text:lone-cr")
	case strings.Contains(text, "\r\n"):
		feat = append(feat, "r6:text:crlf")
	case strings.Contains(text, "\n"):
		feat = append(feat, "r6:text:lf")
	default:
		feat = append(feat, "r6:text:no-break")
	}
	needArg := ""
	st := c18CrStmt(r, text, &feat, &needArg)
	if needArg != "" {
		args = append([]string{needArg}, args...)
		if len(args) > 3 {
			args = args[:3]
		}
	}
	stmts = append(stmts, c18Wrap(r, st, &feat))
	if r.Intn(2) == 0 {
		stmts = append(stmts, "println(\"end\")")
	}
	src := strings.Join(stmts, "\n")
	if r.Intn(8) > 0 {
		src += "\n"
	}
	return c18Script{Src: src, Feats: feat, UsesArgs: strings.Contains(src, "args")}, args
}

// unreadable paths whose name holds a line break (the diagnostic, if any, is still one line)
var c18CrUnreadable = []c18Unreadable{
	{"missing", "no\rsuch.ank"},
	{"missing", "no\r\nsuch.ank"},
	{"missing", "nosuch.ank\r"},
	{"missing", "\r"},
	{"missing", "no\nsuch.ank"},
	{"missing", "adir/in\rner.ank"},
	{"missing", "10%\r20%\r.ank"},
}

// ---------------------------------------------------------------------------
// hand-written members (run first in the phase)

type c18R6Case struct {
	Name   string
	Src    string
	Args   [][]string // nil: {} and {"x", "y"}
	Places bool       // family B: run at every place of c18Places
}

var c18FixedR6 = []c18R6Case{
	// A
	{Name: "crlf-raw-string-length", Src: "s = `a\r\nb`\r\nprintln(len(s))\r\n"},
	{Name: "crlf-raw-string-bytes", Src: "s = `one\r\ntwo\r\n`\r\nfor b in toByteSlice(s) {\r\n  print(b, \" \")\r\n}\r\nprintln()\r\n"},
	{Name: "crlf-raw-string-printed", Src: "print(`first\r\nsecond\r\n`)\r\n"},
	{Name: "crlf-raw-string-quoted", Src: "printf(\"%q\\n\", `x\r\ny`)\r\n"},
	{Name: "crlf-raw-string-verdict-ok", Src: "s = `a\r\nb`\r\nif len(s) != 4 {\r\n  throw(\"expected 4 bytes\")\r\n}\r\nprintln(\"ok\")\r\n"},
	{Name: "crlf-raw-string-verdict-error", Src: "s = `a\r\nb`\r\nprintln(\"checking\")\r\nif len(s) == 4 {\r\n  throw(\"four bytes\")\r\n}\r\nprintln(\"not four\")\r\n"},
	{Name: "crlf-raw-string-equals-escaped", Src: "println(`a\r\nb` == \"a\\r\\nb\", `a\r\nb` == \"a\\nb\")\r\n"},
	{Name: "lf-file-crlf-only-in-literal", Src: "s = `a\r\nb`\nprintln(len(s))\n"},
	{Name: "crlf-file-lf-only-in-literal", Src: "s = `a\nb`\r\nprintln(len(s))\r\n"},
	{Name: "lone-cr-in-raw-string", Src: "s = `a\rb`\nprintln(len(s), s == \"a\\rb\")\n"},
	{Name: "lone-cr-between-tokens", Src: "println(1 +\r2)\n"},
	{Name: "lone-cr-between-statements", Src: "println(\"a\")\rprintln(\"b\")\n"},
	{Name: "cr-in-double-quoted-literal", Src: "println(len(\"a\rb\"))\r\n"},
	{Name: "crlf-in-block-comment", Src: "/* one\r\ntwo */\r\nprintln(\"after\")\r\n"},
	{Name: "crlf-shebang", Src: "#!/usr/bin/env anko\r\nprintln(\"after shebang\")\r\n"},
	{Name: "raw-string-trailing-blanks", Src: "s = `a  \n\tb\t\n`\nprintln(len(s))\n"},
	{Name: "byte-order-mark", Src: "\xef\xbb\xbfprintln(\"after bom\")\n"},
	{Name: "final-ctrl-z", Src: "println(\"before\")\r\n\x1a"},
	{Name: "crlf-raw-string-thrown", Src: "println(\"a\")\r\nthrow(`first\r\nsecond`)\r\n"},
	// B
	{Name: "load-relative-next-to-script", Src: "println(\"start\")\nload(\"only-proj.ank\")\nprintln(\"after\", onlyproj)\n", Places: true},
	{Name: "load-relative-in-both", Src: "load(\"lib.ank\")\nprintln(\"lib of\", fromlib)\n", Places: true},
	{Name: "load-relative-only-in-cwd", Src: "load(\"only-work.ank\")\nprintln(\"after\", onlywork)\n", Places: true},
	{Name: "load-relative-subdirectory", Src: "println(\"start\")\nload(\"sub/helper.ank\")\nprintln(helper(1))\n", Places: true},
	{Name: "load-relative-caught", Src: "try {\n  load(\"only-proj.ank\")\n  println(\"found\")\n} catch e {\n  println(\"not found:\", e)\n}\nprintln(\"after\")\n", Places: true},
	{Name: "load-chain", Src: "println(\"start\")\nload(\"../proj/chain.ank\")\nprintln(\"after\")\n", Places: true},
	{Name: "load-dot-slash", Src: "load(\"./only-proj.ank\")\nprintln(\"after\")\n", Places: true},
	{Name: "readfile-relative", Src: "b, err = import(\"io/ioutil\").ReadFile(\"data.txt\")\nprintln(toString(b), err)\nb, err = import(\"io/ioutil\").ReadFile(\"common.txt\")\nprintln(toString(b), err)\n", Places: true},
	{Name: "getwd-and-abs", Src: "println(import(\"os\").Getwd())\nprintln(import(\"path/filepath\").Abs(\"lib.ank\"))\n", Places: true},
	{Name: "load-in-function-with-args", Src: "func ld(p) {\n  return load(p)\n}\nprintln(len(args))\nld(\"only-proj.ank\")\nprintln(\"never?\")\n", Places: true},
	// C
	{Name: "throw-lone-cr", Src: "println(\"a\")\nthrow(\"10%\\r20%\\rfailed\")\n"},
	{Name: "throw-crlf", Src: "throw(\"first\\r\\nsecond\")\n"},
	{Name: "throw-only-cr", Src: "print(\"partial \")\nthrow(\"\\r\")\n"},
	{Name: "throw-ends-in-cr", Src: "throw(\"failed\\r\")\n"},
	{Name: "throw-ends-in-crlf", Src: "throw(\"failed\\r\\n\")\n"},
	{Name: "throw-lf-cr", Src: "throw(\"a\\n\\rb\")\n"},
	{Name: "throw-go-error-with-cr", Src: "throw(import(\"errors\").New(\"step\\rfailed\"))\n"},
	{Name: "import-name-with-cr", Src: "println(\"a\")\nimport(\"no\\rsuch\")\n"},
	{Name: "load-name-with-cr", Src: "load(\"no\\rsuch.ank\")\n"},
	{Name: "argument-with-cr-in-error", Src: "if len(args) > 0 {\n  throw(\"bad argument \" + args[0])\n}\nthrow(\"no argument\\r\")\n", Args: [][]string{{}, {"a\rb"}, {"a\r\nb", "c"}, {"\r"}, {"plain"}}},
	{Name: "cr-error-in-function-after-output", Src: "func f() {\n  println(\"in f\")\n  throw(\"x\\ry\")\n}\nprintln(\"before\")\nf()\n"},
	{Name: "cr-error-caught", Src: "try {\n  throw(\"a\\rb\")\n} catch e {\n  printf(\"%q\\n\", toString(e))\n}\nprintln(\"fine\")\n"},
	{Name: "script-prints-cr", Src: "print(\"10%\\r20%\\rdone\\r\\n\")\nprintln(\"a\\rb\")\n"},
}

func c18RunR6(x *c18Ctx, c *wk.Case) {
	x.spell = true
	if c.Index < len(c18FixedR6) {
		fx := c18FixedR6[c.Index]
		sc := &c18Script{Src: fx.Src, UsesArgs: strings.Contains(fx.Src, "args")}
		c.Tag("fixed:" + fx.Name)
		argsets := fx.Args
		if argsets == nil {
			argsets = [][]string{{}, {"x", "y"}}
		}
		if fx.Places {
			c18SetupPlaces(x.dir)
			for i, pl := range c18Places {
				x.runScriptAt(sc, argsets[i%len(argsets)], pl, c18BaseNames[(c.Index+i)%len(c18BaseNames)], "e")
			}
			return
		}
		for i, as := range argsets {
			eForm := "e"
			if (c.Index+i)%3 == 2 {
				eForm = "e="
			}
			x.runScript(sc, as, c18FileNames[(c.Index+i)%len(c18FileNames)], eForm)
		}
		if c.Index == 0 {
			// unreadable files whose name holds a line break ride along with the first case
			for _, u := range c18CrUnreadable {
				x.runUnreadable(u, nil)
			}
		}
		return
	}
	r := c.Rng
	eForm := "e"
	if r.Intn(6) == 0 {
		eForm = "e="
	}
	tag := func(sc *c18Script) {
		for _, f := range sc.Feats {
			c.Tag("feat:" + f)
		}
	}
	switch k := r.Intn(100); {
	case k < 36:
		c.Tag("r6:family:bytes")
		sc := c18GenBytes(r)
		tag(&sc)
		x.runScript(&sc, c18GenArgs(r), c18FileNames[r.Intn(len(c18FileNames))], eForm)
	case k < 68:
		c.Tag("r6:family:cwd")
		c18SetupPlaces(x.dir)
		sc := c18GenCwd(r, x.dir)
		tag(&sc)
		pl := c18Places[r.Intn(len(c18Places))]
		if r.Intn(3) > 0 {
			// mostly away from the script's directory
			pl = c18Places[r.Intn(7)]
		}
		x.runScriptAt(&sc, c18GenArgs(r), pl, c18BaseNames[r.Intn(len(c18BaseNames))], eForm)
	case k < 97:
		c.Tag("r6:family:cr-in-error-text")
		sc, args := c18GenCr(r)
		tag(&sc)
		x.runScript(&sc, args, c18FileNames[r.Intn(len(c18FileNames))], eForm)
	default:
		c.Tag("r6:family:cr-in-unreadable-name")
		u := c18CrUnreadable[r.Intn(len(c18CrUnreadable))]
		if r.Intn(2) == 0 {
			u = c18Unreadable{Kind: "missing", Path: "missing-" + r5pick(r, c18CrArgs) + ".ank"}
		}
		x.runUnreadable(u, c18GenArgs(r))
	}
}

// names of the script file in family B (no directory part; never a name the furniture uses)
var c18BaseNames = []string{"main.ank", "s 1.ank", "script", "ünï.ank", "run.txt", "e"}
