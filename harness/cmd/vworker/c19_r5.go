package main

// C19, round 5 additions.
//
//  1. tables: every function entry is also reached THROUGH A SCRIPT (member access on the value
//     `import` yields, in several syntactic positions) and the function the script gets must be the
//     table's Go function; every type entry is reached through a script type path (`make([]m.T)`).
//  2. phase "histories": the statement quantifies over ALL argument tuples, not over first calls. A
//     builtin that returns a container (range, keys, the slice forms) is called, the host or the
//     script stores into / appends to what it returned, and the builtin is called again with the same
//     and with related arguments, in the same and in a fresh environment of the same process: every
//     call is judged against the native reference computed from the arguments' CURRENT values.

import (
	"fmt"
	"math"
	"math/rand"
	"reflect"
	"runtime"
	"strconv"
	"strings"

	"github.com/mattn/anko/env"

	"verifharness/internal/ank"
	"verifharness/internal/wk"
)

// ---------------------------------------------------------------------------------------------
// tables: what a script reaches
// ---------------------------------------------------------------------------------------------

// c19MemberForms are the syntactic positions in which a script reads member KEY of the module; %s
// is the key. `m` is bound to import("<pkg>") beforehand (form 0 imports in place).
var c19MemberForms = []struct{ name, src string }{
	{"import-dot", "import(%q).%s"},
	{"var-dot", "m.%s"},
	{"let-then-read", "f = m.%s\nf"},
	{"element-dot", "[m][0].%s"},
	{"param-dot", "func(p) { return p.%s }(m)"},
	{"map-value-dot", "{\"k\": m}[\"k\"].%s"},
}

// c19TablesScript: for every function entry of pkg, the value a script obtains by member access on
// the imported module is the table's Go function (same code pointer, same type); for every type
// entry, the type a script names with the path m.<key> is the table's Go type.
func c19TablesScript(c *wk.Case, pkg string, funcs map[string]reflect.Value, types map[string]reflect.Type) {
	e := ank.NewCoreEnv()
	if o := ank.Exec(e, "m = import("+strconv.Quote(pkg)+")"); o.Err != nil || o.Panicked {
		return // reported by the caller (table:import:*)
	}
	for _, key := range c19SortedKeysV(funcs) {
		v := funcs[key]
		if !v.IsValid() || v.Kind() != reflect.Func || v.IsNil() {
			// constants and variables: the statement speaks of functions and types only
			continue
		}
		for _, form := range c19MemberForms {
			var src string
			if form.name == "import-dot" {
				src = fmt.Sprintf(form.src, pkg, key)
			} else {
				src = fmt.Sprintf(form.src, key)
			}
			in := map[string]string{"package": pkg, "key": key, "src": src, "m": "import(" + strconv.Quote(pkg) + ")"}
			c.Begin(in)
			o := ank.Exec(e, src)
			c.Events(1)
			c.Eval("script-member:"+pkg+"."+key+":"+form.name, true)
			c.Tag("table:script:" + form.name)
			sig := "table:script:func:" + pkg + "." + key
			switch {
			case o.Panicked:
				c.Violation(sig, "reading the member panicked: "+o.PanicVal+" ("+o.PanicSig+")", in)
				continue
			case o.Err != nil:
				c.Violation(sig, "a listed function is not reachable from a script: "+o.Err.Error(), in)
				continue
			}
			got := reflect.ValueOf(o.Val)
			if !got.IsValid() || got.Kind() != reflect.Func || got.IsNil() || got.Pointer() != v.Pointer() || got.Type() != v.Type() {
				name := "?"
				if got.IsValid() && got.Kind() == reflect.Func && !got.IsNil() {
					if f := runtime.FuncForPC(got.Pointer()); f != nil {
						name = f.Name()
					}
				}
				in["got_type"] = fmt.Sprint(reflect.TypeOf(o.Val))
				in["want_type"] = v.Type().String()
				in["got_symbol"] = name
				c.Violation(sig, fmt.Sprintf("the script reads %s.%s as a %v (%s), the table lists the Go function %s.%s of type %v", pkg, key, reflect.TypeOf(o.Val), name, pkg, key, v.Type()), in)
			}
		}
	}
	for _, key := range c19SortedKeysT(types) {
		t := types[key]
		if t == nil {
			continue
		}
		// A type is named in a script by a type path. make([]m.T) is used because its result
		// carries the type whatever the zero value of T is (a nil interface value has no type).
		// What make does is not this property's business: when it refuses, nothing is judged.
		for _, src := range []string{"make([]m." + key + ")", "make([]m." + key + ", 1)", "make(chan m." + key + ")"} {
			in := map[string]string{"package": pkg, "key": key, "src": src, "m": "import(" + strconv.Quote(pkg) + ")", "type": t.String()}
			c.Begin(in)
			o := ank.Exec(e, src)
			c.Events(1)
			sig := "table:script:type:" + pkg + "." + key
			if o.Panicked {
				c.Violation(sig, "naming the type panicked: "+o.PanicVal+" ("+o.PanicSig+")", in)
				continue
			}
			if o.Err != nil || o.Val == nil {
				c.Eval("script-type:"+src+pkg, false)
				c.Tag("unjudged:table:script:type")
				continue
			}
			c.Eval("script-type:"+src+pkg, true)
			c.Tag("table:script:type")
			gt := reflect.TypeOf(o.Val)
			if (gt.Kind() != reflect.Slice && gt.Kind() != reflect.Chan) || gt.Elem() != t {
				c.Violation(sig, fmt.Sprintf("the script's %s has type %v; the table lists %s.%s as %v", src, gt, pkg, key, t), in)
			}
		}
	}
}

// c19TablesRebind is the history that precedes the script-level reads: in an environment of its
// own a script overwrites every function member of module values it imported (three positions in
// which the module is not copied by an assignment first). What a LATER import offers is still
// "the Go function whose name it is listed under": the statement holds for every import, not for
// the first one of a process. Nothing is judged here; c19TablesScript, run afterwards, judges.
func c19TablesRebind(c *wk.Case, pkg string, funcs map[string]reflect.Value) {
	e := ank.NewCoreEnv()
	q := strconv.Quote(pkg)
	for _, key := range c19SortedKeysV(funcs) {
		if v := funcs[key]; !v.IsValid() || v.Kind() != reflect.Func {
			continue
		}
		for _, src := range []string{
			"import(" + q + ")." + key + " = 0",
			"func(p) { p." + key + " = nil }(import(" + q + "))",
			"{\"k\": import(" + q + ")}[\"k\"]." + key + " = \"rebound\"",
		} {
			c.Begin(map[string]string{"src": src})
			if o := ank.Exec(e, src); o.Panicked || o.Err != nil {
				c.Tag("table:rebind:refused") // whether a module member may be assigned is not this property's business
			} else {
				c.Tag("table:rebind")
			}
		}
	}
}

// ---------------------------------------------------------------------------------------------
// phase "histories"
// ---------------------------------------------------------------------------------------------

// c19Site is one builtin call whose result is a container: script text over variables, the Go
// values of those variables, and the reference computed from their CURRENT content.
type c19Site struct {
	name string // builtin
	call string
	defs map[string]interface{}
	ref  func() c19Ref
}

const c19HistMaxLen = 300 // histories run in-process: only short progressions whose successor stays inside int64

func c19RangeSite(k int, args []int64) (c19Site, bool) {
	w := c19RangeWant(args)
	if w.excluded != "" || w.n > c19HistMaxLen || strings.Contains(w.class, ":wrap") {
		return c19Site{}, false
	}
	defs := map[string]interface{}{}
	var parts []string
	for i, a := range args {
		n := string(rune('a'+i)) + strconv.Itoa(k)
		defs[n] = a
		parts = append(parts, n)
	}
	call := "range(" + strings.Join(parts, ", ") + ")"
	return c19Site{name: "range", call: call, defs: defs, ref: func() c19Ref {
		if w.isErr {
			return c19Ref{judged: true, wantErr: true}
		}
		out := make([]interface{}, w.n)
		for i := range out {
			out[i] = w.at(i)
		}
		return c19Ref{judged: true, want: out}
	}}, true
}

func c19ValueSite(k int, name string, x interface{}) c19Site {
	var b c19Builtin
	for _, bb := range c19Builtins {
		if bb.name == name {
			b = bb
		}
	}
	xn := "x" + strconv.Itoa(k)
	return c19Site{name: name, call: name + "(" + xn + ")", defs: map[string]interface{}{xn: x}, ref: func() c19Ref { return b.ref(x) }}
}

// c19Hist runs one history over the sites and judges every call.
type c19Hist struct {
	c     *wk.Case
	sites []c19Site
	e     *env.Env
	envNo int
	log   []string
}

func (h *c19Hist) freshEnv() {
	h.e = ank.NewCoreEnv()
	h.envNo++
	for _, s := range h.sites {
		for k, v := range s.defs {
			h.e.Define(k, v)
		}
	}
	h.log = append(h.log, fmt.Sprintf("-- environment %d (fresh, same process)", h.envNo))
}

func (h *c19Hist) input(src string) map[string]interface{} {
	defs := map[string]string{}
	for _, s := range h.sites {
		for k, v := range s.defs {
			r := ank.Render(v)
			if len(r) > 300 {
				r = r[:300] + "…"
			}
			defs[k] = r
		}
	}
	return map[string]interface{}{"src": src, "defs": defs, "history": append([]string{}, h.log...)}
}

// call executes `r = <site call>`, judges it and returns the Go value of the result.
func (h *c19Hist) call(si int) (interface{}, bool) {
	c, s := h.c, h.sites[si]
	src := "r = " + s.call
	ref := s.ref()
	h.log = append(h.log, src)
	in := h.input(src)
	c.Begin(in)
	o := ank.Exec(h.e, src)
	c.Events(1)
	c.Eval("hist|"+strings.Join(h.log, "\n")+"|"+fmt.Sprint(in["defs"]), ref.judged && len(h.log) > 2)
	c.Tag("hist:" + s.name)
	sig := "history:" + s.name + ":"
	switch {
	case o.Panicked:
		c.Violation(sig+"panic", "panic: "+o.PanicVal+" ("+o.PanicSig+")", in)
		return nil, false
	case !ref.judged:
		c.Tag("unjudged:hist:" + s.name)
		return o.Val, o.Err == nil
	case ref.wantErr:
		if o.Err == nil {
			c.Violation(sig+"noerror", "misuse not reported as an error; got "+ank.Render(o.Val), in)
		}
		return nil, false
	case o.Err != nil:
		if !ref.orErr {
			c.Violation(sig+"error", fmt.Sprintf("unexpected error %q, want %s", o.Err.Error(), c19RenderWant(ref.want)), in)
		}
		return nil, false
	}
	if ok, why := c19Same(o.Val, ref.want); !ok {
		got := ank.Render(o.Val)
		if len(got) > 400 {
			got = got[:400] + "…"
		}
		c.Violation(sig+why, fmt.Sprintf("step %d of the history: got %s, want %s", len(h.log), got, c19RenderWant(ref.want)), in)
	}
	return o.Val, true
}

// c19OtherLit returns a script literal and the Go value of an element that differs from cur.
func c19OtherLit(r c19Rng, et reflect.Type, cur reflect.Value) (string, reflect.Value, bool) {
	switch et.Kind() {
	case reflect.Bool:
		b := !(cur.IsValid() && cur.Bool())
		return strconv.FormatBool(b), reflect.ValueOf(b), true
	case reflect.Int64, reflect.Int32, reflect.Uint8:
		var base int64
		if cur.IsValid() {
			if et.Kind() == reflect.Uint8 {
				base = int64(cur.Uint())
			} else {
				base = cur.Int()
			}
		}
		n := base + 1 + int64(r.Intn(40))
		switch et.Kind() {
		case reflect.Uint8:
			n = (base + 1 + int64(r.Intn(200))) % 256
		case reflect.Int32:
			n = (base + 1 + int64(r.Intn(2000))) % 0x10000
		default:
			if r.Intn(2) == 0 || n < base { // (no overflow: histories use small numbers, but stay safe)
				n = base/2 - 7
			}
		}
		return "(" + strconv.FormatInt(n, 10) + ")", reflect.ValueOf(n).Convert(et), true
	case reflect.Float64:
		f := float64(r.Intn(1000))/4 + 0.125
		if cur.IsValid() && cur.Float() == f {
			f++
		}
		return strconv.FormatFloat(f, 'f', -1, 64), reflect.ValueOf(f), true
	case reflect.String:
		s := "zz" + strconv.Itoa(r.Intn(100))
		return strconv.Quote(s), reflect.ValueOf(s), true
	case reflect.Interface:
		s := "zz" + strconv.Itoa(r.Intn(100))
		return strconv.Quote(s), reflect.ValueOf(s), true
	}
	return "", reflect.Value{}, false
}

// mutate changes what the last call returned: through the script variable r or through the Go value
// the host received (both own the result from now on; neither touches the arguments).
func (h *c19Hist) mutate(val interface{}, r c19Rng) {
	rv := reflect.ValueOf(val)
	if !rv.IsValid() || rv.Kind() != reflect.Slice {
		return
	}
	et := rv.Type().Elem()
	n := rv.Len()
	for k, m := 0, 1+r.Intn(3); k < m; k++ {
		op := r.Intn(6)
		var cur reflect.Value
		i := 0
		if n > 0 {
			i = []int{0, n - 1, n / 2, r.Intn(n), r.Intn(n)}[r.Intn(5)]
			cur = rv.Index(i)
		}
		lit, gv, ok := c19OtherLit(r, et, cur)
		if !ok {
			return
		}
		var src string
		switch {
		case op <= 1 && n > 0:
			src = "r[" + strconv.Itoa(i) + "] = " + lit
		case op == 2 && n > 0:
			// a store through a sub-slice of the result
			lo := r.Intn(i + 1)
			src = "s = r[" + strconv.Itoa(lo) + ":]\ns[" + strconv.Itoa(i-lo) + "] = " + lit
		case op == 3 || (op <= 2 && n == 0):
			src = "r += " + lit
			if et.Kind() == reflect.Interface || et.Kind() == reflect.String {
				src = "r += [" + lit + "]"
			}
		case op == 4 && n > 0:
			// the host stores into the slice vm.Execute returned
			h.log = append(h.log, fmt.Sprintf("(host) result[%d] = %s", i, lit))
			rv.Index(i).Set(gv)
			h.c.Tag("hist:mutate:host-store")
			continue
		case op == 5 && rv.Cap() > n:
			// the host uses spare capacity of the slice it was given
			h.log = append(h.log, fmt.Sprintf("(host) result[:%d][%d] = %s", n+1, n, lit))
			rv.Slice(0, n+1).Index(n).Set(gv)
			h.c.Tag("hist:mutate:host-cap")
			continue
		default:
			continue
		}
		h.log = append(h.log, src)
		h.c.Begin(h.input(src))
		o := ank.Exec(h.e, src)
		if o.Panicked {
			// a store into a builtin's result is ordinary script code; its own semantics belong to
			// other properties, only the builtin calls are judged here
			h.c.Tag("hist:mutate:panicked")
		} else if o.Err != nil {
			h.log[len(h.log)-1] += "   // refused: " + o.Err.Error()
			h.c.Tag("hist:mutate:refused")
		} else {
			h.c.Tag("hist:mutate:script")
		}
	}
}

func (h *c19Hist) run(r c19Rng, steps int) {
	h.freshEnv()
	for k := 0; k < steps; k++ {
		si := r.Intn(len(h.sites))
		if k < len(h.sites) {
			si = k // every site at least once before the repeats
		}
		val, ok := h.call(si)
		if ok && r.Intn(5) != 0 {
			h.mutate(val, r)
		}
		if r.Intn(4) == 0 {
			h.freshEnv()
		}
	}
	// every site once more in the current and in a fresh environment
	for si := range h.sites {
		if val, ok := h.call(si); ok && r.Intn(2) == 0 {
			h.mutate(val, r)
		}
	}
	h.freshEnv()
	for si := range h.sites {
		h.call(si)
	}
	h.c.Count("histories", 1)
}

// c19RandHistSites picks the sites of one history: one family, related arguments.
func c19RandHistSites(r *rand.Rand) []c19Site {
	var sites []c19Site
	add := func(s c19Site, ok bool) {
		if ok {
			sites = append(sites, s)
		}
	}
	small := func() int64 {
		switch r.Intn(4) {
		case 0:
			return int64(r.Intn(8))
		case 1:
			return int64([]int{16, 31, 32, 33, 63, 64, 65, 100, 127, 128, 129, 255, 256, 257}[r.Intn(14)])
		}
		return int64(r.Intn(c19HistMaxLen))
	}
	switch r.Intn(8) {
	case 0, 1, 2, 3:
		// range: the same stop in its three spellings, neighbours of it, and unrelated triples
		n := small()
		for len(sites) == 0 {
			for _, pick := range r.Perm(7)[:1+r.Intn(4)] {
				k := len(sites)
				switch pick {
				case 0:
					add(c19RangeSite(k, []int64{n}))
				case 1:
					add(c19RangeSite(k, []int64{0, n}))
				case 2:
					add(c19RangeSite(k, []int64{0, n, 1}))
				case 3:
					add(c19RangeSite(k, []int64{n + int64(r.Intn(3)) - 1}))
				case 4:
					a := int64(r.Intn(41) - 20)
					add(c19RangeSite(k, []int64{a, a + small()}))
				case 5:
					a, s := int64(r.Intn(2001)-1000), int64(r.Intn(9)+1)
					if r.Intn(2) == 0 {
						s = -s
					}
					add(c19RangeSite(k, []int64{a, a + s*small()/2 + int64(r.Intn(3)) - 1, s}))
				case 6:
					add(c19RangeSite(k, []int64{n, 0, -1}))
				}
			}
		}
	case 4:
		m := c19RandMap(r)
		add(c19ValueSite(0, "keys", m), true)
		if r.Intn(2) == 0 {
			add(c19ValueSite(1, "keys", c19RandMap(r)), true)
		}
	case 5, 6:
		x := c19RandIfaceSlice(r, 1)
		names := []string{"toBoolSlice", "toStringSlice", "toIntSlice", "toFloatSlice"}
		for k, p := range r.Perm(4)[:1+r.Intn(3)] {
			add(c19ValueSite(k, names[p], x), true)
		}
	default:
		s := c19RandString(r)
		if r.Intn(3) == 0 {
			s = []string{"", "a", "ab", "héllo", "0123456789"}[r.Intn(5)]
		}
		add(c19ValueSite(0, "toByteSlice", s), true)
		add(c19ValueSite(1, "toRuneSlice", s), true)
	}
	return sites
}

// c19FixedHistories: deterministic histories (case 0): for every small n each spelling of the
// progression 0..n-1 is called, every position of the result is overwritten, the result is
// extended, and all spellings are called again (same and fresh environment).
func c19FixedHistories(c *wk.Case) {
	r := c.Rng
	for n := int64(0); n <= 130; n++ {
		for _, forms := range [][][]int64{
			{{n}}, {{0, n}}, {{0, n, 1}}, {{n, 0, -1}},
			{{n}, {n + 1}, {0, n}, {0, n, 1}},
			{{n + 1}, {n}},
		} {
			h := &c19Hist{c: c}
			for k, a := range forms {
				if s, ok := c19RangeSite(k, a); ok {
					h.sites = append(h.sites, s)
				}
			}
			h.freshEnv()
			for si := range h.sites {
				val, ok := h.call(si)
				if !ok {
					continue
				}
				// overwrite every element (script) and use spare capacity (host)
				src := "for i = 0; i < len(r); i++ { r[i] = -1000 - i }\nr += 77"
				h.log = append(h.log, src)
				c.Begin(h.input(src))
				ank.Exec(h.e, src)
				if rv := reflect.ValueOf(val); rv.Kind() == reflect.Slice && rv.Cap() > rv.Len() && rv.Type().Elem().Kind() == reflect.Int64 {
					h.log = append(h.log, "(host) result[:len+1][len] = -5")
					rv.Slice(0, rv.Len()+1).Index(rv.Len()).SetInt(-5)
				}
			}
			for si := range h.sites {
				h.call(si)
			}
			h.freshEnv()
			for si := range h.sites {
				h.call(si)
			}
			c.Count("histories", 1)
		}
	}
	// the other container-returning builtins on fixed arguments
	fixed := []c19Site{
		c19ValueSite(0, "keys", map[string]interface{}{"a": int64(1), "b": nil, "": "empty"}),
		c19ValueSite(0, "keys", map[interface{}]interface{}{"a": int64(1), int64(2): "x", true: nil, 2.5: "f"}),
		c19ValueSite(0, "keys", map[int64]string{1: "a", -1: "b", math.MaxInt64: "c"}),
		c19ValueSite(0, "keys", map[string]int64{}),
		c19ValueSite(0, "toIntSlice", []interface{}{int64(1), "a", nil, 2.5, true}),
		c19ValueSite(0, "toFloatSlice", []interface{}{int64(1), "a", nil, 2.5, true}),
		c19ValueSite(0, "toStringSlice", []interface{}{int64(65), "a", nil, 2.5, true}),
		c19ValueSite(0, "toBoolSlice", []interface{}{int64(1), "a", nil, 2.5, true, false}),
		c19ValueSite(0, "toIntSlice", []interface{}{}),
		c19ValueSite(0, "toByteSlice", "abc"),
		c19ValueSite(0, "toByteSlice", ""),
		c19ValueSite(0, "toRuneSlice", "héllo"),
		c19ValueSite(0, "toRuneSlice", "a"),
	}
	for _, s := range fixed {
		for rep := 0; rep < 3; rep++ {
			h := &c19Hist{c: c, sites: []c19Site{s}}
			h.run(r, 4)
		}
	}
}

func c19HistoriesCase(c *wk.Case) {
	if c.Index == 0 {
		c19FixedHistories(c)
		c19FixedKept(c) // round 6 (c19_r6.go)
		return
	}
	r := c.Rng
	for k := 0; k < 12; k++ {
		h := &c19Hist{c: c, sites: c19RandHistSites(r)}
		if len(h.sites) == 0 {
			continue
		}
		h.run(r, 3+r.Intn(7))
	}
	// round 6: kept results across stores into the arguments and vice versa (c19_r6.go)
	for k := 0; k < 8; k++ {
		c19RandKept(c, r)
	}
}
