package main

// C10, round 7: containers that travel, and containers converted on a typed store.
//
// (1) "slices and maps are reference values when assigned or passed". Until now a container
// reached another holder through `d = p`, through the parameter of a direct call of a prelude
// function and through the elements / fields it was stored in. Here it travels every way the
// language has (phase "pass", and 6% of the operations of a random history):
//
//   - as the argument of a call - of a script function with 1, 3 and 5 parameters (the first two
//     are called directly, the last one through reflect.Call), of a variadic script function
//     (collected into the tail, and spread with `p...`: Go passes the slice itself), of an
//     anonymous function, of a function held by a list element / a map entry, of Go functions of
//     the host with an interface parameter, a parameter of exactly the container's type and a
//     variadic tail - called DIRECTLY, DEFERRED (`defer f(p)` inside an anonymous function, a
//     named function, an `if` block, a loop body) and STARTED WITH GO (`go f(p)`; the callee
//     signals on a channel and the caller waits for it, so nothing depends on timing);
//   - as a value: parenthesised, in a multiple assignment, through `var`, the arms of `?:` and
//     `??`, into a list / map literal and out again, through a channel, as the variable of a
//     for-in loop over a list / a map, as the result of a script function (one and two results), of
//     a closure and of a Go function.
//
// In every case the Go model is the same: the receiver holds the SAME slice header / map (Go's
// `defer f(a)` and `go f(a)` evaluate a, i.e. the slice header, at the statement). The receiver
// is bound to a name, and the walker's bijection between live and model element addresses says
// at once whether it still shares storage with the source. "later-store" operations add the
// two-sided form: the callee of a deferred / go call stores l[i] = v and reads l[j], the caller
// stores p[j] = w AFTER the defer / go statement; both stores must arrive in the one container
// and the callee must read w.
//
// Not judged (statement silent): which list a deferred call sees when the NAME is rebound after
// the defer statement (argument evaluation time is not a container rule); a typed slice spread
// into the variadic tail of a script function and a container handed to a Go parameter of
// another type (both are conversions Go does not have: the copy is legitimate); defer at the top
// level of a script.
//
// (2) "a store converts the value as Go would or fails with an error leaving the old content":
// a MAP of another type offered to a typed map slot (element of make([]map[K]V, n), entry of
// map[K]map[K2]V, map field of a struct, appended to / spelled inside a typed literal). Go has
// no conversion between map types, so an error that changes nothing is always accepted; the
// only success accepted is the element-wise conversion the library documents, and what it
// yields is a map like any other: a NEW map (it shares nothing with the source), holding the
// converted entries, non-nil when the source is non-nil (Go's conversions keep nil-ness: a nil
// map converted is the nil map) - so that a name bound to the slot's content afterwards, or a
// parameter it is passed to, is the same map as the slot: a key stored through one is read
// through the other. Phase "slots" drives every slot kind with every kind of source (empty and
// non-empty literal, names bound to untyped / other-typed / same-typed maps, nil, a nil map of
// another type, an unconvertible map), then binds the slot's content to other holders (every way
// of (1)), stores and deletes through one holder and reads through the others. The same for
// slices stored into a slot of make([][]int64, n). `p == nil` / `p != nil` is observed on maps
// everywhere and on slices when the model leaves no doubt (length above zero, or directly after
// a store in phase "slots").
//
// (3) Repairs of /repo covered positively: a nil slice / map converted element-wise stays nil
// (sources "nil-other-type" of phase "slots"); `m + x` with a map on the left is an error for
// every right operand and rebinds nothing (opMapPlus takes scalars now); a store through a field
// of a field of a struct value held by a list / map element is refused (c10FixedStructOfStruct).

import (
	"fmt"
	"reflect"
	"sort"
	"strconv"
	"strings"
	"time"

	"verifharness/internal/wk"
)

// c10GoWaitLimit bounds the wait for a goroutine's signal; when it expires the operation is
// inconclusive (nothing is judged by it).
const c10GoWaitLimit = 120 * time.Second

// c10WhyContainerConv: the class of an accepted error on a store of a map / slice of another type.
const c10WhyContainerConv = "container-conversion"

// c10FreshStorable: a converted (fresh) container can be the stored value of this operation: a
// map always; a slice only where the model can adopt its unspecified capacity (in-range index
// stores and field stores).
func c10FreshStorable(cv reflect.Value, noSlices bool) bool {
	if !cv.IsValid() {
		return false
	}
	switch cv.Kind() {
	case reflect.Map:
		return true
	case reflect.Slice:
		return !noSlices
	}
	return false
}

// c10AdoptCap: cv with the capacity of the live converted copy (not specified by anybody).
func c10AdoptCap(cv, live reflect.Value) reflect.Value {
	if live.IsValid() && live.Kind() == reflect.Slice && !cv.IsNil() && live.Cap() > cv.Len() && live.Len() == cv.Len() {
		n := reflect.MakeSlice(cv.Type(), cv.Len(), live.Cap())
		reflect.Copy(n, cv)
		return n
	}
	return cv
}

// c10ConvMap: map rv offered to a slot of map type t (another type): the element-wise
// conversion - a new map, nil when the source is nil - or an error (Go has no such conversion).
// Keys and values convert as they do on a store into a map of type t; sources whose keys
// would need a lossy or excluded conversion, or collide after conversion, are not generated.
func c10ConvMap(rv reflect.Value, t reflect.Type) (reflect.Value, int, bool) {
	if rv.IsNil() {
		return reflect.Zero(t), c10CvEither, true
	}
	res := reflect.MakeMap(t)
	bad := false
	it := rv.MapRange()
	for it.Next() {
		kv, kst, _ := c10Key(c10Val{v: it.Key().Interface()}, t.Key(), false)
		switch kst {
		case c10CvExcl, c10CvEither:
			return reflect.Value{}, c10CvExcl, false
		case c10CvErr:
			bad = true
			continue
		}
		cv, vst, fresh := c10Conv(it.Value().Interface(), t.Elem())
		switch vst {
		case c10CvExcl:
			return reflect.Value{}, c10CvExcl, false
		case c10CvErr:
			bad = true
			continue
		case c10CvEither:
			if !fresh || cv.Kind() != reflect.Map {
				return reflect.Value{}, c10CvExcl, false // a lossy value, a slice of unknown capacity: kept out
			}
		}
		if res.MapIndex(kv).IsValid() {
			return reflect.Value{}, c10CvExcl, false // two keys that convert to one
		}
		res.SetMapIndex(kv, cv)
	}
	if bad {
		return reflect.Value{}, c10CvErr, false
	}
	return res, c10CvEither, true
}

// ---- the host side ----

// c10R7Host: what the host's functions received last.
type c10R7Host struct {
	got  interface{}
	done chan bool
}

func c10R7Bind(h *c10Hist) {
	ho := &c10R7Host{done: make(chan bool, 8)}
	h.host = ho
	e := h.env
	def := func(name string, fn interface{}) { _ = e.Define(name, fn) }
	sig := func() { ho.done <- true }
	def("c10hdone", ho.done)
	def("c10hgot", func() interface{} { g := ho.got; ho.got = nil; return g })
	def("c10hid", func(x interface{}) interface{} { return x })
	def("c10hb", func(x interface{}) { ho.got = x })
	def("c10hbS", func(x interface{}) { ho.got = x; sig() })
	def("c10hbL", func(l []interface{}) { ho.got = l })
	def("c10hbLS", func(l []interface{}) { ho.got = l; sig() })
	def("c10hbT", func(l []int64) { ho.got = l })
	def("c10hbTS", func(l []int64) { ho.got = l; sig() })
	def("c10hbM", func(m map[interface{}]interface{}) { ho.got = m })
	def("c10hbMS", func(m map[interface{}]interface{}) { ho.got = m; sig() })
	def("c10hbN", func(m map[string]int64) { ho.got = m })
	def("c10hbNS", func(m map[string]int64) { ho.got = m; sig() })
	def("c10hbF", func(m map[string]float64) { ho.got = m })
	def("c10hbFS", func(m map[string]float64) { ho.got = m; sig() })
	def("c10hbv", func(x int64, l ...interface{}) { ho.got = l })
	def("c10hbvS", func(x int64, l ...interface{}) { ho.got = l; sig() })
	// stores by a Go callee (a buffer being filled)
	def("c10hst", func(l []interface{}, i int64, v interface{}) { l[i] = v })
	def("c10hstS", func(l []interface{}, i int64, v interface{}) { defer sig(); l[i] = v })
	def("c10hstT", func(l []int64, i int64, v int64) { l[i] = v })
	def("c10hstTS", func(l []int64, i int64, v int64) { defer sig(); l[i] = v })
	def("c10hstM", func(m map[interface{}]interface{}, k interface{}, v interface{}) { m[k] = v })
	def("c10hstMS", func(m map[interface{}]interface{}, k interface{}, v interface{}) { defer sig(); m[k] = v })
	def("c10hstN", func(m map[string]int64, k string, v int64) { m[k] = v })
	def("c10hstNS", func(m map[string]int64, k string, v int64) { defer sig(); m[k] = v })
	// a typed Go parameter that receives a map of another type
	def("c10hmput", func(m map[string]int64, k string, v int64) int64 { m[k] = v; return int64(len(m)) })
	def("c10hmnil", func(m map[string]int64) bool { return m == nil })
}

// c10PreludeR7: script functions that keep what they received (c10got), store through their
// parameter, and signal when they ran as a goroutine.
const c10PreludeR7 = `
c10got = nil
c10seen = nil
c10done = make(chan bool, 8)
c10start = make(chan bool, 8)
c10ch = make(chan interface, 2)
func c10id(x) { return x }
func c10id2(x) { return x, 1 }
func c10b1(l) { c10got = l }
func c10b3(x, l, y) { c10got = l }
func c10b5(p, q, l, r, s) { c10got = l }
func c10bv(x, l...) { c10got = l }
func c10g1(l) { c10got = l; c10done <- true }
func c10g3(x, l, y) { c10got = l; c10done <- true }
func c10g5(p, q, l, r, s) { c10got = l; c10done <- true }
func c10gv(x, l...) { c10got = l; c10done <- true }
c10fs = [c10b1, c10g1]
c10fm = {"f": c10b1, "g": c10g1}
func c10st3(l, i, v) { l[i] = v }
func c10st5(p, l, i, v, q) { l[i] = v }
func c10stv(i, v, l...) { l[i] = v }
func c10sl4(l, i, v, j) { l[i] = v; c10seen = l[j] }
func c10lk(l, j) { c10seen = l[j] }
func c10gs4(l, i, v, j) { try { <-c10start; l[i] = v; c10seen = l[j] } catch c10e { c10seen = c10e }; c10done <- true }
func c10gs5(p, l, i, v, j) { try { <-c10start; l[i] = v; c10seen = l[j] } catch c10e { c10seen = c10e }; c10done <- true }
func c10gsv(i, v, j, l...) { try { <-c10start; l[i] = v; c10seen = l[j] } catch c10e { c10seen = c10e }; c10done <- true }
`

// ---- the ways a container travels ----

type c10PassWay struct {
	name string
	// a call: call(P, sig) is the call expression handing P over (sig: the variant whose callee
	// signals when it is through, for the go form); fetch is the expression that yields what
	// the callee received, wait the statement that waits for the signal
	call  func(P string, sig bool) string
	fetch string
	wait  string
	// not a call: the statements that bind D (typeName: the script's name of the container's type, for the ways that need one)
	plain    func(P, D string) string
	typed    func(P, D, typeName string) string
	ok       func(cont reflect.Value) bool
	waitsToo bool // a value way that starts a goroutine and waits for it
}

// c10TypeNames: how the script spells the container types a typed channel can carry.
var c10TypeNames = map[reflect.Type]string{
	c10USliceT: "[]interface", c10I64SlT: "[]int64", c10UMapT: "map[interface]interface", c10MapSIT: "map[string]int64",
	c10MapSFT: "map[string]float64", c10StrT: "string",
}

func c10ScriptCall(plainFn, sigFn, pre, post string) func(string, bool) string {
	return func(P string, sig bool) string {
		fn := plainFn
		if sig {
			fn = sigFn
		}
		return fn + "(" + pre + P + post + ")"
	}
}

var c10HostTyped = map[reflect.Type]string{
	c10USliceT: "c10hbL", c10I64SlT: "c10hbT", c10UMapT: "c10hbM", c10MapSIT: "c10hbN", c10MapSFT: "c10hbF",
}

func c10IsUList(cont reflect.Value) bool { return cont.Type() == c10USliceT }

var c10PassWays = []c10PassWay{
	{name: "fn1", call: c10ScriptCall("c10b1", "c10g1", "", ""), fetch: "c10got", wait: "<-c10done"},
	{name: "fn3", call: c10ScriptCall("c10b3", "c10g3", "0, ", `, "y"`), fetch: "c10got", wait: "<-c10done"},
	{name: "fn5", call: c10ScriptCall("c10b5", "c10g5", "0, 1, ", ", 2, 3"), fetch: "c10got", wait: "<-c10done"},
	{name: "variadic-tail", call: c10ScriptCall("c10bv", "c10gv", "0, ", ""), fetch: "c10got[0]", wait: "<-c10done"},
	{name: "variadic-tail-second", call: c10ScriptCall("c10bv", "c10gv", "0, 1, ", ""), fetch: "c10got[1]", wait: "<-c10done"},
	{name: "spread", call: c10ScriptCall("c10bv", "c10gv", "0, ", "..."), fetch: "c10got", wait: "<-c10done", ok: c10IsUList},
	{name: "anonymous", call: func(P string, sig bool) string {
		if sig {
			return "func(l) { c10got = l; c10done <- true }(" + P + ")"
		}
		return "func(l) { c10got = l }(" + P + ")"
	}, fetch: "c10got", wait: "<-c10done"},
	{name: "anonymous-two", call: func(P string, sig bool) string {
		if sig {
			return "func(x, l) { c10got = l; c10done <- x }(true, " + P + ")"
		}
		return "func(x, l) { c10got = l }(true, " + P + ")"
	}, fetch: "c10got", wait: "<-c10done"},
	{name: "function-in-list", call: func(P string, sig bool) string {
		if sig {
			return "c10fs[1](" + P + ")"
		}
		return "c10fs[0](" + P + ")"
	}, fetch: "c10got", wait: "<-c10done"},
	{name: "function-in-map", call: func(P string, sig bool) string {
		if sig {
			return "c10fm.g(" + P + ")"
		}
		return "c10fm.f(" + P + ")"
	}, fetch: "c10got", wait: "<-c10done"},
	{name: "host-interface", call: c10ScriptCall("c10hb", "c10hbS", "", ""), fetch: "c10hgot()", wait: "<-c10hdone"},
	{name: "host-typed", call: func(P string, sig bool) string { return "" /* filled per container type in opPass */ }, fetch: "c10hgot()", wait: "<-c10hdone",
		ok: func(cont reflect.Value) bool { return c10HostTyped[cont.Type()] != "" }},
	{name: "host-spread", call: c10ScriptCall("c10hbv", "c10hbvS", "0, ", "..."), fetch: "c10hgot()", wait: "<-c10hdone", ok: c10IsUList},
	{name: "host-variadic-tail", call: c10ScriptCall("c10hbv", "c10hbvS", "0, 5, ", ""), fetch: "c10hgot()[1]", wait: "<-c10hdone"},
	// values
	{name: "paren", plain: func(P, D string) string { return D + " = (" + P + ")" }},
	{name: "multi-assign", plain: func(P, D string) string { return D + ", c10z = " + P + ", 1" }},
	{name: "multi-assign-second", plain: func(P, D string) string { return "c10z, " + D + " = 1, " + P }},
	{name: "var", plain: func(P, D string) string { return "var c10v = " + P + "\n" + D + " = c10v" }},
	{name: "ternary", plain: func(P, D string) string { return D + " = true ? " + P + " : nil" }},
	{name: "ternary-else", plain: func(P, D string) string { return D + " = false ? nil : " + P }},
	{name: "nil-coalescing", plain: func(P, D string) string { return D + " = nil ?? " + P }},
	{name: "list-literal", plain: func(P, D string) string { return D + " = [0, " + P + "][1]" }},
	{name: "map-literal-member", plain: func(P, D string) string { return D + ` = {"k": ` + P + `}.k` }},
	{name: "map-literal-index", plain: func(P, D string) string { return D + ` = {"k": ` + P + `}["k"]` }},
	{name: "channel", plain: func(P, D string) string { return "c10ch <- " + P + "\n" + D + " = <-c10ch" }},
	{name: "for-in-list", plain: func(P, D string) string { return "for c10x in [" + P + "] { " + D + " = c10x }" }},
	{name: "for-in-map", plain: func(P, D string) string { return `for c10k, c10x in {"k": ` + P + "} { " + D + " = c10x }" }},
	{name: "result", plain: func(P, D string) string { return D + " = c10id(" + P + ")" }},
	{name: "result-of-two", plain: func(P, D string) string { return D + ", c10z = c10id2(" + P + ")" }},
	{name: "closure-result", plain: func(P, D string) string { return "c10f = func() { return " + P + " }\n" + D + " = c10f()" }},
	{name: "closure-scope", plain: func(P, D string) string { return "func() { " + D + " = " + P + " }()" }},
	{name: "host-result", plain: func(P, D string) string { return D + " = c10hid(" + P + ")" }},
	{name: "switch-case", plain: func(P, D string) string { return "switch 1 {\ncase 1:\n  " + D + " = " + P + "\n}" }},
	{name: "if-block", plain: func(P, D string) string { return "if true { " + D + " = " + P + " }" }},
	{name: "closure-captured-parameter", plain: func(P, D string) string {
		return "c10f = func(l) { return func() { return l } }(" + P + ")\n" + D + " = c10f()"
	}},
	{name: "deferred-closure-scope", plain: func(P, D string) string { return "func() { defer func() { " + D + " = " + P + " }() }()" }},
	{name: "go-closure-scope", waitsToo: true, plain: func(P, D string) string {
		return "go func() { " + D + " = " + P + "; c10done <- true }()\n<-c10done"
	}},
	{name: "typed-channel", ok: func(cont reflect.Value) bool { return c10TypeNames[cont.Type()] != "" },
		typed: func(P, D, tn string) string {
			return "c10tc = make(chan " + tn + ", 1)\nc10tc <- " + P + "\n" + D + " = <-c10tc"
		}},
}

func c10WayByName(n string) *c10PassWay {
	for i := range c10PassWays {
		if c10PassWays[i].name == n {
			return &c10PassWays[i]
		}
	}
	return nil
}

// c10DeferWraps: the function around a defer statement; %s is the statement list (the defer
// statement, then what the caller does before the function returns).
const c10NDeferWraps = 5

func c10DeferWrap(w int, deferStmt, body string) string {
	stmts := deferStmt
	if body != "" {
		stmts += "\n  " + body
	}
	switch w % c10NDeferWraps {
	case 1:
		return "func c10w() {\n  " + stmts + "\n  return 1\n}\nc10w()"
	case 2:
		return "c10w = func() {\n  " + stmts + "\n}\nc10w()"
	case 3:
		// a deferred call registered inside a block runs when the FUNCTION returns (Go); with a
		// body this form is used only where the order of the two stores does not matter
		if body != "" {
			return "func() {\n  if true { " + deferStmt + " }\n  " + body + "\n}()"
		}
		return "func() {\n  if true { " + deferStmt + " }\n}()"
	case 4:
		if body != "" {
			return "func() {\n  for c10i in [0] { " + deferStmt + " }\n  " + body + "\n}()"
		}
		return "func() {\n  for c10i in [0] { " + deferStmt + " }\n}()"
	}
	return "func() {\n  " + stmts + "\n}()"
}

// opPass: container p travels to the name d: form "value" (not a call), "direct", "defer", "go".
// Go model: d holds the same slice header / map / string.
func (h *c10Hist) opPass(w *c10PassWay, form string, wrap int, p c10Place, d string) *c10Op {
	if w == nil || d == "" || d == p.root {
		return nil
	}
	op, cont := h.newOp("pass-"+form, p, "")
	if !cont.IsValid() || cont.Kind() == reflect.Struct {
		return nil
	}
	switch cont.Kind() {
	case reflect.Slice, reflect.Map, reflect.String:
	default:
		return nil
	}
	if w.ok != nil && !w.ok(cont) {
		return nil
	}
	P := p.src()
	call := w.call
	if w.name == "host-typed" {
		call = c10ScriptCall(c10HostTyped[cont.Type()], c10HostTyped[cont.Type()]+"S", "", "")
	}
	bindD := "\n" + d + " = " + w.fetch
	switch {
	case w.call == nil:
		if form != "value" {
			return nil
		}
		if w.typed != nil {
			op.src = w.typed(P, d, c10TypeNames[cont.Type()])
		} else {
			op.src = w.plain(P, d)
		}
		op.waits = w.waitsToo
	case form == "direct":
		op.src = "c10got = nil\n" + call(P, false) + bindD
	case form == "defer":
		op.src = "c10got = nil\n" + c10DeferWrap(wrap, "defer "+call(P, false), "") + bindD
	case form == "go":
		op.src = "c10got = nil\ngo " + call(P, true) + "\n" + w.wait + bindD
		op.waits = true
	default:
		return nil
	}
	op.itag = "way:" + w.name
	op.mut = true
	op.commit = func(reflect.Value) { h.bind(d, cont) }
	return op
}

// ---- stores on both sides of a deferred / go call ----

// c10Sub: an element of a slice (index) or an entry of a map (key).
type c10Sub struct {
	isKey bool
	ix    int64
	k     c10Val
}

func (s c10Sub) src() string {
	if s.isKey {
		return s.k.src
	}
	return strconv.FormatInt(s.ix, 10)
}

func (s c10Sub) same(o c10Sub) bool {
	if s.isKey != o.isKey {
		return false
	}
	if s.isKey {
		return s.k.src == o.k.src
	}
	return s.ix == o.ix
}

// plainStore: the model side of `p[sub] = v` when it is a plain success in Go (in range / an
// entry of a non-nil map, a value the slot takes without any doubt); nil otherwise.
func (h *c10Hist) plainStore(p c10Place, s c10Sub, v c10Val) func() {
	cont := h.mget(p)
	if !cont.IsValid() {
		return nil
	}
	var op *c10Op
	switch cont.Kind() {
	case reflect.Slice:
		if s.isKey || s.ix < 0 || s.ix >= int64(cont.Len()) {
			return nil
		}
		op = h.opWrite(p, c10IdxInt(s.ix, "later"), v, false)
	case reflect.Map:
		if !s.isKey || cont.IsNil() {
			return nil
		}
		if _, ok := c10ValOf(s.k.v); !ok {
			return nil
		}
		op = h.opMapWrite(p, c10Val{src: s.k.src, v: s.k.v, tag: s.k.tag}, v, true, false) // member: the key source is not rewritten
		if op == nil {
			op = h.opMapWrite(p, c10Val{src: s.k.src, v: s.k.v, tag: "nobox"}, v, false, true)
		}
	default:
		return nil
	}
	if op == nil || op.wantErr || op.either || op.commit == nil {
		return nil
	}
	return func() { op.commit(reflect.Value{}) }
}

// c10LaterCallees: how the callee of the deferred / go call stores l[i] = v (and reads l[j]).
// plain(P, I, V, J) is the call for direct / defer, sig(...) the one for go; host callees do
// not read.
type c10LaterCallee struct {
	name  string
	plain func(P, I, V, J string) string
	sig   func(P, I, V, J string) string
	reads bool
	host  bool
	ok    func(cont reflect.Value, v c10Val) bool
}

var c10LaterCallees = []c10LaterCallee{
	{name: "fn4", reads: true,
		plain: func(P, I, V, J string) string { return "c10sl4(" + P + ", " + I + ", " + V + ", " + J + ")" },
		sig:   func(P, I, V, J string) string { return "c10gs4(" + P + ", " + I + ", " + V + ", " + J + ")" }},
	{name: "fn3",
		plain: func(P, I, V, J string) string { return "c10st3(" + P + ", " + I + ", " + V + ")" },
		sig:   func(P, I, V, J string) string { return "c10gs4(" + P + ", " + I + ", " + V + ", " + J + ")" }},
	{name: "fn5",
		plain: func(P, I, V, J string) string { return "c10st5(0, " + P + ", " + I + ", " + V + ", 1)" },
		sig:   func(P, I, V, J string) string { return "c10gs5(0, " + P + ", " + I + ", " + V + ", " + J + ")" }},
	{name: "spread", ok: func(cont reflect.Value, v c10Val) bool { return c10IsUList(cont) },
		plain: func(P, I, V, J string) string { return "c10stv(" + I + ", " + V + ", " + P + "...)" },
		sig:   func(P, I, V, J string) string { return "c10gsv(" + I + ", " + V + ", " + J + ", " + P + "...)" }},
	{name: "anonymous", reads: true,
		plain: func(P, I, V, J string) string {
			return "func(l, i, v, j) { l[i] = v; c10seen = l[j] }(" + P + ", " + I + ", " + V + ", " + J + ")"
		},
		sig: func(P, I, V, J string) string {
			return "func(l, i, v, j) { try { <-c10start; l[i] = v; c10seen = l[j] } catch c10e { c10seen = c10e }; c10done <- true }(" + P + ", " + I + ", " + V + ", " + J + ")"
		}},
	{name: "prelude-set",
		plain: func(P, I, V, J string) string { return "c10set(" + P + ", " + I + ", " + V + ")" },
		sig:   func(P, I, V, J string) string { return "c10gs4(" + P + ", " + I + ", " + V + ", " + J + ")" }},
	{name: "host", host: true,
		ok: func(cont reflect.Value, v c10Val) bool {
			switch cont.Type() {
			case c10USliceT, c10UMapT:
				return true
			case c10I64SlT, c10MapSIT:
				_, isInt := v.v.(int64)
				return isInt
			}
			return false
		},
		plain: func(P, I, V, J string) string { return "c10hst%s(" + P + ", " + I + ", " + V + ")" },
		sig:   func(P, I, V, J string) string { return "c10hst%sS(" + P + ", " + I + ", " + V + ")" }},
}

func c10HostStoreSuffix(t reflect.Type) string {
	switch t {
	case c10I64SlT:
		return "T"
	case c10UMapT:
		return "M"
	case c10MapSIT:
		return "N"
	}
	return ""
}

// opLater: a deferred / go call whose callee stores l[i] = v and reads l[j] when it runs,
// while the caller stores p[j] = w after the defer / go statement. form "defer" | "go";
// look: the callee only reads l[j] (no store).
//
// Go model: both stores arrive in the one container (the caller's first, then the callee's),
// and the callee reads what element j holds when it runs.
func (h *c10Hist) opLater(form string, ce *c10LaterCallee, wrap int, look bool, p c10Place, i c10Sub, v c10Val, j c10Sub, w c10Val) *c10Op {
	op, cont := h.newOp("later-store-"+form, p, "")
	if !cont.IsValid() || (cont.Kind() != reflect.Slice && cont.Kind() != reflect.Map) {
		return nil
	}
	if ce.ok != nil && !ce.ok(cont, v) {
		return nil
	}
	if p.sel == 's' || p.sf != "" {
		op.opk = "later-store-" + form // one kind whatever expression designates the container
	}
	byCaller := h.plainStore(p, j, w)
	if byCaller == nil {
		return nil
	}
	var byCallee func()
	if !look {
		if byCallee = h.plainStore(p, i, v); byCallee == nil {
			return nil
		}
	}
	if w := wrap % c10NDeferWraps; form == "defer" && (w == 3 || w == 4) && (look || i.same(j)) {
		return nil // a defer statement inside a block: only where the order of store and deferred call does not matter
	}
	P, I, V, J := p.src(), i.src(), v.src, j.src()
	body := P + "[" + J + "] = " + w.src
	reads := ce.reads || look
	var src string
	switch {
	case form == "defer" && look:
		src = "c10seen = nil\n" + c10DeferWrap(wrap, "defer c10lk("+P+", "+J+")", body)
	case form == "defer":
		call := ce.plain(P, I, V, J)
		if ce.host {
			call = fmt.Sprintf(call, c10HostStoreSuffix(cont.Type()))
		}
		src = "c10seen = nil\n" + c10DeferWrap(wrap, "defer "+call, body)
	case form == "go" && look:
		return nil
	case form == "go" && ce.host:
		if i.same(j) || cont.Kind() == reflect.Map {
			// a Go callee cannot wait for the caller: no order between the two stores (and two
			// unordered stores into one Go map are a data race of the test, not of the subject)
			return nil
		}
		src = "go " + fmt.Sprintf(ce.sig(P, I, V, J), c10HostStoreSuffix(cont.Type())) + "\n" + body + "\n<-c10hdone"
		op.waits = true
	case form == "go":
		// the goroutine waits for c10start, the caller for c10done: the caller's store
		// happens before the callee runs, the callee's before the caller looks
		src = "c10seen = nil\ngo " + ce.sig(P, I, V, J) + "\n" + body + "\nc10start <- true\n<-c10done"
		op.waits = true
		reads = true
	default:
		return nil
	}
	if reads && !(ce.host && !look) {
		src += "\nc10seen"
		op.hasVal = true
		op.vals = func() []reflect.Value {
			var e reflect.Value
			if j.isKey {
				e = cont.MapIndex(c10KeyValue(j.k.v, cont.Type().Key()))
			} else {
				e = cont.Index(int(j.ix))
			}
			if !e.IsValid() {
				return []reflect.Value{{}}
			}
			return []reflect.Value{reflect.ValueOf(e.Interface())}
		}
	}
	op.src = src
	op.itag = "callee:" + ce.name
	if look {
		op.itag = "callee:look"
	}
	op.mut = true
	op.commit = func(reflect.Value) {
		byCaller()
		if byCallee != nil {
			byCallee()
		}
	}
	return op
}

// ---- nil-ness ----

// opIsNil: `p == nil` / `p != nil` on a map or slice. Go's answer; on a slice of length zero
// only when exact is set (the model's nil-ness of an empty slice that went through slicing or
// appending is Go's, and the statement does not promise that much).
func (h *c10Hist) opIsNil(p c10Place, neg, exact bool) *c10Op {
	src := p.src() + " == nil"
	if neg {
		src = p.src() + " != nil"
	}
	op, cont := h.newOp("is-nil", p, src)
	if !cont.IsValid() {
		return nil
	}
	switch cont.Kind() {
	case reflect.Map:
	case reflect.Slice:
		if cont.Len() == 0 && !exact {
			return nil
		}
	default:
		return nil
	}
	op.hasVal, op.vals = true, c10One(reflect.ValueOf(cont.IsNil() != neg))
	return op
}

// ---- generator hooks ----

var (
	c10MapMapT  = reflect.TypeOf(map[string]map[string]int64{})
	c10MapSAT   = reflect.TypeOf(map[string]interface{}{})
	c10MapSlIT  = reflect.TypeOf([]map[string]int64{})
	c10StructMT = reflect.StructOf([]reflect.StructField{{Name: "M", Type: c10MapSIT}, {Name: "L", Type: c10I64SlT}, {Name: "A", Type: c10I64T}})
)

const c10StructMSrc = "make(struct{M map[string]int64, L []int64, A int64})"

func init() {
	c10NameType["mm"] = c10MapMapT
	c10NameType["ni"] = c10MapSlIT
	c10Profiles = append(c10Profiles,
		// typed map slots of every kind (entries of a map of maps, elements of slices of maps, map
		// fields) next to maps of other types that are stored into them
		[]string{"mm", "tm", "tn", "m", "n", "nm", "tp"},
		[]string{"ni", "mm", "tm", "m", "st", "tp", "a"},
		[]string{"mm", "ni", "nm", "tq", "tn", "n", "hq"})
	c10Fixed = append(c10Fixed, c10FixedStructOfStruct, c10FixedMapPlusScalar, c10FixedLater)
}

func (g *c10Gen) r7InitVal(name string) (c10Val, bool) {
	r := g.rn(6)
	switch name {
	case "mm":
		switch r % 3 {
		case 0:
			return c10Val{"make(map[string]map[string]int64)", map[string]map[string]int64{}, "make"}, true
		case 1:
			return c10Val{`map[string]map[string]int64{"k1": {}, "k2": {"k1": 1}}`, map[string]map[string]int64{"k1": {}, "k2": {"k1": 1}}, "tmap-lit"}, true
		}
		return c10Val{`map[string]map[string]int64{"k1": map[string]int64{"k2": 2}, "k3": nil}`, map[string]map[string]int64{"k1": {"k2": 2}, "k3": nil}, "tmap-lit"}, true
	case "ni":
		n := 1 + g.rn(3)
		if r%2 == 0 {
			return c10Val{fmt.Sprintf("make([]map[string]int64, %d, %d)", n, n+r/2), make([]map[string]int64, n, n+r/2), "make"}, true
		}
		return c10Val{`[]map[string]int64{{}, {"k1": 1.5}}`, []map[string]int64{{}, {"k1": 1}}, "tslice-lit"}, true
	}
	return c10Val{}, false
}

// r7MapVal: a value for a slot of (typed) map type t: maps of OTHER types - literals, names
// bound to untyped and typed maps, a nil map of another type - next to what valFor draws.
func (g *c10Gen) r7MapVal(t reflect.Type) (c10Val, bool) {
	if t.Kind() != reflect.Map || t == c10UMapT || g.rn(100) >= 60 {
		return c10Val{}, false
	}
	elem := func() c10Val {
		switch t.Elem().Kind() {
		case reflect.Int64, reflect.Float64:
			if g.rn(3) == 0 {
				return c10Float(c10FloatPool[g.rn(len(c10FloatPool))])
			}
			return c10Int(int64(g.rn(9)))
		case reflect.Map:
			if g.rn(2) == 0 {
				return c10Val{"{}", map[interface{}]interface{}{}, "umap-lit"}
			}
			return c10UMap(c10Str("k1"), c10Int(int64(g.rn(9))))
		}
		return g.scalar()
	}
	switch r := g.rn(100); {
	case r < 30:
		return c10Val{"{}", map[interface{}]interface{}{}, "umap-lit"}, true
	case r < 45:
		return c10UMap(c10Str(c10KeyStrs[g.rn(3)]), elem()), true
	case r < 52:
		return c10Val{"make(map[string]interface)", map[string]interface{}{}, "make"}, true
	case r < 75:
		// a name bound to a map of another type (whatever it holds now)
		var ns []string
		for _, n := range g.names {
			if nt := c10NameType[n]; nt != nil && nt.Kind() == reflect.Map && nt != t {
				ns = append(ns, n)
			}
		}
		if len(ns) > 0 {
			if v, ok := g.varRef(ns[g.rn(len(ns))]); ok {
				return v, true
			}
		}
	case r < 88:
		// an element of a typed slice of maps of another type: a nil map until something is stored
		for _, n := range g.names {
			nt := c10NameType[n]
			if nt == nil || nt.Kind() != reflect.Slice || nt.Elem().Kind() != reflect.Map || nt.Elem() == t {
				continue
			}
			if cur := g.h.mget(c10P(n)); cur.IsValid() && cur.Len() > 0 {
				i := g.rn(cur.Len())
				return c10Val{n + "[" + strconv.Itoa(i) + "]", cur.Index(i).Interface(), "elem-of-" + n}, true
			}
		}
	default:
		return c10Val{`{"k1": "x"}`, map[interface{}]interface{}{"k1": "x"}, "umap-lit"}, true
	}
	return c10Val{"{}", map[interface{}]interface{}{}, "umap-lit"}, true
}

// r7MapEntryPlace: an entry of a typed map of maps (a nil or non-nil inner map).
func (g *c10Gen) r7MapEntryPlace(root string, cur reflect.Value) (c10Place, bool) {
	if cur.Type() == c10UMapT || cur.Type().Elem().Kind() != reflect.Map || cur.Len() == 0 || g.rn(100) >= 65 {
		return c10Place{}, false
	}
	var ks []c10Val
	for _, k := range cur.MapKeys() {
		if kv, ok := c10ValOf(k.Interface()); ok {
			ks = append(ks, kv)
		}
	}
	if len(ks) == 0 {
		return c10Place{}, false
	}
	sort.Slice(ks, func(i, j int) bool { return ks[i].src < ks[j].src })
	return c10Place{root: root, sel: 'k', k: ks[g.rn(len(ks))]}, true
}

// r7Sub: an element / entry of cont for a plain store, with a value the slot takes as it is.
func (g *c10Gen) r7Sub(cont reflect.Value) (c10Sub, c10Val, bool) {
	plainVal := func(t reflect.Type) (c10Val, bool) {
		switch t {
		case c10IfaceT:
			return g.scalar(), true
		case c10I64T:
			return c10Int(int64(g.rn(90))), true
		case c10F64T:
			return c10Float(c10FloatPool[g.rn(len(c10FloatPool))]), true
		case c10StrT:
			return c10Str(c10StrPool[g.rn(len(c10StrPool))]), true
		}
		return c10Val{}, false
	}
	if cont.Kind() != reflect.Slice && cont.Kind() != reflect.Map {
		return c10Sub{}, c10Val{}, false
	}
	v, ok := plainVal(cont.Type().Elem())
	if !ok {
		return c10Sub{}, v, false
	}
	switch cont.Kind() {
	case reflect.Slice:
		if cont.Len() == 0 {
			return c10Sub{}, v, false
		}
		return c10Sub{ix: int64(g.rn(cont.Len()))}, v, true
	case reflect.Map:
		if cont.IsNil() {
			return c10Sub{}, v, false
		}
		kt := cont.Type().Key()
		if kt != c10StrT && kt != c10IfaceT {
			return c10Sub{}, v, false
		}
		return c10Sub{isKey: true, k: c10Str([]string{"k1", "k2", "k3", "zz"}[g.rn(4)])}, v, true
	}
	return c10Sub{}, v, false
}

// r7Op: the operations of this file inside a random history.
func (g *c10Gen) r7Op() *c10Op {
	h := g.h
	p := g.place()
	cont := h.mget(p)
	if !cont.IsValid() {
		return nil
	}
	switch r := g.rn(100); {
	case r < 45:
		d := g.dest(cont.Type())
		w := &c10PassWays[g.rn(len(c10PassWays))]
		form := "value"
		if w.call != nil {
			form = []string{"direct", "defer", "defer", "go", "go"}[g.rn(5)]
		}
		return h.opPass(w, form, g.rn(c10NDeferWraps), p, d)
	case r < 75:
		i, v, ok := g.r7Sub(cont)
		j, w, ok2 := g.r7Sub(cont)
		if !ok || !ok2 {
			return nil
		}
		ce := &c10LaterCallees[g.rn(len(c10LaterCallees))]
		form := []string{"defer", "defer", "go"}[g.rn(3)]
		return h.opLater(form, ce, g.rn(c10NDeferWraps), form == "defer" && g.rn(5) == 0, p, i, v, j, w)
	default:
		return h.opIsNil(p, g.rn(3) == 0, false)
	}
}

// ---- phase "pass": every container kind x every way x every form ----

type c10PassBase struct {
	name  string
	setup func(h *c10Hist, do func(*c10Op))
	p     c10Place
	d     string // the name that receives the container
}

var c10PassBases = []c10PassBase{
	{"untyped-list", func(h *c10Hist, do func(*c10Op)) {
		do(h.opInit("a", c10USlice(c10Int(1), c10Str("b"), c10USlice(c10Int(2)), c10Nil())))
	}, c10P("a"), "b"},
	{"untyped-list-spare-capacity", func(h *c10Hist, do func(*c10Op)) {
		do(h.opInit("a", c10Val{"make([]interface, 2, 6)", make([]interface{}, 2, 6), "make"}))
	}, c10P("a"), "b"},
	{"typed-slice", func(h *c10Hist, do func(*c10Op)) {
		do(h.opInit("ts", c10Val{"make([]int64, 3, 5)", make([]int64, 3, 5), "make"}))
	}, c10P("ts"), "tt"},
	{"slice-expression", func(h *c10Hist, do func(*c10Op)) {
		do(h.opInit("a", c10USlice(c10Int(1), c10Int(2), c10Int(3), c10Int(4))))
	}, c10Place{root: "a", sel: 's', i: 1, j: 3}, "b"},
	{"typed-slice-expression", func(h *c10Hist, do func(*c10Op)) {
		do(h.opInit("ts", c10I64Lit(1, 2, 3, 4)))
	}, c10Place{root: "ts", sel: 's', i: 0, j: 2}, "tt"},
	{"list-element", func(h *c10Hist, do func(*c10Op)) {
		do(h.opInit("a", c10USlice(c10Int(1), c10USlice(c10Int(2), c10Int(3)), c10UMap(c10Str("k1"), c10Int(1)))))
	}, c10Place{root: "a", sel: 'i', i: 1}, "b"},
	{"map-in-list-element", func(h *c10Hist, do func(*c10Op)) {
		do(h.opInit("a", c10USlice(c10Int(1), c10USlice(c10Int(2), c10Int(3)), c10UMap(c10Str("k1"), c10Int(1)))))
	}, c10Place{root: "a", sel: 'i', i: 2}, "m"},
	{"untyped-map", func(h *c10Hist, do func(*c10Op)) {
		do(h.opInit("m", c10Val{`{"k1": 1, "k2": "v"}`, map[interface{}]interface{}{"k1": int64(1), "k2": "v"}, "umap-lit"}))
	}, c10P("m"), "n"},
	{"empty-untyped-map", func(h *c10Hist, do func(*c10Op)) {
		do(h.opInit("m", c10Val{"{}", map[interface{}]interface{}{}, "umap-lit"}))
	}, c10P("m"), "n"},
	{"typed-map", func(h *c10Hist, do func(*c10Op)) {
		do(h.opInit("tm", c10Val{`map[string]int64{"k1": 1}`, map[string]int64{"k1": 1}, "tmap-lit"}))
	}, c10P("tm"), "tn"},
	{"slice-in-field", func(h *c10Hist, do func(*c10Op)) {
		do(h.opInitStruct("st"))
		do(h.opInit("ts", c10I64Lit(1, 2, 3)))
		do(h.opFieldWrite("st", "C", h.ref("ts")))
	}, c10Place{root: "st", sel: 'f', f: "C"}, "tt"},
	{"map-in-field", func(h *c10Hist, do func(*c10Op)) {
		do(h.opInitStruct("st"))
		do(h.opMapWrite(c10Place{root: "st", sel: 'f', f: "D"}, c10Str("k1"), c10Int(1), false, false))
	}, c10Place{root: "st", sel: 'f', f: "D"}, "tn"},
	{"map-in-typed-slice", func(h *c10Hist, do func(*c10Op)) {
		do(h.opInit("nm", c10Val{"make([]map[string]float64, 2)", make([]map[string]float64, 2), "make"}))
		do(h.opWrite(c10P("nm"), c10IdxInt(0, "fixed"), c10Val{"make(map[string]float64)", map[string]float64{}, "make"}, false))
	}, c10Place{root: "nm", sel: 'i', i: 0}, "tp"},
	{"converted-map-in-typed-slice", func(h *c10Hist, do func(*c10Op)) {
		do(h.opInit("nm", c10Val{"make([]map[string]float64, 2)", make([]map[string]float64, 2), "make"}))
		do(h.opWrite(c10P("nm"), c10IdxInt(1, "fixed"), c10Val{"{}", map[interface{}]interface{}{}, "umap-lit"}, false))
	}, c10Place{root: "nm", sel: 'i', i: 1}, "tp"},
	{"nil-typed-map", func(h *c10Hist, do func(*c10Op)) {
		do(h.opInit("nm", c10Val{"make([]map[string]float64, 2)", make([]map[string]float64, 2), "make"}))
	}, c10Place{root: "nm", sel: 'i', i: 1}, "tp"},
	{"slice-in-struct-element", func(h *c10Hist, do func(*c10Op)) {
		do(h.opInit("ts", c10I64Lit(1, 2, 3, 4)))
		do(h.opInit("a", c10USlice(c10Int(0))))
		do(h.opPutStruct("a", c10IdxInt(0, "fixed"), c10Val{}, c10Val{"ts[0:2]", h.mget(c10P("ts")).Slice3(0, 2, 4).Interface(), "reslice"}, c10Nil()))
	}, c10Place{root: "a", sel: 'i', i: 0, sf: "C"}, "tt"},
	{"string", func(h *c10Hist, do func(*c10Op)) {
		do(h.opInit("s", c10Str("héllo")))
	}, c10P("s"), "t"},
}

var c10PassForms = []string{"value", "direct", "defer", "go"}

func c10PassCases() int { return len(c10PassBases) * len(c10PassForms) }

// afterPass: stores through the receiver and through the source, reads on both sides.
func c10AfterPass(h *c10Hist, do func(*c10Op), p c10Place, d string) {
	cont := h.mget(c10P(d))
	if !cont.IsValid() {
		return
	}
	dp := c10P(d)
	switch cont.Kind() {
	case reflect.Slice:
		v, w := c10Int(91), c10Int(92)
		if cont.Len() > 0 {
			do(h.opWrite(dp, c10IdxInt(0, "in-range"), v, false))
			do(h.opRead(p, c10IdxInt(0, "in-range"), false))
			do(h.opWrite(p, c10IdxInt(int64(cont.Len()-1), "in-range"), w, false))
			do(h.opRead(dp, c10IdxInt(int64(cont.Len()-1), "in-range"), false))
		}
		do(h.opLen(dp))
	case reflect.Map:
		v, w := c10Int(91), c10Int(92)
		if cont.Type().Elem().Kind() == reflect.Float64 {
			v, w = c10Float(1.5), c10Float(2.5)
		}
		do(h.opMapWrite(dp, c10Str("n"), v, false, false))
		do(h.opMapRead(p, c10Str("n"), false, false))
		do(h.opMapWrite(p, c10Str("z"), w, true, false))
		do(h.opMapRead(dp, c10Str("z"), false, false))
		do(h.opDelete(dp, c10Str("n"), false))
		do(h.opLen(p))
	case reflect.String:
		do(h.opLen(dp))
	}
}

// c10RunPass: case = (container kind, form); one fresh history per way (and per wrapper of the
// defer statement), the pass followed by stores and reads on both sides.
func c10RunPass(c *wk.Case) {
	base := c10PassBases[c.Index/len(c10PassForms)]
	form := c10PassForms[c.Index%len(c10PassForms)]
	c.Tag("pass:container:"+base.name, "pass:form:"+form)
	run := func(body func(h *c10Hist, do func(*c10Op))) {
		h := newC10Hist(c)
		if h.dead {
			return
		}
		do := func(op *c10Op) {
			if op == nil {
				c.Tag("pass:outside-domain")
				return
			}
			h.exec(op)
		}
		base.setup(h, do)
		do(h.opInit(base.d, c10Int(0)))
		body(h, do)
		h.finish()
	}
	for wi := range c10PassWays {
		w := &c10PassWays[wi]
		if (w.call == nil) != (form == "value") {
			continue
		}
		wraps := 1
		if form == "defer" {
			wraps = c10NDeferWraps
		}
		for wr := 0; wr < wraps; wr++ {
			wr := wr
			run(func(h *c10Hist, do func(*c10Op)) {
				op := h.opPass(w, form, wr, base.p, base.d)
				if op == nil {
					c.Tag("pass:outside-domain")
					return
				}
				c.Tag("pass:way:" + w.name)
				do(op)
				c10AfterPass(h, do, base.p, base.d)
			})
		}
	}
	if form != "defer" && form != "go" {
		return
	}
	// stores on both sides of the deferred / go call
	for ci := range c10LaterCallees {
		ce := &c10LaterCallees[ci]
		for k := 0; k < 8; k++ {
			k := k
			run(func(h *c10Hist, do func(*c10Op)) {
				cont := h.mget(base.p)
				if !cont.IsValid() || cont.Kind() == reflect.String {
					return
				}
				var i, j c10Sub
				v, w := c10Int(int64(70+k)), c10Int(int64(80+k))
				if cont.Kind() == reflect.Map {
					if cont.IsNil() {
						return
					}
					ks := []string{"k1", "k2"}
					i, j = c10Sub{isKey: true, k: c10Str(ks[k%2])}, c10Sub{isKey: true, k: c10Str(ks[(k/2)%2])}
					if cont.Type().Elem().Kind() == reflect.Float64 {
						v, w = c10Float(float64(k)+0.5), c10Float(float64(k)+1.5)
					}
				} else {
					if cont.Len() < 2 {
						return
					}
					i, j = c10Sub{ix: int64(k % 2)}, c10Sub{ix: int64((k / 2) % 2)}
					if cont.Type() == c10USliceT && k >= 4 {
						v = c10Str("cv" + strconv.Itoa(k))
					}
				}
				op := h.opLater(form, ce, k, form == "defer" && k == 7, base.p, i, v, j, w)
				if op == nil {
					c.Tag("pass:outside-domain")
					return
				}
				c.Tag("later:callee:" + ce.name)
				do(op)
				if j.isKey {
					do(h.opMapRead(base.p, j.k, false, false))
				} else {
					do(h.opRead(base.p, c10IdxInt(j.ix, "in-range"), false))
				}
				do(h.opLen(base.p))
			})
		}
	}
}

// ---- phase "slots": a container of another type stored into a typed slot ----

// c10SlotKind: where the typed map slot is and how the store reaches it.
type c10SlotKind struct {
	name  string
	setup func(h *c10Hist, do func(*c10Op))
	store func(h *c10Hist, v c10Val) *c10Op
	slot  c10Place
}

func c10NiInit(n, cp int) c10Val {
	return c10Val{fmt.Sprintf("make([]map[string]int64, %d, %d)", n, cp), make([]map[string]int64, n, cp), "make"}
}

func c10MMInit() c10Val {
	return c10Val{"make(map[string]map[string]int64)", map[string]map[string]int64{}, "make"}
}

var c10SlotKinds = []c10SlotKind{
	{"slice-element", func(h *c10Hist, do func(*c10Op)) { do(h.opInit("ni", c10NiInit(2, 2))) },
		func(h *c10Hist, v c10Val) *c10Op { return h.opWrite(c10P("ni"), c10IdxInt(0, "in-range"), v, false) },
		c10Place{root: "ni", sel: 'i', i: 0}},
	{"slice-element-through-call", func(h *c10Hist, do func(*c10Op)) { do(h.opInit("ni", c10NiInit(2, 4))) },
		func(h *c10Hist, v c10Val) *c10Op { return h.opWrite(c10P("ni"), c10IdxInt(1, "in-range"), v, true) },
		c10Place{root: "ni", sel: 'i', i: 1}},
	{"slice-element-at-len", func(h *c10Hist, do func(*c10Op)) { do(h.opInit("ni", c10NiInit(1, 3))) },
		func(h *c10Hist, v c10Val) *c10Op { return h.opWrite(c10P("ni"), c10IdxInt(1, "len"), v, false) },
		c10Place{root: "ni", sel: 'i', i: 1}},
	{"slice-element-appended", func(h *c10Hist, do func(*c10Op)) { do(h.opInit("ni", c10NiInit(1, 1))) },
		func(h *c10Hist, v c10Val) *c10Op { return h.opAppend("+=", "", c10P("ni"), v) },
		c10Place{root: "ni", sel: 'i', i: 1}},
	{"slice-element-through-slice-expression", func(h *c10Hist, do func(*c10Op)) { do(h.opInit("ni", c10NiInit(3, 3))) },
		func(h *c10Hist, v c10Val) *c10Op {
			return h.opWrite(c10Place{root: "ni", sel: 's', i: 1, j: 3}, c10IdxInt(1, "in-range"), v, false)
		},
		c10Place{root: "ni", sel: 'i', i: 2}},
	{"map-entry", func(h *c10Hist, do func(*c10Op)) { do(h.opInit("mm", c10MMInit())) },
		func(h *c10Hist, v c10Val) *c10Op {
			return h.opMapWrite(c10P("mm"), c10Val{src: `"x"`, v: "x", tag: "string"}, v, true, false)
		},
		c10Place{root: "mm", sel: 'k', k: c10Str("x")}},
	{"map-entry-by-index", func(h *c10Hist, do func(*c10Op)) { do(h.opInit("mm", c10MMInit())) },
		func(h *c10Hist, v c10Val) *c10Op { return h.opMapWrite(c10P("mm"), c10Str("x y"), v, false, false) },
		c10Place{root: "mm", sel: 'k', k: c10Str("x y")}},
	{"map-entry-through-call", func(h *c10Hist, do func(*c10Op)) { do(h.opInit("mm", c10MMInit())) },
		func(h *c10Hist, v c10Val) *c10Op { return h.opMapWrite(c10P("mm"), c10Str("x"), v, false, true) },
		c10Place{root: "mm", sel: 'k', k: c10Str("x")}},
	{"struct-field", func(h *c10Hist, do func(*c10Op)) { do(h.opMakeStruct("sm", c10StructMSrc, c10StructMT)) },
		func(h *c10Hist, v c10Val) *c10Op { return h.opFieldWrite("sm", "M", v) },
		c10Place{root: "sm", sel: 'f', f: "M"}},
	{"host-struct-field", func(h *c10Hist, do func(*c10Op)) { do(h.opInitStruct("hq")) },
		func(h *c10Hist, v c10Val) *c10Op { return h.opFieldWrite("hq", "D", v) },
		c10Place{root: "hq", sel: 'f', f: "D"}},
	{"slice-literal", func(h *c10Hist, do func(*c10Op)) {},
		func(h *c10Hist, v c10Val) *c10Op {
			return h.opContainerLit("ni", "[]map[string]int64{"+v.src+", nil}", c10MapSlIT, func(cv reflect.Value) reflect.Value {
				s := reflect.MakeSlice(c10MapSlIT, 2, 2)
				s.Index(0).Set(cv)
				return s
			}, v)
		},
		c10Place{root: "ni", sel: 'i', i: 0}},
	{"map-literal", func(h *c10Hist, do func(*c10Op)) {},
		func(h *c10Hist, v c10Val) *c10Op {
			return h.opContainerLit("mm", `map[string]map[string]int64{"x": `+v.src+"}", c10MapMapT, func(cv reflect.Value) reflect.Value {
				m := reflect.MakeMap(c10MapMapT)
				m.SetMapIndex(reflect.ValueOf("x"), cv)
				return m
			}, v)
		},
		c10Place{root: "mm", sel: 'k', k: c10Str("x")}},
}

// opContainerLit: `dst = <typed literal holding v>`: Go's composite literal over the
// converted value; a value the slot cannot take fails the literal and binds nothing.
func (h *c10Hist) opContainerLit(dst, src string, t reflect.Type, build func(cv reflect.Value) reflect.Value, v c10Val) *c10Op {
	op := &c10Op{src: dst + " = " + src, opk: "typed-literal", ck: "typed-" + strings.ToLower(t.Kind().String()), pk: "var"}
	cv, st, fresh := c10Conv(v.v, t.Elem())
	switch st {
	case c10CvExcl:
		return nil
	case c10CvErr:
		op.wantErr, op.why = true, "unconvertible-value"
		return op
	case c10CvEither:
		if !fresh || cv.Kind() != reflect.Map {
			return nil
		}
		op.either, op.why = true, c10WhyContainerConv
	}
	op.mut = true
	op.commit = func(reflect.Value) { h.bind(dst, build(cv)) }
	return op
}

// c10SlotSource: a map offered to the slot. setup binds the names the source expression uses.
type c10SlotSource struct {
	name  string
	setup func(h *c10Hist, do func(*c10Op))
	val   func(h *c10Hist) c10Val
	name0 string // the name the source is bound to ("" for a literal)
}

// every history gets model values of its own: the sources are spelled as functions
func c10SrcLit(mk func() c10Val) func(h *c10Hist) c10Val {
	return func(*c10Hist) c10Val { return mk() }
}
func c10SrcVar(name string, mk func() c10Val) c10SlotSource {
	return c10SlotSource{setup: func(h *c10Hist, do func(*c10Op)) { do(h.opInit(name, mk())) }, val: func(h *c10Hist) c10Val { return h.ref(name) }, name0: name}
}
func c10EmptyUMap() c10Val                                { return c10Val{"{}", map[interface{}]interface{}{}, "umap-lit"} }
func c10Named(name string, s c10SlotSource) c10SlotSource { s.name = name; return s }

var c10SlotSources = []c10SlotSource{
	{name: "empty-literal", val: c10SrcLit(c10EmptyUMap)},
	{name: "literal", val: c10SrcLit(func() c10Val { return c10UMap(c10Str("k1"), c10Int(1)) })},
	{name: "literal-converting", val: c10SrcLit(func() c10Val {
		return c10Val{`{"k1": 1.5, "k2": 2}`, map[interface{}]interface{}{"k1": 1.5, "k2": int64(2)}, "umap-lit"}
	})},
	c10Named("empty-untyped-name", c10SrcVar("m", c10EmptyUMap)),
	c10Named("untyped-name", c10SrcVar("m", func() c10Val {
		return c10Val{`{"k1": 1, "k2": 7}`, map[interface{}]interface{}{"k1": int64(1), "k2": int64(7)}, "umap-lit"}
	})),
	c10Named("emptied-untyped-name", c10SlotSource{name0: "m", setup: func(h *c10Hist, do func(*c10Op)) {
		do(h.opInit("m", c10UMap(c10Str("k1"), c10Int(1))))
		do(h.opDelete(c10P("m"), c10Str("k1"), false))
	}, val: func(h *c10Hist) c10Val { return h.ref("m") }}),
	{name: "empty-make-other-type", val: c10SrcLit(func() c10Val { return c10Val{"make(map[string]interface)", map[string]interface{}{}, "make"} })},
	{name: "empty-literal-other-type", val: c10SrcLit(func() c10Val { return c10Val{"map[string]float64{}", map[string]float64{}, "tmap-lit"} })},
	c10Named("empty-other-type-name", c10SrcVar("tp", func() c10Val { return c10Val{"make(map[string]float64)", map[string]float64{}, "make"} })),
	c10Named("other-type-name", c10SrcVar("tp", func() c10Val {
		return c10Val{`map[string]float64{"k1": 2.5}`, map[string]float64{"k1": 2.5}, "tmap-lit"}
	})),
	c10Named("empty-same-type-name", c10SrcVar("tm", func() c10Val { return c10Val{"make(map[string]int64)", map[string]int64{}, "make"} })),
	c10Named("same-type-name", c10SrcVar("tm", func() c10Val { return c10Val{`map[string]int64{"k1": 1}`, map[string]int64{"k1": 1}, "tmap-lit"} })),
	{name: "nil", val: c10SrcLit(c10Nil)},
	c10Named("nil-other-type", c10SlotSource{setup: func(h *c10Hist, do func(*c10Op)) {
		do(h.opInit("nm", c10Val{"make([]map[string]float64, 1)", make([]map[string]float64, 1), "make"}))
	}, val: func(h *c10Hist) c10Val { return c10Val{"nm[0]", map[string]float64(nil), "nil-map"} }}),
	c10Named("nil-other-type-name", c10SlotSource{name0: "tp", setup: func(h *c10Hist, do func(*c10Op)) {
		do(h.opInit("nm", c10Val{"make([]map[string]float64, 1)", make([]map[string]float64, 1), "make"}))
		do(h.opInit("tp", c10Val{"make(map[string]float64)", map[string]float64{}, "make"}))
		do(h.opAssign("tp", c10Place{root: "nm", sel: 'i', i: 0}))
	}, val: func(h *c10Hist) c10Val { return h.ref("tp") }}),
	{name: "unconvertible", val: c10SrcLit(func() c10Val { return c10UMap(c10Str("k1"), c10Str("x")) })},
	{name: "unconvertible-second-entry", val: c10SrcLit(func() c10Val {
		return c10Val{`{"k1": 1, "k2": [1]}`, map[interface{}]interface{}{"k1": int64(1), "k2": []interface{}{int64(1)}}, "umap-lit"}
	})},
}

const c10SlotVariants = 6

func c10SlotCases() int { return len(c10SlotKinds) + 1 }

// c10RunSlots: case = slot kind (the last case: slice slots); every source gets
// c10SlotVariants fresh histories that differ in how the slot's content reaches other holders
// and in how it is stored into afterwards.
func c10RunSlots(c *wk.Case) {
	if c.Index >= len(c10SlotKinds) {
		c10RunSliceSlots(c)
		return
	}
	sk := c10SlotKinds[c.Index]
	c.Tag("slots:kind:" + sk.name)
	for si := range c10SlotSources {
		src := c10SlotSources[si]
		for vary := 0; vary < c10SlotVariants; vary++ {
			h := newC10Hist(c)
			if h.dead {
				return
			}
			do := func(op *c10Op) {
				if op == nil {
					c.Tag("slots:outside-domain")
					return
				}
				h.exec(op)
			}
			sk.setup(h, do)
			if src.setup != nil {
				src.setup(h, do)
			}
			do(h.opInit("tn", c10Int(0)))
			do(h.opInit("tq", c10Int(0)))
			c.Tag("slots:source:" + src.name)
			do(sk.store(h, src.val(h)))
			c10SlotFollowUp(c, h, do, sk.slot, src.name0, si*c10SlotVariants+vary)
			h.finish()
		}
	}
	// the typed Go parameter: the callee gets a map it can store into, nil only for a nil source
	h := newC10Hist(c)
	if h.dead {
		return
	}
	for si := range c10SlotSources {
		src := c10SlotSources[si]
		if src.setup != nil || h.dead {
			continue
		}
		v := src.val(h)
		cv, st, _ := c10Conv(v.v, c10MapSIT)
		if st != c10CvEither || !cv.IsValid() || cv.IsNil() {
			continue
		}
		// accepted: an error (Go has no such conversion), or the callee sees the converted map
		op := &c10Op{src: "c10hmnil(" + v.src + ")", opk: "host-parameter-is-nil", ck: "typed-map", pk: "parameter", either: true, why: c10WhyContainerConv,
			hasVal: true, vals: c10One(reflect.ValueOf(false))}
		h.exec(op)
		n := int64(cv.Len())
		if !cv.MapIndex(reflect.ValueOf("n")).IsValid() {
			n++
		}
		op = &c10Op{src: "c10hmput(" + v.src + `, "n", 1)`, opk: "host-parameter-store", ck: "typed-map", pk: "parameter", either: true, why: c10WhyContainerConv,
			hasVal: true, vals: c10One(reflect.ValueOf(n))}
		h.exec(op)
	}
	h.finish()
}

// c10SlotFollowUp: after the store: nil-ness and length of the slot, its content bound to
// other holders, stores / deletes through one holder, reads through the others.
func c10SlotFollowUp(c *wk.Case, h *c10Hist, do func(*c10Op), slot c10Place, srcName string, n int) {
	vary := n % c10SlotVariants
	if vary%2 == 0 {
		do(h.opIsNil(slot, vary == 4, true))
	}
	do(h.opLen(slot))
	if !h.mget(slot).IsValid() {
		return // the store was refused in the model (an unconvertible source into a fresh literal)
	}
	// the slot's content reaches the name tn
	ways := []string{"", "fn1", "fn5", "result", "anonymous", "for-in-list", "channel", "host-interface", "host-typed", "function-in-map", "variadic-tail", "closure-result", "paren", "fn3"}
	wn := ways[n%len(ways)]
	form := "value"
	if w := c10WayByName(wn); w != nil && w.call != nil {
		form = []string{"direct", "defer", "go"}[(n/len(ways))%3]
	}
	if vary == 0 || wn == "" {
		do(h.opAssign("tn", slot))
	} else {
		do(h.opPass(c10WayByName(wn), form, n, slot, "tn"))
	}
	tn := c10P("tn")
	if cont := h.mget(tn); !cont.IsValid() || cont.Kind() != reflect.Map {
		return
	}
	// a store through the name, read through the slot
	switch vary % 3 {
	case 0:
		do(h.opMapWrite(tn, c10Str("n"), c10Int(1), false, false))
	case 1:
		do(h.opMapWrite(tn, c10Str("n"), c10Float(1.9), true, false))
	default:
		do(h.opMapWrite(tn, c10Str("n"), c10Int(1), false, true)) // c10set(tn, "n", 1): one more parameter
	}
	do(h.opMapRead(slot, c10Str("n"), false, false))
	do(h.opLen(slot))
	// a second holder; a store through the slot expression, read through both names
	do(h.opAssign("tq", slot))
	do(h.opMapWrite(slot, c10Str("z"), c10Int(2), vary >= 3, false))
	do(h.opMapRead(c10P("tq"), c10Str("z"), false, false))
	do(h.opMapRead(tn, c10Str("z"), true, false))
	do(h.opDelete(tn, c10Str("n"), vary == 5))
	do(h.opLen(slot))
	do(h.opLen(c10P("tq")))
	if srcName != "" {
		// the source: a map of another type shares nothing with the slot, one of the slot's type is the slot's map
		do(h.opMapWrite(c10P(srcName), c10Str("q"), c10Int(5), false, false))
		do(h.opLen(slot))
		do(h.opMapRead(slot, c10Str("q"), false, false))
	}
	do(h.opIsNil(slot, false, true))
}

// c10RunSliceSlots: slices of other types stored into an element of make([][]int64, n) and into
// a slice field: nil stays nil, an empty list is an empty non-nil slice, the converted copy is a
// slice like any other for the names bound to it afterwards.
func c10RunSliceSlots(c *wk.Case) {
	c.Tag("slots:kind:slice-slots")
	type source struct {
		name  string
		setup func(h *c10Hist, do func(*c10Op))
		val   func(h *c10Hist) c10Val
	}
	lit := func(mk func() c10Val) func(*c10Hist) c10Val { return func(*c10Hist) c10Val { return mk() } }
	sources := []source{
		{"nil", nil, lit(c10Nil)},
		{"empty-list", nil, lit(func() c10Val { return c10USlice() })},
		{"list", nil, lit(func() c10Val { return c10USlice(c10Int(1), c10Float(2.5)) })},
		{"floats", nil, lit(func() c10Val { return c10F64Lit(1.5, 4) })},
		{"same-type", func(h *c10Hist, do func(*c10Op)) { do(h.opInit("ts", c10I64Lit(1, 2, 3))) }, func(h *c10Hist) c10Val { return h.ref("ts") }},
		{"nil-other-type", func(h *c10Hist, do func(*c10Op)) {
			do(h.opInit("nu", c10Val{"make([][]interface, 1)", make([][]interface{}, 1), "make"}))
		}, lit(func() c10Val { return c10Val{"nu[0]", []interface{}(nil), "nil-slice"} })},
		{"nil-other-type-name", func(h *c10Hist, do func(*c10Op)) {
			do(h.opInit("nu", c10Val{"make([][]interface, 1)", make([][]interface{}, 1), "make"}))
			do(h.opInit("a", c10USlice(c10Int(1))))
			do(h.opAssign("a", c10Place{root: "nu", sel: 'i', i: 0}))
		}, func(h *c10Hist) c10Val { return h.ref("a") }},
		{"empty-floats-name", func(h *c10Hist, do func(*c10Op)) {
			do(h.opInit("tf", c10Val{"make([]float64, 0, 3)", make([]float64, 0, 3), "make"}))
		}, func(h *c10Hist) c10Val { return h.ref("tf") }},
		{"unconvertible", nil, lit(func() c10Val { return c10USlice(c10Int(1), c10Str("x")) })},
	}
	type slotKind struct {
		name  string
		setup func(h *c10Hist, do func(*c10Op))
		store func(h *c10Hist, v c10Val) *c10Op
		slot  c10Place
	}
	kinds := []slotKind{
		{"slice-element", func(h *c10Hist, do func(*c10Op)) {
			do(h.opInit("ns", c10Val{"make([][]int64, 2)", make([][]int64, 2), "make"}))
		}, func(h *c10Hist, v c10Val) *c10Op { return h.opWrite(c10P("ns"), c10IdxInt(0, "in-range"), v, false) }, c10Place{root: "ns", sel: 'i', i: 0}},
		{"slice-element-through-call", func(h *c10Hist, do func(*c10Op)) {
			do(h.opInit("ns", c10Val{"[][]int64{[]int64{7}, []int64{8, 9}}", [][]int64{{7}, {8, 9}}, "tslice-lit"}))
		}, func(h *c10Hist, v c10Val) *c10Op { return h.opWrite(c10P("ns"), c10IdxInt(1, "in-range"), v, true) }, c10Place{root: "ns", sel: 'i', i: 1}},
		{"struct-field", func(h *c10Hist, do func(*c10Op)) {
			do(h.opMakeStruct("sm", c10StructMSrc, c10StructMT))
		}, func(h *c10Hist, v c10Val) *c10Op { return h.opFieldWrite("sm", "L", v) }, c10Place{root: "sm", sel: 'f', f: "L"}},
	}
	for _, k := range kinds {
		for si, src := range sources {
			for vary := 0; vary < 3; vary++ {
				h := newC10Hist(c)
				if h.dead {
					return
				}
				do := func(op *c10Op) {
					if op == nil {
						c.Tag("slots:outside-domain")
						return
					}
					h.exec(op)
				}
				k.setup(h, do)
				if src.setup != nil {
					src.setup(h, do)
				}
				do(h.opInit("tt", c10Int(0)))
				c.Tag("slots:slice-source:" + src.name)
				do(k.store(h, src.val(h)))
				if vary != 1 {
					do(h.opIsNil(k.slot, vary == 2, true))
				}
				do(h.opLen(k.slot))
				n := si*3 + vary
				ways := []string{"", "fn1", "fn5", "result", "anonymous", "host-typed", "channel"}
				if wn := ways[n%len(ways)]; wn == "" {
					do(h.opAssign("tt", k.slot))
				} else {
					w := c10WayByName(wn)
					form := "value"
					if w.call != nil {
						form = []string{"direct", "defer", "go"}[n%3]
					}
					do(h.opPass(w, form, n, k.slot, "tt"))
				}
				if cont := h.mget(c10P("tt")); cont.IsValid() && cont.Kind() == reflect.Slice && cont.Len() > 0 {
					do(h.opWrite(c10P("tt"), c10IdxInt(0, "in-range"), c10Int(91), vary == 2))
					do(h.opRead(k.slot, c10IdxInt(0, "in-range"), false))
					do(h.opWrite(k.slot, c10IdxInt(int64(cont.Len()-1), "in-range"), c10Float(92.5), false))
					do(h.opRead(c10P("tt"), c10IdxInt(int64(cont.Len()-1), "in-range"), false))
				}
				do(h.opLen(k.slot))
				h.finish()
			}
		}
	}
}

// ---- fixed histories ----

// c10FixedStructOfStruct: a struct value held by an element of an untyped list / map cannot be
// stored into, however deep the target sits below it: l[0].X = v, l[0].F.G = v (a field of a
// field) fail and change nothing. A store at index len through its slice field stays what
// c10_r5.go says (an error, or Go's `_ = append(...)`); the slice in the field is a reference
// for in-range stores.
func c10FixedStructOfStruct(h *c10Hist, do func(*c10Op)) {
	inner := reflect.StructOf([]reflect.StructField{{Name: "G", Type: c10I64T}, {Name: "H", Type: c10I64SlT}})
	t := reflect.StructOf([]reflect.StructField{{Name: "F", Type: inner}, {Name: "S", Type: c10I64SlT}, {Name: "X", Type: c10I64T}})
	src := "make(struct{F struct{G int64, H []int64}, S []int64, X int64})"
	do(h.opInit("ts", c10I64Lit(1, 2, 3, 4)))
	// the struct is built inside a function and handed over as a value: the list element holds it
	build := "func() {\n  var c10s = " + src + "\n  c10s.F.G = 5\n  c10s.X = 6\n  c10s.S = ts[0:2]\n  return c10s\n}()"
	mk := func() reflect.Value {
		sv := reflect.New(t).Elem()
		sv.FieldByName("F").FieldByName("G").SetInt(5)
		sv.FieldByName("F").FieldByName("H").Set(reflect.MakeSlice(c10I64SlT, 0, 0))
		sv.FieldByName("X").SetInt(6)
		sv.FieldByName("S").Set(h.mget(c10P("ts")).Slice3(0, 2, 4))
		return sv
	}
	do(&c10Op{src: "a = [" + build + ", 1]", opk: "init", ck: "untyped-slice", pk: "var", mut: true,
		commit: func(reflect.Value) { h.bind("a", reflect.ValueOf([]interface{}{mk().Interface(), int64(1)})) }})
	do(&c10Op{src: `m = {"k": ` + build + "}", opk: "init", ck: "untyped-map", pk: "var", mut: true,
		commit: func(reflect.Value) { h.bind("m", reflect.ValueOf(map[interface{}]interface{}{"k": mk().Interface()})) }})
	refuse := func(src, opk string) *c10Op {
		return &c10Op{src: src, opk: opk, ck: "struct-in-element", pk: "field-of-struct-element", wantErr: true, why: "store-through-unassignable-struct-value"}
	}
	read := func(src string, v interface{}) *c10Op {
		return &c10Op{src: src, opk: "structelem-field-read", ck: "struct-in-element", pk: "field-of-struct-element", hasVal: true, vals: c10One(reflect.ValueOf(v))}
	}
	for _, e := range []string{"a[0]", `m["k"]`, "m.k"} {
		do(read(e+".X", int64(6)))
		do(read(e+".F.G", int64(5)))
		do(refuse(e+".X = 3", "structelem-field-write"))
		do(refuse(e+".F.G = 7", "structelem-field-of-field-write"))
		do(refuse(e+".F = "+e+".F", "structelem-field-write"))
		do(refuse(e+".F.H = ts", "structelem-field-of-field-write"))
		do(refuse(e+".X += 1", "structelem-field-write"))
		do(refuse(e+".F.G++", "structelem-field-of-field-write"))
		do(read(e+".F.G", int64(5)))
		do(read(e+".X", int64(6)))
	}
	// the slice in the field is a reference: an in-range store writes ts
	do(h.opWrite(c10Place{root: "a", sel: 'i', i: 0, sf: "S"}, c10IdxInt(1, "fixed"), c10Int(20), false))
	do(h.opRead(c10P("ts"), c10IdxInt(1, "fixed"), false))
	// at index len: an error that changes nothing (also not ts[2]), or Go's `_ = append(a[0].S, v)`
	do(h.opWrite(c10Place{root: "a", sel: 'i', i: 0, sf: "S"}, c10IdxInt(2, "fixed"), c10Int(99), false))
	do(h.opWrite(c10Place{root: "m", sel: 'k', k: c10Str("k"), sf: "S"}, c10IdxInt(2, "fixed"), c10Int(98), false))
	do(h.opRead(c10P("ts"), c10IdxInt(2, "fixed"), false))
	do(h.opLen(c10Place{root: "a", sel: 'i', i: 0, sf: "S"}))
}

// c10FixedMapPlusScalar: `+` / `+=` with a map as the left operand and any right operand.
func c10FixedMapPlusScalar(h *c10Hist, do func(*c10Op)) {
	do(h.opInit("m", c10Val{`{"k1": 1}`, map[interface{}]interface{}{"k1": int64(1)}, "umap-lit"}))
	do(h.opInit("tm", c10Val{`map[string]int64{"k1": 1}`, map[string]int64{"k1": 1}, "tmap-lit"}))
	do(h.opInit("n", c10Val{"{}", map[interface{}]interface{}{}, "umap-lit"}))
	do(h.opInit("mm", c10Val{`map[string]map[string]int64{"k1": {}}`, map[string]map[string]int64{"k1": {}}, "tmap-lit"}))
	for _, rhs := range []c10Val{c10Int(1), c10Int(0), c10Float(1.5), c10Str("s"), c10Str(""), c10Bool(true), c10Nil(), c10HostVals[0]} {
		for _, form := range []string{"expr", "+=", "=+", "d="} {
			do(h.opMapPlus(form, "n", c10P("m"), rhs))
			do(h.opMapPlus(form, "tn", c10P("tm"), rhs))
			do(h.opMapPlus(form, "n", c10P("n"), rhs))
			do(h.opMapPlus(form, "n", c10Place{root: "mm", sel: 'k', k: c10Str("k1")}, rhs))
		}
	}
	do(h.opLen(c10P("m")))
	do(h.opMapRead(c10P("m"), c10Str("k1"), false, false))
}

// c10FixedLater: the two-sided stores around deferred and go calls spelled out once (the
// matrix of phase "pass" and the random histories draw the rest).
func c10FixedLater(h *c10Hist, must func(*c10Op)) {
	do := func(op *c10Op) {
		if op != nil { // a way / callee that does not apply to the container kind
			must(op)
		}
	}
	do(h.opInit("a", c10USlice(c10Int(1), c10Int(2), c10Int(3))))
	do(h.opInit("ts", c10Val{"make([]int64, 2, 4)", make([]int64, 2, 4), "make"}))
	do(h.opInit("m", c10Val{`{"k1": 1}`, map[interface{}]interface{}{"k1": int64(1)}, "umap-lit"}))
	do(h.opInit("b", c10Int(0)))
	do(h.opInit("tt", c10Int(0)))
	ix := func(n int64) c10Sub { return c10Sub{ix: n} }
	ky := func(k string) c10Sub { return c10Sub{isKey: true, k: c10Str(k)} }
	for ci := range c10LaterCallees {
		ce := &c10LaterCallees[ci]
		for _, form := range []string{"defer", "go"} {
			do(h.opLater(form, ce, ci, false, c10P("a"), ix(0), c10Int(int64(10+ci)), ix(1), c10Str("w")))
			do(h.opLater(form, ce, ci+1, false, c10P("a"), ix(2), c10Int(int64(20+ci)), ix(2), c10Int(int64(30+ci))))
			do(h.opLater(form, ce, ci+2, false, c10P("ts"), ix(1), c10Int(int64(40+ci)), ix(0), c10Int(int64(50+ci))))
			do(h.opLater(form, ce, ci, false, c10P("m"), ky("k2"), c10Int(int64(60+ci)), ky("k1"), c10Int(int64(70+ci))))
			do(h.opLater(form, ce, ci, false, c10Place{root: "a", sel: 's', i: 1, j: 3}, ix(0), c10Int(int64(80+ci)), ix(1), c10Int(int64(90+ci))))
		}
		do(h.opLater("defer", ce, ci, true, c10P("a"), ix(0), c10Int(0), ix(1), c10Int(int64(100+ci))))
	}
	for wi := range c10PassWays {
		w := &c10PassWays[wi]
		forms := []string{"value"}
		if w.call != nil {
			forms = []string{"direct", "defer", "go"}
		}
		for fi, form := range forms {
			do(h.opPass(w, form, wi+fi, c10P("a"), "b"))
			do(h.opPass(w, form, wi+fi+1, c10P("ts"), "tt"))
		}
	}
	if h.dead {
		return
	}
	do(h.opWrite(c10P("b"), c10IdxInt(0, "fixed"), c10Str("through b"), false))
	do(h.opRead(c10P("a"), c10IdxInt(0, "fixed"), false))
}
