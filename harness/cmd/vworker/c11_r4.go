package main

// C11, round-4 phases.
//
//   selector  WHICH member a name denotes on a Go struct value. (1) Struct types
//             whose own (or promoted, shallower) METHOD has the name of a field
//             promoted from an embedded struct (an error type embedding a
//             response struct with an Error / Code field): Go's selector rule -
//             the member at the shallowest depth - makes v.Name the method, and
//             the statement says "methods of Go values reached with member syntax
//             (pointer-receiver methods included) are called with exactly the
//             supplied arguments and all of their results come back". Every
//             such method is called (directly and through a method value) on
//             every kind of holder (pointer, value, in containers, field behind a
//             pointer, map value, typed slice element, Go result, assigned
//             name); the hidden fields stay readable through their explicit
//             path, the fields nobody hides through the short one, and a FIELD
//             that hides a promoted method reads as the field. (2) Fields
//             promoted through an embedded POINTER are read and WRITTEN through
//             every kind of holder of the outer struct, addressable or not: the
//             storage of such a field is reached through the embedded pointer,
//             so "member syntax ... through a pointer, writes the Go value's own
//             exported fields" applies whatever holds the outer struct (Go
//             itself compiles pages["/"].Hits = 1 and lookup().Hits = 1 for
//             type Page struct{ *Stats }). Direct fields of a struct that is
//             not reached through a pointer are NOT written (UNSPECIFIED, see
//             the header of c11.go).
//   slotarg   arguments that are READ FROM A SLOT (element of a script list, of a
//             typed Go slice, of a nested list, of an array behind a pointer,
//             field behind a pointer, field of a struct in a slice, pointee,
//             map value) followed by a LATER argument whose evaluation stores
//             into that slot (script closure, inline function, Go host function,
//             compound assignment, the operand of a `...` spread). Operands are
//             evaluated left to right (property C07), so "called with exactly the
//             supplied arguments" means: a read before the store supplies the
//             old value, a read after it the new one, whatever the call shape
//             (fixed / variadic x plain / spread, functions and methods, typed
//             and interface{} parameters and tails, deferred calls). The same
//             phase passes slot operands WITHOUT a later store through every
//             parameter kind (a nil of an interface type read from a typed slot
//             arrives as T's zero value).

import (
	"fmt"
	"math/rand"
	"reflect"
	"strconv"
	"strings"

	"github.com/mattn/anko/env"

	"verifharness/internal/ank"
	"verifharness/internal/wk"
)

// ---------------------------------------------------------------------------
// pending repairs of mattn/anko (see /tmp/strengthen/C11-r4-genuine.md)

// a POINTER-receiver method whose name is also a field promoted from an
// embedded struct is not reachable on a struct VALUE (bound by value, element of
// a container, field behind a pointer ...): vm/vmExpr.go invokeMemberExpr finds
// the promoted field with FieldByName before it looks for pointer-receiver
// methods ("cannot call type string"). Through a pointer it works.
const c11PendingFix_ptrMethodHidesPromotedOnValue = false

// a nil value of a NON-EMPTY interface type (error, C11Namer) read from an
// addressable typed slot (field behind a pointer, element of a []error) and
// passed to a parameter of an interface type it is assignable to fails with
// "reflect: Call using interface {} as type error": vm/vmExprFunction.go
// makeCallArgs detaches the converted argument and vm/vm.go detachValue turns
// every addressable nil interface value into the untyped nilValue.
const c11PendingFix_nilIfaceSlotToIface = false

// ---------------------------------------------------------------------------
// selector, part 1: methods that hide promoted fields

type C11Resp struct {
	Error string
	Code  int64
	Note  string
	Hid   int64
}

// C11APIErr embeds C11Resp by value; its own methods Error (pointer receiver),
// Code (value receiver) and Hid (pointer receiver, variadic, two results) hide
// the promoted fields of the same names. Note and Retries are not hidden.
type C11APIErr struct {
	C11Resp
	Retries int64
}

func (e *C11APIErr) Error() string { return c11Enter("Error", e)[0].Interface().(string) }
func (e C11APIErr) Code() int64    { return c11Enter("Code", e)[0].Interface().(int64) }
func (e *C11APIErr) Hid(a int64, xs ...interface{}) (int64, string) {
	r := c11Enter("Hid", e, reflect.ValueOf(&a).Elem(), reflect.ValueOf(&xs).Elem())
	return r[0].Interface().(int64), r[1].Interface().(string)
}

// C11APIErrP embeds a POINTER to C11Resp; Error has a value receiver, Code a
// pointer receiver.
type C11APIErrP struct {
	*C11Resp
	Tries int64
}

func (e C11APIErrP) Error() string { return c11Enter("Error", e)[0].Interface().(string) }
func (e *C11APIErrP) Code() int64  { return c11Enter("Code", e)[0].Interface().(int64) }

// C11Deep: the methods of the embedded C11Mid (depth 1) hide the fields of
// C11Resp (depth 2); the own method Code (depth 0) hides the field at depth 2.
// The field Error at depth 2 is hidden by nothing.
type C11Mid struct {
	C11Resp
	Lvl int64
}

func (m C11Mid) Note() string { return c11Enter("Note", m)[0].Interface().(string) }
func (m *C11Mid) Hid() int64  { return c11Enter("Hid", m)[0].Interface().(int64) }

type C11Deep struct {
	C11Mid
	Top int64
}

func (d *C11Deep) Code() int64 { return c11Enter("Code", d)[0].Interface().(int64) }

// C11Rev is the reverse: the FIELD Label (depth 0) hides the method Label
// promoted from C11Tagger (depth 1).
type C11Tagger struct{ K int64 }

func (t C11Tagger) Label() string { return c11Enter("Label", t)[0].Interface().(string) }

type C11Rev struct {
	C11Tagger
	Label string
}

type c11HidMethod struct {
	name     string
	ptrRcv   bool
	recvPath string // from the outer struct to the struct that declares the method ("" = the outer struct)
}

type c11HidType struct {
	t       reflect.Type
	methods []c11HidMethod
	reads   []string // member paths that denote FIELDS
	write   string   // a string field written through a pointer by its explicit path
}

var c11HidTypes = []c11HidType{
	{reflect.TypeOf(C11APIErr{}), []c11HidMethod{{"Error", true, ""}, {"Code", false, ""}, {"Hid", true, ""}},
		[]string{"C11Resp.Error", "C11Resp.Code", "C11Resp.Hid", "Note", "C11Resp.Note", "Retries"}, "C11Resp.Error"},
	{reflect.TypeOf(C11APIErrP{}), []c11HidMethod{{"Error", false, ""}, {"Code", true, ""}},
		[]string{"C11Resp.Error", "C11Resp.Code", "Note", "Hid", "Tries"}, "C11Resp.Error"},
	{reflect.TypeOf(C11Deep{}), []c11HidMethod{{"Note", false, "C11Mid"}, {"Hid", true, "C11Mid"}, {"Code", true, ""}},
		[]string{"C11Mid.C11Resp.Note", "C11Mid.C11Resp.Hid", "C11Mid.C11Resp.Code", "Error", "Lvl", "Top"}, "C11Mid.C11Resp.Note"},
	{reflect.TypeOf(C11Rev{}), []c11HidMethod{{"Label", false, "C11Tagger"}},
		[]string{"Label", "K", "C11Tagger.K"}, "Label"},
}

// c11Path follows field names from a struct (pointers on the way are followed).
func c11Path(v reflect.Value, path string) reflect.Value {
	if path == "" {
		return v
	}
	for _, name := range strings.Split(path, ".") {
		for v.Kind() == reflect.Ptr || v.Kind() == reflect.Interface {
			v = v.Elem()
		}
		v = v.FieldByName(name)
	}
	return v
}

type c11SelHolder struct {
	expr, kind, pre string
	ptr             reflect.Value // pointer to the Go struct the script reaches (invalid: the script holds a copy)
	val             reflect.Value // the struct content
}

// c11SelHolders binds the struct behind p (and copies of it) in every kind of
// place a script can take it from; names start with prefix.
func c11SelHolders(e *env.Env, prefix string, p reflect.Value) []c11SelHolder {
	t := p.Type().Elem()
	cp := p.Elem().Interface()
	tString := c11TString
	e.Define(prefix+"p", p.Interface())
	e.Define(prefix+"v", cp)
	e.Define(prefix+"box", []interface{}{p.Interface(), cp})
	w := reflect.New(reflect.StructOf([]reflect.StructField{{Name: "E", Type: t}, {Name: "P", Type: p.Type()}}))
	w.Elem().Field(0).Set(p.Elem())
	w.Elem().Field(1).Set(p)
	e.Define(prefix+"w", w.Interface())
	e.Define(prefix+"wv", w.Elem().Interface())
	m := reflect.MakeMap(reflect.MapOf(tString, t))
	m.SetMapIndex(reflect.ValueOf("e"), p.Elem())
	e.Define(prefix+"reg", m.Interface())
	mp := reflect.MakeMap(reflect.MapOf(tString, p.Type()))
	mp.SetMapIndex(reflect.ValueOf("e"), p)
	e.Define(prefix+"regp", mp.Interface())
	s := reflect.MakeSlice(reflect.SliceOf(t), 1, 1)
	s.Index(0).Set(p.Elem())
	e.Define(prefix+"s", s.Interface())
	e.Define(prefix+"mkv", reflect.MakeFunc(reflect.FuncOf(nil, []reflect.Type{t}, false), func([]reflect.Value) []reflect.Value { return []reflect.Value{reflect.ValueOf(cp)} }).Interface())
	e.Define(prefix+"mkp", reflect.MakeFunc(reflect.FuncOf(nil, []reflect.Type{p.Type()}, false), func([]reflect.Value) []reflect.Value { return []reflect.Value{p} }).Interface())
	none := reflect.Value{}
	val := p.Elem()
	return []c11SelHolder{
		{prefix + "p", "pointer", "", p, val},
		{prefix + "v", "value", "", none, val},
		{prefix + "box[0]", "pointer-in-container", "", p, val},
		{prefix + "box[1]", "value-in-container", "", none, val},
		{prefix + "w.E", "field@pointer", "", none, val},
		{prefix + "w.P", "pointer-field@pointer", "", p, val},
		{prefix + "wv.E", "field@value", "", none, val},
		{prefix + `reg["e"]`, "map-value", "", none, val},
		{prefix + "regp.e", "pointer-map-value", "", p, val},
		{prefix + "s[0]", "slice-element", "", none, val},
		{prefix + "mkv()", "go-result-value", "", none, val},
		{prefix + "mkp()", "go-result-pointer", "", p, val},
		{prefix + "x", "assigned-value", prefix + "x = " + prefix + "v; ", none, val},
		{prefix + "y", "assigned-pointer", prefix + "y = " + prefix + "p; ", p, val},
	}
}

// c11FillPtrs makes the nil struct pointers at the top level of *p non-nil.
func c11FillPtrs(r *rand.Rand, p reflect.Value) {
	s := p.Elem()
	for i := 0; i < s.NumField(); i++ {
		if f := s.Field(i); f.Kind() == reflect.Ptr && f.IsNil() && f.Type().Elem().Kind() == reflect.Struct {
			n := reflect.New(f.Type().Elem())
			n.Elem().Set(c11GenGo(r, f.Type().Elem(), 2, false))
			f.Set(n)
		}
	}
}

func c11SimpleArg(r *rand.Rand) c11Val {
	switch r.Intn(4) {
	case 0:
		n := int64(r.Intn(5000))
		return c11Val{text: strconv.FormatInt(n, 10), v: reflect.ValueOf(n), label: "int64"}
	case 1:
		s := "q" + strconv.Itoa(r.Intn(1000))
		return c11Val{text: strconv.Quote(s), v: reflect.ValueOf(s), label: "string"}
	case 2:
		return c11Val{text: "true", v: reflect.ValueOf(true), label: "bool"}
	}
	return c11Val{text: "nil", label: "nil"}
}

func c11PhaseSelector(c *wk.Case) {
	c11SelHidden(c)
	c11SelEmbPtr(c)
}

func c11SelHidden(c *wk.Case) {
	r := c.Rng
	rec := &c11Rec{}
	for ti, ht := range c11HidTypes {
		e := ank.NewCoreEnv()
		p := reflect.New(ht.t)
		p.Elem().Set(c11GenGo(r, ht.t, 0, false))
		c11FillPtrs(r, p)
		tn := ht.t.Name()
		holders := c11SelHolders(e, "h", p)
		for _, h := range holders {
			h := h
			// (a) the name denotes the method
			for _, m := range ht.methods {
				m := m
				hidden := !(ti == 3) // C11Rev: the field hides the method, which stays reachable by its explicit path only
				callee := h.expr + "." + m.name
				if !hidden {
					callee = h.expr + "." + m.recvPath + "." + m.name
				}
				if m.ptrRcv && !h.ptr.IsValid() && c11PendingFix_ptrMethodHidesPromotedOnValue {
					c.Excluded("pending repair: pointer-receiver method hiding a promoted field, on a struct value")
					continue
				}
				ft := p.MethodByName(m.name)
				if !hidden {
					ft = c11Path(p, m.recvPath).MethodByName(m.name)
				}
				rk := "value-method"
				if m.ptrRcv {
					rk = "pointer-method"
				}
				if m.recvPath != "" {
					rk = "promoted-" + rk
				}
				for variant := 0; variant < 2; variant++ {
					k := &c11Call{callee: callee, ft: ft.Type(), rec: rec, prelude: h.pre}
					if variant == 1 {
						// through a method value
						k.prelude += "hm = " + callee + "; "
						k.callee = "hm"
					}
					rec.results = c11GenResults(r, k.ft)
					for i := 0; i < k.ft.NumIn(); i++ {
						if k.ft.IsVariadic() && i == k.ft.NumIn()-1 {
							for j := r.Intn(3); j > 0; j-- {
								k.pre = append(k.pre, c11SimpleArg(r))
							}
							break
						}
						n := int64(r.Intn(9000))
						k.pre = append(k.pre, c11Val{text: strconv.FormatInt(n, 10), v: reflect.ValueOf(n), label: "int64"})
					}
					k.recvCheck = func(recv, _ interface{}) string {
						rv := reflect.ValueOf(recv)
						want := c11Path(h.val, m.recvPath)
						if !m.ptrRcv {
							if !rv.IsValid() || rv.Type() != want.Type() {
								return fmt.Sprintf("receiver is %T", recv)
							}
							return c11Diff(rv, want, c11NilExact, "receiver", 0)
						}
						if !rv.IsValid() || rv.Kind() != reflect.Ptr || rv.IsNil() || rv.Type().Elem() != want.Type() {
							return fmt.Sprintf("receiver is %T", recv)
						}
						if h.ptr.IsValid() {
							if rv.Pointer() != c11Path(h.ptr.Elem(), m.recvPath).Addr().Pointer() {
								return "pointer-receiver method reached through a pointer did not get the Go value itself as receiver"
							}
							return ""
						}
						// UNSPECIFIED whether it is the value itself or a copy; its content is the value's
						return c11Diff(rv.Elem(), want, c11NilExact, "receiver", 0)
					}
					what := "hidden-field"
					if !hidden {
						what = "hidden-method"
					}
					vd := k.judge(c, e, "member:"+what+":"+tn+"."+m.name+":"+rk+"@"+h.kind, 0)
					if vd.failure == "" {
						c.Tag("selector:call:" + rk + "@" + h.kind)
					}
					if ti == 0 && variant == 0 && h.kind == "value" && c.WantSample() {
						c.Sample(k.input(vd))
					}
				}
				if !hidden {
					continue
				}
				// the bare name is the method value, not the hidden field
				src := h.pre + h.expr + "." + m.name
				c.Begin(src)
				o := ank.Exec(e, src)
				c.Events(1)
				c.Eval("selector-bare|"+tn+"|"+src, true)
				input := map[string]interface{}{"src": src, "go_type": ht.t.String(), "got": ank.Render(o.Val), "err": ank.ErrText(o.Err), "panic": o.PanicVal}
				sig := "member:hidden-field:" + tn + "." + m.name + ":" + rk + "@" + h.kind + ":bare:"
				switch {
				case o.Panicked:
					c11Report(c, sig+"panic", "panic escaped: "+o.PanicVal+" ["+o.PanicSig+"]", input)
				case o.Err != nil:
					c11Report(c, sig+"error", "the method is not reachable: "+o.Err.Error(), input)
				case o.Val == nil || reflect.TypeOf(o.Val).Kind() != reflect.Func:
					c11Report(c, sig+"not-the-method", "the name denotes the method of the Go value (shallowest depth), got "+ank.Render(o.Val), input)
				}
			}
			// (b) names that denote fields
			for _, path := range ht.reads {
				src := h.pre + h.expr + "." + path
				c.Begin(src)
				o := ank.Exec(e, src)
				c.Events(1)
				want := c11Path(h.val, path)
				c.Eval("selector-read|"+tn+"|"+src+"|"+ank.RenderValue(want), true)
				c.Tag("selector:read:" + h.kind)
				input := map[string]interface{}{"src": src, "go_type": ht.t.String(), "go_field": ank.RenderValue(want), "got": ank.Render(o.Val), "err": ank.ErrText(o.Err), "panic": o.PanicVal}
				sig := "member:field-beside-method:" + tn + "." + path + "@" + h.kind + ":"
				switch {
				case o.Panicked:
					c11Report(c, sig+"panic", "panic escaped: "+o.PanicVal+" ["+o.PanicSig+"]", input)
				case o.Err != nil:
					c11Report(c, sig+"error", "reading an exported field failed: "+o.Err.Error(), input)
				default:
					if d := c11Diff(reflect.ValueOf(o.Val), want, c11NilExact, "field "+path, 0); d != "" {
						c11Report(c, sig+"wrong-value", d, input)
					}
				}
			}
		}
		// (c) a field written through a pointer by its explicit path
		for _, h := range holders {
			if !h.ptr.IsValid() {
				continue
			}
			nv := "w" + strconv.Itoa(r.Intn(100000))
			src := h.pre + h.expr + "." + ht.write + " = " + strconv.Quote(nv)
			c.Begin(src)
			o := ank.Exec(e, src)
			c.Events(1)
			c.Eval("selector-write|"+tn+"|"+src, true)
			got := c11Path(p, ht.write)
			input := map[string]interface{}{"src": src, "go_type": ht.t.String(), "go_field_after": ank.RenderValue(got), "err": ank.ErrText(o.Err), "panic": o.PanicVal}
			sig := "member:field-beside-method:" + tn + "." + ht.write + "@" + h.kind + ":write:"
			switch {
			case o.Panicked:
				c11Report(c, sig+"panic", "panic escaped: "+o.PanicVal+" ["+o.PanicSig+"]", input)
			case o.Err != nil:
				c11Report(c, sig+"error", "writing an assignable value through a pointer failed: "+o.Err.Error(), input)
			case got.String() != nv:
				c11Report(c, sig+"write-lost", "the write through a pointer did not reach the Go value's own field", input)
			}
		}
	}
}

// ---------------------------------------------------------------------------
// selector, part 2: fields promoted through an embedded pointer, every holder

// Touch is promoted to C11Outer (and to C11Outer2) through the embedded pointer.
func (e *C11Emb) Touch(n int64) int64 {
	return c11Enter("Touch", e, reflect.ValueOf(&n).Elem())[0].Interface().(int64)
}

// C11Outer2 reaches C11Emb through a struct embedded by value and then the pointer.
type C11Outer2 struct {
	C11Outer
	X int64
}

// C11Wrap holds a C11Outer in a named field.
type C11Wrap struct {
	O   C11Outer
	Tag string
}

func c11SelEmbPtr(c *wk.Case) {
	r := c.Rng
	e := ank.NewCoreEnv()
	in := &C11Emb{Name: "n" + strconv.Itoa(r.Intn(1000)), N: int64(r.Intn(1000))}
	own := int64(r.Intn(100))
	outer := C11Outer{C11Emb: in, Own: own}
	e.Define("eov", outer)
	e.Define("eop", &C11Outer{C11Emb: in, Own: own})
	e.Define("eom", map[string]C11Outer{"k": outer})
	e.Define("eomp", map[string]*C11Outer{"k": {C11Emb: in, Own: own}})
	e.Define("eob", []interface{}{outer, &C11Outer{C11Emb: in, Own: own}})
	e.Define("eomk", func(string) C11Outer { return outer })
	e.Define("eos", []C11Outer{outer})
	e.Define("eowv", C11Wrap{O: outer})
	e.Define("eopw", &C11Wrap{O: outer})
	e.Define("eo2v", C11Outer2{C11Outer: outer, X: 1})
	e.Define("eopo2", &C11Outer2{C11Outer: outer, X: 1})
	e.Define("eoa", [1]C11Outer{outer})
	holders := []struct{ expr, kind, pre string }{
		{"eop", "pointer", ""},
		{"eov", "value", ""},
		{`eom["k"]`, "map-value", ""},
		{"eom.k", "map-value", ""},
		{"eomp.k", "pointer-map-value", ""},
		{"eob[0]", "value-in-container", ""},
		{"eob[1]", "pointer-in-container", ""},
		{`eomk("/")`, "go-result-value", ""},
		{"eos[0]", "slice-element", ""},
		{"eoa[0]", "array-element", ""},
		{"eowv.O", "field@value", ""},
		{"eopw.O", "field@pointer", ""},
		{"eo2v", "outer-embedded-by-value@value", ""},
		{"eopo2", "outer-embedded-by-value@pointer", ""},
		{"eo2v.C11Outer", "explicit-outer@value", ""},
		{"eov.C11Emb", "explicit-path@value", ""},
		{`eom["k"].C11Emb`, "explicit-path@map-value", ""},
		{"eox", "assigned-value", "eox = eov; "},
		{"eoy", "assigned-value", `eoy = eom["k"]; `},
		{"eoz", "assigned-value", `eoz = eomk("/"); `},
		{"func(){ return eov }()", "script-result-value", ""},
	}
	rec := &c11Rec{}
	for _, h := range holders {
		sigBase := "member:embedded-pointer@" + h.kind + ":"
		step := func(op, src string, check func(o ank.Out) (string, string)) {
			c.Begin(src)
			o := ank.Exec(e, src)
			c.Events(1)
			c.Eval("embptr|"+src+"|"+in.Name+"|"+strconv.FormatInt(in.N, 10), true)
			c.Tag("selector:embedded-pointer:" + op + "@" + h.kind)
			input := map[string]interface{}{"src": src, "go_Name": in.Name, "go_N": in.N, "got": ank.Render(o.Val), "err": ank.ErrText(o.Err), "panic": o.PanicVal}
			switch {
			case o.Panicked:
				c11Report(c, sigBase+op+":panic", "panic escaped vm.Execute: "+o.PanicVal+" ["+o.PanicSig+"]", input)
			case o.Err != nil:
				c11Report(c, sigBase+op+":error", op+" of a field promoted through an embedded pointer failed: "+o.Err.Error(), input)
			default:
				if what, d := check(o); what != "" {
					c11Report(c, sigBase+op+":"+what, d, input)
				}
			}
		}
		eq := func(got interface{}, want interface{}, what string) (string, string) {
			if d := c11Diff(reflect.ValueOf(got), reflect.ValueOf(want), c11NilExact, "field", 0); d != "" {
				return what, d
			}
			return "", ""
		}
		// reads
		step("read", h.pre+h.expr+".Name", func(o ank.Out) (string, string) { return eq(o.Val, in.Name, "wrong-value") })
		step("read", h.pre+h.expr+".N", func(o ank.Out) (string, string) { return eq(o.Val, in.N, "wrong-value") })
		// writes of assignable values: the field lives behind the embedded pointer
		newName := "w" + strconv.Itoa(r.Intn(100000))
		step("write", h.pre+h.expr+".Name = "+strconv.Quote(newName), func(o ank.Out) (string, string) {
			return eq(in.Name, newName, "write-lost")
		})
		// (the Go side is the reference: a refused write is reported once, by the write)
		step("read", h.pre+h.expr+".Name", func(o ank.Out) (string, string) { return eq(o.Val, in.Name, "wrong-value") })
		newN := int64(1000 + r.Intn(100000))
		e.Define("nvn", newN)
		nText := strconv.FormatInt(newN, 10)
		if r.Intn(2) == 0 {
			nText = "nvn"
		}
		step("write", h.pre+h.expr+".N = "+nText, func(o ank.Out) (string, string) { return eq(in.N, newN, "write-lost") })
		base := in.N
		step("write", h.pre+h.expr+".N = "+h.expr+".N + 1", func(o ank.Out) (string, string) { return eq(in.N, base+1, "write-lost") })
		step("read", h.pre+h.expr+".N", func(o ank.Out) (string, string) { return eq(o.Val, in.N, "wrong-value") })
		// a method promoted through the embedded pointer gets the Go value itself
		n := int64(r.Intn(1000))
		k := &c11Call{callee: h.expr + ".Touch", ft: reflect.ValueOf(in).MethodByName("Touch").Type(), rec: rec, prelude: h.pre,
			pre: []c11Val{{text: strconv.FormatInt(n, 10), v: reflect.ValueOf(n), label: "int64"}}}
		rec.results = c11GenResults(r, k.ft)
		k.recvCheck = func(recv, _ interface{}) string {
			if p, ok := recv.(*C11Emb); !ok || p != in {
				return "a method promoted through an embedded pointer did not get the Go value itself as receiver"
			}
			return ""
		}
		k.judge(c, e, "member:embedded-pointer@"+h.kind+":promoted-pointer-method", 0)
	}
}

// ---------------------------------------------------------------------------
// phase slotarg

type C11Acct struct {
	Bal  int64
	Name string
	Rate float64
	Ok   bool
	Tags []string
	Nums []int64
	Arr  [2]int64
	In   C11Inner
	Any  interface{}
	Err  error
	Nm   C11Namer
	Ptr  *C11Inner
	M    map[string]int64
	Col  C11Color
}

func (a *C11Acct) Log(tag string, xs ...interface{}) int64 {
	return c11Enter("Log", a, reflect.ValueOf(&tag).Elem(), reflect.ValueOf(&xs).Elem())[0].Interface().(int64)
}
func (a *C11Acct) Pair(x, y interface{}) (int64, string) {
	r := c11Enter("Pair", a, reflect.ValueOf(&x).Elem(), reflect.ValueOf(&y).Elem())
	return r[0].Interface().(int64), r[1].Interface().(string)
}

type c11Slot struct {
	kind   string
	expr   string
	typ    reflect.Type
	loc    func() reflect.Value // the Go slot as it is reached NOW (the map, for a map value)
	mapKey string
	addr   bool // the script reaches the slot itself (addressable), not a copy of its content
}

// read: a copy of the slot's current content, typed typ
func (s *c11Slot) read() reflect.Value {
	cp := reflect.New(s.typ).Elem()
	l := s.loc()
	if s.mapKey != "" {
		if v := l.MapIndex(reflect.ValueOf(s.mapKey)); v.IsValid() {
			cp.Set(v)
		}
		return cp
	}
	cp.Set(l)
	return cp
}

// write: the Go-side store
func (s *c11Slot) write(v reflect.Value) {
	if !v.IsValid() {
		v = reflect.Zero(s.typ)
	}
	if s.mapKey != "" {
		s.loc().SetMapIndex(reflect.ValueOf(s.mapKey), v)
		return
	}
	s.loc().Set(v)
}

func c11LocSlot(kind, expr string, loc func() reflect.Value) *c11Slot {
	return &c11Slot{kind: kind, expr: expr, typ: loc().Type(), addr: true, loc: loc}
}

func c11MapSlot(kind, expr string, m func() reflect.Value, key string) *c11Slot {
	return &c11Slot{kind: kind, expr: expr, typ: m().Type().Elem(), loc: m, mapKey: key}
}

var c11BasicDyn = []reflect.Type{c11TInt64, c11TString, reflect.TypeOf(float64(0)), reflect.TypeOf(true)}

func c11SlotGen(r *rand.Rand, t reflect.Type) reflect.Value {
	if t == c11TIface {
		x := reflect.New(t).Elem()
		x.Set(c11SlotGen(r, c11BasicDyn[r.Intn(len(c11BasicDyn))]))
		return x
	}
	switch t.Kind() {
	case reflect.Int64:
		if r.Intn(3) != 0 {
			return reflect.ValueOf(int64(r.Intn(100000) - 500)).Convert(t)
		}
	case reflect.Slice, reflect.Map:
		// never nil, never empty: a replaced container is seen by its content
		for {
			if v := c11GenGo(r, t, 2, false); !v.IsNil() && v.Len() > 0 {
				return v
			}
		}
	}
	return c11GenGo(r, t, 1, false)
}

// c11SlotNew: a value of the slot's type that differs from old.
func c11SlotNew(r *rand.Rand, s *c11Slot, old reflect.Value) (reflect.Value, bool) {
	for try := 0; try < 12; try++ {
		v := reflect.New(s.typ).Elem()
		v.Set(c11SlotGen(r, s.typ))
		if c11Diff(v, old, c11NilExact, "", 0) != "" {
			return v, true
		}
	}
	return reflect.Value{}, false
}

func c11IsNilIface(v reflect.Value) bool {
	return v.Kind() == reflect.Interface && v.IsNil()
}

// c11SlotParam: a parameter type for an argument holding v (read from a slot of static type st).
func c11SlotParam(r *rand.Rand, st reflect.Type, v reflect.Value) reflect.Type {
	cands := []reflect.Type{st, c11TIface, c11TIface}
	if u := c11Unwrap(v); u.IsValid() {
		switch u.Type() {
		case c11TInt64:
			cands = append(cands, reflect.TypeOf(float64(0)), reflect.TypeOf(int32(0)), reflect.TypeOf(C11MyInt(0)), reflect.TypeOf(int(0)), c11TInt64)
		case c11TString:
			cands = append(cands, reflect.TypeOf(C11MyStr("")), c11TString)
		case reflect.TypeOf(float64(0)):
			cands = append(cands, reflect.TypeOf(float32(0)), reflect.TypeOf(float64(0)))
		case reflect.TypeOf(C11Pair{}):
			cands = append(cands, reflect.TypeOf(C11Pair2{}))
		case reflect.TypeOf([]int64(nil)):
			cands = append(cands, reflect.TypeOf([]float64(nil)), reflect.TypeOf([]interface{}(nil)))
		case reflect.TypeOf([]string(nil)):
			cands = append(cands, reflect.TypeOf([]interface{}(nil)))
		}
	} else {
		// nil: T's zero value
		cands = append(cands, c11TError, c11TNamer, c11TPS, c11TInt64, reflect.TypeOf([]int64(nil)))
	}
	return cands[r.Intn(len(cands))]
}

var c11SlotResultTypes = []reflect.Type{c11TInt64, c11TString, c11TIface, c11TError, reflect.TypeOf([]interface{}(nil))}

func c11PhaseSlotArg(c *wk.Case) {
	r := c.Rng
	e := ank.NewCoreEnv()
	gen := func(t reflect.Type) reflect.Value { return c11SlotGen(r, t) }
	tF64 := reflect.TypeOf(float64(0))
	acct := func() C11Acct {
		a := C11Acct{Bal: gen(c11TInt64).Int(), Name: gen(c11TString).String(), Rate: gen(tF64).Float(), Ok: r.Intn(2) == 0,
			Tags: []string{gen(c11TString).String(), gen(c11TString).String()}, Nums: []int64{gen(c11TInt64).Int(), gen(c11TInt64).Int()},
			Arr: [2]int64{gen(c11TInt64).Int(), gen(c11TInt64).Int()}, In: C11Inner{Z: gen(c11TInt64).Int()},
			Ptr: &C11Inner{Z: gen(c11TInt64).Int()}, M: map[string]int64{"k": gen(c11TInt64).Int()}, Col: C11Color(gen(c11TString).String())}
		if x := gen(c11TIface); r.Intn(4) != 0 {
			a.Any = x.Interface()
		}
		if r.Intn(2) == 0 {
			a.Err = &c11Err{Msg: "e" + strconv.Itoa(r.Intn(100))}
		}
		if r.Intn(2) == 0 {
			a.Nm = &C11S{A: int64(r.Intn(100))}
		}
		return a
	}
	a0 := acct()
	acc := &a0
	accs := []C11Acct{acct(), acct()}
	lst := []interface{}{gen(c11TIface).Interface(), gen(c11TIface).Interface(), gen(c11TInt64).Interface()}
	ifs := []interface{}{gen(c11TIface).Interface(), nil, gen(c11TString).Interface()}
	nums := []int64{gen(c11TInt64).Int(), gen(c11TInt64).Int(), gen(c11TInt64).Int()}
	strs := []string{gen(c11TString).String(), gen(c11TString).String()}
	fls := []float64{gen(tF64).Float(), gen(tF64).Float()}
	errs := []error{nil, &c11Err{Msg: "e9"}}
	pairs := []C11Pair{{K: "p", V: gen(c11TInt64).Int()}, {K: "q", V: gen(c11TInt64).Int()}}
	grid := [][]int64{{gen(c11TInt64).Int()}, {gen(c11TInt64).Int(), gen(c11TInt64).Int()}}
	aa := []interface{}{[]interface{}{gen(c11TIface).Interface(), gen(c11TInt64).Interface()}, gen(c11TString).Interface()}
	pi := new(int64)
	*pi = gen(c11TInt64).Int()
	pstr := new(string)
	*pstr = gen(c11TString).String()
	mp := map[string]int64{"k": gen(c11TInt64).Int()}
	mif := map[string]interface{}{"k": gen(c11TIface).Interface()}
	box := []interface{}{acc}
	for name, v := range map[string]interface{}{"acc": acc, "accs": accs, "a": lst, "ifs": ifs, "nums": nums, "strs": strs, "fls": fls, "errs": errs, "pairs": pairs,
		"grid": grid, "aa": aa, "pi": pi, "pstr": pstr, "mp": mp, "mif": mif, "box": box} {
		e.Define(name, v)
	}
	// a list made by the script itself
	var lits []string
	for i := 0; i < 3; i++ {
		lits = append(lits, strconv.Itoa(r.Intn(4000)))
	}
	if o := ank.Exec(e, "sl = ["+strings.Join(lits, ", ")+"]"); o.Err != nil || o.Panicked {
		c.Inconclusive("source-construction-failed", ank.ErrText(o.Err)+o.PanicVal, "sl")
		return
	}
	slv, _ := e.Get("sl")
	sl, ok := slv.([]interface{})
	if !ok || len(sl) != 3 {
		c.Inconclusive("source-construction-failed", "script list is "+ank.Render(slv), "sl")
		return
	}
	av := reflect.ValueOf(acc).Elem()
	// every slot is re-derived when it is used: a field that was replaced (acc.Tags,
	// acc.Ptr, acc.M) takes its element slots with it
	at := func(v interface{}, idx ...int) func() reflect.Value {
		return func() reflect.Value {
			x := reflect.ValueOf(v)
			for _, i := range idx {
				for x.Kind() == reflect.Interface {
					x = x.Elem()
				}
				x = x.Index(i)
			}
			return x
		}
	}
	fld := func(path string, idx ...int) func() reflect.Value {
		return func() reflect.Value {
			x := c11Path(av, path)
			for _, i := range idx {
				x = x.Index(i)
			}
			return x
		}
	}
	of := func(f func() reflect.Value, path string) func() reflect.Value {
		return func() reflect.Value { return c11Path(f(), path) }
	}
	ptr := func(p interface{}) func() reflect.Value {
		return func() reflect.Value { return reflect.ValueOf(p).Elem() }
	}
	slots := []*c11Slot{
		c11LocSlot("list-element", "a[0]", at(lst, 0)),
		c11LocSlot("list-element", "a[1]", at(lst, 1)),
		c11LocSlot("list-element", "a[2]", at(lst, 2)),
		c11LocSlot("script-list-element", "sl[0]", at(sl, 0)),
		c11LocSlot("script-list-element", "sl[2]", at(sl, 2)),
		c11LocSlot("list-element", "ifs[1]", at(ifs, 1)),
		c11LocSlot("list-element", "ifs[2]", at(ifs, 2)),
		c11LocSlot("typed-slice-element", "nums[0]", at(nums, 0)),
		c11LocSlot("typed-slice-element", "nums[2]", at(nums, 2)),
		c11LocSlot("typed-slice-element", "strs[1]", at(strs, 1)),
		c11LocSlot("typed-slice-element", "fls[0]", at(fls, 0)),
		c11LocSlot("typed-slice-element", "errs[0]", at(errs, 0)),
		c11LocSlot("typed-slice-element", "errs[1]", at(errs, 1)),
		c11LocSlot("typed-slice-element", "pairs[1]", at(pairs, 1)),
		c11LocSlot("field@struct-slice-element", "pairs[0].V", of(at(pairs, 0), "V")),
		c11LocSlot("field@struct-slice-element", "accs[1].Bal", of(at(accs, 1), "Bal")),
		c11LocSlot("field@struct-slice-element", "accs[0].Name", of(at(accs, 0), "Name")),
		c11LocSlot("nested-slice-element", "grid[1][0]", at(grid, 1, 0)),
		c11LocSlot("nested-list-element", "aa[0][1]", at(aa, 0, 1)),
		c11LocSlot("nested-list-element", "aa[0][0]", at(aa, 0, 0)),
		c11LocSlot("pointee", "*pi", ptr(pi)),
		c11LocSlot("pointee", "*pstr", ptr(pstr)),
		c11LocSlot("field@pointer", "acc.Bal", fld("Bal")),
		c11LocSlot("field@pointer", "acc.Name", fld("Name")),
		c11LocSlot("field@pointer", "acc.Rate", fld("Rate")),
		c11LocSlot("field@pointer", "acc.Ok", fld("Ok")),
		c11LocSlot("field@pointer", "acc.Col", fld("Col")),
		c11LocSlot("slice-field@pointer", "acc.Tags", fld("Tags")),
		c11LocSlot("slice-field@pointer", "acc.Nums", fld("Nums")),
		c11LocSlot("map-field@pointer", "acc.M", fld("M")),
		c11LocSlot("struct-field@pointer", "acc.In", fld("In")),
		c11LocSlot("pointer-field@pointer", "acc.Ptr", fld("Ptr")),
		c11LocSlot("interface-field@pointer", "acc.Any", fld("Any")),
		c11LocSlot("interface-field@pointer", "acc.Err", fld("Err")),
		c11LocSlot("interface-field@pointer", "acc.Nm", fld("Nm")),
		c11LocSlot("nested-field@pointer", "acc.In.Z", fld("In.Z")),
		c11LocSlot("nested-field@pointer", "acc.Ptr.Z", fld("Ptr.Z")),
		c11LocSlot("element-of-slice-field@pointer", "acc.Tags[0]", fld("Tags", 0)),
		c11LocSlot("element-of-slice-field@pointer", "acc.Nums[1]", fld("Nums", 1)),
		c11LocSlot("array-element@pointer", "acc.Arr[1]", fld("Arr", 1)),
		c11LocSlot("field@pointer-in-container", "box[0].Bal", fld("Bal")),
		c11MapSlot("map-value", `mp["k"]`, at(mp), "k"),
		c11MapSlot("map-value", "mif.k", at(mif), "k"),
		c11MapSlot("map-value@pointer-field", `acc.M["k"]`, fld("M"), "k"),
	}
	rec := &c11Rec{}
	// typed slices whose ELEMENTS are the arguments (`f(errs...)`): every element,
	// a nil one included, arrives as the parameter type's value
	if !c11PendingFix_nilIfaceSlotToIface {
		for _, row := range []struct {
			name string
			sl   interface{}
			f    interface{}
		}{
			{"errs", errs, (func(error, error) int64)(nil)},
			{"errs", errs, (func(interface{}, error) int64)(nil)},
			{"errs", errs, (func(error, ...error) int64)(nil)},
			{"errs", errs, (func(...error) int64)(nil)},
			{"strs", strs, (func(string, string) int64)(nil)},
			{"nums", nums, (func(int64, interface{}, float64) int64)(nil)},
			{"pairs", pairs, (func(C11Pair, C11Pair2) int64)(nil)},
		} {
			ft := reflect.TypeOf(row.f)
			e.Define("f", c11MakeFn(ft, rec).Interface())
			rec.results = c11GenResults(r, ft)
			sp := c11Val{text: row.name, v: reflect.ValueOf(row.sl), label: c11Label(reflect.ValueOf(row.sl))}
			(&c11Call{callee: "f", ft: ft, spread: &sp, rec: rec}).judge(c, e, "slotarg:typed-slice-spread", 0)
		}
	} else {
		c.Excluded("pending repair: nil of a non-empty interface type read from a typed slot")
	}
	for _, s := range slots {
		c11SlotCall(c, e, slots, s, rec)
	}
}

type c11SlotItem struct {
	s     *c11Slot      // nil: the mutator
	v     reflect.Value // the value this argument supplies
	after bool
}

// c11SlotCall makes one call whose first argument is read from slot s.
func c11SlotCall(c *wk.Case, e *env.Env, slots []*c11Slot, s *c11Slot, rec *c11Rec) {
	r := c.Rng
	old := s.read()
	newv, mutate := c11SlotNew(r, s, old)
	if r.Intn(6) == 0 {
		mutate = false
	}
	// containers whose element slots are in the pool: keep at least 2 elements / the key
	if mutate {
		switch s.expr {
		case "acc.Tags", "acc.Nums":
			for newv.Len() < 2 {
				newv.Set(reflect.Append(newv, c11SlotGen(r, s.typ.Elem())))
			}
		case "acc.M":
			if !newv.MapIndex(reflect.ValueOf("k")).IsValid() {
				newv.SetMapIndex(reflect.ValueOf("k"), c11SlotGen(r, c11TInt64))
			}
		case "acc.Ptr":
			if newv.IsNil() {
				newv.Set(reflect.ValueOf(&C11Inner{Z: int64(r.Intn(1000))}))
			}
		}
	}
	other := func() *c11Slot {
		for {
			o := slots[r.Intn(len(slots))]
			// a slot the store does not reach
			if o.expr != s.expr && !strings.HasPrefix(o.expr, s.expr) && !strings.HasPrefix(s.expr, o.expr) &&
				!(strings.HasSuffix(o.expr, ".Bal") && strings.HasSuffix(s.expr, ".Bal")) {
				return o
			}
		}
	}
	var items []c11SlotItem
	items = append(items, c11SlotItem{s: s, v: old})
	switch r.Intn(4) {
	case 0:
		items = append(items, c11SlotItem{s: s, v: old})
	case 1:
		o := other()
		items = append(items, c11SlotItem{s: o, v: o.read()})
	}
	mutAt := -1
	if mutate {
		mutAt = len(items)
		items = append(items, c11SlotItem{})
		switch r.Intn(4) {
		case 0:
			items = append(items, c11SlotItem{s: s, v: newv, after: true})
		case 1:
			o := other()
			items = append(items, c11SlotItem{s: o, v: o.read(), after: true})
		}
	}

	// the store
	mech := r.Intn(3) // 0 script closure, 1 inline script function, 2 Go host function
	nvNil := mutate && (c11IsNilIface(newv) || ((newv.Kind() == reflect.Ptr || newv.Kind() == reflect.Slice || newv.Kind() == reflect.Map) && newv.IsNil()))
	if nvNil {
		// UNSPECIFIED what a script write of nil does (see phase member): Go stores it
		mech = 2
	}
	store := ""
	if mutate {
		store = s.expr + " = nv"
		if u := c11Unwrap(old); u.IsValid() && u.Type() == c11TInt64 && (s.typ == c11TInt64 || s.typ == c11TIface) && u.Int() > -1000000 && u.Int() < 1000000 && mech != 2 && r.Intn(3) == 0 {
			// compound assignment: the new value is old + 1 (2)
			d := int64(1)
			store = s.expr + "++"
			if r.Intn(2) == 0 {
				d = 2
				store = s.expr + " += 2"
			}
			nv := reflect.New(s.typ).Elem()
			nv.Set(reflect.ValueOf(u.Int() + d))
			newv = nv
			for i := range items {
				if items[i].after && items[i].s == s {
					items[i].v = newv
				}
			}
		}
		if fn := map[reflect.Type]string{reflect.TypeOf(C11Inner{}): "Z", reflect.TypeOf(C11Pair{}): "V"}[s.typ]; fn != "" && mech != 2 && r.Intn(2) == 0 {
			// a store into ONE FIELD of the struct that was passed by value
			nv := reflect.New(s.typ).Elem()
			nv.Set(old)
			nv.FieldByName(fn).SetInt(old.FieldByName(fn).Int() ^ int64(1+r.Intn(1000)))
			newv = nv
			store = s.expr + "." + fn + " = nv." + fn
			for i := range items {
				if items[i].after && items[i].s == s {
					items[i].v = newv
				}
			}
		}
		if u := c11Unwrap(newv); u.IsValid() {
			e.Define("nv", u.Interface())
		} else {
			e.Define("nv", nil)
		}
	}

	// shape
	shape := r.Intn(7)
	if !mutate && shape == 4 {
		shape = r.Intn(4)
	}
	if shape == 4 && mutAt != len(items)-1 {
		items = items[:mutAt+1] // the spread operand is the last argument
	}
	var k *c11Call
	var ex c11Expect
	var mk, mk2 reflect.Value
	for try := 0; try < 6; try++ {
		in := make([]reflect.Type, 0, len(items)+2)
		var pre []c11Val
		var tailT reflect.Type
		nFixed := 0
		switch shape {
		case 0, 5:
			nFixed = len(items)
		case 1, 6:
			nFixed = 0
		case 2:
			nFixed = 1 + r.Intn(len(items))
			if nFixed >= len(items) {
				nFixed = len(items) - 1
			}
		case 3:
			nFixed = 0
		case 4:
			nFixed = mutAt
		}
		// the variadic element type: interface{}, or the type of the first tail slot
		tailT = c11TIface
		if r.Intn(5) < 2 {
			for _, it := range items[nFixed:] {
				if it.s != nil && it.s.typ.Kind() != reflect.Interface {
					tailT = it.s.typ
					break
				}
			}
		}
		if shape == 6 || shape == 5 {
			tailT = c11TIface
		}
		ptypes := make([]reflect.Type, len(items))
		for i, it := range items {
			switch {
			case shape == 5:
				ptypes[i] = c11TIface
			case i >= nFixed && shape != 0:
				ptypes[i] = tailT
			case it.s == nil:
				ptypes[i] = []reflect.Type{c11TIface, c11TString, c11TInt64}[r.Intn(3)]
			default:
				ptypes[i] = c11SlotParam(r, it.s.typ, it.v)
			}
		}
		// markers returned by the storing argument
		mkT := c11TString
		if mutAt >= 0 {
			mkT = ptypes[mutAt]
			if shape == 4 {
				mkT = tailT
			}
			if mkT.Kind() == reflect.Interface {
				mkT = c11BasicDyn[r.Intn(2)]
			}
		}
		mkGen := func() reflect.Value {
			if mkT == c11TString {
				return reflect.ValueOf("m" + strconv.Itoa(r.Intn(100000)))
			}
			return c11SlotGen(r, mkT)
		}
		mk, mk2 = mkGen(), mkGen()
		pending := false
		for i, it := range items {
			if it.s == nil {
				pre = append(pre, c11Val{text: "BUMP", v: mk, label: c11Label(mk)})
				continue
			}
			if c11PendingFix_nilIfaceSlotToIface && it.s.addr && it.s.typ.Kind() == reflect.Interface && it.s.typ.NumMethod() > 0 && c11IsNilIface(it.v) &&
				ptypes[i].Kind() == reflect.Interface && ptypes[i].NumMethod() > 0 && it.s.typ.AssignableTo(ptypes[i]) {
				pending = true
			}
			pre = append(pre, c11Val{text: it.s.expr, v: it.v, label: c11Label(it.v)})
		}
		if pending {
			c.Excluded("pending repair: nil of a non-empty interface type read from a typed slot")
			continue
		}
		var out []reflect.Type
		for j := r.Intn(3); j > 0; j-- {
			out = append(out, c11SlotResultTypes[r.Intn(len(c11SlotResultTypes))])
		}
		k = &c11Call{callee: "f", rec: rec}
		switch shape {
		case 0: // fixed x plain
			in = append(in, ptypes...)
			k.ft = reflect.FuncOf(in, out, false)
			k.pre = pre
		case 1, 2: // variadic x plain: nFixed fixed parameters, the rest is the tail
			in = append(in, ptypes[:nFixed]...)
			in = append(in, reflect.SliceOf(tailT))
			k.ft = reflect.FuncOf(in, out, true)
			k.pre = pre
		case 3: // variadic x plain behind a leading literal
			in = append(in, c11TString, reflect.SliceOf(tailT))
			k.ft = reflect.FuncOf(in, out, true)
			k.pre = append([]c11Val{{text: `"s"`, v: reflect.ValueOf("s"), label: "string"}}, pre...)
		case 4: // the storing argument is the operand of a spread
			in = append(in, ptypes[:mutAt]...)
			l := []interface{}{mk.Interface(), mk2.Interface()}
			sp := c11Val{text: "BUMP", v: reflect.ValueOf(l), label: "[]interface{}"}
			k.pre = pre[:mutAt]
			k.spread = &sp
			if r.Intn(2) == 0 {
				in = append(in, reflect.SliceOf(tailT))
				k.ft = reflect.FuncOf(in, out, true)
			} else {
				in = append(in, mkT, mkT)
				k.ft = reflect.FuncOf(in, out, false)
			}
		case 5: // method, fixed x plain
			for len(pre) < 2 {
				pre = append(pre, c11Val{text: "7", v: reflect.ValueOf(int64(7)), label: "int64"})
			}
			k.callee, k.ft, k.pre = "acc.Pair", reflect.ValueOf(&C11Acct{}).MethodByName("Pair").Type(), pre[:2]
			if mutAt >= 2 {
				mutAt = -2 // the store is not part of the call
			}
		case 6: // method, variadic x plain
			k.callee, k.ft = "acc.Log", reflect.ValueOf(&C11Acct{}).MethodByName("Log").Type()
			k.pre = append([]c11Val{{text: `"t"`, v: reflect.ValueOf("t"), label: "string"}}, pre...)
		}
		if ex = k.expect(); ex.kind == c11OK || (ex.kind == c11None && try >= 4) {
			break
		}
		k = nil
	}
	if mutAt == -2 {
		mutate, mutAt = false, -1
	}
	if k == nil {
		return
	}
	if !strings.HasPrefix(k.callee, "acc.") {
		e.Define("f", c11MakeFn(k.ft, rec).Interface())
	}
	rec.results = c11GenResults(r, k.ft)

	// the storing argument
	mechName := "none"
	if mutate {
		e.Define("mk", mk.Interface())
		e.Define("mk2", mk2.Interface())
		ret := "mk"
		if k.spread != nil {
			ret = "[mk, mk2]"
		}
		bump := ""
		switch mech {
		case 0:
			mechName = "script-closure"
			k.prelude = "bump = func() { " + store + "; return " + ret + " }; "
			bump = "bump()"
		case 1:
			mechName = "inline-script-function"
			bump = "func() { " + store + "; return " + ret + " }()"
		default:
			mechName = "go-host-function"
			nv, m1, m2, spread := newv, mk, mk2, k.spread != nil
			e.Define("gobump", func() interface{} {
				s.write(nv)
				if spread {
					return []interface{}{m1.Interface(), m2.Interface()}
				}
				return m1.Interface()
			})
			bump = "gobump()"
		}
		for i := range k.pre {
			if k.pre[i].text == "BUMP" {
				k.pre[i].text = bump
			}
		}
		if k.spread != nil {
			k.spread.text = bump
		}
	}
	vd := k.judge(c, e, "slotarg:"+s.kind, 0)
	c.Tag("slotarg:slot:"+s.kind, "slotarg:store:"+mechName)
	if vd.failure == "" {
		c.Tag("slotarg:held:" + k.shape())
	}
	if mutate && vd.failure == "" && vd.ex.kind == c11OK {
		// the store must have happened, else the case said nothing about it
		if d := c11Diff(s.read(), newv, c11NilExact, "slot", 0); d != "" {
			c.Inconclusive("slotarg-store-not-observed", s.expr+" after the call: "+d, vd.src)
		} else {
			c.Tag("slotarg:store-then-call:" + k.shape())
		}
	}
	if s.expr == "a[0]" && c.WantSample() {
		c.Sample(k.input(vd))
	}
}
