package main

// C02, round 6.
//
// (1) try statements whose CATCH block is left by return / throw / a runtime error / break /
// continue and whose FINALLY block holds the never-terminating core, at top level, inside loops
// and as the last thing a script function evaluates (direct-call and reflect call paths). The
// statement names try/catch/finally among the constructs that must not swallow the interruption;
// it does not say whether a finally block runs at all after such a catch block. So every one of
// these wrappers calls entered() in front of the core: a run that ends without that call never
// reached the core and is a program that ended by itself (trivial, no verdict); once entered()
// has been called the program cannot end by itself any more, and whatever the catch block ended
// with, the only admissible outcome after the cancel is the error "execution interrupted".
//
// (2) phase deep: the cancellation lands underneath 20000-100000 pending script calls. "The call
// returns within a short bounded time" holds for a deep recursion as for a flat loop; the
// interruption has to travel out of every pending call. Cores: a recursion that counts down and
// then spins / blocks at its bottom (entered() announces the bottom), through every call path
// (1/3/6 parameters, variadic, lambda variable, map member, closures, mutual recursion, through a
// host callback, non-tail positions, a defer / a try statement at every level, a walk along a
// linked structure), and the unbounded recursions of the main table cancelled by their D-th
// probe. The verdict for a call that does not come back is the one of the other phases: two
// goroutine-state samples plus the CPU time burnt since the cancel, never the wall clock alone.
// Depths are capped per shape so that the Go stack of the interpreter goroutine stays at or
// below 1 GB (heavy call paths: 60000), the phase runs under MemMB 3072 with 4 jobs.

import (
	"fmt"
	"strings"

	"verifharness/internal/wk"
)

var _ = c02AddR6Wrappers()

func c02AddR6Wrappers() bool {
	// fin returns the finally block: entered(), then the core
	fin := func(c string) string { return "finally {\n  entered()\n" + ind(c) + "\n}" }
	ws := []c02Wrapper{
		{name: "finally-after-catch-return", wrap: func(c string, id int) string {
			return fmt.Sprintf("try {\n  throw 1\n} catch e {\n  return 1\n} %s", fin(c))
		}},
		{name: "finally-after-catch-throw", wrap: func(c string, id int) string {
			return fmt.Sprintf("try {\n  throw \"first\"\n} catch e {\n  throw \"second\"\n} %s", fin(c))
		}},
		{name: "finally-after-catch-rethrow-of-runtime-error", wrap: func(c string, id int) string {
			return fmt.Sprintf("try {\n  nosuchfn%d()\n} catch e {\n  throw e\n} %s", id, fin(c))
		}},
		{name: "finally-after-catch-runtime-error", wrap: func(c string, id int) string {
			return fmt.Sprintf("try {\n  throw 1\n} catch {\n  nosuchfn%d()\n} %s", id, fin(c))
		}},
		{name: "finally-after-try-return-catch-return", wrap: func(c string, id int) string {
			// whether the return inside try enters the catch block is not this property's business
			return fmt.Sprintf("try {\n  return 1\n} catch {\n  return 2\n} %s", fin(c))
		}},
		{name: "finally-after-catch-return-in-func", wrap: func(c string, id int) string {
			return fmt.Sprintf("func tf%d() {\n  try {\n    throw 1\n  } catch e {\n    return 2\n  } %s\n}\ntf%d()", id, strings.ReplaceAll(fin(c), "\n", "\n  "), id)
		}},
		{name: "finally-after-try-return-catch-return-in-func-value-used", wrap: func(c string, id int) string {
			return fmt.Sprintf("func tf%d(a) {\n  try {\n    return a\n  } catch {\n    return 2\n  } %s\n}\nx = tf%d(1) + 1", id, strings.ReplaceAll(fin(c), "\n", "\n  "), id)
		}},
		{name: "finally-after-catch-throw-in-func6", wrap: func(c string, id int) string {
			return fmt.Sprintf("func tf%d(a, b, c, d, e, f) {\n  try {\n    throw a\n  } catch e {\n    throw b\n  } %s\n}\ntf%d(1, 2, 3, 4, 5, 6)", id, strings.ReplaceAll(fin(c), "\n", "\n  "), id)
		}},
		{name: "finally-after-catch-return-in-callback", wrap: func(c string, id int) string {
			return fmt.Sprintf("apply(func() {\n  try {\n    throw 1\n  } catch e {\n    return\n  } %s\n})", strings.ReplaceAll(fin(c), "\n", "\n  "))
		}},
		{name: "finally-after-catch-break", wrap: func(c string, id int) string {
			return fmt.Sprintf("for {\n  try {\n    throw 1\n  } catch e {\n    break\n  } %s\n}", strings.ReplaceAll(fin(c), "\n", "\n  "))
		}},
		{name: "finally-after-catch-continue", wrap: func(c string, id int) string {
			return fmt.Sprintf("for ft%d in [1] {\n  try {\n    throw 1\n  } catch e {\n    continue\n  } %s\n}", id, strings.ReplaceAll(fin(c), "\n", "\n  "))
		}},
		{name: "finally-after-catch-return-in-nested-try", wrap: func(c string, id int) string {
			return fmt.Sprintf("try {\n  try {\n    throw 1\n  } catch e {\n    return 1\n  } %s\n} catch e {\n  tick()\n}", strings.ReplaceAll(fin(c), "\n", "\n  "))
		}},
	}
	for i := range ws {
		ws[i].mayEnd = true
	}
	c02Wrappers = append(c02Wrappers, ws...)
	return true
}

// ---- phase deep

type c02DeepShape struct {
	name string
	// src returns the statements: recurse depth levels down, then run bottom (statements)
	src func(depth int, bottom string) string
	// maxDepth keeps the Go stack of the interpreter goroutine at or below 1 GB (measured on the
	// unchanged tree: slim call paths need ~5 KB of Go stack per script call, heavy ones ~15 KB)
	maxDepth int
}

func c02DeepIf(bottom string) string { return "  if n == 0 {\n" + ind(ind(bottom)) + "\n  }\n" }

var c02DeepShapes = []c02DeepShape{
	{name: "return-call-1", maxDepth: 100000, src: func(d int, b string) string {
		return fmt.Sprintf("func down(n) {\n%s  return down(n - 1)\n}\ndown(%d)", c02DeepIf(b), d)
	}},
	{name: "statement-call-1", maxDepth: 100000, src: func(d int, b string) string {
		return fmt.Sprintf("func down(n) {\n%s  down(n - 1)\n}\ndown(%d)", c02DeepIf(b), d)
	}},
	{name: "operand-call-1", maxDepth: 100000, src: func(d int, b string) string {
		return fmt.Sprintf("func down(n) {\n%s  return 1 + down(n - 1)\n}\nx = down(%d)", c02DeepIf(b), d)
	}},
	{name: "return-call-3", maxDepth: 100000, src: func(d int, b string) string {
		return fmt.Sprintf("func down(a, b, n) {\n%s  return down(a, b, n - 1)\n}\ndown(1, 2, %d)", c02DeepIf(b), d)
	}},
	{name: "return-call-6", maxDepth: 60000, src: func(d int, b string) string {
		return fmt.Sprintf("func down(a, b, c, d, e, n) {\n%s  return down(a, b, c, d, e, n - 1)\n}\ndown(1, 2, 3, 4, 5, %d)", c02DeepIf(b), d)
	}},
	{name: "return-call-variadic", maxDepth: 60000, src: func(d int, b string) string {
		return fmt.Sprintf("func down(a...) {\n  n = a[0]\n%s  return down(n - 1)\n}\ndown(%d)", c02DeepIf(b), d)
	}},
	{name: "lambda-variable", maxDepth: 100000, src: func(d int, b string) string {
		return fmt.Sprintf("down = func(n) {\n%s  return down(n - 1)\n}\ndown(%d)", c02DeepIf(b), d)
	}},
	{name: "map-member", maxDepth: 100000, src: func(d int, b string) string {
		return fmt.Sprintf("dm = {}\ndm.f = func(n) {\n%s  return dm.f(n - 1)\n}\ndm.f(%d)", c02DeepIf(b), d)
	}},
	{name: "closure-0", maxDepth: 100000, src: func(d int, b string) string {
		return fmt.Sprintf("func mk(n) {\n  return func() {\n%s    return mk(n - 1)()\n  }\n}\nmk(%d)()", c02DeepIf(b), d)
	}},
	{name: "mutual-1-6", maxDepth: 60000, src: func(d int, b string) string {
		return fmt.Sprintf("func ra(n) {\n%s  return rb(0, 0, 0, 0, 0, n - 1)\n}\nfunc rb(a, b, c, d, e, n) {\n  return ra(n)\n}\nra(%d)", c02DeepIf(b), d/2)
	}},
	{name: "through-host-callback", maxDepth: 60000, src: func(d int, b string) string {
		return fmt.Sprintf("func down(n) {\n%s  return applyV(down, n - 1)\n}\ndown(%d)", c02DeepIf(b), d)
	}},
	{name: "call-in-host-call-argument", maxDepth: 60000, src: func(d int, b string) string {
		return fmt.Sprintf("func down(n) {\n%s  return ident(down(n - 1))\n}\ndown(%d)", c02DeepIf(b), d)
	}},
	{name: "defer-at-every-level", maxDepth: 60000, src: func(d int, b string) string {
		return fmt.Sprintf("func down(n) {\n  defer func() { dx = n }()\n%s  return down(n - 1)\n}\ndown(%d)", c02DeepIf(b), d)
	}},
	{name: "try-at-every-level", maxDepth: 60000, src: func(d int, b string) string {
		return fmt.Sprintf("func down(n) {\n%s  r = 0\n  try {\n    r = down(n - 1)\n  } catch e {\n    throw e\n  }\n  return r\n}\ndown(%d)", c02DeepIf(b), d)
	}},
	{name: "walk-linked-structure", maxDepth: 100000, src: func(d int, b string) string {
		return fmt.Sprintf("head = nil\nfor li = 0; li < %d; li++ {\n  head = {\"next\": head}\n}\nfunc walk(p) {\n  n = p == nil ? 0 : 1\n%s  return walk(p.next)\n}\nwalk(head)", d, c02DeepIf(b))
	}},
}

type c02DeepBottom struct {
	name    string
	src     string
	setup   string
	ticks   int
	blocked bool
}

var c02DeepBottoms = []c02DeepBottom{
	{name: "spin", src: "entered()\nfor { tick() }", ticks: 1},
	{name: "spin-tickless", src: "entered()\nfor { }"},
	{name: "spin-in-callee", src: "entered()\nfor { dbody() }", setup: "func dbody() { tick(); return 1 }", ticks: 1},
	{name: "recv", src: "entered()\n<- dch", setup: "dch = make(chan int64)", blocked: true},
	{name: "send", src: "entered()\ndch <- 1", setup: "dch = make(chan int64)", blocked: true},
}

// the unbounded recursions of the main table, cancelled by their D-th probe (no bottom: the
// cancel lands while the recursion is still descending); frames per probe, depth cap in frames
var c02DeepDescending = []struct {
	core         string
	framesPerTic int
	maxDepth     int
}{
	{"recursion-0", 1, 100000},
	{"recursion-1", 1, 100000},
	{"recursion-3", 1, 100000},
	{"recursion-6", 1, 60000},
	{"recursion-variadic", 1, 60000},
	{"recursion-mutual", 2, 100000},
}

const c02DeepMinDepth = 20000

// c02DeepCase generates case c.Index of phase deep: shapes are dealt round-robin so that a run
// of len(shapes)+len(descending) cases covers every call path; depth, bottom, cancel mode and
// the optional wrapper come from the PRNG.
func c02DeepCase(c *wk.Case) c02Case {
	var cc c02Case
	depthIn := func(max int) int { return c02DeepMinDepth + c.Rng.Intn(max-c02DeepMinDepth+1) }
	slot := c.Index % (len(c02DeepShapes) + len(c02DeepDescending))
	if slot >= len(c02DeepShapes) {
		d := c02DeepDescending[slot-len(c02DeepShapes)]
		for i := range c02Cores {
			if c02Cores[i].name == d.core {
				cc.core = i
			}
		}
		depth := depthIn(d.maxDepth)
		cc.sync, cc.k = true, depth/d.framesPerTic
		cc.deep = fmt.Sprintf(":deep-descending:%d", depth)
		return cc
	}
	sh := c02DeepShapes[slot]
	bt := c02DeepBottoms[c.Rng.Intn(len(c02DeepBottoms))]
	depth := depthIn(sh.maxDepth)
	cc.custom = &c02Core{name: "deep-" + sh.name + "-" + bt.name, src: sh.src(depth, bt.src), setup: bt.setup,
		ticks: bt.ticks, blocked: bt.blocked, announces: true}
	cc.deep = fmt.Sprintf(":%d", depth)
	cc.sync = c.Rng.Intn(2) == 0
	cc.k = 1 + c.Rng.Intn(3)
	cc.trailing = c.Rng.Intn(2) == 0
	if c.Rng.Intn(3) == 0 {
		// one wrapper around the whole recursion; those whose host function cancels or waits for
		// the cancel before the core starts would cancel at depth 0
		for try := 0; try < 8; try++ {
			w := c.Rng.Intn(len(c02Wrappers))
			if c02Wrappers[w].hostCancels || c02Wrappers[w].waitsForCancel {
				continue
			}
			cc.wrappers = []int{w}
			break
		}
	}
	return cc
}
