package main

// C12, round 10: a fault at a particular point of a chain walk.
//
// The statement lists "external lookup" among the operations of a history and
// says a scope's lookup object is consulted after the scope's own table. A
// lookup object is HOST code (a registry, a database, a plugin loader): it can
// fail - return an error, or panic - at any of its calls, and a host recovers
// such a panic at its own call boundary. The phases of the earlier rounds only
// ever used lookup objects that answer or decline politely, so nothing a chain
// walk leaves behind when it is cut short in the middle (a marker, a cache
// entry, a pending request, a counter, a lock) was ever looked at.
//
// Phase "fault" adds ONE operation to the histories of the engine: a lookup
// call (Get, GetValue, Addr, Type, or a one-expression script using the name,
// run by vm.Execute) made from a scope while the harness' lookup objects are
// armed to fail at the k-th call any of them receives during that operation -
// i.e. at the k-th lookup-bearing scope the walk reaches after the inner
// tables missed. Fault modes: panic with a plain value, panic with a Go
// runtime error, an error return, an error return together with a value.
// The operation runs under recover like every other one.
//
// What is judged:
//   - a panic that comes out of the harness' own lookup object is the host's
//     fault and no violation; any other panic is one (as everywhere);
//   - when the lookup object returned an error, the call must answer what the
//     chain answers when that scope's lookup declines (the next lookup-bearing
//     scope, the enclosing binding, or "undefined");
//   - Addr of the name from the calling scope is asked before and after the
//     faulted call: an address or an error (both accepted for a bound name),
//     but the same both times;
//   - AFTERWARDS - the existing oracle, unchanged: after the faulted call and
//     after every later call of the history (which goes on with defines,
//     deletes, sets, copies, deep copies, SetExternalLookup, changes of the
//     lookup objects' contents, more faults) the symbol lists of every scope
//     and Get/GetValue and Type of every pool name from every live scope are
//     compared with the chain-of-dictionaries model. The model has no memory:
//     a fault changes nothing.
//
// The histories: an enumerated part (every API form x fault mode x k = 1..3 x
// name on a fixed chain of five scopes, three of them with lookup objects,
// followed by a fixed tail that defines and deletes the name in every scope,
// copies, deep-copies, changes and re-installs the lookup objects and faults
// the same call again) and a PRNG part (the generator of phase random with
// lookup objects installed early and often, one call in four a fault).
// Nothing here knows how an implementation might go wrong.

import (
	"errors"
	"fmt"
	"math/rand"
	"reflect"
	"strconv"
	"strings"

	"verifharness/internal/ank"
	"verifharness/internal/fw"
	"verifharness/internal/wk"
)

const c12R10Rule = " Round 10 (a fault at a particular point; the same model and the same audit after every call): phase fault: histories with one more operation kind - a lookup (Get, GetValue, Addr, Type; the scripts `n`, `[n]`, `func() { return n }()`, `&n`, `make(T)` run by vm.Execute) made from a scope while the harness' lookup objects are armed to fail at the k-th call any of them receives during that operation (the k-th lookup-bearing scope of the chain walk): " +
	"panic with a plain value, panic with a Go runtime error, error return, error return together with a value. The call runs under recover; a panic raised by the harness' own lookup object is the host's fault, not a violation (any other panic is). When the lookup object returned an error, Get/GetValue/Type must answer what the chain answers with that scope's lookup declining; whether Addr of the name from the calling scope answers an address or an error (accepted both ways for a bound name) is asked right before and right after every faulted value lookup and must not differ. " +
	"Judged afterwards by the unchanged audit: after the faulted call and after every later call (defines, deletes, sets, copies, deep copies, SetExternalLookup, changes of the lookup objects' contents, script statements, further faults) the symbol lists of every scope and Get/GetValue of 9 names and Type of 9 names from every live scope equal the model, which has no memory of the fault. " +
	"Enumerated part: every API form x 4 fault modes x k = 1..3 x 3 value names / 2 type names on a fixed chain of five scopes (three with lookup objects, names supplied by tables and lookups at different depths), followed by a fixed tail: define and delete the name in every scope, Copy, DeepCopy, new and removed answers of the lookup objects, the lookup objects re-installed, the same faulted call again. PRNG part: the generator of phase random with lookup objects installed on the first scopes and changed often, one call in four a faulted lookup (k up to one more than the number of lookup-bearing scopes above the caller), followed by the delete-nearest drain."

var c12R10Assumptions = []string{
	"round 10: a lookup object is host code and may fail at any call; a panic it raises propagates to (or is turned into an error for) the host's call boundary and is not judged. An error return - whatever the error, with or without a value next to it - means the lookup object does not supply the name at that call: the walk goes on with the enclosing scope. A fault is not an operation of the history: after it every scope answers as before (the lookup object is consulted again at the next lookup, the enclosing binding is found when it declines, Define/Delete/Copy/DeepCopy behave as on a scope that never saw a fault). How often a walk consults one scope's lookup object is not judged, only what it answers; the results of script spellings are not judged when a fault fired in them (how many lookups a script use makes is the vm's business)",
}

// ---------------------------------------------------------------------------
// the fault shared by the lookup objects of one world

const (
	c12R10Panic = iota
	c12R10Error
	c12R10ValueAndError
	c12R10RuntimePanic
	c12R10Modes
)

var c12R10ModeName = []string{"panic", "error", "value+error", "runtime-panic"}

const c12R10Sentinel = "c12r10: the host's lookup object failed (not a violation)"

var errC12R10 = errors.New("c12r10: the registry behind the lookup object is unreachable")

type c12R10Fault struct {
	armed  bool
	typ    bool // counts and fails Type calls (else Get calls)
	k      int  // fails at the k-th call
	mode   int
	seen   int
	fired  bool
	firedX int
}

// hit is called by every lookup object at every call while the fault is armed.
func (f *c12R10Fault) hit(x *c12Ext, typ bool) (fail bool) {
	if !f.armed || typ != f.typ {
		return false
	}
	f.seen++
	if f.seen != f.k {
		return false
	}
	f.armed, f.fired, f.firedX = false, true, x.id
	switch f.mode {
	case c12R10Panic:
		panic(c12R10Sentinel)
	case c12R10RuntimePanic:
		c12R10Blow(nil)
	}
	return true
}

// c12R10Blow raises a genuine Go runtime error inside the lookup object.
func c12R10Blow(m map[string]int) { m[c12R10Sentinel] = 1 }

func (f *c12R10Fault) getAnswer() (reflect.Value, error) {
	if f.mode == c12R10ValueAndError {
		return reflect.ValueOf(int64(424242)), errC12R10
	}
	return reflect.Value{}, errC12R10
}

func (f *c12R10Fault) typeAnswer() (reflect.Type, error) {
	if f.mode == c12R10ValueAndError {
		return reflect.TypeOf(uint8(0)), errC12R10
	}
	return nil, errC12R10
}

// c12R10HostPanic: did the panic come out of the harness' lookup object?
func c12R10HostPanic(msg, stack string) bool {
	return strings.Contains(stack, "c12R10Fault).hit") || strings.Contains(msg, c12R10Sentinel)
}

func (w *c12World) r10Init() {
	f := &c12R10Fault{}
	for _, x := range w.exts {
		x.flt = f
	}
	w.flt = f
}

// ---------------------------------------------------------------------------
// the operation

const (
	c12R10Get = iota
	c12R10GetValue
	c12R10Addr
	c12R10Use
	c12R10UseArray
	c12R10UseFunc
	c12R10UseAddr
	c12R10ValForms
)

const (
	c12R10Type = iota
	c12R10Make
	c12R10TypeForms
)

var c12R10ValFormName = []string{"Get", "GetValue", "Addr", "Stmt-use", "Stmt-use-array", "Stmt-use-func", "Stmt-use-addr"}
var c12R10TypeFormName = []string{"Type", "Stmt-make"}

func c12R10Label(op *c12Op) string {
	if op.K == "FaultType" {
		return "Fault-" + c12R10TypeFormName[op.F%c12R10TypeForms]
	}
	return "Fault-" + c12R10ValFormName[op.F%c12R10ValForms]
}

func c12fault(k string, s int, n string, f, kth, mode int) c12Op {
	return c12Op{K: k, S: s, N: n, F: f, V: kth, T: mode, A: -1, X: -1, New: -1}
}

// declineVal: the nearest binding when the k-th lookup object the walk consults declines.
func (s *c12Scope) declineVal(n string, k int) (interface{}, bool) {
	seen := 0
	for ; s != nil; s = s.parent {
		if v, ok := s.vals[n]; ok {
			return v, true
		}
		if s.ext != nil {
			seen++
			if seen == k {
				continue
			}
			if v, ok := s.ext.mvals[n]; ok {
				return v, true
			}
		}
	}
	return nil, false
}

func (s *c12Scope) declineType(n string, k int) (reflect.Type, bool) {
	seen := 0
	for ; s != nil; s = s.parent {
		if t, ok := s.types[n]; ok {
			return t, true
		}
		if s.ext != nil {
			seen++
			if seen == k {
				continue
			}
			if t, ok := s.ext.types[n]; ok {
				return t, true
			}
		}
	}
	t, ok := c12Builtin[n]
	return t, ok
}

// extAbove: the number of lookup-bearing scopes from s up to the root.
func (s *c12Scope) extAbove() int {
	n := 0
	for ; s != nil; s = s.parent {
		if s.ext != nil {
			n++
		}
	}
	return n
}

func (w *c12World) execFault(op *c12Op, s *c12Scope) (call, outcome string, pan *c12Panic, expectFail bool, failClass, failDetail string) {
	typ := op.K == "FaultType"
	mode := op.T % c12R10Modes
	f := w.flt
	// Addr may refuse a bound name ('unaddressable', accepted both ways): whether it does is
	// asked before and after the faulted call - a scope has no memory, the answer is the same
	addrBefore := ""
	if !typ {
		addrBefore = w.r10AddrStatus(s, op.N)
	}
	*f = c12R10Fault{armed: true, typ: typ, k: op.V, mode: mode}
	defer func() { f.armed = false }()
	when := fmt.Sprintf("   [the lookup objects fail at call %d of this operation: %s]", op.V, c12R10ModeName[mode])
	w.apiCalls++
	w.faultOps++

	var got interface{}
	var gotT reflect.Type
	var err error
	script, judged := false, true
	if typ {
		form := op.F % c12R10TypeForms
		switch form {
		case c12R10Type:
			call = fmt.Sprintf("s%d.Type(%q)", op.S, op.N)
			pan = c12Protect(func() { gotT, err = s.real.Type(op.N) })
		default:
			script, judged = true, false
			src := "make(" + op.N + ")"
			call = fmt.Sprintf("vm.Execute(s%d, nil, %q)", op.S, src)
			o := ank.Exec(s.real, src)
			if o.Panicked {
				pan = &c12Panic{msg: o.PanicVal, stack: o.Stack}
			}
			err = o.Err
		}
	} else {
		form := op.F % c12R10ValForms
		switch form {
		case c12R10Get:
			call = fmt.Sprintf("s%d.Get(%q)", op.S, op.N)
			pan = c12Protect(func() { got, err = s.real.Get(op.N) })
		case c12R10GetValue:
			call = fmt.Sprintf("s%d.GetValue(%q)", op.S, op.N)
			pan = c12Protect(func() {
				var rv reflect.Value
				rv, err = s.real.GetValue(op.N)
				if err == nil {
					if !rv.IsValid() || !rv.CanInterface() {
						err = nil
						got = c12RO{}
						return
					}
					got = rv.Interface()
				}
			})
		case c12R10Addr:
			judged = false
			call = fmt.Sprintf("s%d.Addr(%q)", op.S, op.N)
			pan = c12Protect(func() { _, err = s.real.Addr(op.N) })
		default:
			script = true
			judged = form == c12R10Use
			src := c12StmtSrc(&c12Op{N: op.N, F: c12StUse + (form - c12R10Use)})
			call = fmt.Sprintf("vm.Execute(s%d, nil, %q)", op.S, src)
			o := ank.Exec(s.real, src)
			if o.Panicked {
				pan = &c12Panic{msg: o.PanicVal, stack: o.Stack}
			}
			got, err = o.Val, o.Err
		}
	}
	call += when
	fired := f.fired
	f.armed = false
	if !typ && (pan == nil || (fired && c12R10HostPanic(pan.msg, pan.stack))) {
		if after := w.r10AddrStatus(s, op.N); after != addrBefore {
			failClass, failDetail = "addr-differs-after-fault", fmt.Sprintf("s%d.Addr(%q) answered %s before this call and answers %s after it; nothing was defined, set or deleted in between", op.S, op.N, addrBefore, after)
		}
	}
	tag := "fault:" + c12R10Label(op)[6:] + ":" + c12R10ModeName[mode]
	if fired {
		w.faultsFired++
		w.tags[tag+":fired"]++
		expectFail = true
	} else {
		w.tags[tag+":not-reached"]++
	}
	if pan != nil {
		if fired && c12R10HostPanic(pan.msg, pan.stack) {
			// the host's own code panicked: recovered here, as a host does
			w.tags["fault:panic-reached-the-caller"]++
			outcome = "the lookup object's panic (recovered by the host)"
			pan = nil
			return
		}
		expectFail = true
		return
	}
	if err != nil {
		outcome = c12ErrStr(err)
	} else if typ && !script {
		outcome = c12TypeStr(gotT)
	} else {
		outcome = w.renderVal(got)
	}
	if fired && (mode == c12R10Panic || mode == c12R10RuntimePanic) {
		// the panic was turned into something else on the way (the vm reports it as an error): not judged
		w.tags["fault:panic-became-a-result"]++
		return
	}
	if script && fired {
		return
	}
	// the model's answer: the k-th consulted lookup declined (fired) or nothing happened
	k := 0
	if fired {
		k = op.V
	}
	if typ {
		wt, ok := s.declineType(op.N, k)
		switch {
		case !judged:
			if !ok && err == nil {
				failClass, failDetail = "no-error", "the script used a type name nothing binds and ran without an error"
			}
		case ok && err != nil:
			failClass, failDetail = "unexpected-error", fmt.Sprintf("%s, the nearest binding (the failing lookup declining) is %s", err.Error(), c12TypeStr(wt))
		case !ok && err == nil:
			failClass, failDetail = "no-error", fmt.Sprintf("returned %s for a type name nothing binds", c12TypeStr(gotT))
		case ok && gotT != wt:
			failClass, failDetail = "result", fmt.Sprintf("returned %s, the nearest binding (the failing lookup declining) is %s", c12TypeStr(gotT), c12TypeStr(wt))
		}
		if err != nil {
			expectFail = true
		}
		return
	}
	wv, ok := s.declineVal(op.N, k)
	_, ro := wv.(c12RO)
	switch {
	case ro:
		if err == nil {
			failClass, failDetail = "readonly-value-answered", "succeeded, but the nearest supplier of the name is a lookup object answering a reflect.Value read out of an unexported struct field"
		}
	case !ok && err == nil:
		failClass, failDetail = "no-error", fmt.Sprintf("returned %s for a name no enclosing scope binds (the failing lookup declining)", w.renderVal(got))
	case !judged:
		// Addr, `[n]`, `func() { return n }()`, `&n`: only bound / unbound is judged here
	case ok && err != nil:
		failClass, failDetail = "unexpected-error", fmt.Sprintf("%s, the nearest binding (the failing lookup declining) is %s", err.Error(), w.renderVal(wv))
	case ok && !c12Eq(got, wv):
		failClass, failDetail = "result", fmt.Sprintf("returned %s, the nearest binding (the failing lookup declining) is %s", w.renderVal(got), w.renderVal(wv))
	}
	if err != nil {
		expectFail = true
	}
	return
}

// r10AddrStatus: does Addr answer an address or an error (no fault armed)?
func (w *c12World) r10AddrStatus(s *c12Scope, n string) (st string) {
	w.obsCalls++
	p := c12Protect(func() {
		rv, err := s.real.Addr(n)
		switch {
		case err != nil:
			st = "an error"
		case rv.IsValid() && rv.Kind() == reflect.Ptr && !rv.IsNil():
			st = "an address"
		default:
			st = "neither an error nor an address"
		}
	})
	if p != nil {
		return "a panic"
	}
	return st
}

// ---------------------------------------------------------------------------
// enumerated histories

var c12R10ValNames = []string{"a", "x", "b"}
var c12R10TypeNames = []string{"T", "U"}

func c12R10EnumCount() int {
	return c12R10ValForms*c12R10Modes*3*len(c12R10ValNames) + c12R10TypeForms*c12R10Modes*3*len(c12R10TypeNames)
}

// the fixed chain: s0 (root, ext0) <- s1 (ext1) <- s2 <- s3 (ext2) <- s4
func c12R10Prefix() []c12Op {
	ext := func(s, x int) c12Op { o := c12op("SetExternalLookup", s); o.X = x; return o }
	put := func(x int, n string, v int) c12Op {
		return c12Op{K: "ExtPut", S: -1, X: x, N: n, V: v, A: -1, New: -1}
	}
	putT := func(x int, n string, t int) c12Op {
		return c12Op{K: "ExtPutType", S: -1, X: x, N: n, T: t, A: -1, New: -1}
	}
	return []c12Op{
		c12new("NewRoot", -1, 0), c12new("NewEnv", 0, 1), c12new("NewEnv", 1, 2), c12new("NewEnv", 2, 3), c12new("NewEnv", 3, 4),
		ext(0, 0), ext(1, 1), ext(3, 2),
		c12def("Define", 0, "a", 201), c12def("Define", 0, "x", 202), c12def("Define", 2, "b", 203),
		put(0, "b", 210), put(1, "a", 211), put(2, "x", 212), put(0, "m", 213),
		c12typ("DefineType", 0, "T", 0, 0), c12typ("DefineType", 2, "U", 1, 0),
		putT(1, "T", 2), putT(2, "U", 3), putT(0, "U", 4),
	}
}

func c12R10EnumHistory(idx int) []c12Op {
	ops := c12R10Prefix()
	nVal := c12R10ValForms * c12R10Modes * 3 * len(c12R10ValNames)
	var flt c12Op
	typ := idx >= nVal
	if !typ {
		form := idx % c12R10ValForms
		idx /= c12R10ValForms
		mode := idx % c12R10Modes
		idx /= c12R10Modes
		k := 1 + idx%3
		n := c12R10ValNames[idx/3]
		flt = c12fault("Fault", 4, n, form, k, mode)
	} else {
		idx -= nVal
		form := idx % c12R10TypeForms
		idx /= c12R10TypeForms
		mode := idx % c12R10Modes
		idx /= c12R10Modes
		k := 1 + idx%3
		n := c12R10TypeNames[idx/3]
		flt = c12fault("FaultType", 4, n, form, k, mode)
	}
	n := flt.N
	ops = append(ops, flt)
	// the same call once more without and with the fault, from the scope that carries the first lookup object
	again := flt
	again.S = 3
	ops = append(ops, again)
	if typ {
		ops = append(ops,
			c12Op{K: "ExtDelType", S: -1, X: 2, N: n, A: -1, New: -1},
			c12typ("DefineType", 3, n, 5, 0), c12typ("DefineType", 1, n, 8, 0),
			c12new("Copy", 3, 5), c12new("DeepCopy", 4, 6),
			c12Op{K: "ExtPutType", S: -1, X: 1, N: n, T: 4, A: -1, New: -1},
			flt,
			c12Op{K: "SetExternalLookup", S: 1, X: 1, A: -1, New: -1},
			c12Op{K: "SetExternalLookup", S: 3, X: -1, A: -1, New: -1},
		)
		return ops
	}
	del := func(s int) c12Op { o := c12op("Delete", s); o.N = n; return o }
	ops = append(ops,
		c12def("Set", 4, n, 220),
		c12def("Define", 3, n, 221), del(3),
		c12def("Define", 1, n, 222), del(1),
		c12def("Define", 0, n, 223), del(0),
		c12new("Copy", 3, 5), c12new("Copy", 1, 6), c12new("DeepCopy", 4, 7),
		c12Op{K: "ExtDel", S: -1, X: 2, N: n, A: -1, New: -1},
		c12Op{K: "ExtDel", S: -1, X: 1, N: n, A: -1, New: -1},
		c12Op{K: "ExtPut", S: -1, X: 1, N: n, V: 224, A: -1, New: -1},
		flt,
		c12Op{K: "SetExternalLookup", S: 1, X: 1, A: -1, New: -1},
		c12Op{K: "SetExternalLookup", S: 3, X: 2, A: -1, New: -1},
		c12Op{K: "ExtPut", S: -1, X: 2, N: n, V: 225, A: -1, New: -1},
		c12Op{K: "SetExternalLookup", S: 3, X: -1, A: -1, New: -1},
		c12def("DefineGlobal", 4, n, 226),
		c12Op{K: "DeleteGlobal", S: 4, N: n, A: -1, X: -1, New: -1},
	)
	return ops
}

// ---------------------------------------------------------------------------
// PRNG histories

// consulted: how many lookup objects a walk for n from s asks before the name is found
// (the generator aims most faults at a call that is really made).
func (s *c12Scope) consulted(n string, typ bool) int {
	c := 0
	for ; s != nil; s = s.parent {
		if typ {
			if _, ok := s.types[n]; ok {
				return c
			}
		} else if _, ok := s.vals[n]; ok {
			return c
		}
		if s.ext != nil {
			c++
			if typ {
				if _, ok := s.ext.types[n]; ok {
					return c
				}
			} else if _, ok := s.ext.mvals[n]; ok {
				return c
			}
		}
	}
	return c
}

func (g *c12Gen) faultOp() c12Op {
	r := g.r
	// a caller with lookup objects above it, preferably a deep one
	best, bestN := g.pickScope(), -1
	for try := 0; try < 4; try++ {
		h := g.pickScope()
		if n := g.w.scopes[h].extAbove(); n > bestN || (n == bestN && r.Intn(2) == 0) {
			best, bestN = h, n
		}
	}
	kmax := bestN + 1
	if kmax < 1 {
		kmax = 1
	}
	k := 1 + r.Intn(kmax)
	mode := r.Intn(c12R10Modes)
	aim := func(n string, typ bool) {
		if c := g.w.scopes[best].consulted(n, typ); c > 0 && r.Intn(5) != 0 {
			k = 1 + r.Intn(c)
		}
	}
	if r.Intn(4) == 0 {
		n := c12TypeNames[r.Intn(5)]
		aim(n, true)
		return c12fault("FaultType", best, n, r.Intn(c12R10TypeForms), k, mode)
	}
	n := c12PlainNames[r.Intn(len(c12PlainNames))]
	if r.Intn(2) == 0 {
		n = "a"
	}
	form := r.Intn(c12R10ValForms)
	if form < c12R10Use && r.Intn(10) == 0 {
		n = c12ValNames[4+r.Intn(len(c12ValNames)-4)] // a dotted name: the API forms only
	}
	aim(n, false)
	return c12fault("Fault", best, n, form, k, mode)
}

func c12R10Generate(r *rand.Rand, length, maxScopes int) ([]c12Op, *c12World) {
	g := &c12Gen{r: r, w: c12NewWorld(false), maxScopes: maxScopes}
	push := func(op c12Op) bool {
		i := len(g.ops)
		g.ops = append(g.ops, op)
		if op.New >= 0 {
			g.nextH = op.New + 1
		}
		g.w = c12Step(g.w, g.ops, i)
		if (op.K == "Copy" || op.K == "DeepCopy") && g.w.scopes[op.New] != nil {
			g.focus = []int{op.S, op.New}
			if p := g.w.scopes[op.S].parent; p != nil && p.h >= 0 {
				g.focus = append(g.focus, p.h)
			}
			g.focusTTL = 8
		} else if (op.K == "Fault" || op.K == "FaultType") && g.w.scopes[op.S] != nil {
			// look at the chain the fault went through for a while
			g.focus = g.focus[:0]
			for s := g.w.scopes[op.S]; s != nil && s.h >= 0 && len(g.focus) < 5; s = s.parent {
				g.focus = append(g.focus, s.h)
			}
			g.focusTTL = 6
		} else if g.focusTTL > 0 {
			g.focusTTL--
		}
		return !g.w.dead
	}
	base := func(k string, s int) c12Op { return c12Op{K: k, S: s, A: -1, X: -1, New: -1} }
	// a chain of 2-5 scopes, most of them with lookup objects that know some names
	depth := 2 + r.Intn(4)
	if !push(c12new("NewRoot", -1, 0)) {
		return g.ops, g.w
	}
	for d := 1; d < depth; d++ {
		if !push(c12new("NewEnv", d-1, d)) {
			return g.ops, g.w
		}
	}
	for d := 0; d < depth; d++ {
		if r.Intn(3) != 0 {
			o := base("SetExternalLookup", d)
			o.X = r.Intn(3)
			if !push(o) {
				return g.ops, g.w
			}
		}
	}
	for j := 0; j < 4+r.Intn(5); j++ {
		var o c12Op
		switch r.Intn(4) {
		case 0:
			o = c12Op{K: "ExtPutType", S: -1, X: r.Intn(3), N: c12TypeNames[r.Intn(5)], T: r.Intn(len(c12Types)), A: -1, New: -1}
		case 1:
			o = g.valueOp("Define", r.Intn(depth))
		default:
			g.fresh++
			o = c12Op{K: "ExtPut", S: -1, X: r.Intn(3), N: c12PlainNames[r.Intn(len(c12PlainNames))], V: 100 + g.fresh, A: -1, New: -1}
			g.r6ExtForm(&o)
		}
		if !push(o) {
			return g.ops, g.w
		}
	}
	for len(g.ops) < length {
		var op c12Op
		switch k := r.Intn(100); {
		case k < 25:
			op = g.faultOp()
		case k < 31:
			op = base("SetExternalLookup", g.pickScope())
			op.X = r.Intn(4) - 1
			if op.X < 0 && r.Intn(2) == 0 {
				op.X = r.Intn(3)
			}
		case k < 36:
			g.fresh++
			op = c12Op{K: "ExtPut", S: -1, X: r.Intn(3), N: c12PlainNames[r.Intn(len(c12PlainNames))], V: 100 + g.fresh, A: -1, New: -1}
			g.r6ExtForm(&op)
		case k < 39:
			op = c12Op{K: "ExtDel", S: -1, X: r.Intn(3), N: c12PlainNames[r.Intn(len(c12PlainNames))], A: -1, New: -1}
		case k < 41:
			op = c12Op{K: "ExtPutType", S: -1, X: r.Intn(3), N: c12TypeNames[r.Intn(5)], T: r.Intn(len(c12Types)), A: -1, New: -1}
		case k < 42:
			op = c12Op{K: "ExtDelType", S: -1, X: r.Intn(3), N: c12TypeNames[r.Intn(5)], A: -1, New: -1}
		default:
			op = g.next()
		}
		if !push(op) {
			return g.ops, g.w
		}
	}
	for _, h := range append([]int(nil), g.w.order...) {
		for _, n := range c12PlainNames {
			for k := 0; k < 40; k++ {
				if t, _ := g.w.scopes[h].nearestTable(n); t == nil {
					break
				}
				if !push(c12Op{K: "DeleteGlobal", S: h, N: n, A: -1, X: -1, New: -1}) {
					return g.ops, g.w
				}
			}
		}
	}
	return g.ops, g.w
}

// ---------------------------------------------------------------------------
// the phase

func c12R10Phases(tier string) []fw.Phase {
	n := 1200
	if tier == "thorough" {
		n = 40000
	}
	return []fw.Phase{{Name: "fault", Cases: c12R10EnumCount() + n, Chunk: 128, TimeoutS: 900}}
}

func c12R10Run(c *wk.Case) bool {
	if c.Phase != "fault" {
		return false
	}
	var ops []c12Op
	var w *c12World
	kind := "fault"
	if c.Index < c12R10EnumCount() {
		c.Begin(map[string]interface{}{"fault-enum": c.Index})
		ops = c12R10EnumHistory(c.Index)
		w = c12Run(ops, false)
		c.Tag("fault-enum-history")
		kind = "fault-enum"
	} else {
		c.Begin(map[string]interface{}{"fault": c.Index})
		ops, w = c12R10Generate(c.Rng, 50+c.Rng.Intn(111), 12)
		c.Tag("fault-history")
	}
	c.Count("faulted_lookups", w.faultOps)
	c.Count("faults_delivered", w.faultsFired)
	c12Report(c, kind, ops, w)
	return true
}

var _ = strconv.Itoa
