package main

// C20, round-8 phases: volume and history.
//
// Statement: "The result of every operation depends only on the values of its operands, never
// on how they were obtained ... In particular a value keeps its dynamic type through any number
// of such hops." Nothing in it lets the outcome depend on how often the operation node or the
// call site was evaluated before, on which operands (of which provenance, of which identity) it
// saw then, on how many other operations the process carried out, on the size of the operand or
// on what earlier programs left behind. The earlier phases instantiate every template in a
// fresh parse, run it once with small operands, in short-lived processes. The phases of this
// file keep the oracle (the same operation on a PLAIN VARIABLE holding the same value, in a
// fresh parse and a fresh environment - c20Instantiate / c20Diff: same error-or-success, same
// value, same dynamic type, same effects) and move the workload:
//
//	hot     tmpl: ONE parsed tree of an operation template whose hole is a POLYMORPHIC
//	        provenance expression (pc[0]: element of a []interface{} / of a []T / entry of a
//	        map; pm.F: map member / field typed T of a *struct / interface{} field; pg(v):
//	        Go function returning interface{} / script function / Go function returning T;
//	        pv: a name bound by the host / from an element / from a Go result / from a script
//	        result / by var from a field; pg(pc[0])) is run 1100 or 4200 times, every time with
//	        fresh operand objects; between the rounds the PROVENANCE behind the expression and
//	        the KIND of the operand change by five schedules (constant, a late switch after
//	        999..1025 / 4095..4097 rounds, alternating, one odd round in 257, blocks of 700).
//	        Every round is judged against the plain-variable reference in a fresh parse, and
//	        the reference against its own first answer.
//	        callbacks: a script helper called 1100 (4200) times makes closures over its OWN
//	        parameters (0..6 parameters, variadic, typed, a sort.Slice-like and a map-like
//	        callback) and hands each to a Go function with a func-typed parameter through 12
//	        provenances at 78 (thorough 132) call sites; every result is compared with the same call on a
//	        plain variable in a fresh parse (and that with the closure's own variables);
//	        closures kept from earlier invocations are passed at ONE site later; one site
//	        passes the same closure for a long prefix and then others; vehicles: a script loop
//	        calling the helper, the body inline in the loop, one parsed tree re-run with
//	        vm.RunContext under its own context (cancelled afterwards) or a shared one. Slices,
//	        maps, pointers and channels of a different identity each round go the same way.
//	stream  one case = one history in ONE process: thousands of pairwise distinct
//	        instantiations (template x operand with a value of its own x chain of 1..2 atoms,
//	        distinct sources) stream through fresh, kept and dropped environments under own
//	        contexts (cancelled afterwards, one in 64 leaked), runtime.GC every 512 items, a
//	        parked goroutine left behind every 256, while a reference set (the difference
//	        classes of phase fixed plus callback / call / unary / binary cells; half with a
//	        kept parsed tree) is asked again at distances of exactly N-1, N, N+1 items for N in
//	        256, 1000, 1024, 4096 and in full at the end; every item and every re-ask is
//	        judged against the plain variable, every re-ask also against its first answer.
//	sizes   operands on and next to 256 / 1024 / 4096 / 65536 and 200000: lists, typed slices,
//	        maps and strings (multi-byte characters at every alignment) of that length, and
//	        integers of that magnitude as index / bound / size / loop bound, through every
//	        atom; values of every kind hopping through that many provenances in a row (a loop
//	        cycling through six hops; one nested expression) before a type-revealing
//	        operation reads them.
//
// Nothing here knows a cache, counter or threshold of the code under test.

import (
	"context"
	"fmt"
	"reflect"
	"runtime"
	"sort"
	"strings"
	"time"

	"github.com/mattn/anko/ast"
	"github.com/mattn/anko/env"

	"verifharness/internal/ank"
	"verifharness/internal/fw"
	"verifharness/internal/wk"
)

const c20R8Rule = " Round 8 (volume and history; the oracle of the older phases - the same operation on a plain variable holding the same value, in a fresh parse and a fresh environment - applied at every evaluation): " +
	"phase hot, tmpl cases (two in three): one parsed tree of an operation template whose hole is a polymorphic provenance expression (pc[0]: element of a []interface{} / of a []T / map entry; pm.F: map member / field typed T / interface{} field; pg(v): Go result typed interface{} / script result / Go result typed T; pv: a name bound by the host / from an element / from a Go result / from a script result / by var from a field; pg(pc[0])) is run 1100 times (one tree per case 4200 times) with fresh operand objects every round while the provenance behind the expression and the kind of the operand change by five schedules (constant, late switch after 999..1025 or 4095..4097 rounds, alternating, one odd round in 257, blocks of 700); per case three of twelve core cells (callback argument, unary minus, host callback mutating its parameter, call, callback result, deref, spread, close, in, index operand, defer callee, typeOf), each through pc[0] or pg(v) with EVERY provenance as the prefix of 999..1025 rounds once (one operand kind) followed by every provenance x every kind, and once more through pm.F / pv / pg(pc[0]), plus PRNG-drawn templates (every single-hole template that needs no assignable hole) x 3 kinds; every round is compared with the plain-variable reference (a fresh parse in the first rounds, every 8th round and after every change, the last such answer in between), every fresh reference with its own first answer; garbage collected every 512 rounds. " +
	"callback cases (one in three): a script helper called 1100 times (every third such case 4200) makes 11 closures over its own parameters (0..6 parameters, variadic, int64-typed, a sort-like less, a map-like callback) and hands each to a Go function with a func-typed parameter through 12 provenances (78 call sites in the quick tier, 132 in the thorough tier), every result compared with the same call on a plain variable in a fresh parse and a fresh environment, and that with the closure's own variables; slices / maps / pointers / channels of a new identity each invocation through element / Go-result / member / field hops (16 sites); closures kept from every 37th invocation passed at one site afterwards; one site (Go call, call by name, call of an element, call of a Go result) using one closure for a long prefix and others after 1000, 1024 and every 257 / 700 rounds; vehicles: script loop calling the helper, the body inline in the loop, one parsed tree re-run with vm.RunContext under contexts of its own (cancelled afterwards) alternating with a shared one. " +
	"phase stream: one process per case streams 4500 (thorough 14000) pairwise distinct instantiations (template x operand of 14 kinds carrying a value of its own x chain of 1-2 atoms; distinct sources for the function kinds) through fresh environments (one in four kept alive, runtime.GC every 512 items, every run under its own context - cancelled afterwards, one in 64 leaked to the end -, a parked goroutine left behind every 256 items) while about 31 reference cells (the difference classes of phase fixed plus callback / call / unary / spread / method cells; half with a kept parsed tree) are asked again at distances of exactly 255, 256, 257, 999, 1000, 1001, 1023, 1024, 1025, 4095, 4096, 4097 items and in full at the end; every item and re-ask judged against the plain variable, every re-ask also against its first answer. " +
	"phase sizes: one case per size (quick: 256, 257, 1024, 1025, 4096, 4097, 65536, 65537; thorough: 255-257, 1023-1025, 4095-4097, 65535-65537, 200000): lists, []int64, maps and strings (1- to 4-byte characters, shifted by size mod 4) of that length under len, last index, index beyond, slices, for-in digests, spread into script and Go variadics, Go slice parameters, in, +, keys, element store, delete, concatenation, repetition, rune conversion, typeOf, truthiness; integers of that magnitude as index, slice bound, store index, make length / capacity / channel size, repeat count, range, loop bound (the condition node evaluated that often), arithmetic, map key; through every general atom (quick: five atoms for the templates that walk the operand; above 5000 two atoms, one for the walking templates); up to 4097: every operand kind hopping through that many provenances in a row (a loop cycling through element, member, Go result, script result, field, parameter; one nested expression of that depth) before typeOf / a Go %T|%v probe / a PRNG-drawn type-revealing template reads it; operands and results above 64 elements are compared by length and a complete digest."

var c20R8Assumptions = []string{
	"round 8: how often a node or call site was evaluated, which operands it saw before, how many other operations the process carried out, the size of an operand and what earlier runs left behind are not inputs of an operation: the reference of a late, hot or large evaluation is the same operation on a plain variable in a fresh parse and a fresh environment, and a question asked again has the answer it had the first time",
	"round 8: callbacks are compared by what they return to the Go function (their own captured variables), never by address; closures made by different rounds of the inline loop share one scope (the body assigns k, it does not declare it), so for that vehicle a closure kept for later is compared with its own call by name only; a run whose own context was cancelled AFTER it returned is finished - nothing of it is judged afterwards; no verdict depends on timing",
	"round 8: not generated in the hot / stream / sizes phases: templates that need an assignable hole, two-hole templates, go statements (their effect arrives asynchronously), in-place mutation of struct / array values (addressability, see above); results above 64 elements are compared by length, first 64 elements and script-computed digests",
}

func c20R8Phases(tier string) []fw.Phase {
	nHot, nStream := 6, 2
	if tier == "thorough" {
		nHot, nStream = 150, 12
	}
	return []fw.Phase{
		{Name: "hot", Cases: nHot, Chunk: 1, TimeoutS: 900},
		{Name: "stream", Cases: nStream, Chunk: 1, TimeoutS: 1800},
		{Name: "sizes", Cases: len(c20r8SizeList(tier)), Chunk: 1, Exhaust: true, TimeoutS: 900},
	}
}

// c20R8Run runs a case of a round-8 phase; false when the phase is not one of them.
func c20R8Run(c *wk.Case) bool {
	switch c.Phase {
	case "hot":
		if c.Index%3 == 0 {
			c20r8HotCallbacks(c)
		} else {
			c20r8HotTmpl(c)
		}
	case "stream":
		c20r8Stream(c)
	case "sizes":
		c20r8Sizes(c)
	default:
		return false
	}
	return true
}

var c20r8G *c20Engine

func c20r8Eng() *c20Engine {
	if c20r8G == nil {
		c20r8G = &c20Engine{vals: c20MakeVals(), atoms: c20MakeAtoms(), tmpls: c20MakeTmpls()}
	}
	return c20r8G
}

func (g *c20Engine) tmplByID(id string) *c20Tmpl {
	for i := range g.tmpls {
		if g.tmpls[i].id == id {
			return &g.tmpls[i]
		}
	}
	return nil
}

// ---------------------------------------------------------------------------
// reporting: one violation per signature and case, with the number of evaluations behind it

type c20r8Agg struct {
	n      int
	detail string
	input  interface{}
}

type c20r8Rep struct {
	c     *wk.Case
	viols map[string]*c20r8Agg
}

func c20r8NewRep(c *wk.Case) *c20r8Rep { return &c20r8Rep{c: c, viols: map[string]*c20r8Agg{}} }

func (r *c20r8Rep) add(sig, detail string, input interface{}) {
	a := r.viols[sig]
	if a == nil {
		a = &c20r8Agg{detail: detail, input: input}
		r.viols[sig] = a
	}
	a.n++
}

func (r *c20r8Rep) flush() {
	sigs := make([]string, 0, len(r.viols))
	for s := range r.viols {
		sigs = append(sigs, s)
	}
	sort.Strings(sigs)
	for _, s := range sigs {
		a := r.viols[s]
		r.c.Violation(s, fmt.Sprintf("%s (%d evaluation(s) of this case differ under this signature; first one shown)", a.detail, a.n), a.input)
	}
}

// ---------------------------------------------------------------------------
// one instantiation of a single-hole template, optionally of a kept parsed tree

type c20r8Opts struct {
	tree ast.Stmt           // the kept parsed tree of src (nil: parse now)
	src  string             // with tree
	bind func(st *c20State) // more definitions after the operand was made
	ctx  context.Context    // nil: a context of its own, cancelled after the observation
	keep func(st *c20State) // called with the state after the run
	mk   func(st *c20State) // replaces val.mk(st, "v")
	tmo  time.Duration
}

func c20r8Src(t *c20Tmpl, hx c20Hole) string {
	var parts []string
	if t.pre != "" {
		parts = append(parts, t.pre)
	}
	parts = append(parts, hx.pre...)
	parts = append(parts, c20Subst(t.src, &hx, nil))
	return strings.Join(parts, "\n")
}

// c20r8Inst mirrors c20Instantiate for one hole (no second operand, no binding construct, no
// follow-up read of the hole).
func c20r8Inst(c *wk.Case, t *c20Tmpl, val *c20Val, hx c20Hole, o c20r8Opts) c20Out {
	st := c20NewState()
	if o.mk != nil {
		o.mk(st)
	} else {
		val.mk(st, "v")
	}
	if o.bind != nil {
		o.bind(st)
	}
	src, tree := o.src, o.tree
	if tree == nil {
		src = c20r8Src(t, hx)
		var err error
		tree, err, _ = ank.Parse(src)
		if err != nil || tree == nil {
			out := c20Out{src: src, class: "parse"}
			if err != nil {
				out.errText = err.Error()
			}
			return out
		}
	}
	out := c20Out{src: src}
	c.Begin(map[string]string{"template": t.id, "value": val.kind, "src": c20r8Clip(src, 2000)})
	ctx := o.ctx
	tmo := o.tmo
	if tmo == 0 {
		tmo = 20 * time.Second
	}
	ctxOwn, cancel := context.WithTimeout(context.Background(), tmo)
	defer cancel()
	if ctx == nil {
		ctx = ctxOwn
	}
	r := ank.RunCtx(ctx, st.env, tree)
	out.class = c20Class(r)
	switch out.class {
	case "ok":
		out.val = c20NoAddr(st.render(r.Val))
		if d := c20r8Digest(r.Val); d != "" {
			out.val = st.identity(reflect.ValueOf(r.Val)) + d
		}
		out.typ = fmt.Sprint(reflect.TypeOf(r.Val))
	case "panic":
		out.errText = r.PanicVal
	default:
		out.errText = ank.ErrText(r.Err)
	}
	if t.follow != "" {
		f := ank.ExecCtx(ctxOwn, st.env, t.follow)
		out.follow = c20Class(f) + ":" + c20NoAddr(st.render(f.Val))
	}
	out.goside = c20NoAddr("v=" + c20r8ObserveBase(st.base["v"]) + " log=[" + st.logString() + "]")
	if o.keep != nil {
		o.keep(st)
	}
	return out
}

// c20r8Digest describes a container of more than 64 elements completely (ank.Render shows the
// first 64, of a map in iteration order): length and an order-independent digest of the rendered
// entries; "" for everything else
func c20r8Digest(b interface{}) string {
	rv := reflect.ValueOf(b)
	if !rv.IsValid() {
		return ""
	}
	h := func(s string) uint64 { return fw.Hash64(s) }
	// one element: int64 and string directly, everything else through the type-revealing printer
	el := func(v reflect.Value) uint64 {
		if v.Kind() == reflect.Interface && !v.IsNil() {
			v = v.Elem()
		}
		switch {
		case v.Kind() == reflect.Int64 && v.Type() == reflect.TypeOf(int64(0)):
			return (uint64(v.Int()) + 0x9e3779b97f4a7c15) * 0xff51afd7ed558ccd
		case v.Kind() == reflect.String && v.Type() == reflect.TypeOf(""):
			return h(v.String()) ^ 0x5555
		}
		return h(ank.RenderValue(v))
	}
	switch rv.Kind() {
	case reflect.Map:
		if rv.Len() <= 64 {
			return ""
		}
		var sum uint64
		it := rv.MapRange()
		for it.Next() {
			sum += (el(it.Key())*31 + el(it.Value())) * 0x100000001b3
		}
		return fmt.Sprintf("%s{len=%d digest=%x}", rv.Type(), rv.Len(), sum)
	case reflect.Slice:
		if rv.Len() <= 64 {
			return ""
		}
		var sum uint64
		for i := 0; i < rv.Len(); i++ {
			sum = sum*1099511628211 + el(rv.Index(i))
		}
		return fmt.Sprintf("%s[len=%d digest=%x]", rv.Type(), rv.Len(), sum)
	case reflect.String:
		if rv.Len() <= 200 {
			return ""
		}
		return fmt.Sprintf("%s(len=%d digest=%x)", rv.Type(), rv.Len(), h(rv.String()))
	}
	return ""
}

func c20r8ObserveBase(b interface{}) string {
	if d := c20r8Digest(b); d != "" {
		return d
	}
	return c20ObserveBase(b)
}

func c20r8Clip(s string, n int) string {
	if len(s) > n {
		return s[:n] + fmt.Sprintf("...(%d bytes)", len(s))
	}
	return s
}

// c20r8Usable: the templates the round-8 phases instantiate with a non-assignable hole
func c20r8Usable(t *c20Tmpl, val *c20Val) bool {
	if t.async || t.needAssignable || t.nameOnly || t.ykind != "" || t.noItemSyntax || strings.HasPrefix(t.id, "live-") || strings.HasPrefix(t.id, "latebind-") {
		return false
	}
	if strings.HasPrefix(t.id, "go-") || t.id == "param-mut-go" {
		return false
	}
	if val == nil {
		return true
	}
	if val.kind == "huge" && !c20HugeOK(t.id) {
		return false
	}
	if t.skip[val.kind] || (t.kinds != nil && !t.kinds[val.kind]) {
		return false
	}
	if t.strNeedsAssignable && c20Rebinds[val.kind] {
		return false
	}
	if (c20ValueCellKinds[val.kind] || val.kind == "ncolor") && (c20MutatesInPlace(t.id) || strings.HasPrefix(t.id, "param-")) {
		return false
	}
	if t.id == "make-len" || t.id == "make-cap" || t.id == "make-chan" || t.id == "repeat-count" || t.id == "core-range" {
		// a size: kept small (the sizes phase asks for the large ones)
		return val.kind != "big" && val.kind != "huge"
	}
	return true
}

// judge compares a variant with its reference; "" when they agree
func (r *c20r8Rep) judge(prefix string, t *c20Tmpl, val *c20Val, prov string, ref, got *c20Out, extra map[string]interface{}) string {
	c := r.c
	input := map[string]interface{}{"template": t.id, "value": val.kind, "provenance": prov, "src": c20r8Clip(got.src, 4000), "reference_src": c20r8Clip(ref.src, 4000)}
	for k, v := range extra {
		input[k] = v
	}
	switch {
	case ref.class == "parse" || got.class == "parse":
		c.Inconclusive(prefix+":does-not-parse:"+t.id, ref.errText+got.errText, input)
		return ""
	case ref.class == "timeout" || got.class == "timeout":
		c.Inconclusive(prefix+":timeout:"+t.id+":"+val.kind, ref.errText+got.errText, input)
		return ""
	}
	d := c20Diff(t, val, ref, got)
	if d == "" {
		return ""
	}
	sig := prefix + ":" + t.id + ":" + val.kind + ":" + prov + ":" + d
	r.add(sig, fmt.Sprintf("%s: %s  BUT reference (plain variable, fresh parse): %s", prov, got.String(), ref.String()), input)
	return d
}

// ---------------------------------------------------------------------------
// phase hot, tmpl cases: polymorphic provenance expressions

type c20r8FBox struct{ F interface{} }

type c20r8Poly struct {
	name   string
	expr   string
	labels []string
	bind   func(st *c20State, x interface{}, b int)
}

func c20r8TypedIdent(x interface{}) interface{} {
	t := c20DynType(x)
	return reflect.MakeFunc(reflect.FuncOf([]reflect.Type{t}, []reflect.Type{t}, false), func(in []reflect.Value) []reflect.Value { return in }).Interface()
}

func c20r8BindPC(st *c20State, x interface{}, b int) {
	switch b {
	case 0:
		st.env.Define("pc", []interface{}{x})
	case 1:
		st.env.Define("pc", c20TypedSlice(x))
	default:
		st.env.Define("pc", map[interface{}]interface{}{int64(0): x})
	}
}

func c20r8BindPG(st *c20State, x interface{}, b int) {
	switch b {
	case 0:
		st.env.Define("pg", func(a interface{}) interface{} { return a })
	case 1:
		ank.Exec(st.env, "pg = func(a){ return a }")
	default:
		st.env.Define("pg", c20r8TypedIdent(x))
	}
}

func c20r8Polys() []c20r8Poly {
	return []c20r8Poly{
		{name: "pc", expr: "pc[0]", labels: []string{"elem-of-[]interface{}", "elem-of-[]T", "entry-of-map"}, bind: c20r8BindPC},
		{name: "pm", expr: "pm.F", labels: []string{"member-of-map", "field-typed-T", "field-interface{}"}, bind: func(st *c20State, x interface{}, b int) {
			switch b {
			case 0:
				st.env.Define("pm", map[interface{}]interface{}{"F": x})
			case 1:
				st.env.Define("pm", c20TypedField(x))
			default:
				st.env.Define("pm", &c20r8FBox{F: x})
			}
		}},
		{name: "pg", expr: "pg(v)", labels: []string{"go-result-interface{}", "script-result", "go-result-T"}, bind: c20r8BindPG},
		{name: "pv", expr: "pv", labels: []string{"name-host", "name-from-elem", "name-from-go-result", "name-from-script-result", "name-var-from-field"}, bind: func(st *c20State, x interface{}, b int) {
			switch b {
			case 0:
				st.env.Define("pv", x)
			case 1:
				ank.Exec(st.env, "pv = [v][0]")
			case 2:
				ank.Exec(st.env, "pv = id(v)")
			case 3:
				ank.Exec(st.env, "pv = func(){ return v }()")
			default:
				ank.Exec(st.env, "var pv = box(v).V")
			}
		}},
		{name: "pgpc", expr: "pg(pc[0])", labels: []string{"go(elem)", "script(elem-T)", "goT(entry)", "go(elem-T)", "script(entry)", "goT(elem)", "go(entry)", "script(elem)", "goT(elem-T)"}, bind: func(st *c20State, x interface{}, b int) {
			c20r8BindPG(st, x, b%3)
			c20r8BindPC(st, x, (b+b/3)%3)
		}},
	}
}

// schedule s over round r for n alternatives; T is the length of the monomorphic prefix
func c20r8Sched(s, r, n, T int) int {
	if n <= 1 {
		return 0
	}
	switch s {
	case 1:
		if r < T {
			return 0
		}
		return (r - T + 1) % n
	case 2:
		return r % n
	case 3:
		if r%257 == 256 {
			return 1 + (r/257)%(n-1)
		}
		return 0
	case 4:
		return (r / 700) % n
	}
	return 0
}

var c20r8SchedNames = []string{"constant", "late-switch", "alternating", "odd-one-in-257", "blocks-of-700"}

// the cells every quick run drives first: (template, operand kinds)
var c20r8Core = []struct {
	tmpl  string
	kinds string
}{
	{"arg-go-func", "sfunc"},
	{"neg", "int float big"},
	{"param-mut-host-callback", "pstruct list map"},
	{"call-1", "sfunc gofunc sfuncv"},
	{"return-callback-1", "int list str"},
	{"deref-read", "ptrint pstruct"},
	{"spread-go-fixed", "list tslice"},
	{"chan-close", "chan"},
	{"in-rhs", "list tslice map"},
	{"index-idx-list", "int zero ptrint"},
	{"defer-callee", "sfunc gofunc"},
	{"core-typeOf", "int str list pstruct sfunc chan"},
}

type c20r8Combo struct {
	t      *c20Tmpl
	poly   *c20r8Poly
	kinds  []*c20Val
	sB, sK int
	T      int
	rounds int
	off    int // which provenance the schedule starts from
	core   bool
}

func c20r8HotTmpl(c *wk.Case) {
	g := c20r8Eng()
	rep := c20r8NewRep(c)
	polys := c20r8Polys()
	var combos []c20r8Combo
	long := 4200
	nRand := 2
	if c.Tier == "thorough" {
		nRand = 4
	}
	mkT := func(rounds int) int {
		if rounds >= 4200 {
			return []int{4095, 4096, 4097}[c.Rng.Intn(3)]
		}
		return []int{999, 1000, 1001, 1023, 1024, 1025}[c.Rng.Intn(6)]
	}
	scheds := func() (int, int) {
		for {
			a, b := c.Rng.Intn(5), c.Rng.Intn(5)
			if a != 0 || b != 0 {
				return a, b
			}
		}
	}
	slot := c.Index - c.Index/3 - 1 // 0,1,2,3.. over the tmpl cases
	// three core cells per case (all twelve over four cases), each with a long prefix of ONE provenance and
	// ONE kind, then all of them (late switch)
	for k := 0; k < 3; k++ {
		cc := c20r8Core[(slot*3+k)%len(c20r8Core)]
		t := g.tmplByID(cc.tmpl)
		if t == nil {
			continue
		}
		var ks []*c20Val
		for _, kn := range strings.Fields(cc.kinds) {
			if v := g.valByKind(kn); v != nil && c20r8Usable(t, v) {
				ks = append(ks, v)
			}
		}
		if len(ks) == 0 {
			continue
		}
		// pc[0] or pg(v) with EVERY provenance as the long prefix once, all others after the switch; one more
		// run through pm.F / pv / pg(pc[0])
		poly := &polys[[]int{0, 2}[(slot+k+int(c.W.Seed))%2]]
		for off := range poly.labels {
			combos = append(combos, c20r8Combo{t: t, poly: poly, kinds: ks, sB: 1, sK: 1, rounds: 1100, off: off, core: true})
		}
		other := &polys[[]int{1, 3, 4}[(slot+k+int(c.W.Seed))%3]]
		combos = append(combos, c20r8Combo{t: t, poly: other, kinds: ks, sB: 1, sK: 1, rounds: 1100, off: c.Rng.Intn(len(other.labels)), core: true})
	}
	for k := 0; k < nRand; k++ {
		var t *c20Tmpl
		var ks []*c20Val
		for try := 0; try < 50 && len(ks) == 0; try++ {
			t = &g.tmpls[c.Rng.Intn(len(g.tmpls))]
			if !c20r8Usable(t, nil) {
				continue
			}
			for _, vi := range c.Rng.Perm(len(g.vals)) {
				if c20r8Usable(t, &g.vals[vi]) {
					ks = append(ks, &g.vals[vi])
					if len(ks) == 3 {
						break
					}
				}
			}
		}
		if len(ks) == 0 {
			continue
		}
		sB, sK := scheds()
		rounds := 1100
		if k == 0 {
			rounds = long
		}
		poly := &polys[c.Rng.Intn(len(polys))]
		combos = append(combos, c20r8Combo{t: t, poly: poly, kinds: ks, sB: sB, sK: sK, rounds: rounds, off: c.Rng.Intn(len(poly.labels))})
	}
	refX := c20Chain("v", "x", g.atoms, nil)
	total, gcs, refsFresh := 0, 0, 0
	for ci := range combos {
		cb := &combos[ci]
		cb.T = mkT(cb.rounds)
		t := cb.t
		hx := c20Hole{expr: cb.poly.expr}
		src := c20r8Src(t, hx)
		tree, err, _ := ank.Parse(src)
		if err != nil || tree == nil {
			c.Inconclusive("hot:does-not-parse:"+t.id, fmt.Sprint(err), src)
			continue
		}
		var kn []string
		for _, v := range cb.kinds {
			kn = append(kn, v.kind)
		}
		c.Tag("hot:tmpl:"+t.id, "hot:poly:"+cb.poly.name, "hot:provenance-schedule:"+c20r8SchedNames[cb.sB], "hot:kind-schedule:"+c20r8SchedNames[cb.sK], fmt.Sprintf("hot:rounds:%d", cb.rounds))
		first := map[string]string{}
		lastRef := map[string]*c20Out{}
		seenB := map[int]bool{}
		prevB, prevK := -1, -1
		for r := 0; r < cb.rounds; r++ {
			b := (c20r8Sched(cb.sB, r, len(cb.poly.labels), cb.T) + cb.off) % len(cb.poly.labels)
			ki := c20r8Sched(cb.sK, r, len(cb.kinds), cb.T)
			if cb.core && r >= cb.T {
				// after the switch every kind meets every provenance
				q := r - cb.T + 1
				ki = (q + q/len(cb.poly.labels)) % len(cb.kinds)
			}
			val := cb.kinds[ki]
			seenB[b] = true
			// the reference: a fresh parse and a fresh environment in the first rounds, in every 8th round and
			// whenever the provenance or the kind has just changed; in between the last such answer for this kind
			// (it must not drift: checked below)
			var ref c20Out
			if lr := lastRef[val.kind]; lr != nil && r >= 4 && r%8 != 0 && b == prevB && ki == prevK {
				ref = *lr
			} else {
				ref = c20r8Inst(c, t, val, refX, c20r8Opts{})
				refsFresh++
				cp := ref
				lastRef[val.kind] = &cp
			}
			prevB, prevK = b, ki
			got := c20r8Inst(c, t, val, hx, c20r8Opts{tree: tree, src: src, bind: func(st *c20State) { cb.poly.bind(st, st.base["v"], b) }})
			c.Eval(fmt.Sprintf("hot|%s|%s|%s|%d|%d", t.id, val.kind, cb.poly.name, b, r), ref.class == "ok" || got.class == "ok")
			c.Events(1)
			total++
			extra := map[string]interface{}{"round": r, "rounds": cb.rounds, "provenance_schedule": c20r8SchedNames[cb.sB], "kind_schedule": c20r8SchedNames[cb.sK], "switch_after": cb.T, "kinds": kn, "poly": cb.poly.expr}
			rep.judge("hot", t, val, cb.poly.name+"="+cb.poly.labels[b], &ref, &got, extra)
			rs := c20NoAddr(ref.String())
			if f, ok := first[val.kind]; !ok {
				first[val.kind] = rs
			} else if f != rs && ref.class != "timeout" {
				rep.add("hot:reference-drift:"+t.id+":"+val.kind, fmt.Sprintf("the plain-variable reference in a fresh parse gave %s in round %d BUT %s the first time", rs, r, f), extra)
			}
			if r%512 == 511 {
				runtime.GC()
				gcs++
			}
			if len(rep.viols) > 40 {
				break
			}
		}
		c.Count("hot_provenances_behind_one_node", len(seenB))
	}
	c.Count("hot_trees", len(combos))
	c.Count("hot_evaluations_judged", total)
	c.Count("hot_gcs_between_rounds", gcs)
	c.Count("hot_plain_variable_references_in_fresh_parses", refsFresh)
	rep.flush()
}

// ---------------------------------------------------------------------------
// phase hot, callback cases

type c20r8Arity struct {
	name, lit, call, ref string
	want                 func(k, x int64) interface{}
}

func c20r8Arities() []c20r8Arity {
	l := func(xs ...int64) interface{} {
		out := make([]interface{}, len(xs))
		for i, x := range xs {
			out[i] = x
		}
		return out
	}
	return []c20r8Arity{
		{"0", "func(){ return k }", "ap0($F)", "ap0(v)", func(k, x int64) interface{} { return k }},
		{"1", "func(a){ return [k, a] }", "ap1($F, x)", "ap1(v, x)", func(k, x int64) interface{} { return l(k, x) }},
		{"2", "func(a, b){ return [k, a, b] }", "ap2($F, x, 2)", "ap2(v, x, 2)", func(k, x int64) interface{} { return l(k, x, 2) }},
		{"3", "func(a, b, c){ return [k, c, a] }", "ap3($F, x, 2, 3)", "ap3(v, x, 2, 3)", func(k, x int64) interface{} { return l(k, 3, x) }},
		{"4", "func(a, b, c, d){ return [k, d, a] }", "ap4($F, x, 2, 3, 4)", "ap4(v, x, 2, 3, 4)", func(k, x int64) interface{} { return l(k, 4, x) }},
		{"5", "func(a, b, c, d, e){ return [k, e, a] }", "ap5($F, x, 2, 3, 4, 5)", "ap5(v, x, 2, 3, 4, 5)", func(k, x int64) interface{} { return l(k, 5, x) }},
		{"6", "func(a, b, c, d, e, g){ return [k, g, a] }", "ap6($F, x, 2, 3, 4, 5, 6)", "ap6(v, x, 2, 3, 4, 5, 6)", func(k, x int64) interface{} { return l(k, 6, x) }},
		{"variadic", "func(a...){ return [k, len(a), a[0]] }", "apv($F, x, 2, 3)", "apv(v, x, 2, 3)", func(k, x int64) interface{} { return l(k, 3, x) }},
		{"int64", "func(a){ return a * 3 + k }", "api($F, x)", "api(v, x)", func(k, x int64) interface{} { return x*3 + k }},
		{"less", "func(i, j){ return (i * k) % 7 < (j * k) % 7 }", "sortBy(7, $F)", "sortBy(7, v)", func(k, x int64) interface{} {
			idx := []int64{0, 1, 2, 3, 4, 5, 6}
			sort.SliceStable(idx, func(a, b int) bool { return (idx[a]*k)%7 < (idx[b]*k)%7 })
			return idx
		}},
		{"mapper", "func(a){ return a + k }", "mapInts($F, [x, 1])", "mapInts(v, [x, 1])", func(k, x int64) interface{} { return []int64{x + k, 1 + k} }},
	}
}

var c20r8FuncProvs = []struct{ name, expr string }{
	{"var", "$f"}, {"elem", "[$f][0]"}, {"mapent", `{"k": $f}["k"]`}, {"member", `{"k": $f}.k`}, {"field", "box($f).V"},
	{"scall", "func(){ return $f }()"}, {"sparam", "func(p){ return p }($f)"}, {"gocall", "id($f)"}, {"paren", "($f)"},
	{"ternary", "(true ? $f : 0)"}, {"coalesce", "($f ?? 0)"}, {"tyelem", "tsl($f)[0]"},
}

type c20r8I = interface{}

func c20r8DefineCallbacks(e *env.Env) {
	e.Define("ap0", func(f func() c20r8I) c20r8I { return f() })
	e.Define("ap1", func(f func(c20r8I) c20r8I, a c20r8I) c20r8I { return f(a) })
	e.Define("ap2", func(f func(a, b c20r8I) c20r8I, a, b c20r8I) c20r8I { return f(a, b) })
	e.Define("ap3", func(f func(a, b, c c20r8I) c20r8I, a, b, c c20r8I) c20r8I { return f(a, b, c) })
	e.Define("ap4", func(f func(a, b, c, d c20r8I) c20r8I, a, b, c, d c20r8I) c20r8I { return f(a, b, c, d) })
	e.Define("ap5", func(f func(a, b, c, d, e c20r8I) c20r8I, a, b, c, d, e c20r8I) c20r8I { return f(a, b, c, d, e) })
	e.Define("ap6", func(f func(a, b, c, d, e, g c20r8I) c20r8I, a, b, c, d, e, g c20r8I) c20r8I {
		return f(a, b, c, d, e, g)
	})
	e.Define("apv", func(f func(...c20r8I) c20r8I, xs ...c20r8I) c20r8I { return f(xs...) })
	e.Define("api", func(f func(int64) int64, x int64) int64 { return f(x) })
	e.Define("sortBy", func(n int64, less func(i, j int64) bool) []int64 {
		idx := make([]int64, n)
		for i := range idx {
			idx[i] = int64(i)
		}
		sort.SliceStable(idx, func(a, b int) bool { return less(idx[a], idx[b]) })
		return idx
	})
	e.Define("mapInts", func(f func(int64) int64, xs []int64) []int64 {
		out := make([]int64, len(xs))
		for i, x := range xs {
			out[i] = f(x)
		}
		return out
	})
}

// operands of a new identity each round, and what the operations on them must give
const c20r8IdentBody = `ol = mkl(k)
om = mkm(k)
op = mkp(k)
oc = mkc(k)
I = [len([ol][0]), id(ol)[1], {"k": om}.k["a"], *([op][0]), *id(op), <-([oc][0]), <-id(oc), gsum(box(ol).V), gptr([op][0]), gsum({"k": ol}.k), len(ol), ol[1], om["a"], *op, gptr(op), gsum(ol)]
`

var c20r8IdentLabels = []string{"len:elem", "index:gocall", "index:member", "deref:elem", "deref:gocall", "recv:elem", "recv:gocall", "go-slice-arg:field", "go-ptr-arg:elem", "go-slice-arg:member",
	"len:var", "index:var", "index-key:var", "deref:var", "go-ptr-arg:var", "go-slice-arg:var"}

func c20r8IdentWant(k int64) []int64 {
	return []int64{2, k + 1, k, k, k, k, k + 1, 2*k + 1, k, 2*k + 1, 2, k + 1, k, k, k, 2*k + 1}
}

func c20r8HotCallbacks(c *wk.Case) {
	rep := c20r8NewRep(c)
	ars := c20r8Arities()
	vehicle := []string{"helper-loop", "rerun-contexts", "inline-loop"}[(c.Index/3)%3]
	N := 1100
	if (c.Index/3)%3 == 2 || (c.Tier == "thorough" && (c.Index/9)%3 == 1) {
		N = 4200
	}
	if vehicle == "rerun-contexts" && c.Tier != "thorough" {
		N = 1100
	}
	// the body: closures over k (and x), every closure through every provenance
	var body strings.Builder
	var labels []string
	for i, a := range ars {
		fmt.Fprintf(&body, "f%d = %s\n", i, a.lit)
	}
	body.WriteString("R = [")
	// (arity, provenance) -> position in R; the arities 1 and variadic through every provenance, the others
	// through every second one (all of them over two neighbouring arities)
	siteAt := map[[2]int]int{}
	for i, a := range ars {
		for pi, p := range c20r8FuncProvs {
			if a.name != "1" && a.name != "variadic" && (i+pi+c.Index/3)%2 == 1 && c.Tier != "thorough" {
				continue
			}
			f := strings.ReplaceAll(p.expr, "$f", fmt.Sprintf("f%d", i))
			body.WriteString(strings.ReplaceAll(a.call, "$F", f) + ",\n")
			siteAt[[2]int{i, pi}] = len(labels)
			labels = append(labels, a.name+":"+p.name)
		}
	}
	body.WriteString("0]\nF = [")
	for i := range ars {
		fmt.Fprintf(&body, "f%d, ", i)
	}
	body.WriteString("0]\n")
	body.WriteString(c20r8IdentBody)
	body.WriteString("chk(k, x, R, F, I)\nif k % 37 == 0 {\nkeep += [f1]\nkeepv += [f7]\nkeepk += [k]\n}\n")

	st := c20NewState()
	e := st.env
	c20r8DefineCallbacks(e)
	e.Define("mkl", func(k int64) interface{} { return []interface{}{k, k + 1} })
	e.Define("mkm", func(k int64) interface{} { return map[interface{}]interface{}{"a": k} })
	e.Define("mkp", func(k int64) interface{} { p := new(int64); *p = k; return p })
	e.Define("mkc", func(k int64) interface{} { ch := make(chan interface{}, 2); ch <- k; ch <- k + 1; return ch })
	e.Define("gsum", func(xs []interface{}) int64 {
		var s int64
		for _, x := range xs {
			if n, ok := x.(int64); ok {
				s += n
			}
		}
		return s
	})
	rounds, refs, sites := 0, 0, 0
	input := func(k, x int64, extra string) map[string]interface{} {
		return map[string]interface{}{"vehicle": vehicle, "invocations": N, "k": k, "x": x, "body": body.String(), "what": extra}
	}
	e.Define("chk", func(k, x int64, R, F, I []interface{}) {
		rounds++
		for ai, a := range ars {
			// the reference: the same call with the function in a plain variable, fresh parse, fresh environment
			le := env.NewEnv()
			c20r8DefineCallbacks(le)
			le.Define("v", F[ai])
			le.Define("x", x)
			ro := ank.Exec(le, a.ref)
			refs++
			refS := c20Class(ro) + ":" + ank.Render(ro.Val)
			wantS := "ok:" + ank.Render(a.want(k, x))
			if refS != wantS {
				rep.add("hot:callback:"+a.name+":reference:closure-variables", fmt.Sprintf("invocation k=%d x=%d: %s with the closure %s in a plain variable (fresh parse) gave %s, the closure's own variables demand %s", k, x, a.ref, a.lit, refS, wantS), input(k, x, a.ref))
			}
			for pi, p := range c20r8FuncProvs {
				at, ok := siteAt[[2]int{ai, pi}]
				if !ok || at >= len(R) {
					continue
				}
				sites++
				got := "ok:" + ank.Render(R[at])
				if got != refS {
					rep.add("hot:callback:"+a.name+":"+p.name+":value", fmt.Sprintf("invocation k=%d x=%d (%s, invocation %d of %d): %s with the closure %s obtained as %s gave %s BUT the same call on a plain variable in a fresh parse gives %s",
						k, x, vehicle, rounds, N, a.call, a.lit, p.expr, got, refS), input(k, x, labels[at]))
				}
			}
		}
		want := c20r8IdentWant(k)
		for i, w := range want {
			if i >= len(I) || ank.Render(I[i]) != ank.Render(w) {
				g := "<missing>"
				if i < len(I) {
					g = ank.Render(I[i])
				}
				rep.add("hot:identity:"+c20r8IdentLabels[i], fmt.Sprintf("invocation k=%d: operand made for this round gave %s, want %s", k, g, ank.Render(w)), input(k, x, c20r8IdentLabels[i]))
			}
		}
		c.Events(1)
	})
	fin := func() {
		// closures kept from earlier invocations, each passed at ONE site now; one site that
		// passes one closure for a long prefix and then others
		src := fmt.Sprintf(`late = []
for j = 0; j < len(keep); j++ {
	late += [[keepk[j], j, ap1(keep[j], j), ap1(id(keep[j]), j), apv(keepv[j], j, 0), keep[j](j)]]
}
mkf = func(k){ return func(a){ return [k, a] } }
cur = mkf(-1)
curk = -1
sw = []
for i = 0; i < %d; i++ {
	if i == 1000 || i == 1024 || i %% 700 == 0 || i %% 257 == 0 {
		cur = mkf(i)
		curk = i
	}
	r = ap1(cur, i)
	q = ap1([cur][0], i)
	r2 = cur(i)
	q2 = [cur][0](i)
	q3 = id(cur)(i)
	if r[0] != curk || r[1] != i || q[0] != curk || q[1] != i || r2[0] != curk || q2[0] != curk || q3[0] != curk || q3[1] != i {
		sw += [[i, curk, r, q, r2, q2, q3]]
	}
}
[late, sw]`, N)
		o := ank.Exec(e, src)
		res, _ := o.Val.([]interface{})
		if c20Class(o) != "ok" || len(res) != 2 {
			rep.add("hot:callback:late:"+c20Class(o), "the closing script failed: "+ank.ErrText(o.Err)+o.PanicVal, input(0, 0, src))
			return
		}
		late, _ := res[0].([]interface{})
		for _, row := range late {
			r, _ := row.([]interface{})
			if len(r) != 6 {
				continue
			}
			k, _ := r[0].(int64)
			j, _ := r[1].(int64)
			want := ank.Render([]interface{}{k, j})
			wantV := ank.Render([]interface{}{k, int64(2), j})
			if vehicle == "inline-loop" {
				// the closures of all rounds were made in ONE scope (the loop body assigns k, it does not declare
				// it): which k they see later is the scoping rule's business (C04), not judged here - the
				// provenances must agree with the call by name
				want = ank.Render(r[5])
				if l, ok := r[5].([]interface{}); ok && len(l) == 2 {
					wantV = ank.Render([]interface{}{l[0], int64(2), j})
				}
			}
			for i, nm := range []string{"var-elem", "gocall", "variadic", "script-call"} {
				w := want
				if nm == "variadic" {
					w = wantV
				}
				if ank.Render(r[2+i]) != w {
					rep.add("hot:callback:kept-closure:"+nm, fmt.Sprintf("the closure made by invocation k=%d, passed later (position %d of one call site) gave %s, want %s", k, j, ank.Render(r[2+i]), w), input(k, j, src))
				}
			}
			sites += 4
		}
		c.Count("hot_kept_closures_passed_later", len(late))
		if sw, _ := res[1].([]interface{}); len(sw) > 0 {
			rep.add("hot:callback:site-switches-closure", fmt.Sprintf("one call site passing one closure for a long prefix and then others: %d wrong results, first %s ([round, k of the closure in use, Go call with it in a variable, in an element, called by name, as element, as Go result])", len(sw), ank.Render(sw[0])), input(0, 0, src))
		}
	}
	e.Define("keep", []interface{}{})
	e.Define("keepv", []interface{}{})
	e.Define("keepk", []interface{}{})
	c.Tag("hot:callbacks:"+vehicle, fmt.Sprintf("hot:rounds:%d", N))
	var o ank.Out
	switch vehicle {
	case "helper-loop":
		src := "func h(k, x) {\n" + body.String() + "}\nfor i = 0; i < " + fmt.Sprint(N) + "; i++ {\nh(i, i * 3 + 1)\n}\n"
		c.Begin(map[string]string{"vehicle": vehicle, "src": src})
		o = ank.Exec(e, src)
	case "inline-loop":
		src := "for i = 0; i < " + fmt.Sprint(N) + "; i++ {\nk = i\nx = i * 3 + 1\n" + body.String() + "}\n"
		c.Begin(map[string]string{"vehicle": vehicle, "src": src})
		o = ank.Exec(e, src)
	default:
		src := "func h(k, x) {\n" + body.String() + "}\n"
		c.Begin(map[string]string{"vehicle": vehicle, "src": src})
		o = ank.Exec(e, src)
		tree, err, _ := ank.Parse("h(kk, kk * 3 + 1)")
		if err != nil {
			c.Inconclusive("hot:callbacks:does-not-parse", err.Error(), nil)
			return
		}
		shared, cancelShared := context.WithCancel(context.Background())
		own := 0
		for r := 0; r < N && c20Class(o) == "ok"; r++ {
			e.Define("kk", int64(r))
			if r%3 == 2 {
				o = ank.RunCtx(shared, e, tree)
				continue
			}
			ctx, cancel := context.WithCancel(context.Background())
			o = ank.RunCtx(ctx, e, tree)
			cancel()
			own++
			if r%512 == 511 {
				runtime.GC()
			}
		}
		c.Count("hot_runs_under_a_context_of_their_own_cancelled_afterwards", own)
		defer cancelShared()
	}
	if c20Class(o) != "ok" {
		rep.add("hot:callback:run:"+c20Class(o), fmt.Sprintf("the run (%s) ended after %d of %d invocations with %s %s", vehicle, rounds, N, ank.ErrText(o.Err), o.PanicVal), input(int64(rounds), 0, "run"))
	} else {
		if rounds != N {
			rep.add("hot:callback:invocations", fmt.Sprintf("%d invocations reached the recorder, %d were made", rounds, N), input(0, 0, "count"))
		}
		fin()
	}
	c.Eval("hot|callbacks|"+vehicle+fmt.Sprint(N), rounds > 0)
	c.Count("hot_helper_invocations", rounds)
	c.Count("hot_callback_site_evaluations_judged", sites)
	c.Count("hot_plain_variable_references_in_fresh_parses", refs)
	rep.flush()
}

// ---------------------------------------------------------------------------
// phase stream

// c20r8Val makes an operand of the given kind carrying the value n (pairwise distinct items)
func c20r8Val(kind string, n int64) *c20Val {
	gv := func(f func() interface{}) *c20Val { v := c20Go(kind, f); return &v }
	switch kind {
	case "int":
		return gv(func() interface{} { return n })
	case "float":
		return gv(func() interface{} { return float64(n) + 0.5 })
	case "str":
		return gv(func() interface{} { return fmt.Sprintf("s%d", n) })
	case "list":
		return gv(func() interface{} { return []interface{}{n, n + 1, n + 2} })
	case "map":
		return gv(func() interface{} { return map[interface{}]interface{}{"k": n} })
	case "tslice":
		return gv(func() interface{} { return []int64{n, n + 1, n + 2} })
	case "tmap":
		return gv(func() interface{} { return map[string]int64{"k": n} })
	case "pstruct":
		return gv(func() interface{} { return &c20S{A: n, B: "b", I: n + 1} })
	case "ptrint":
		return gv(func() interface{} { p := new(int64); *p = n; return p })
	case "chan":
		return gv(func() interface{} { ch := make(chan interface{}, 4); ch <- n; return ch })
	case "sfunc":
		v := c20Script(kind, fmt.Sprintf(`func(a){ glog("sfunc $N %d", a); return a + %d }`, n, n))
		return &v
	case "sfuncv":
		v := c20Script(kind, fmt.Sprintf(`func(a...){ glog("sfuncv $N %d", a); return [%d, a] }`, n, n))
		return &v
	case "ndur":
		return gv(func() interface{} { return c20Dur(n) })
	case "errp":
		return gv(func() interface{} { return &c20Err{Msg: fmt.Sprintf("boom%d", n)} })
	}
	return nil
}

var c20r8StreamKinds = []string{"int", "float", "str", "list", "map", "tslice", "tmap", "pstruct", "ptrint", "chan", "sfunc", "sfuncv", "ndur", "errp"}

type c20r8Ref struct {
	t      *c20Tmpl
	val    *c20Val
	chain  []int
	names  []string
	hx     c20Hole
	src    string
	tree   ast.Stmt // kept parsed tree (half of the cells)
	first  string
	dist   int
	asked  int
	lastAt int
}

var c20r8Distances = []int{255, 256, 257, 999, 1000, 1001, 1023, 1024, 1025, 4095, 4096, 4097}

func c20r8Stream(c *wk.Case) {
	g := c20r8Eng()
	rep := c20r8NewRep(c)
	atomIdx := map[string]int{}
	var general []int
	for i, a := range g.atoms {
		atomIdx[a.name] = i
		if !a.typedOnly && !a.wrap && !a.assignable && a.name != "chanrecv" {
			general = append(general, i)
		}
	}
	refX := c20Chain("v", "x", g.atoms, nil)
	nItems := 4500
	if c.Tier == "thorough" {
		nItems = 14000
	}
	// the reference set
	var cells []c20Fixed
	for _, f := range c20FixedCases {
		cells = append(cells, f)
	}
	cells = append(cells, c20Fixed{"arg-go-func", "sfunc", []string{"elem"}}, c20Fixed{"arg-go-func", "sfunc", []string{"gocall"}}, c20Fixed{"call-1", "sfunc", []string{"gocall"}},
		c20Fixed{"param-mut-host-callback", "pstruct", []string{"elem"}}, c20Fixed{"return-callback-1", "int", []string{"field"}}, c20Fixed{"neg", "int", []string{"tyelem"}},
		c20Fixed{"neg", "float", []string{"mapent"}}, c20Fixed{"core-typeOf", "big", []string{"gocall", "elem"}}, c20Fixed{"len", "tslice", []string{"field"}},
		c20Fixed{"spread-go-variadic", "list", []string{"member"}}, c20Fixed{"defer-callee", "sfunc", []string{"scall"}}, c20Fixed{"method-ptr-recv", "pstruct", []string{"pfield"}})
	var refs []*c20r8Ref
	for i, f := range cells {
		t, val := g.tmplByID(f.tmpl), g.valByKind(f.kind)
		if t == nil || val == nil || t.ykind != "" || t.needAssignable || t.async {
			continue
		}
		ch := make([]int, len(f.chain))
		okc := true
		for j, n := range f.chain {
			idx, ok := atomIdx[n]
			if !ok || g.atoms[idx].assignable {
				okc = false
			}
			ch[j] = idx
		}
		if !okc {
			continue
		}
		if ok, _ := g.chainOK(t, val, ch); !ok {
			continue
		}
		r := &c20r8Ref{t: t, val: val, chain: ch, names: f.chain, dist: c20r8Distances[(len(refs)+c.Index)%len(c20r8Distances)], lastAt: -1}
		r.hx = c20Chain("v", "x", g.atoms, ch)
		r.src = c20r8Src(t, r.hx)
		if i%2 == 0 {
			r.tree, _, _ = ank.Parse(r.src)
		}
		refs = append(refs, r)
	}
	var kept []*c20State
	var leakedCancels []context.CancelFunc
	reasks, gcs, parked := 0, 0, 0
	distSeen := map[int]int{}
	ask := func(r *c20r8Ref, pos int) {
		ref := c20r8Inst(c, r.t, r.val, refX, c20r8Opts{})
		got := c20r8Inst(c, r.t, r.val, r.hx, c20r8Opts{tree: r.tree, src: r.src})
		c.Events(1)
		c.Eval(fmt.Sprintf("stream-ref|%s|%s|%v|%d", r.t.id, r.val.kind, r.names, r.asked), ref.class == "ok" || got.class == "ok")
		extra := map[string]interface{}{"chain": r.names, "asked_before": r.asked, "items_streamed_before": pos, "kept_tree": r.tree != nil}
		rep.judge("stream:ref", r.t, r.val, strings.Join(r.names, "+"), &ref, &got, extra)
		s := c20NoAddr(ref.String()) + " // " + c20NoAddr(got.String())
		if r.asked == 0 {
			r.first = s
		} else if s != r.first && ref.class != "timeout" && got.class != "timeout" {
			rep.add("stream:ref-drift:"+r.t.id+":"+r.val.kind+":"+strings.Join(r.names, "+"), fmt.Sprintf("asked again after %d streamed items (%d times before): reference // variant = %s BUT the first time %s", pos, r.asked, s, r.first), extra)
		}
		if r.lastAt >= 0 {
			distSeen[pos-r.lastAt]++
		}
		r.asked++
		r.lastAt = pos
		reasks++
	}
	for _, r := range refs {
		ask(r, 0)
	}
	usable := []*c20Tmpl{}
	for i := range g.tmpls {
		if c20r8Usable(&g.tmpls[i], nil) {
			usable = append(usable, &g.tmpls[i])
		}
	}
	items := 0
	for pos := 1; pos <= nItems; pos++ {
		// one distinct item
		var t *c20Tmpl
		var val *c20Val
		var ch []int
		for try := 0; try < 60; try++ {
			t = usable[c.Rng.Intn(len(usable))]
			val = c20r8Val(c20r8StreamKinds[c.Rng.Intn(len(c20r8StreamKinds))], int64(pos)+int64(c.Index)*100000)
			if c20r8Usable(t, val) {
				ch = make([]int, 1+c.Rng.Intn(2))
				for i := range ch {
					ch[i] = general[c.Rng.Intn(len(general))]
				}
				if ok, _ := g.chainOK(t, val, ch); ok {
					break
				}
			}
			val = nil
		}
		if val != nil {
			n := len(ch)
			{
				hx := c20Chain("v", "x", g.atoms, ch)
				{
					names := make([]string, n)
					for i, ai := range ch {
						names[i] = g.atoms[ai].name
					}
					ref := c20r8Inst(c, t, val, refX, c20r8Opts{})
					o := c20r8Opts{}
					if pos%4 == 0 {
						o.keep = func(st *c20State) {
							kept = append(kept, st)
							if len(kept) > 600 {
								kept = kept[300:]
							}
						}
					}
					if pos%64 == 0 {
						ctx, cancel := context.WithTimeout(context.Background(), 20*time.Second)
						o.ctx = ctx
						leakedCancels = append(leakedCancels, cancel)
					}
					got := c20r8Inst(c, t, val, hx, o)
					items++
					c.Events(1)
					c.Eval(fmt.Sprintf("stream|%s|%s|%v|%d", t.id, val.kind, names, pos), ref.class == "ok" || got.class == "ok")
					rep.judge("stream:item", t, val, names[len(names)-1], &ref, &got, map[string]interface{}{"chain": names, "item": pos, "operand_carries": pos})
					if pos%256 == 0 && len(kept) > 0 {
						ank.Exec(kept[len(kept)-1].env, "go func(){ <-make(chan int64) }()")
						parked++
					}
				}
			}
		}
		if pos%512 == 0 {
			runtime.GC()
			gcs++
		}
		for _, r := range refs {
			if pos%r.dist == 0 || pos == nItems {
				ask(r, pos)
			}
		}
		if len(rep.viols) > 40 {
			break
		}
	}
	for _, cancel := range leakedCancels {
		cancel()
	}
	var ds []int
	for d := range distSeen {
		ds = append(ds, d)
	}
	sort.Ints(ds)
	for _, d := range ds {
		for _, w := range c20r8Distances {
			if d == w {
				c.Tag(fmt.Sprintf("stream:reask-after:%d", d))
			}
		}
	}
	c.Count("stream_histories", 1)
	c.Count("stream_distinct_items", items)
	c.Count("stream_reference_cells", len(refs))
	c.Count("stream_reasks_of_references", reasks)
	c.Count("stream_gcs", gcs)
	c.Count("stream_parked_goroutines_left_behind", parked)
	c.Count("stream_contexts_leaked_until_the_end", len(leakedCancels))
	c.Count("stream_environments_kept_alive", len(kept))
	rep.flush()
}

// ---------------------------------------------------------------------------
// phase sizes

// the sizes, the expensive ones first (they are scheduled first); the quick tier asks for N and N+1
func c20r8SizeList(tier string) []int {
	if tier == "thorough" {
		return []int{200000, 65535, 65536, 65537, 4095, 4096, 4097, 1023, 1024, 1025, 255, 256, 257}
	}
	return []int{65536, 65537, 4096, 4097, 1024, 1025, 256, 257}
}

// a string of exactly n bytes with 1-, 2-, 3- and 4-byte characters, the multi-byte ones shifted by n%4
func c20r8Str(n int) string {
	units := []string{"a", "é", "€", "𝄞"}
	var b strings.Builder
	for i := 0; i < n%4; i++ {
		b.WriteByte('x')
	}
	for i := 0; b.Len() < n; i++ {
		u := units[i%4]
		if b.Len()+len(u) > n {
			u = "y"
		}
		b.WriteString(u)
	}
	return b.String()
}

func c20r8SizeVals(n int) []c20Val {
	N := int64(n)
	return []c20Val{
		c20Go("list", func() interface{} {
			l := make([]interface{}, n)
			for i := range l {
				l[i] = int64(i)
			}
			return l
		}),
		c20Go("tslice", func() interface{} {
			l := make([]int64, n)
			for i := range l {
				l[i] = int64(i)
			}
			return l
		}),
		c20Go("map", func() interface{} {
			m := make(map[interface{}]interface{}, n)
			for i := int64(0); i < N; i++ {
				m[i] = i
			}
			return m
		}),
		c20Go("str", func() interface{} { return c20r8Str(n) }),
		c20Go("int", func() interface{} { return N - 1 }),
		c20Go("big", func() interface{} { return N }),
	}
}

func c20r8SizeTmpls(n int) []c20Tmpl {
	N := fmt.Sprint(n)
	ks := func(s string) map[string]bool {
		m := map[string]bool{}
		for _, k := range strings.Fields(s) {
			m[k] = true
		}
		return m
	}
	r := func(s string) string {
		return strings.ReplaceAll(strings.ReplaceAll(strings.ReplaceAll(s, "$N1", fmt.Sprint(n-1)), "$N2", fmt.Sprint(n-2)), "$N", N)
	}
	seq := "list tslice"
	var ts []c20Tmpl
	T := func(id, kinds, pre, src string) {
		ts = append(ts, c20Tmpl{id: "sz-" + id, pre: r(pre), src: r(src), kinds: ks(kinds)})
	}
	T("len", "list tslice map str", "", "len($X)")
	T("last", "list tslice map str", "", "$X[$N1]")
	T("beyond", "list tslice str", "", "$X[$N]")
	T("slice-tail", "list tslice str", "", "$X[$N2:]")
	T("slice-head", "list tslice str", "", "len($X[:$N1])")
	T("slice-mid", "list tslice str", "", "t = $X[1:$N1]\n[len(t), t[0]]")
	T("forin-digest", "list tslice map", "", "s = 0\nfor e in ($X) { s += e * e % 1009 }\ns")
	T("forin2-digest", seq, "", "s = 0\nfor i, e in ($X) { s = (s * 31 + e + i) % 1000003 }\ns")
	T("spread-svariadic", seq, "fv = func(a...){ return [len(a), a[0], a[len(a) - 1]] }", "fv($X...)")
	T("spread-svariadic-lead", seq, "fw = func(z, a...){ return [z, len(a), a[len(a) - 1]] }", "fw(7, $X...)")
	T("spread-go-ivariadic", seq, "", "gvi($X...)")
	T("spread-go-variadic", seq, "", "gv($X...)")
	T("arg-go-islice", seq, "", "gisl($X)")
	T("arg-go-slice", seq, "", "gsl($X)")
	T("arg-go-str", "str", "", "len(gstr($X))")
	T("in-last", seq, "", "$N1 in $X")
	T("in-none", seq, "", "$N in $X")
	T("add-rhs", seq, "", "t = [1] + $X\n[len(t), t[$N]]")
	T("add-lhs", seq, "", "t = $X + [1]\n[len(t), t[$N]]")
	T("keys", "map", "", "len(keys($X))")
	T("elem-store-last", "list tslice map", "", "$X[$N1] = 9\n[$X[$N1], $X[0], len($X)]")
	T("delete-last", "map", "", "delete($X, $N1)\n[len($X), $X[$N2]]")
	T("str-concat", "str", "", "t = $X + \"é\"\n[len(t), t[$N2:]]")
	T("str-repeat", "str", "", "len($X * 2)")
	T("str-eq", "str", "q = \"\"", "$X == $X + q")
	T("str-runes", "str", "", "r = toRuneSlice($X)\n[len(r), r[len(r) - 1]]")
	T("str-forin", "str", "", "s = 0\nfor ch in ($X) { s += 1 }\ns")
	T("typeOf", "list tslice map str", "", "typeOf($X)")
	T("cond", "list tslice map str", "", "$X ? \"t\" : \"f\"")
	// an integer of that magnitude in the positions that take one
	T("idx", "int big", "bl = range($N)", "bl[$X]")
	T("idx-slice-lo", "int big", "bl = range($N)", "len(bl[$X:])")
	T("idx-slice-hi", "int big", "bl = range($N)", "len(bl[:$X])")
	T("idx-store", "int", "bl = range($N)", "bl[$X] = 5\n[bl[$X], len(bl)]")
	T("idx-str", "int big", "bs = \"ab\" * $N", "bs[$X:]")
	T("make-len", "int big", "", "len(make([]int64, $X))")
	T("make-cap", "int big", "", "cap(make([]int64, 1, $X))")
	T("make-chan", "int big", "", "cap(make(chan int64, $X))")
	T("repeat", "int big", "", "len(\"ab\" * $X)")
	T("range", "int big", "", "t = range($X)\n[len(t), t[len(t) - 1]]")
	T("loop-bound", "int big", "", "n = 0\nfor i = 0; i < $X; i++ { n += 2 }\nn")
	T("arith", "int big", "", "[$X + 1, $X - 1, -$X, $X * 2, $X % 256, $X == $N1, $X < $N]")
	T("map-key", "int big", "m = {$N1: \"a\", $N: \"b\"}", "m[$X]")
	return ts
}

func c20r8HopAtoms(n int) []c20Atom {
	loop := c20Atom{name: fmt.Sprintf("hops-loop-%d", n), apply: func(h c20Hole, tag string) c20Hole {
		nh := h.withPre("xh = "+h.expr, fmt.Sprintf("for hi = 0; hi < %d; hi++ {\nswitch hi %% 6 {\ncase 0:\nxh = [xh][0]\ncase 1:\nxh = {\"k\": xh}.k\ncase 2:\nxh = id(xh)\ncase 3:\nxh = func(){ return xh }()\ncase 4:\nxh = box(xh).V\ncase 5:\nxh = func(p){ return p }(xh)\n}\n}", n))
		nh.expr, nh.assignable = "xh", false
		return nh
	}}
	nest := c20Atom{name: fmt.Sprintf("hops-nest-%d", n), apply: func(h c20Hole, tag string) c20Hole {
		var pre, post []string
		for i := 0; i < n; i++ {
			switch i % 5 {
			case 0:
				pre, post = append(pre, "["), append(post, "][0]")
			case 1:
				pre, post = append(pre, "id("), append(post, ")")
			case 2:
				pre, post = append(pre, "{\"k\": "), append(post, "}.k")
			case 3:
				pre, post = append(pre, "box("), append(post, ").V")
			case 4:
				pre, post = append(pre, "("), append(post, ")")
			}
		}
		var b strings.Builder
		for i := len(pre) - 1; i >= 0; i-- {
			b.WriteString(pre[i])
		}
		b.WriteString(h.expr)
		for _, p := range post {
			b.WriteString(p)
		}
		nh := h
		nh.expr, nh.assignable = b.String(), false
		return nh
	}}
	return []c20Atom{loop, nest}
}

func c20r8Sizes(c *wk.Case) {
	g := c20r8Eng()
	rep := c20r8NewRep(c)
	n := c20r8SizeList(c.Tier)[c.Index%len(c20r8SizeList(c.Tier))]
	c.Tag(fmt.Sprintf("reached:operand_size=%d", n))
	refX := c20Chain("v", "x", g.atoms, nil)
	// the atoms: all general ones; templates that walk the whole operand (and every template above 5000) go
	// through five of them (one, rotating, above 70000) in the quick tier
	core := map[string]bool{"elem": true, "gocall": true, "field": true, "tyelem": true, "scall": true}
	var general, few []int
	for i, a := range g.atoms {
		if a.typedOnly || a.wrap || a.assignable || a.only != nil || a.name == "chanrecv" {
			continue
		}
		general = append(general, i)
		if core[a.name] {
			few = append(few, i)
		}
	}
	atomsFor := func(t *c20Tmpl, ti int) []int {
		if c.Tier == "thorough" && n <= 70000 {
			return general
		}
		heavy := false
		for _, p := range []string{"forin", "spread", "loop-bound", "range", "str-", "arg-go", "add-", "in-", "keys", "repeat", "make-"} {
			if strings.Contains(t.id, p) {
				heavy = true
			}
		}
		switch {
		case n > 70000 && (heavy || c.Tier != "thorough"):
			return []int{few[(ti+int(c.W.Seed))%len(few)]}
		case n > 5000 && heavy && c.Tier != "thorough":
			return []int{few[(ti+int(c.W.Seed))%len(few)]}
		case n > 5000 && c.Tier != "thorough":
			return []int{few[ti%len(few)], few[(ti+2)%len(few)]}
		case heavy || n > 5000:
			return few
		}
		return general
	}
	evals := 0
	compare := func(prefix string, t *c20Tmpl, val *c20Val, hx c20Hole, prov string, ref *c20Out) {
		got := c20r8Inst(c, t, val, hx, c20r8Opts{tmo: 60 * time.Second})
		evals++
		c.Events(1)
		c.Eval(fmt.Sprintf("%s|%s|%s|%s|%d", prefix, t.id, val.kind, prov, n), ref.class == "ok" || got.class == "ok")
		rep.judge(prefix, t, val, prov, ref, &got, map[string]interface{}{"size": n})
	}
	// containers of that length, integers of that magnitude
	vals := c20r8SizeVals(n)
	tmpls := c20r8SizeTmpls(n)
	for ti := range tmpls {
		t := &tmpls[ti]
		for vi := range vals {
			val := &vals[vi]
			if !t.kinds[val.kind] {
				continue
			}
			if n > 5000 && (strings.HasPrefix(t.id, "sz-spread-go-variadic") || t.id == "sz-str-runes") && n > 70000 {
				continue
			}
			ref := c20r8Inst(c, t, val, refX, c20r8Opts{tmo: 60 * time.Second})
			for _, ai := range atomsFor(t, ti) {
				a := g.atoms[ai]
				hx := a.apply(refX, "x1")
				compare("sizes", t, val, hx, a.name, &ref)
			}
		}
	}
	c.Count("sizes_container_and_magnitude_evaluations", evals)
	// values of every kind through n hops
	if n <= 4097 {
		hops := c20r8HopAtoms(n)
		var probe []*c20Tmpl
		for _, id := range map[string][]string{"quick": {"core-typeOf", "arg-go-show"}, "thorough": {"read", "core-typeOf", "arg-go-show"}}[c.Tier] {
			probe = append(probe, g.tmplByID(id))
		}
		var sens []*c20Tmpl
		for i := range g.tmpls {
			if g.tmpls[i].typeSens && c20r8Usable(&g.tmpls[i], nil) && !strings.HasPrefix(g.tmpls[i].id, "param-") {
				sens = append(sens, &g.tmpls[i])
			}
		}
		h0 := evals
		for vi := range g.vals {
			val := &g.vals[vi]
			ts := append([]*c20Tmpl{}, probe...)
			nSens := map[string]int{"quick": 1, "thorough": 3}[c.Tier]
			if c.Tier != "thorough" && n > 1025 {
				ts, nSens = ts[1:], 0 // the Go %T|%v probe alone
				if vi%4 == int(c.W.Seed)%4 {
					nSens = 1
				}
			}
			for k := 0; k < nSens; k++ {
				for try := 0; try < 20; try++ {
					t := sens[c.Rng.Intn(len(sens))]
					if c20r8Usable(t, val) && (t.kinds == nil || t.kinds[val.kind]) {
						ts = append(ts, t)
						break
					}
				}
			}
			for ti, t := range ts {
				if t == nil || !c20r8Usable(t, val) {
					continue
				}
				ref := c20r8Inst(c, t, val, refX, c20r8Opts{})
				for hi := range hops {
					if c.Tier != "thorough" && (vi+ti+hi+int(c.W.Seed))%2 == 1 {
						continue
					}
					hx := hops[hi].apply(refX, "x1")
					compare("sizes:hops", t, val, hx, strings.TrimSuffix(hops[hi].name, fmt.Sprintf("-%d", n)), &ref)
				}
			}
		}
		c.Count("sizes_hop_chain_evaluations", evals-h0)
		c.Tag(fmt.Sprintf("reached:provenance_hops_in_a_row=%d", n))
	}
	rep.flush()
}
