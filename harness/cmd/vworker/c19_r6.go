package main

// C19, round 6 additions.
//
//  1. phase "histories", kept results: the value a conversion builtin returned is the value of Go's
//     conversion (string(b), []byte(s), []rune(s), the element-wise typed slice, the key list): a Go
//     string is immutable and the slice forms are fresh slices. So a result that the script KEEPS
//     (in a variable, or as a map key) has the same content whenever it is looked at again, whatever
//     is stored afterwards into the argument it was converted from (by the script, by the host that
//     owns the slice, or by a Go API that reuses its buffer: strings.Reader.Read into the same
//     bytes, bytes.Buffer Reset/Truncate + Write), and - vice versa - a store into a slice result
//     leaves the argument and every other kept value alone. Every variable of a history has a
//     private deep copy on the host side; after every step all variables except the one stored into
//     are compared with their copies, and every conversion is judged against the native reference
//     of its argument's CURRENT value.
//  2. phase "misuse", deferred calls: "misuse of any builtin is reported as an error, never a
//     crash" does not depend on the statement that makes the call. Every misuse (wrong count, wrong
//     type, zero step / wrong count of range, direct and spread) also runs as the call of a defer
//     statement at the top level of the script, in blocks and loops, between other deferred calls,
//     and inside named, anonymous and deferred script functions.

import (
	"bytes"
	"fmt"
	"math/rand"
	"reflect"
	"sort"
	"strconv"
	"strings"

	"github.com/mattn/anko/env"

	"verifharness/internal/ank"
	"verifharness/internal/wk"
)

// ---------------------------------------------------------------------------------------------
// histories: kept results
// ---------------------------------------------------------------------------------------------

// c19Snap returns a deep copy of a generator-built (acyclic) value that shares no memory with it:
// strings are re-allocated, slices and maps rebuilt.
func c19Snap(v interface{}) interface{} {
	if v == nil {
		return nil
	}
	return c19SnapV(reflect.ValueOf(v)).Interface()
}

func c19SnapV(rv reflect.Value) reflect.Value {
	switch rv.Kind() {
	case reflect.String:
		return reflect.ValueOf(string(append([]byte(nil), rv.String()...))).Convert(rv.Type())
	case reflect.Slice:
		if rv.IsNil() {
			return reflect.Zero(rv.Type())
		}
		out := reflect.MakeSlice(rv.Type(), rv.Len(), rv.Len())
		for i := 0; i < rv.Len(); i++ {
			out.Index(i).Set(c19SnapV(rv.Index(i)))
		}
		return out
	case reflect.Interface:
		if rv.IsNil() {
			return reflect.Zero(rv.Type())
		}
		return c19SnapV(rv.Elem())
	case reflect.Map:
		if rv.IsNil() {
			return reflect.Zero(rv.Type())
		}
		out := reflect.MakeMapWithSize(rv.Type(), rv.Len())
		it := rv.MapRange()
		for it.Next() {
			out.SetMapIndex(c19SnapV(it.Key()), c19SnapV(it.Value()))
		}
		return out
	}
	return rv
}

func c19BuiltinByName(name string) c19Builtin {
	for _, b := range c19Builtins {
		if b.name == name {
			return b
		}
	}
	return c19Builtin{}
}

// c19KVar is one script variable of a kept-results history.
type c19KVar struct {
	name     string
	kind     string      // bytes, string, runes, list, typed, keys, map
	producer string      // builtin whose result it holds; "" = bound by the host
	from     string      // variable (or "buf") the producer was applied to
	model    interface{} // private deep copy of the value it must have
}

// c19Kept runs one kept-results history.
type c19Kept struct {
	c    *wk.Case
	e    *env.Env
	vars []*c19KVar
	defs map[string]string
	log  []string
	seq  int
	conv string // builtin called by the step being verified ("" = the step was a store)

	buf *c19KVar // pseudo variable standing for the *bytes.Buffer "buf" (never compared; blame only)

	keyMap  bool             // the script map mk exists and is still checked
	keyN    map[string]int64 // model of mk
	keyFrom map[string]string
}

func c19NewKept(c *wk.Case) *c19Kept {
	return &c19Kept{c: c, e: ank.NewCoreEnv(), defs: map[string]string{}, keyN: map[string]int64{}, keyFrom: map[string]string{}}
}

func (h *c19Kept) input(src string) map[string]interface{} {
	return map[string]interface{}{"src": src, "defs": h.defs, "history": append([]string{}, h.log...)}
}

func (h *c19Kept) exec(src string) ank.Out {
	h.log = append(h.log, src)
	h.c.Begin(h.input(src))
	return ank.Exec(h.e, src)
}

func c19Clip(s string, n int) string {
	if len(s) > n {
		return s[:n] + "…"
	}
	return s
}

// host binds a Go value to a new variable.
func (h *c19Kept) host(kind, name string, v interface{}) *c19KVar {
	h.e.Define(name, v)
	h.defs[name] = c19Clip(ank.Render(v), 300)
	h.log = append(h.log, "(host) Define("+name+", "+h.defs[name]+")")
	kv := &c19KVar{name: name, kind: kind, model: c19Snap(v)}
	h.vars = append(h.vars, kv)
	return kv
}

func (h *c19Kept) newName(prefix string) string {
	h.seq++
	return prefix + strconv.Itoa(h.seq)
}

// judge compares one builtin call with its reference (like c19Hist.call); true = a value came back.
func (h *c19Kept) judge(name, src string, ref c19Ref, o ank.Out) bool {
	c := h.c
	in := h.input(src)
	c.Events(1)
	c.Eval("kept|"+strings.Join(h.log, "\n")+"|"+fmt.Sprint(h.defs), ref.judged && len(h.log) > 2)
	c.Tag("kept:" + name)
	sig := "history:" + name + ":"
	switch {
	case o.Panicked:
		c.Violation(sig+"panic", "panic: "+o.PanicVal+" ("+o.PanicSig+")", in)
		return false
	case !ref.judged:
		c.Tag("unjudged:kept:" + name)
		return o.Err == nil
	case ref.wantErr:
		if o.Err == nil {
			c.Violation(sig+"noerror", "misuse not reported as an error; got "+ank.Render(o.Val), in)
		}
		return false
	case o.Err != nil:
		if !ref.orErr {
			c.Violation(sig+"error", fmt.Sprintf("unexpected error %q, want %s", o.Err.Error(), c19RenderWant(ref.want)), in)
		}
		return false
	}
	if ok, why := c19Same(o.Val, ref.want); !ok {
		c.Violation(sig+why, fmt.Sprintf("step %d of the history: got %s, want %s", len(h.log), c19Clip(ank.Render(o.Val), 400), c19RenderWant(ref.want)), in)
	}
	return true
}

var c19KeptResultKind = map[string]string{"toString": "string", "toByteSlice": "bytes", "toRuneSlice": "runes", "keys": "keys",
	"toBoolSlice": "typed", "toStringSlice": "typed", "toIntSlice": "typed", "toFloatSlice": "typed"}

// convert runs `<new> = <builtin>(<arg>)`, judges it against the reference of the argument's current
// value and keeps the result in a new variable.
func (h *c19Kept) convert(builtin string, arg *c19KVar) *c19KVar {
	cur, err := h.e.Get(arg.name)
	if err != nil {
		return nil
	}
	name := h.newName("k")
	src := name + " = " + builtin + "(" + arg.name + ")"
	ref := c19BuiltinByName(builtin).ref(c19Snap(cur))
	o := h.exec(src)
	if !h.judge(builtin, src, ref, o) {
		return nil
	}
	kv := &c19KVar{name: name, kind: c19KeptResultKind[builtin], producer: builtin, from: arg.name, model: c19Snap(o.Val)}
	h.vars = append(h.vars, kv)
	h.conv = builtin
	h.verify(kv, src)
	h.conv = ""
	return kv
}

// withBuffer creates buf = bytes.NewBufferString(<host string>) through the script's import.
func (h *c19Kept) withBuffer(content string) bool {
	h.e.Define("bs", content)
	h.defs["bs"] = ank.Render(content)
	h.log = append(h.log, "(host) Define(bs, "+h.defs["bs"]+")")
	if o := h.exec("bytes = import(\"bytes\")\nbuf = bytes.NewBufferString(bs)"); o.Err != nil || o.Panicked {
		h.c.Tag("kept:buffer:unavailable") // the tables phase judges what import offers
		return false
	}
	h.buf = &c19KVar{name: "buf", kind: "buffer"}
	return true
}

func (h *c19Kept) bufBytes() ([]byte, bool) {
	v, err := h.e.Get("buf")
	if err != nil {
		return nil, false
	}
	b, ok := v.(*bytes.Buffer)
	if !ok || b == nil {
		return nil, false
	}
	return append([]byte{}, b.Bytes()...), true
}

// convertBuf runs `<new> = toString(buf.Bytes())`.
func (h *c19Kept) convertBuf() *c19KVar {
	cur, ok := h.bufBytes()
	if !ok {
		return nil
	}
	name := h.newName("k")
	src := name + " = toString(buf.Bytes())"
	o := h.exec(src)
	if !h.judge("toString", src, c19RefToString(cur), o) {
		return nil
	}
	kv := &c19KVar{name: name, kind: "string", producer: "toString", from: "buf", model: c19Snap(o.Val)}
	h.vars = append(h.vars, kv)
	h.conv = "toString"
	h.verify(kv, src)
	h.conv = ""
	return kv
}

// bufOp lets the Go API reuse the buffer's memory.
func (h *c19Kept) bufOp(r c19Rng) {
	cur, ok := h.bufBytes()
	if !ok {
		return
	}
	word := func() string {
		n := r.Intn(len(cur) + 3)
		b := make([]byte, n)
		for i := range b {
			b[i] = byte('A' + r.Intn(26))
			if i < len(cur) && b[i] == cur[i] {
				b[i] = '#' // every reused byte gets another content
			}
		}
		return string(b)
	}
	var src string
	switch r.Intn(4) {
	case 0, 1:
		src = "buf.Reset()\nbuf.WriteString(" + strconv.Quote(word()) + ")"
	case 2:
		src = "buf.Truncate(" + strconv.Itoa(r.Intn(len(cur)+1)) + ")\nbuf.WriteString(" + strconv.Quote(word()) + ")"
	default:
		k := r.Intn(len(cur) + 1)
		n := '!' + r.Intn(90)
		if k < len(cur) && int(cur[k]) == n {
			n++
		}
		src = "buf.Truncate(" + strconv.Itoa(k) + ")\nbuf.WriteByte(" + strconv.Itoa(n) + ")"
	}
	o := h.exec(src)
	if o.Panicked || o.Err != nil {
		h.c.Tag("kept:bufop:refused") // calling Go methods is other properties' business
	} else {
		h.c.Tag("kept:bufop")
	}
	h.verify(h.buf, src)
}

// c19StoreOps are the ways a history stores into a slice variable.
const (
	c19StoreScript = iota // v[i] = lit
	c19StoreSub           // t = v[lo:]; t[i-lo] = lit
	c19StoreHost          // the host stores into the Go slice it reads from the environment
	c19StoreRead          // (bytes) strings.Reader.Read(v): a Go API fills the same bytes again
	c19StoreAppend        // (bytes) t = v[:i]; t += lit: an append into the shared backing array
	c19StoreNested        // (list) a store into an element that is itself a byte slice
	c19StoreOps
)

// storeAt stores into position i of the slice variable v; the new content differs from the old.
func (h *c19Kept) storeAt(v *c19KVar, op, i int, r c19Rng) {
	cur, err := h.e.Get(v.name)
	if err != nil {
		return
	}
	rv := reflect.ValueOf(cur)
	if !rv.IsValid() || rv.Kind() != reflect.Slice || i < 0 || i >= rv.Len() {
		return
	}
	et := rv.Type().Elem()
	lit, gv, ok := c19OtherLit(r, et, rv.Index(i))
	if !ok {
		return
	}
	var src string
	switch op {
	case c19StoreScript:
		src = v.name + "[" + strconv.Itoa(i) + "] = " + lit
	case c19StoreSub:
		lo := r.Intn(i + 1)
		src = "t = " + v.name + "[" + strconv.Itoa(lo) + ":]\nt[" + strconv.Itoa(i-lo) + "] = " + lit
	case c19StoreHost:
		step := fmt.Sprintf("(host) %s[%d] = %s", v.name, i, lit)
		h.log = append(h.log, step)
		rv.Index(i).Set(gv)
		h.c.Tag("kept:store:host")
		h.verify(v, step)
		return
	case c19StoreRead:
		b, isBytes := cur.([]byte)
		if !isBytes {
			return
		}
		// the reader delivers, for every byte of v, another byte than the one it holds
		fill := make([]byte, len(b))
		for k := range b {
			fill[k] = b[k] + 1 + byte(r.Intn(200))
		}
		h.e.Define("rd", strings.NewReader(string(fill)))
		h.log = append(h.log, "(host) Define(rd, strings.NewReader("+ank.Render(string(fill))+"))")
		src = "rd.Read(" + v.name + ")"
	case c19StoreAppend:
		if et.Kind() != reflect.Uint8 {
			return
		}
		src = "t = " + v.name + "[:" + strconv.Itoa(i) + "]\nt += " + lit
	case c19StoreNested:
		eb, isBytes := rv.Index(i).Interface().([]byte)
		if !isBytes || len(eb) == 0 {
			return
		}
		j := r.Intn(len(eb))
		n := (int(eb[j]) + 1 + r.Intn(200)) % 256
		if r.Intn(2) == 0 {
			step := fmt.Sprintf("(host) %s[%d][%d] = %d", v.name, i, j, n)
			h.log = append(h.log, step)
			eb[j] = byte(n)
			h.c.Tag("kept:store:host-nested")
			h.verify(v, step)
			return
		}
		src = fmt.Sprintf("%s[%d][%d] = %d", v.name, i, j, n)
	default:
		return
	}
	o := h.exec(src)
	switch {
	case o.Panicked:
		// a store is ordinary script code; its own semantics belong to other properties
		h.c.Tag("kept:store:panicked")
	case o.Err != nil:
		h.log[len(h.log)-1] += "   // refused: " + o.Err.Error()
		h.c.Tag("kept:store:refused")
	default:
		h.c.Tag("kept:store:script")
	}
	h.verify(v, src)
}

// storeMap inserts into / deletes from a map variable (the argument of keys).
func (h *c19Kept) storeMap(v *c19KVar, r c19Rng) {
	cur, err := h.e.Get(v.name)
	if err != nil {
		return
	}
	rv := reflect.ValueOf(cur)
	if !rv.IsValid() || rv.Kind() != reflect.Map || rv.IsNil() {
		return
	}
	var have []string
	for _, k := range rv.MapKeys() {
		if k.Kind() == reflect.Interface {
			k = k.Elem()
		}
		if k.IsValid() && k.Kind() == reflect.String {
			have = append(have, k.String())
		}
	}
	sort.Strings(have)
	var src string
	if len(have) > 0 && r.Intn(2) == 0 {
		src = "delete(" + v.name + ", " + strconv.Quote(have[r.Intn(len(have))]) + ")"
	} else {
		src = v.name + "[" + strconv.Quote("n"+strconv.Itoa(r.Intn(1000))) + "] = " + strconv.Itoa(r.Intn(100))
	}
	if o := h.exec(src); o.Panicked || o.Err != nil {
		h.c.Tag("kept:store:refused")
	} else {
		h.c.Tag("kept:store:map")
	}
	h.verify(v, src)
}

// useAsKey stores under a key that a conversion produced: mk[toString(b)] = n, mk[toString(buf.Bytes())] = n
// or mk[k] = n for a kept string k.
func (h *c19Kept) useAsKey(arg *c19KVar) {
	if !h.keyMap {
		if o := h.exec("mk = {}"); o.Err != nil || o.Panicked {
			return
		}
		h.keyMap = true
	}
	var key, expr, origin string
	switch {
	case arg == h.buf && h.buf != nil:
		cur, ok := h.bufBytes()
		if !ok {
			return
		}
		key, expr, origin = string(cur), "toString(buf.Bytes())", "toString"
	case arg.kind == "bytes":
		cur, err := h.e.Get(arg.name)
		b, ok := cur.([]byte)
		if err != nil || !ok {
			return
		}
		key, expr, origin = string(b), "toString("+arg.name+")", "toString"
	case arg.kind == "string":
		s, ok := arg.model.(string)
		if !ok {
			return
		}
		key, expr, origin = string(append([]byte(nil), s...)), arg.name, arg.producer
	default:
		return
	}
	h.seq++
	n := int64(h.seq)
	src := "mk[" + expr + "] = " + strconv.FormatInt(n, 10)
	o := h.exec(src)
	if o.Panicked || o.Err != nil {
		h.c.Tag("kept:mapkey:refused") // map stores are other properties' business
		h.keyMap = false
		return
	}
	h.c.Tag("kept:mapkey")
	h.keyN[key] = n
	h.keyFrom[key] = origin
	if expr != arg.name {
		h.conv = "toString"
	}
	h.verify(nil, src)
	h.conv = ""
}

func c19Blame(s string) string {
	if s == "" {
		return "host"
	}
	return s
}

// verify compares every variable except the one the last step stored into with its private copy
// (the stored-into variable's copy is refreshed from its actual value: stores are not judged).
func (h *c19Kept) verify(stored *c19KVar, step string) {
	c := h.c
	for _, w := range h.vars {
		actual, err := h.e.Get(w.name)
		c.Events(1)
		if w == stored {
			if err == nil {
				w.model = c19Snap(actual)
			}
			continue
		}
		if err == nil && reflect.DeepEqual(actual, w.model) {
			continue
		}
		// which conversion tied the two values together
		who, rel := c19Blame(w.producer), "changed-by-unrelated-store"
		switch {
		case h.conv != "":
			who, rel = h.conv, "call-changed-kept-value"
		case stored != nil && w.from == stored.name:
			rel = "result-follows-argument"
		case stored != nil && stored.from == w.name:
			who, rel = c19Blame(stored.producer), "argument-follows-result"
		}
		in := h.input(step)
		in["variable"] = w.name
		c.Violation("history:kept:"+who+":"+rel,
			fmt.Sprintf("after step %d (%s) the kept variable %s (%s) is %s; it was %s and nothing has been stored into it", len(h.log), c19Clip(step, 120),
				w.name, c19Origin(w), c19Clip(ank.Render(actual), 300), c19Clip(ank.Render(w.model), 300)), in)
		if err == nil {
			w.model = c19Snap(actual) // one report per change
		}
	}
	if h.keyMap {
		h.verifyKeyMap(step)
	}
}

func c19Origin(w *c19KVar) string {
	if w.producer == "" {
		return "bound by the host"
	}
	return "= " + w.producer + "(" + w.from + ")"
}

// verifyKeyMap: the map mk holds exactly the keys the conversions produced when they were used as
// keys, seen from Go (lookup with a fresh string) and from the script (mk[q], keys(mk)).
func (h *c19Kept) verifyKeyMap(step string) {
	c := h.c
	actual, err := h.e.Get("mk")
	m, ok := actual.(map[interface{}]interface{})
	if err != nil || !ok {
		c.Tag("unjudged:kept:mapkey") // the dynamic type of a map literal is other properties' business
		h.keyMap = false
		return
	}
	keys := make([]string, 0, len(h.keyN))
	for k := range h.keyN {
		keys = append(keys, k)
	}
	sort.Strings(keys)
	bad, badKey := "", ""
	if len(m) != len(h.keyN) {
		bad = fmt.Sprintf("the map has %d entries, %d distinct keys were stored", len(m), len(h.keyN))
	}
	for _, k := range keys {
		fresh := string(append([]byte(nil), k...))
		c.Events(1)
		if v, found := m[fresh]; !found || v != interface{}(h.keyN[k]) {
			bad, badKey = fmt.Sprintf("Go lookup of key %s gives %s (found=%v), want %d", ank.Render(k), ank.Render(v), found, h.keyN[k]), k
			break
		}
	}
	if bad == "" {
		for i, k := range keys {
			if i >= 4 {
				break
			}
			h.e.Define("q", string(append([]byte(nil), k...)))
			o := ank.Exec(h.e, "mk[q]")
			c.Events(1)
			if o.Panicked || o.Err != nil || o.Val != interface{}(h.keyN[k]) {
				bad, badKey = fmt.Sprintf("the script reads mk[q] with q = %s as %s (err=%s), want %d", ank.Render(k), ank.Render(o.Val), ank.ErrText(o.Err), h.keyN[k]), k
				break
			}
		}
	}
	if bad == "" {
		ks := c19KeySet{}
		for _, k := range keys {
			ks[k]++
		}
		o := ank.Exec(h.e, "keys(mk)")
		c.Events(1)
		if o.Panicked || o.Err != nil {
			bad = "keys(mk) failed: " + ank.ErrText(o.Err) + o.PanicVal
		} else if same, _ := c19Same(o.Val, ks); !same {
			bad = "keys(mk) is " + c19Clip(ank.Render(o.Val), 300) + ", want " + c19RenderWant(ks)
			for _, k := range keys {
				found := false
				if l, isList := o.Val.([]interface{}); isList {
					for _, el := range l {
						if el == interface{}(k) {
							found = true
						}
					}
				}
				if !found {
					badKey = k
					break
				}
			}
		}
	}
	if bad == "" {
		return
	}
	who := "toString"
	if badKey != "" {
		who = c19Blame(h.keyFrom[badKey])
	}
	in := h.input(step)
	in["mk"] = c19Clip(ank.Render(actual), 400)
	c.Violation("history:kept:"+who+":mapkey", fmt.Sprintf("after step %d (%s) the map keyed by conversion results is corrupted: %s", len(h.log), c19Clip(step, 120), bad), in)
	h.keyMap = false // one report per history
}

// c19KeptBytes builds a byte slice of length n (a mix of ASCII, UTF-8 sequences and arbitrary bytes).
func c19KeptBytes(r c19Rng, n int, spare bool) []byte {
	b := make([]byte, n, n+8)
	for i := range b {
		switch r.Intn(6) {
		case 0:
			b[i] = byte(r.Intn(256))
		case 1:
			b[i] = byte(0xc3)
		default:
			b[i] = byte('a' + r.Intn(26))
		}
	}
	if spare {
		return b
	}
	return b[:n:n]
}

// c19KeptList: a script-style list whose elements include byte slices (toStringSlice converts them).
func c19KeptList(r c19Rng) []interface{} {
	n := 1 + r.Intn(5)
	out := make([]interface{}, n)
	for i := range out {
		switch r.Intn(7) {
		case 0, 1:
			out[i] = c19KeptBytes(r, 1+r.Intn(4), r.Intn(2) == 0)
		case 2:
			out[i] = int64(r.Intn(300))
		case 3:
			out[i] = "s" + strconv.Itoa(r.Intn(100))
		case 4:
			out[i] = float64(r.Intn(100)) / 4
		case 5:
			out[i] = r.Intn(2) == 0
		default:
			out[i] = nil
		}
	}
	return out
}

func c19KeptMap(r c19Rng) interface{} {
	n := r.Intn(5)
	if r.Intn(2) == 0 {
		m := map[string]interface{}{}
		for i := 0; i < n; i++ {
			m["k"+strconv.Itoa(r.Intn(50))] = int64(i)
		}
		return m
	}
	m := map[interface{}]interface{}{}
	for i := 0; i < n; i++ {
		if r.Intn(3) == 0 {
			m[int64(r.Intn(50))] = "v"
		} else {
			m["k"+strconv.Itoa(r.Intn(50))] = int64(i)
		}
	}
	return m
}

// c19RandKept runs one PRNG-built kept-results history.
func c19RandKept(c *wk.Case, r *rand.Rand) {
	h := c19NewKept(c)
	// sources
	nsrc := 0
	for _, p := range r.Perm(5)[:1+r.Intn(3)] {
		switch p {
		case 0:
			h.host("bytes", h.newName("b"), c19KeptBytes(r, r.Intn(10), r.Intn(2) == 0))
		case 1:
			h.host("string", h.newName("s"), string(c19KeptBytes(r, r.Intn(10), false)))
		case 2:
			if !h.withBuffer(string(c19KeptBytes(r, 1+r.Intn(10), false))) {
				continue
			}
		case 3:
			h.host("list", h.newName("x"), c19KeptList(r))
		case 4:
			h.host("map", h.newName("m"), c19KeptMap(r))
		}
		nsrc++
	}
	if nsrc == 0 {
		h.host("bytes", h.newName("b"), c19KeptBytes(r, 1+r.Intn(10), false))
	}
	pick := func(kinds ...string) *c19KVar {
		var cand []*c19KVar
		for _, v := range h.vars {
			for _, k := range kinds {
				if v.kind == k {
					cand = append(cand, v)
				}
			}
		}
		if len(cand) == 0 {
			return nil
		}
		return cand[r.Intn(len(cand))]
	}
	typed := []string{"toStringSlice", "toIntSlice", "toFloatSlice", "toBoolSlice"}
	steps := 6 + r.Intn(12)
	for k := 0; k < steps; k++ {
		act := r.Intn(10)
		if k < 2 {
			act = 0 // something must be kept before stores mean anything
		}
		switch {
		case act <= 2 && len(h.vars) < 14:
			// a conversion
			switch r.Intn(6) {
			case 0, 1:
				if h.buf != nil && r.Intn(2) == 0 {
					h.convertBuf()
				} else if v := pick("bytes"); v != nil {
					h.convert("toString", v)
				} else if h.buf != nil {
					h.convertBuf()
				}
			case 2:
				if v := pick("string"); v != nil {
					h.convert("toByteSlice", v)
				}
			case 3:
				if v := pick("string"); v != nil {
					h.convert("toRuneSlice", v)
				}
			case 4:
				if v := pick("list"); v != nil {
					h.convert(typed[r.Intn(len(typed))], v)
				}
			default:
				if v := pick("map"); v != nil {
					h.convert("keys", v)
				}
			}
		case act <= 4:
			// a conversion result used as a map key
			if h.buf != nil && r.Intn(3) == 0 {
				h.useAsKey(h.buf)
			} else if v := pick("bytes", "string"); v != nil {
				h.useAsKey(v)
			}
		case act == 5 && h.buf != nil:
			h.bufOp(r)
		default:
			// a store into an argument or into a result
			v := pick("bytes", "bytes", "runes", "list", "typed", "keys", "map")
			if v == nil {
				if h.buf != nil {
					h.bufOp(r)
				}
				continue
			}
			if v.kind == "map" {
				h.storeMap(v, r)
				continue
			}
			cur, _ := h.e.Get(v.name)
			rv := reflect.ValueOf(cur)
			if !rv.IsValid() || rv.Kind() != reflect.Slice || rv.Len() == 0 {
				continue
			}
			i := []int{0, rv.Len() - 1, r.Intn(rv.Len())}[r.Intn(3)]
			op := r.Intn(c19StoreOps)
			if v.kind != "bytes" && (op == c19StoreRead || op == c19StoreAppend) {
				op = r.Intn(3)
			}
			if op == c19StoreNested {
				if v.kind != "list" {
					op = r.Intn(3)
				} else if _, isBytes := rv.Index(i).Interface().([]byte); !isBytes {
					op = r.Intn(3)
				}
			}
			h.storeAt(v, op, i, r)
		}
	}
	c.Count("histories", 1)
	c.Count("kept-histories", 1)
}

// c19FixedKept: deterministic kept-results histories (case 0 of the phase). For every length 1..8,
// every way the byte slice came to be, every position and every way of storing: the string is kept
// (and, in every second history, first used as a map key), the store happens, and everything kept
// is looked at again; then the reverse direction and the buffer that reuses its memory.
func c19FixedKept(c *wk.Case) {
	r := c.Rng
	for n := 1; n <= 8; n++ {
		for src := 0; src < 4; src++ {
			for i := 0; i < n; i++ {
				for op := 0; op <= c19StoreAppend; op++ {
					for asKey := 0; asKey < 2; asKey++ {
						h := c19NewKept(c)
						var b *c19KVar
						switch src {
						case 0:
							b = h.host("bytes", "b", c19KeptBytes(r, n, false))
						case 1:
							b = h.host("bytes", "b", c19KeptBytes(r, n, true))
						case 2:
							s := h.host("string", "s", string(c19KeptBytes(r, n, false)))
							b = h.convert("toByteSlice", s)
						case 3:
							// the script makes the read buffer itself and a Go reader fills it
							if o := h.exec("b = make([]byte, " + strconv.Itoa(n) + ")"); o.Err != nil || o.Panicked {
								c.Tag("kept:make:refused") // make is other properties' business
								continue
							}
							v, _ := h.e.Get("b")
							b = &c19KVar{name: "b", kind: "bytes", model: c19Snap(v)}
							h.vars = append(h.vars, b)
							h.storeAt(b, c19StoreRead, 0, r)
						}
						if b == nil {
							continue
						}
						k := h.convert("toString", b)
						if asKey == 1 {
							h.useAsKey(b)
						}
						h.storeAt(b, op, i, r)
						h.convert("toString", b)
						if k != nil && asKey == 1 {
							h.useAsKey(k)
						}
						h.storeAt(b, (op+1)%(c19StoreAppend+1), n-1-i, r)
						c.Count("histories", 1)
						c.Count("kept-histories", 1)
					}
				}
			}
		}
		// the reverse direction: stores into the slice forms leave the string, the kept strings and
		// the sibling results alone
		for i := 0; i < n; i++ {
			h := c19NewKept(c)
			s := h.host("string", "s", strings.Repeat("é", n/2)+string(c19KeptBytes(r, n-n/2, false)))
			b1, b2 := h.convert("toByteSlice", s), h.convert("toByteSlice", s)
			r1, r2 := h.convert("toRuneSlice", s), h.convert("toRuneSlice", s)
			for op, v := range []*c19KVar{b1, r1, b2, r2} {
				if v != nil {
					h.storeAt(v, op%3, i, r)
				}
			}
			if b1 != nil {
				k := h.convert("toString", b1)
				h.storeAt(b1, c19StoreScript, i, r)
				if k != nil {
					if b3 := h.convert("toByteSlice", k); b3 != nil {
						h.storeAt(b3, c19StoreHost, i, r)
					}
				}
			}
			c.Count("histories", 1)
			c.Count("kept-histories", 1)
		}
		// a Go API that reuses its buffer
		for m := 0; m <= n+1; m++ {
			for asKey := 0; asKey < 2; asKey++ {
				h := c19NewKept(c)
				if !h.withBuffer(string(c19KeptBytes(r, n, false))) {
					continue
				}
				h.convertBuf()
				if asKey == 1 {
					h.useAsKey(h.buf)
				}
				src := "buf.Reset()\nbuf.WriteString(" + strconv.Quote(strings.Repeat("#", m)) + ")"
				if m == n+1 {
					src = "buf.Truncate(" + strconv.Itoa(n/2) + ")\nbuf.WriteByte(35)"
				}
				h.exec(src)
				h.verify(h.buf, src)
				h.convertBuf()
				h.bufOp(r)
				c.Count("histories", 1)
				c.Count("kept-histories", 1)
			}
		}
	}
	// typed-slice forms and keys: results kept across stores into the list / the map
	for rep := 0; rep < 40; rep++ {
		h := c19NewKept(c)
		x := h.host("list", "x", []interface{}{c19KeptBytes(r, 3, rep%2 == 0), int64(65), "str", nil, 2.5, true, c19KeptBytes(r, 1, false)})
		var res []*c19KVar
		for _, name := range []string{"toStringSlice", "toIntSlice", "toFloatSlice", "toBoolSlice"} {
			res = append(res, h.convert(name, x))
		}
		for i := 0; i < 7; i++ {
			if i == 0 || i == 6 {
				// first into the bytes of the element, then the element itself is replaced
				h.storeAt(x, c19StoreNested, i, r)
				h.storeAt(x, c19StoreNested, i, r)
			}
			h.storeAt(x, []int{c19StoreScript, c19StoreHost, c19StoreSub}[(rep+i)%3], i, r)
		}
		for _, v := range res {
			if v != nil {
				h.storeAt(v, rep%3, r.Intn(7), r)
			}
		}
		h.convert("toStringSlice", x)
		m := h.host("map", "m", c19KeptMap(r))
		h.convert("keys", m)
		for j := 0; j < 4; j++ {
			h.storeMap(m, r)
		}
		if ks := h.convert("keys", m); ks != nil {
			if l, ok := ks.model.([]interface{}); ok && len(l) > 0 {
				h.storeAt(ks, rep%3, r.Intn(len(l)), r)
			}
		}
		h.storeMap(m, r)
		c.Count("histories", 1)
		c.Count("kept-histories", 1)
	}
}

// ---------------------------------------------------------------------------------------------
// misuse: the call is made by a defer statement
// ---------------------------------------------------------------------------------------------

// c19DeferForms: %s is the misused call. In every form the body itself succeeds, so the only
// failure of the run is the deferred call's; "reported as an error" then means that vm.Execute
// returns an error (and never panics).
var c19DeferForms = []struct{ name, src string }{
	{"top", "defer %s\n1"},
	{"top-among", "defer typeOf(1)\ndefer %s\ndefer typeOf(2)\n1"},
	{"top-block", "if true { defer %s }\n1"},
	{"top-loop", "for i = 0; i < 2; i++ { defer %s }\n1"},
	{"func", "func f() { defer %s; return 1 }\nf()"},
	{"anon", "func() { defer %s }()"},
	{"func-deferred", "func f() { defer %s }\ndefer f()\n1"},
	{"func-nested", "func g() { defer %s; return 2 }\nfunc f() { return g() }\nf()"},
}

// c19MisuseDeferred runs the misuses of builtin `name` as deferred calls.
func c19MisuseDeferred(c *wk.Case, name string) {
	if name == "len" {
		return // len is syntax, not a call: `defer len(x)` is not a defer statement (parse error)
	}
	reps := c19Reps()
	run := func(call string, val c19Val, defs map[string]interface{}, mustErr bool) {
		for _, form := range c19DeferForms {
			e := ank.NewCoreEnv()
			if val.src != "" {
				if o := ank.Exec(e, "x = "+val.src); o.Err != nil || o.Panicked {
					c.Inconclusive("value-setup-failed", val.src, val.src)
					return
				}
			} else {
				e.Define("x", val.v)
			}
			for k, v := range defs {
				e.Define(k, v)
			}
			src := fmt.Sprintf(form.src, call)
			xv, _ := e.Get("x")
			input := map[string]string{"src": src, "x": c19Clip(ank.Render(xv), 300), "x_type": fmt.Sprint(reflect.TypeOf(xv))}
			if xs, ok := defs["xs"]; ok {
				input["xs"] = c19Clip(ank.Render(xs), 300)
			}
			c.Begin(input)
			o := ank.Exec(e, src)
			c.Events(1)
			c.Eval(src+"|"+val.name+"|"+input["xs"], mustErr)
			c.Tag("misuse:defer:" + form.name)
			sig := "misuse:" + name + ":defer-" + form.name
			switch {
			case o.Panicked:
				c.Violation(sig+":panic", "panic out of vm.Execute: "+o.PanicVal+" ("+o.PanicSig+")", input)
			case mustErr && o.Err == nil:
				c.Violation(sig+":noerror", "misuse in a deferred call not reported as an error; the run returned "+ank.Render(o.Val), input)
			}
		}
	}
	if name == "range" {
		none := c19Val{name: "nil", v: nil}
		// wrong counts and zero steps (plain calls: range phase)
		for _, call := range []string{"range()", "range(1, 2, 3, 4)", "range(1, 2, 3, 4, 5)", "range(1, 2, 0)", "range(2, 1, 0)", "range(0, 0, 0)", "range(x, 2, 3, 4)"} {
			run(call, none, nil, true)
		}
		for _, xs := range [][]interface{}{{}, {int64(1), int64(2), int64(3), int64(4)}, {int64(1), int64(2), int64(0)}, {int64(0), int64(0), int64(0)}, {int64(1), int64(2), int64(3), int64(4), int64(5)}} {
			run("range(xs...)", none, map[string]interface{}{"xs": xs}, true)
		}
		// wrong argument types (the rule of c19MisuseCase: kinds no conversion relates to an integer must
		// be errors, the others must not panic)
		for _, val := range reps {
			xv := val.v
			if val.src == "" && xv != nil {
				switch k := reflect.ValueOf(xv).Kind(); {
				case c19IsInt(k), c19IsUint(k), c19IsFloat(k), k == reflect.Complex64, k == reflect.Complex128:
					continue
				}
			}
			must := val.src != ""
			if val.src == "" && xv != nil {
				switch reflect.ValueOf(xv).Kind() {
				case reflect.Map, reflect.Slice, reflect.Array, reflect.Func, reflect.Chan, reflect.Struct, reflect.Ptr:
					must = true
				}
			}
			for _, call := range []string{"range(x)", "range(0, x)", "range(0, 5, x)"} {
				run(call, val, nil, must)
			}
		}
		return
	}
	// wrong argument counts, direct and spread (too many spread values: only "no panic", see c19MisuseCase)
	for _, argc := range []int{0, 2, 3} {
		for _, val := range reps {
			if argc == 0 && val.name != "nil" {
				continue
			}
			args := make([]string, argc)
			for i := range args {
				args[i] = "x"
			}
			run(name+"("+strings.Join(args, ", ")+")", val, nil, true)
			if val.src == "" && (argc == 0 || val.name == "nil" || val.name == "map-si" || val.name == "bytes") {
				xs := make([]interface{}, argc)
				for i := range xs {
					xs[i] = val.v
				}
				run(name+"(xs...)", val, map[string]interface{}{"xs": xs}, argc == 0)
			}
		}
	}
	// wrong argument types: every value for which the builtin's reference demands an error
	b := c19BuiltinByName(name)
	if b.ref == nil {
		return
	}
	for _, val := range reps {
		if val.src != "" {
			continue
		}
		ref := b.ref(val.v)
		if !ref.judged || !ref.wantErr {
			continue
		}
		c.Tag("misuse:defer:type:" + name)
		run(name+"(x)", val, nil, true)
	}
}
