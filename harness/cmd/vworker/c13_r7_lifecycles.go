package main

// C13, round 7: phase "lifecycles" (race build): copies of scopes in unusual lifecycle states.
//
// The statement says "A copy is a consistent snapshot of its scope" and that no combination of
// concurrent environment operations produces a data race or a lost update inside the
// environment. A snapshot that is a scope of its own has two consequences every other phase
// leaves unobserved, because they read a copy once and drop it:
//   - what the copy shows does not change when the scope it was taken from is written later,
//   - an operation on the copy is not an operation on the scope: the scope's own results are
//     explained by the scope's own operations alone (and the same between two copies).
// An implementation can get this right for the ordinary scope (a table with some symbols) and
// wrong for a scope in an unusual state of its life: never used (no table yet), used and emptied
// again (a table with nothing in it), emptied by a descendant's DeleteGlobal, emptied after
// hundreds of Define/Delete cycles or after it had grown large, a scope that only ever saw
// failing operations, one that has types but no values, one that is itself a copy, the empty
// intermediate scopes of a chain that DeepCopy walks. The generator therefore enumerates
// (lifecycle state of the copied scope) x (way of copying) and then WRITES BOTH SIDES.
//
// Even cases, mode "sequential": one goroutine, so every result is fixed by a dictionary model
// of the scopes (one dictionary per scope; Define/Delete act on the scope, Set/DeleteGlobal on
// the first scope of the chain that binds the name, DefineGlobal on the last). After the copies
// are taken and after every later operation ALL views (every scope of the chain, every copy)
// are read in full (listing, Get of every name of the pool, type listing, Type, the lines of
// String) and compared with the model.
//
// Odd cases, mode "concurrent" (the race detector listens): rounds of two kinds.
//   split: a scope in a PRNG state and 1-3 copies of it (copies of copies included) get ONE
//          writing goroutine each, all started together; the names are the same on every side,
//          the values name the side. A scope with one writer shows that writer's program order
//          and nothing else: Get, listings, String, copies of it are fixed exactly.
//   churn: the owner of a scope defines a_0..a_n-1 in order and deletes them in order, over and
//          over, so that the scope is empty-after-use again and again; 2-3 goroutines copy it at
//          moments of their choosing, check that the copy is a moment of the scope (the names
//          present form a prefix or a suffix and carry one generation), then write their PRIVATE
//          copy and read it back while the owner goes on: the copy shows the snapshot plus the
//          copier's own writes, the scope shows the owner's writes only.
// Nothing is decided from the clock.

import (
	"fmt"
	"math/rand"
	"reflect"
	"runtime"
	"sort"
	"strings"
	"sync"
	"sync/atomic"
	"time"

	"github.com/mattn/anko/env"

	"verifharness/internal/ank"
	"verifharness/internal/fw"
	"verifharness/internal/wk"
)

const c13r7LifeRule = " phase lifecycles (race build): round k copies a scope whose lifecycle state is states[k mod 13] from {never used, emptied (1-4 symbols bound in five ways and deleted by Delete/DeleteGlobal), emptied by a descendant's DeleteGlobal, emptied after 2-300 Define/Delete cycles, emptied after growing to 20-200 symbols, a module made and deleted, types only, types + emptied values, one symbol left, populated, failed operations only, itself a copy of an emptied scope, emptied then populated}, each optionally with a lookup object installed, in a chain of 1-4 scopes whose other scopes are in PRNG states (mostly empty ones), by ops[(k/13) mod 4] from {Copy, DeepCopy, the script statements 'a = m' and 'var a = m' on a scope bound as m}; 0-2 further copies are taken of the scope or of an earlier copy. Even cases (sequential): 4-12 later operations from {Define, DefineValue of a cell, Define nil, Set, Delete, DeleteGlobal, DefineGlobal, DefineReflectType, DefineGlobalReflectType, SetExternalLookup, another copy that is kept, a copy that is dropped, String, listing} on PRNG sides (the scope, its chain, the copies); after the copying and after every operation every view is read in full (GetValueSymbols, Get of 8 names, GetTypeSymbols, Type of 4 names, the 'name = ' lines of String) and compared with a per-scope dictionary model; the signature names the way of copying, the anomaly (copy-differs-from-scope, copying-changes-the-scope, copy-not-independent = a view outside the written chain changed, write-not-read-back) and the table. Odd cases (concurrent, GOMAXPROCS 2/4/8/16), rounds of two kinds: split = the scope and 1-3 copies get one writing goroutine each x 20-60 operations on the SAME six names with values naming the side, every read of a side (Get, listing, String, Type, copies of it) fixed by its sole writer's program order, plus 1-2 goroutines that only read all sides; churn = the owner defines a_0..a_n-1 (n 1-3) in order and deletes them in order for 20-80 generations on a scope that started in an empty state while 2-3 goroutines copy it, check the copy is a moment of the scope (present names form a prefix or suffix with one odd generation, generations seen never go back), write their private copy (new names and the owner's names) and read it back in full, keep the last two copies and read them again later. Non-trivial = a round in which both the scope and a copy were written after the copying."

const c13r7LifeAssumption = "phase lifecycles: Define/Delete act on the scope itself, Set/DeleteGlobal on the first scope of the chain binding the name, DefineGlobal on the outermost scope (the documented one-at-a-time behaviour, as in the dictionary model of phase sched). Whether Copy shares or clones the ANCESTORS of the scope is not in the statement: in a round with a Copy no ancestor of the copied scope is written after the copying, so both answers give the same results; DeepCopy and the script assignment of a scope are taken to clone the chain, and the script forms are judged only when they yield a scope other than the one assigned (an alias is counted as excluded); in the sequential rounds they are used on a scope without ancestors only, in the concurrent rounds the one ancestor is read-only and only the scope itself and its copies are written and read. Lookup objects are installed but never asked. The format of String is not in the statement: only lines 'name = ...' of names of the pool are read"

func c13r7LifePhase(tier string) fw.Phase {
	n := 8
	if tier == "thorough" {
		n = 160
	}
	return fw.Phase{Name: "lifecycles", Race: true, Cases: n, Chunk: 1, TimeoutS: 900, Jobs: 8}
}

// ---------------------------------------------------------------------------------------------
// the model: one dictionary per scope

type c13r7Node struct {
	label  string
	e      *env.Env // nil: an ancestor inside a deep copy, reachable only through its descendant
	parent *c13r7Node
	vals   map[string]interface{} // int64, string or nil (a nil binding)
	types  map[string]reflect.Type
	side   int    // 0 = the scopes built for the round, i > 0 = the i-th scope obtained by copying
	state  string // the lifecycle state it was brought into
}

func c13r7NewNode(label string, e *env.Env, parent *c13r7Node, side int) *c13r7Node {
	return &c13r7Node{label: label, e: e, parent: parent, side: side, vals: map[string]interface{}{}, types: map[string]reflect.Type{}}
}

func (n *c13r7Node) root() *c13r7Node {
	for n.parent != nil {
		n = n.parent
	}
	return n
}

// holder: the first scope of the chain that binds k
func (n *c13r7Node) holder(k string) *c13r7Node {
	for ; n != nil; n = n.parent {
		if _, ok := n.vals[k]; ok {
			return n
		}
	}
	return nil
}

func (n *c13r7Node) typeHolder(k string) *c13r7Node {
	for ; n != nil; n = n.parent {
		if _, ok := n.types[k]; ok {
			return n
		}
	}
	return nil
}

// inChain: x is n or an ancestor of n
func (n *c13r7Node) inChain(x *c13r7Node) bool {
	for ; n != nil; n = n.parent {
		if n == x {
			return true
		}
	}
	return false
}

func (n *c13r7Node) cloneTables(label string, side int) *c13r7Node {
	c := c13r7NewNode(label, nil, n.parent, side)
	c.state = n.state
	for k, v := range n.vals {
		c.vals[k] = v
	}
	for k, t := range n.types {
		c.types[k] = t
	}
	return c
}

// cloneDeep: the scope and every ancestor get dictionaries of their own
func (n *c13r7Node) cloneDeep(label string, side int) *c13r7Node {
	c := n.cloneTables(label, side)
	for p, q := c, n.parent; q != nil; q = q.parent {
		p.parent = q.cloneTables(label+"^", side)
		p = p.parent
	}
	return c
}

var c13r7Pool = []string{"v0", "v1", "v2", "v3", "v4", "v5"}
var c13r7ValNames = []string{"v0", "v1", "v2", "v3", "v4", "v5", "q0", "zz"}
var c13r7TypeNames = []string{"T0", "T1", "T2", "TZ"}

func c13r7Cell(v int64) reflect.Value {
	cell := reflect.New(reflect.TypeOf(int64(0))).Elem()
	cell.SetInt(v)
	return cell
}

func c13r7SetOf(list []string) map[string]bool {
	m := map[string]bool{}
	for _, k := range list {
		m[k] = true
	}
	return m
}

func c13r7Keys(m map[string]interface{}) []string {
	a := make([]string, 0, len(m))
	for k := range m {
		a = append(a, k)
	}
	sort.Strings(a)
	return a
}

// c13r7CheckTop compares what the scope e itself holds (listings, String) with the dictionaries
// vals/types; "" = as expected, otherwise what differs and in which table.
func c13r7CheckTop(e *env.Env, vals map[string]interface{}, types map[string]reflect.Type) (what, table string) {
	got := e.GetValueSymbols()
	gs := c13r7SetOf(got)
	if len(got) != len(gs) || len(gs) != len(vals) {
		sort.Strings(got)
		return fmt.Sprintf("GetValueSymbols lists %v, the scope's own operations leave %v", got, c13r7Keys(vals)), "values"
	}
	for k := range vals {
		if !gs[k] {
			sort.Strings(got)
			return fmt.Sprintf("GetValueSymbols lists %v, the scope's own operations leave %v", got, c13r7Keys(vals)), "values"
		}
	}
	gt := e.GetTypeSymbols()
	ts := c13r7SetOf(gt)
	if len(gt) != len(ts) || len(ts) != len(types) {
		sort.Strings(gt)
		return fmt.Sprintf("GetTypeSymbols lists %v, the scope's own operations leave %d types", gt, len(types)), "types"
	}
	for k := range types {
		if !ts[k] {
			sort.Strings(gt)
			return fmt.Sprintf("GetTypeSymbols lists %v and lacks %s", gt, k), "types"
		}
	}
	txt := "\n" + e.String()
	for _, k := range c13r7ValNames {
		_, want := vals[k]
		if has := strings.Contains(txt, "\n"+k+" = "); has != want {
			return fmt.Sprintf("String has a line for %s: %v, the scope binds it: %v", k, has, want), "values"
		}
	}
	for _, k := range c13r7TypeNames {
		_, want := types[k]
		if has := strings.Contains(txt, "\n"+k+" = "); has != want {
			return fmt.Sprintf("String has a line for type %s: %v, the scope defines it: %v", k, has, want), "types"
		}
	}
	return "", ""
}

// c13r7CheckView reads the view n.e in full and compares it with the model chain of n.
func c13r7CheckView(n *c13r7Node) (what, table string) {
	if what, table = c13r7CheckTop(n.e, n.vals, n.types); what != "" {
		return
	}
	for _, k := range c13r7ValNames {
		v, err := n.e.Get(k)
		h := n.holder(k)
		switch {
		case h == nil && err == nil:
			return fmt.Sprintf("Get(%s) = %s, no scope of its chain binds the name", k, ank.Render(v)), "values"
		case h != nil && err != nil:
			return fmt.Sprintf("Get(%s) fails (%v), the name is bound to %s", k, err, ank.Render(h.vals[k])), "values"
		case h != nil && v != h.vals[k]:
			return fmt.Sprintf("Get(%s) = %s, the name is bound to %s", k, ank.Render(v), ank.Render(h.vals[k])), "values"
		}
	}
	for _, k := range c13r7TypeNames {
		t, err := n.e.Type(k)
		h := n.typeHolder(k)
		switch {
		case h == nil && err == nil:
			return fmt.Sprintf("Type(%s) = %v, no scope of its chain defines the type", k, t), "types"
		case h != nil && (err != nil || t != h.types[k]):
			return fmt.Sprintf("Type(%s) = %v (error %v), the type is defined as %v", k, t, err, h.types[k]), "types"
		}
	}
	return "", ""
}

// ---------------------------------------------------------------------------------------------
// lifecycle states

var c13r7LifeStates = []string{
	"never-used", "emptied", "emptied-by-descendant", "emptied-after-cycles", "emptied-after-growth",
	"emptied-module", "types-only", "types+emptied", "one-left", "populated", "failed-operations-only",
	"copy-of-emptied", "emptied-then-populated",
}

// the states in which the scope binds no value
var c13r7EmptyStates = []string{
	"never-used", "emptied", "emptied-by-descendant", "emptied-after-cycles", "emptied-after-growth",
	"emptied-module", "types-only", "types+emptied", "failed-operations-only",
}

// c13r7Bring takes the fresh scope n.e through a life that ends in the given state, one-at-a-time,
// and keeps the dictionaries of n in step. ("copy-of-emptied" is made by the caller.)
func c13r7Bring(rng *rand.Rand, n *c13r7Node, state string) {
	e := n.e
	n.state = state
	isRoot := n.parent == nil
	bind := func(k string, v int64) {
		switch rng.Intn(6) {
		case 0:
			e.Define(k, v)
			n.vals[k] = v
		case 1:
			e.DefineValue(k, c13r7Cell(v))
			n.vals[k] = v
		case 2:
			e.Define(k, nil)
			n.vals[k] = nil
		case 3:
			s := fmt.Sprintf("s%d", v)
			e.Define(k, s)
			n.vals[k] = s
		case 4:
			e.Define(k, int64(0))
			e.Set(k, v)
			n.vals[k] = v
		default:
			if isRoot {
				e.NewEnv().DefineGlobal(k, v)
			} else {
				e.DefineValue(k, reflect.ValueOf(v))
			}
			n.vals[k] = v
		}
	}
	unbind := func(k string, byDescendant bool) {
		switch {
		case byDescendant:
			e.NewEnv().NewEnv().DeleteGlobal(k)
		case rng.Intn(3) == 0:
			e.DeleteGlobal(k)
		default:
			e.Delete(k)
		}
		delete(n.vals, k)
	}
	names := func(cnt int) []string {
		all := append([]string{"q0", "q1", "q2"}, c13r7Pool...)
		rng.Shuffle(len(all), func(i, j int) { all[i], all[j] = all[j], all[i] })
		return all[:cnt]
	}
	empty := func(byDescendant bool) {
		ks := names(1 + rng.Intn(4))
		for i, k := range ks {
			bind(k, int64(100+i))
		}
		rng.Shuffle(len(ks), func(i, j int) { ks[i], ks[j] = ks[j], ks[i] })
		for _, k := range ks {
			unbind(k, byDescendant)
		}
	}
	someTypes := func() {
		for i, cnt := 0, 1+rng.Intn(3); i < cnt; i++ {
			k := c13r7TypeNames[rng.Intn(3)]
			t := c13r5Types[rng.Intn(len(c13r5Types))]
			if rng.Intn(2) == 0 {
				e.DefineReflectType(k, t)
			} else {
				e.DefineType(k, reflect.Zero(t).Interface())
			}
			n.types[k] = t
		}
	}
	populate := func() {
		for i, cnt := 0, 1+rng.Intn(5); i < cnt; i++ {
			bind(c13r7Pool[rng.Intn(len(c13r7Pool))], int64(200+i))
		}
	}
	switch state {
	case "never-used":
	case "emptied":
		empty(false)
	case "emptied-by-descendant":
		empty(true)
	case "emptied-after-cycles":
		for i, cnt := 0, 2+rng.Intn(299); i < cnt; i++ {
			k := fmt.Sprintf("q%d", i%3)
			bind(k, int64(i))
			if i%7 == 6 {
				e.Delete("never-defined")
			}
			unbind(k, false)
		}
	case "emptied-after-growth":
		cnt := 20 + rng.Intn(181)
		for i := 0; i < cnt; i++ {
			e.Define(fmt.Sprintf("g%d", i), int64(i))
		}
		for i := 0; i < cnt; i++ {
			e.Delete(fmt.Sprintf("g%d", i))
		}
	case "emptied-module":
		m, _ := e.NewModule("qm")
		if rng.Intn(2) == 0 {
			m.Define("inner", int64(1))
		}
		if rng.Intn(2) == 0 {
			e.Delete("qm")
		} else {
			e.DeleteGlobal("qm")
		}
	case "types-only":
		someTypes()
	case "types+emptied":
		if rng.Intn(2) == 0 {
			someTypes()
			empty(false)
		} else {
			empty(rng.Intn(2) == 0)
			someTypes()
		}
	case "one-left":
		ks := names(2 + rng.Intn(3))
		for i, k := range ks {
			bind(k, int64(100+i))
		}
		for _, k := range ks[1:] {
			unbind(k, false)
		}
	case "populated":
		populate()
		if rng.Intn(2) == 0 {
			someTypes()
		}
	case "failed-operations-only":
		// none of these binds anything, here or in an ancestor (no scope ever binds the name)
		e.Set("never-bound", int64(1))
		e.Delete("never-bound")
		e.Get("never-bound")
		e.Define("q.0", int64(1))
		e.DeleteGlobal("never-bound")
		e.Addr("never-bound")
		e.DefineType("q.t", int64(1))
		e.Type("never-bound")
		e.SetValue("never-bound", reflect.ValueOf(int64(1)))
	case "emptied-then-populated":
		empty(rng.Intn(2) == 0)
		populate()
	}
	if rng.Intn(6) == 0 {
		// an immutable lookup object that knows the one name kx, which nobody ever asks for
		e.SetExternalLookup(c13Lookup)
		n.state += "+lookup"
	}
}

// ---------------------------------------------------------------------------------------------
// the plan of a sequential round

var c13r7CopyOps = []string{"Copy", "DeepCopy", "script-assign", "script-var"}

type c13r7CopyPlan struct {
	Op   string `json:"op"`
	From int    `json:"from_view"`
}

type c13r7Step struct {
	Op   string `json:"op"`
	On   int    `json:"on_view"`
	Name string `json:"name,omitempty"`
	Val  int64  `json:"value,omitempty"`
}

type c13r7Round struct {
	Phase  string          `json:"phase"`
	Mode   string          `json:"mode"`
	Round  int             `json:"round"`
	States []string        `json:"lifecycle_states_root_to_leaf"`
	Seeds  []int64         `json:"lifecycle_seeds"`
	Target int             `json:"copied_scope"`
	Copies []c13r7CopyPlan `json:"copies"`
	Steps  []c13r7Step     `json:"operations_after_the_copying"`
}

var c13r7TopOps = []string{"Define", "Define", "Define", "DefineValue-cell", "Define-nil", "Set", "Set", "Delete", "Delete", "DeleteGlobal", "DefineReflectType", "SetExternalLookup", "copy-kept", "copy-dropped", "String", "listing"}
var c13r7ChainOps = []string{"DefineGlobal", "DefineGlobalReflectType", "Set", "DeleteGlobal"}

func c13r7PlanRound(rng *rand.Rand, id int) *c13r7Round {
	p := &c13r7Round{Phase: "lifecycles", Mode: "sequential", Round: id}
	state := c13r7LifeStates[id%len(c13r7LifeStates)]
	op := c13r7CopyOps[(id/len(c13r7LifeStates))%len(c13r7CopyOps)]
	script := strings.HasPrefix(op, "script")
	depth := 1 + rng.Intn(4)
	if script {
		depth = 1
	}
	p.Target = rng.Intn(depth)
	for i := 0; i < depth; i++ {
		st := c13r7EmptyStates[rng.Intn(len(c13r7EmptyStates))]
		if rng.Intn(3) == 0 {
			st = []string{"populated", "one-left", "emptied-then-populated"}[rng.Intn(3)]
		}
		if i == p.Target {
			st = state
		}
		p.States = append(p.States, st)
		p.Seeds = append(p.Seeds, rng.Int63())
	}
	views := depth
	if state == "copy-of-emptied" {
		views++ // the scope it was copied from stays a view
	}
	p.Copies = append(p.Copies, c13r7CopyPlan{op, p.Target})
	for i, more := 0, rng.Intn(3); i < more; i++ {
		o := c13r7CopyOps[rng.Intn(2)]
		if script && rng.Intn(2) == 0 {
			o = c13r7CopyOps[2+rng.Intn(2)]
		}
		from := p.Target
		if rng.Intn(2) == 0 {
			from = views + rng.Intn(len(p.Copies)) // a copy of a copy
		}
		p.Copies = append(p.Copies, c13r7CopyPlan{o, from})
	}
	for i, cnt := 0, 4+rng.Intn(9); i < cnt; i++ {
		s := c13r7Step{Op: c13r7TopOps[rng.Intn(len(c13r7TopOps))], On: rng.Intn(64), Name: c13r7Pool[rng.Intn(len(c13r7Pool))], Val: int64(1000*(id%1000+1) + i)}
		if rng.Intn(5) == 0 {
			s.Op = c13r7ChainOps[rng.Intn(len(c13r7ChainOps))] // replaced by its scope-only form in a round with a Copy
		}
		if s.Op == "DefineReflectType" || s.Op == "DefineGlobalReflectType" {
			s.Name = c13r7TypeNames[rng.Intn(3)]
		}
		if s.Op == "copy-kept" || s.Op == "copy-dropped" {
			s.Name = c13r7CopyOps[rng.Intn(2)]
		}
		p.Steps = append(p.Steps, s)
	}
	return p
}

// c13r7TakeCopy copies the scope e in the given way. cp == nil: the script form did not yield a
// scope (reason says why) or yielded e itself (reason "alias": nothing to judge).
func c13r7TakeCopy(op string, e *env.Env) (cp *env.Env, reason string) {
	switch op {
	case "Copy":
		return e.Copy(), ""
	case "DeepCopy":
		return e.DeepCopy(), ""
	}
	h := env.NewEnv()
	h.Define("m", e)
	src := "a = m"
	if op == "script-var" {
		src = "var a = m"
	}
	out := ank.Exec(h, src)
	if out.Panicked || out.Err != nil {
		return nil, fmt.Sprintf("script-does-not-run: %v %s", out.Err, out.PanicSig)
	}
	v, err := h.Get("a")
	a, isEnv := v.(*env.Env)
	if err != nil || !isEnv || a == nil {
		return nil, "script-yields-no-scope"
	}
	if a == e {
		return nil, "alias"
	}
	return a, ""
}

// c13r7SigOp: the way of copying as it appears in signatures
func c13r7SigOp(op string) string {
	if strings.HasPrefix(op, "script") {
		return "script-assign"
	}
	return op
}

type c13r7Life struct {
	c      *wk.Case
	seen   map[string]bool
	counts map[string]int
}

func (l *c13r7Life) violation(sig, detail string, input interface{}) {
	if l.seen[sig] {
		l.counts["violations-of-a-signature-already-reported"]++
		return
	}
	l.seen[sig] = true
	l.c.Violation(sig, detail, input)
}

// runSequential executes one planned round; it reports at most one violation and returns
// (violated, both sides were written).
func (l *c13r7Life) runSequential(p *c13r7Round) (bool, bool) {
	c := l.c
	c.Begin(p)
	var views []*c13r7Node
	var parent, source *c13r7Node
	shallow := false // a Copy took part: no ancestor of the copied scope is written afterwards
	sideOps := []string{"scope"}
	for i, st := range p.States {
		rng := rand.New(rand.NewSource(p.Seeds[i]))
		var e *env.Env
		if parent == nil {
			e = env.NewEnv()
		} else {
			e = parent.e.NewEnv()
		}
		n := c13r7NewNode(fmt.Sprintf("scope%d", i), e, parent, 0)
		if st == "copy-of-emptied" {
			// the scope of the chain is itself a copy of a scope that was emptied; that scope stays a view
			source = c13r7NewNode(fmt.Sprintf("scope%d-source", i), e, parent, len(sideOps))
			sideOps = append(sideOps, "Copy")
			c13r7Bring(rng, source, c13r7EmptyStates[1+rng.Intn(5)])
			n = source.cloneTables(n.label, 0)
			n.e = e.Copy()
			n.state = "copy-of-" + source.state
			shallow = true
		} else {
			c13r7Bring(rng, n, st)
		}
		views = append(views, n)
		parent = n
	}
	if source != nil {
		views = append(views, source)
	}
	target := views[p.Target]
	describe := func() string {
		var b []string
		for _, v := range views {
			b = append(b, fmt.Sprintf("%s[%s]", v.label, v.state))
		}
		return strings.Join(b, " ")
	}
	fail := func(op, anomaly, table, detail string) {
		l.violation("lifecycle:"+c13r7SigOp(op)+":"+anomaly+":"+table, fmt.Sprintf("round %d, views %s; copied scope %s: %s", p.Round, describe(), target.label, detail), p)
	}
	// checkAll reads every view; fresh is the view made by the operation just executed (nil: none),
	// x the scope whose dictionary the operation changed (nil: none), op/desc the operation
	checkAll := func(fresh, x *c13r7Node, op, desc string) bool {
		for _, v := range views {
			what, table := c13r7CheckView(v)
			l.counts["views-read"]++
			if what == "" {
				continue
			}
			switch {
			case v == fresh:
				fail(op, "copy-differs-from-scope", table, fmt.Sprintf("%s: the new scope %s: %s", desc, v.label, what))
			case fresh != nil || x == nil:
				fail(op, "operation-without-effect-changes-a-scope", table, fmt.Sprintf("%s (an operation that writes no existing scope): afterwards %s: %s", desc, v.label, what))
			case v.inChain(x):
				fail(sideOps[v.side], "write-not-read-back", table, fmt.Sprintf("%s: afterwards %s: %s", desc, v.label, what))
			default:
				by := sideOps[v.side]
				if v.side == 0 {
					by = sideOps[x.side]
				}
				fail(by, "copy-not-independent", table, fmt.Sprintf("%s, an operation on another scope (%s is not in the chain of %s): afterwards %s: %s", desc, x.label, v.label, v.label, what))
			}
			return false
		}
		return true
	}
	addCopy := func(op string, from *c13r7Node) (ok, judged bool) {
		cp, reason := c13r7TakeCopy(op, from.e)
		switch {
		case reason == "alias":
			c.Excluded("lifecycles-script-assignment-aliases-the-scope")
			return true, false
		case reason != "":
			c.Inconclusive("lifecycles-"+strings.SplitN(reason, ":", 2)[0], reason, p)
			return true, false
		}
		side := len(sideOps)
		sideOps = append(sideOps, op)
		label := fmt.Sprintf("%s-of-%s#%d", op, from.label, side)
		var n *c13r7Node
		if op == "Copy" {
			n = from.cloneTables(label, side)
			shallow = true
		} else {
			n = from.cloneDeep(label, side)
		}
		n.e = cp
		views = append(views, n)
		l.counts["copies:"+op]++
		return checkAll(n, nil, op, fmt.Sprintf("%s of %s", op, from.label)), true
	}
	if !checkAll(nil, nil, "scope", "the scopes as built, before any copy") {
		return true, false
	}
	for _, cpl := range p.Copies {
		from := target
		if cpl.From < len(views) && cpl.From != p.Target {
			from = views[cpl.From]
		}
		if ok, _ := addCopy(cpl.Op, from); !ok {
			return true, false
		}
	}
	wroteScope, wroteCopy := false, false
	for _, s := range p.Steps {
		// in a round with a Copy only the copied scope, its descendants and the copies are operated on
		lo := 0
		if shallow {
			lo = p.Target
		}
		n := views[lo+s.On%(len(views)-lo)]
		k := s.Name
		var x *c13r7Node
		op := s.Op
		if shallow {
			// the scope-only form of the operation: ancestors are neither written nor is the name looked up in them
			switch h := n.holder(k); {
			case op == "Set" && h != n, op == "DefineGlobal":
				op = "Define"
			case op == "DeleteGlobal" && h != n:
				op = "Delete"
			case op == "DefineGlobalReflectType":
				op = "DefineReflectType"
			}
		}
		desc := fmt.Sprintf("%s(%s) on %s", op, k, n.label)
		var err error
		switch op {
		case "Define":
			err = n.e.Define(k, s.Val)
			n.vals[k], x = s.Val, n
		case "DefineValue-cell":
			err = n.e.DefineValue(k, c13r7Cell(s.Val))
			n.vals[k], x = s.Val, n
		case "Define-nil":
			err = n.e.Define(k, nil)
			n.vals[k], x = nil, n
		case "Set":
			h := n.holder(k)
			err = n.e.Set(k, s.Val)
			if h == nil {
				if err == nil {
					fail(sideOps[n.side], "set-of-unbound-name-succeeds", "values", desc+": no scope of the chain binds the name")
					return true, false
				}
				err = nil
			} else {
				h.vals[k], x = s.Val, h
			}
		case "Delete":
			n.e.Delete(k)
			delete(n.vals, k)
			x = n
		case "DeleteGlobal":
			n.e.DeleteGlobal(k)
			if h := n.holder(k); h != nil {
				delete(h.vals, k)
				x = h
			}
		case "DefineGlobal":
			err = n.e.DefineGlobal(k, s.Val)
			x = n.root()
			x.vals[k] = s.Val
		case "DefineReflectType":
			t := c13r5Types[int(s.Val)%len(c13r5Types)]
			err = n.e.DefineReflectType(k, t)
			n.types[k], x = t, n
		case "DefineGlobalReflectType":
			t := c13r5Types[int(s.Val)%len(c13r5Types)]
			err = n.e.DefineGlobalReflectType(k, t)
			x = n.root()
			x.types[k] = t
		case "SetExternalLookup":
			n.e.SetExternalLookup(c13r5Lookups[int(s.Val)%len(c13r5Lookups)])
			x = n
		case "copy-kept":
			ok, judged := addCopy(k, n)
			if !ok {
				return true, false
			}
			if judged {
				l.counts["copies-of-a-written-scope"]++
			}
			continue
		case "copy-dropped":
			// a copy that is written once and dropped: it is in the chain of no view, so no view may change
			if cp, _ := c13r7TakeCopy(k, n.e); cp != nil {
				if !checkAll(nil, nil, k, fmt.Sprintf("%s of %s", k, n.label)) {
					return true, false
				}
				cp.GetValueSymbols()
				cp.Define("q0", s.Val)
				x = c13r7NewNode(fmt.Sprintf("a dropped %s of %s", k, n.label), nil, nil, len(sideOps))
				sideOps = append(sideOps, k)
				desc = fmt.Sprintf("Define(q0) on a %s of %s that is then dropped", k, n.label)
			}
		case "String":
			_ = n.e.String()
		default:
			n.e.GetValueSymbols()
			n.e.GetTypeSymbols()
		}
		l.counts["ops:"+op]++
		if err != nil {
			fail(sideOps[n.side], "write-fails", "values", fmt.Sprintf("%s fails: %v", desc, err))
			return true, false
		}
		if x != nil && x.e != nil && op != "SetExternalLookup" {
			if x.side == 0 {
				wroteScope = true
			} else {
				wroteCopy = true
			}
		}
		if !checkAll(nil, x, op, desc) {
			return true, false
		}
	}
	return false, wroteScope && wroteCopy
}

// ---------------------------------------------------------------------------------------------
// concurrent rounds

// the values written by side s are s*c13r7SideBase + a running number; what a scope held before
// the copying is below c13r7SideBase
const c13r7SideBase = int64(1000000)

type c13r7Conc struct {
	l      *c13r7Life
	mu     sync.Mutex
	failed int32
	input  map[string]interface{}
	counts map[string]int
	panics []string
}

func (cc *c13r7Conc) report(sig, detail string) {
	cc.mu.Lock()
	cc.l.violation(sig, detail, cc.input)
	cc.mu.Unlock()
	atomic.StoreInt32(&cc.failed, 1)
}

func (cc *c13r7Conc) merge(local map[string]int) {
	cc.mu.Lock()
	for k, v := range local {
		cc.counts[k] += v
	}
	cc.mu.Unlock()
}

func (cc *c13r7Conc) recovered(v interface{}) {
	cc.mu.Lock()
	cc.panics = append(cc.panics, fmt.Sprint(v))
	cc.mu.Unlock()
	atomic.StoreInt32(&cc.failed, 1)
}

func (cc *c13r7Conc) stop() bool { return atomic.LoadInt32(&cc.failed) != 0 }

func c13r7Xor(seed int64) func(int) int {
	x := uint64(seed) | 1
	return func(n int) int {
		x ^= x << 13
		x ^= x >> 7
		x ^= x << 17
		return int(x % uint64(n))
	}
}

// c13r7Split: the scope and its copies, one writing goroutine each.
func (cc *c13r7Conc) split(c *wk.Case, round int, state, op string) {
	rng := c.Rng
	rootE := env.NewEnv()
	rootN := c13r7NewNode("root", rootE, nil, 0)
	// DeepCopy clones the chain: then the outermost scope, too, has one writer per side (DefineGlobal
	// and DeleteGlobal of the names G0..G2, which no other scope binds), and it starts in a state of
	// its own; otherwise it is read-only and binds kp
	deep := op == "DeepCopy" && rng.Intn(3) != 0
	if deep {
		c13r7Bring(rng, rootN, c13r7EmptyStates[rng.Intn(len(c13r7EmptyStates))])
	} else {
		rootE.Define("kp", "P")
	}
	s := c13r7NewNode("scope", rootE.NewEnv(), rootN, 0)
	if state == "copy-of-emptied" {
		src := c13r7NewNode("source", s.e, rootN, 0)
		c13r7Bring(rng, src, c13r7EmptyStates[1+rng.Intn(5)])
		s.e = s.e.Copy()
		s.state = "copy-of-" + src.state
	} else {
		c13r7Bring(rng, s, state)
	}
	type sideT struct {
		e     *env.Env
		label string
		vals  map[string]interface{}
		types map[string]reflect.Type
		gvals map[string]interface{} // deep: what this side's writer left in the outermost scope of ITS chain
	}
	sides := []*sideT{{s.e, "the scope", s.vals, s.types, map[string]interface{}{}}}
	initial := s.cloneTables("initial", 0)
	for i, k := 0, 1+rng.Intn(3); i < k; i++ {
		from := sides[rng.Intn(len(sides))]
		cp, reason := c13r7TakeCopy(op, from.e)
		if reason == "alias" {
			c.Excluded("lifecycles-script-assignment-aliases-the-scope")
			continue
		} else if reason != "" {
			c.Inconclusive("lifecycles-"+strings.SplitN(reason, ":", 2)[0], reason, cc.input)
			continue
		}
		t := initial.cloneTables("", 0)
		sides = append(sides, &sideT{cp, fmt.Sprintf("copy %d (%s of %s)", len(sides), op, from.label), t.vals, t.types, map[string]interface{}{}})
	}
	if len(sides) < 2 {
		return
	}
	nops := 20 + rng.Intn(41)
	nReaders := 1 + rng.Intn(2)
	seeds := make([]int64, len(sides)+nReaders)
	for i := range seeds {
		seeds[i] = rng.Int63()
	}
	sigOp := c13r7SigOp(op)
	var wg, owners sync.WaitGroup
	var ownersDone int32
	start := make(chan struct{})
	for si, sd := range sides {
		wg.Add(1)
		owners.Add(1)
		go func(si int, sd *sideT) {
			defer wg.Done()
			defer owners.Done()
			defer func() {
				if r := recover(); r != nil {
					cc.recovered(r)
				}
			}()
			next := c13r7Xor(seeds[si])
			local := map[string]int{}
			contradicted := func(table, what string) {
				cc.report("lifecycle-concurrent:"+sigOp+":sole-writer-contradicted:"+table, fmt.Sprintf("split round %d, scope in state %s and %d copies, one writing goroutine per scope: %s: %s", round, s.state, len(sides)-1, sd.label, what))
			}
			seq := int64(0)
			<-start
			for i := 0; i < nops && !cc.stop(); i++ {
				k := c13r7Pool[next(len(c13r7Pool))]
				seq++
				val := int64(si+1)*c13r7SideBase + seq
				var name string
				r := next(18)
				if deep && next(4) == 0 {
					r = 18 + next(4)
				}
				switch {
				case r >= 18:
					// the outermost scope of this side's chain, reached through the scope
					gk := fmt.Sprintf("G%d", next(3))
					switch r {
					case 18, 19:
						name = "DefineGlobal"
						if err := sd.e.DefineGlobal(gk, val); err != nil {
							contradicted("values", fmt.Sprintf("DefineGlobal(%s) fails: %v", gk, err))
						}
						sd.gvals[gk] = val
					case 20:
						name = "DeleteGlobal"
						sd.e.DeleteGlobal(gk)
						delete(sd.gvals, gk)
					default:
						name = "Get-global"
						v, err := sd.e.Get(gk)
						if want, bound := sd.gvals[gk]; bound != (err == nil) || (bound && v != want) {
							contradicted("values", fmt.Sprintf("Get(%s), a name only the outermost scope of its chain binds and only this side's writer defines there: %s (error %v), its writer left it bound: %v, to %s", gk, ank.Render(v), err, bound, ank.Render(want)))
						}
					}
				case r < 4:
					name = "Define"
					if err := sd.e.Define(k, val); err != nil {
						contradicted("values", fmt.Sprintf("Define(%s) fails: %v", k, err))
					}
					sd.vals[k] = val
				case r < 5:
					name = "DefineValue"
					sd.e.DefineValue(k, c13r7Cell(val))
					sd.vals[k] = val
				case r < 7:
					name = "Set"
					err := sd.e.Set(k, val)
					if _, bound := sd.vals[k]; bound != (err == nil) {
						contradicted("values", fmt.Sprintf("Set(%s) error %v, its writer left the name bound: %v (the parent does not bind it)", k, err, bound))
					} else if bound {
						sd.vals[k] = val
					}
				case r < 9:
					name = "Delete"
					if _, bound := sd.vals[k]; bound && next(3) == 0 {
						sd.e.DeleteGlobal(k)
					} else {
						sd.e.Delete(k)
					}
					delete(sd.vals, k)
				case r < 12:
					name = "Get"
					v, err := sd.e.Get(k)
					if want, bound := sd.vals[k]; bound != (err == nil) || (bound && v != want) {
						contradicted("values", fmt.Sprintf("Get(%s) = %s (error %v), its writer left it bound: %v, to %s", k, ank.Render(v), err, bound, ank.Render(want)))
					}
				case r < 14:
					name = "listing+String"
					if what, table := c13r7CheckTop(sd.e, sd.vals, sd.types); what != "" {
						contradicted(table, what)
					}
				case r < 15:
					// a copy of its own scope, private to this goroutine
					var cp *env.Env
					if next(2) == 0 {
						cp, name = sd.e.Copy(), "Copy"
					} else {
						cp, name = sd.e.DeepCopy(), "DeepCopy"
					}
					if what, table := c13r7CheckTop(cp, sd.vals, sd.types); what != "" {
						contradicted(table, name+" of it: "+what)
					}
				case r < 17:
					name = "DefineReflectType"
					tk := c13r7TypeNames[next(3)]
					t := c13r5Types[next(len(c13r5Types))]
					sd.e.DefineReflectType(tk, t)
					sd.types[tk] = t
				default:
					name = "Type"
					tk := c13r7TypeNames[next(3)]
					t, err := sd.e.Type(tk)
					want, def := sd.types[tk]
					if !def {
						// the outermost scope may define types of its own (its state); nobody writes them
						want, def = rootN.types[tk]
					}
					if def != (err == nil) || (def && t != want) {
						contradicted("types", fmt.Sprintf("Type(%s) = %v (error %v), its writer left it defined: %v, as %v", tk, t, err, def, want))
					}
				}
				local[name]++
				if next(8) == 0 {
					runtime.Gosched()
				}
			}
			cc.merge(local)
		}(si, sd)
	}
	for r := 0; r < nReaders; r++ {
		wg.Add(1)
		go func(r int) {
			defer wg.Done()
			defer func() {
				if rc := recover(); rc != nil {
					cc.recovered(rc)
				}
			}()
			next := c13r7Xor(seeds[len(sides)+r])
			local := map[string]int{}
			<-start
			for i := 0; !cc.stop(); i++ {
				done := atomic.LoadInt32(&ownersDone) != 0
				si := next(len(sides))
				sd := sides[si]
				k := c13r7Pool[next(len(c13r7Pool))]
				if deep && next(4) == 0 {
					k = fmt.Sprintf("G%d", next(3))
				}
				var e *env.Env
				name := "reader-Get"
				switch next(6) {
				case 0:
					e, name = sd.e.Copy(), "reader-Copy+Get"
				case 1:
					e, name = sd.e.DeepCopy(), "reader-DeepCopy+Get"
				case 2:
					_ = sd.e.String()
					sd.e.GetValueSymbols()
					name = "reader-String+listing"
				default:
					e = sd.e
				}
				if e != nil {
					// the value of a name is what the scope held when it was copied or what this side's writer stored
					if v, err := e.Get(k); err == nil {
						if n, isInt := v.(int64); isInt && n >= c13r7SideBase && n/c13r7SideBase != int64(si+1) {
							cc.report("lifecycle-concurrent:"+sigOp+":sole-writer-contradicted:values", fmt.Sprintf("split round %d, scope in state %s and %d copies, one writing goroutine per scope: %s of %s, name %s, yields %d, a value the writer of side %d stored in ITS scope", round, s.state, len(sides)-1, name, sd.label, k, n, n/c13r7SideBase-1))
						}
					}
				}
				local[name]++
				if done {
					break
				}
				if i%16 == 15 {
					runtime.Gosched()
				}
			}
			cc.merge(local)
		}(r)
	}
	go func() { owners.Wait(); atomic.StoreInt32(&ownersDone, 1) }()
	close(start)
	c13r5Wait(c, &wg, 120*time.Second, "lifecycles-split-watchdog", cc.input)
	if cc.stop() {
		return
	}
	// the final state: every side as its writer left it
	for _, sd := range sides {
		if what, table := c13r7CheckTop(sd.e, sd.vals, sd.types); what != "" {
			cc.report("lifecycle-concurrent:"+sigOp+":sole-writer-contradicted:"+table, fmt.Sprintf("split round %d, scope in state %s: at the end %s: %s", round, s.state, sd.label, what))
			return
		}
		for _, m := range []map[string]interface{}{sd.vals, sd.gvals} {
			for k, want := range m {
				if v, err := sd.e.Get(k); err != nil || v != want {
					cc.report("lifecycle-concurrent:"+sigOp+":sole-writer-contradicted:values", fmt.Sprintf("split round %d, scope in state %s: at the end %s: Get(%s) = %s (error %v), its writer left %s", round, s.state, sd.label, k, ank.Render(v), err, ank.Render(want)))
					return
				}
			}
		}
		if deep {
			for i := 0; i < 3; i++ {
				gk := fmt.Sprintf("G%d", i)
				if _, bound := sd.gvals[gk]; !bound {
					if v, err := sd.e.Get(gk); err == nil {
						cc.report("lifecycle-concurrent:"+sigOp+":sole-writer-contradicted:values", fmt.Sprintf("split round %d, scope in state %s: at the end %s: Get(%s) = %s, its writer left the name unbound in the outermost scope of its chain", round, s.state, sd.label, gk, ank.Render(v)))
						return
					}
				}
			}
		}
	}
}

// c13r7Moment reads the lane a_0..a_n-1 out of a copy and says whether it is a moment of the
// owner's scope: the names present carry one odd generation and form a prefix (that generation
// is being defined) or a suffix (it is being deleted). It returns the position in the owner's
// program the moment belongs to (2*g for a prefix of generation g, 2*g+1 for a suffix; -1: empty
// or full, which many moments look like) and the values read.
func c13r7Moment(e *env.Env, n int) (pos int64, snap map[string]interface{}, bad string) {
	snap = map[string]interface{}{}
	listed := e.GetValueSymbols()
	first, last, count := -1, -1, 0
	gen := int64(-1)
	for _, k := range listed {
		if len(k) != 2 || k[0] != 'a' || int(k[1]-'0') >= n {
			sort.Strings(listed)
			return -1, nil, fmt.Sprintf("the copy lists %v; the owner only ever binds a0..a%d", listed, n-1)
		}
	}
	for i := 0; i < n; i++ {
		k := fmt.Sprintf("a%d", i)
		v, err := e.Get(k)
		if err != nil {
			continue
		}
		g, isInt := v.(int64)
		if !isInt || g < 1 || g%2 == 0 {
			return -1, nil, fmt.Sprintf("the copy shows %s = %s; the owner binds odd generation numbers only", k, ank.Render(v))
		}
		if gen >= 0 && g != gen {
			return -1, nil, fmt.Sprintf("the copy shows two generations (%d and %d); the owner deletes every name between two generations", gen, g)
		}
		gen = g
		snap[k] = v
		if first < 0 {
			first = i
		}
		last = i
		count++
	}
	if count != len(listed) {
		return -1, nil, fmt.Sprintf("the copy lists %d names and Get finds %d of them", len(listed), count)
	}
	if count == 0 {
		return -1, snap, ""
	}
	isPrefix, isSuffix := first == 0 && last == count-1, last == n-1 && first == n-count
	switch {
	case count == n:
		return 2 * gen, snap, ""
	case isPrefix:
		return 2 * gen, snap, ""
	case isSuffix:
		return 2*gen + 1, snap, ""
	}
	return -1, nil, fmt.Sprintf("the copy shows %d of the %d names, the first at item %d and the last at item %d: the owner defines them in order and deletes them in order", count, n, first, last)
}

// c13r7Churn: the owner takes its scope through empty-after-use again and again while others copy it.
func (cc *c13r7Conc) churn(c *wk.Case, round int, state, op string) {
	rng := c.Rng
	rootE := env.NewEnv()
	rootE.Define("kp", "P")
	rootN := c13r7NewNode("root", rootE, nil, 0)
	s := c13r7NewNode("scope", rootE.NewEnv(), rootN, 0)
	c13r7Bring(rng, s, state) // one of the states without values
	n := 1 + rng.Intn(3)
	gens := 20 + rng.Intn(61)
	nCopiers := 2 + rng.Intn(2)
	seeds := make([]int64, 1+nCopiers)
	for i := range seeds {
		seeds[i] = rng.Int63()
	}
	sigOp := c13r7SigOp(op)
	where := fmt.Sprintf("churn round %d, scope started in state %s, lane of %d names, copies by %s", round, s.state, n, op)
	var wg sync.WaitGroup
	var ownerDone int32
	start := make(chan struct{})
	wg.Add(1)
	go func() {
		defer wg.Done()
		defer atomic.StoreInt32(&ownerDone, 1)
		defer func() {
			if r := recover(); r != nil {
				cc.recovered(r)
			}
		}()
		next := c13r7Xor(seeds[0])
		local := map[string]int{}
		own := map[string]interface{}{}
		check := func() {
			if what, table := c13r7CheckTop(s.e, own, s.types); what != "" {
				cc.report("lifecycle-concurrent:"+sigOp+":sole-writer-contradicted:"+table, where+": the scope, which only its owner writes: "+what)
			}
			local["owner-check"]++
		}
		<-start
		for g := int64(1); g <= int64(gens) && !cc.stop(); g++ {
			for i := 0; i < n && !cc.stop(); i++ {
				k := fmt.Sprintf("a%d", i)
				if g%2 == 1 {
					switch next(3) {
					case 0:
						s.e.Define(k, g)
					case 1:
						s.e.DefineValue(k, c13r7Cell(g))
					default:
						s.e.DefineValue(k, reflect.ValueOf(g))
					}
					own[k] = g
					local["owner-Define"]++
				} else {
					if next(4) == 0 {
						s.e.NewEnv().DeleteGlobal(k)
					} else {
						s.e.Delete(k)
					}
					delete(own, k)
					local["owner-Delete"]++
				}
				if next(2) == 0 {
					check()
				}
				if next(4) == 0 {
					runtime.Gosched()
				}
			}
			if g%2 == 0 && next(2) == 0 {
				// a pause in the empty state
				check()
				runtime.Gosched()
			}
		}
		cc.merge(local)
	}()
	for r := 0; r < nCopiers; r++ {
		wg.Add(1)
		go func(r int) {
			defer wg.Done()
			defer func() {
				if rc := recover(); rc != nil {
					cc.recovered(rc)
				}
			}()
			next := c13r7Xor(seeds[1+r])
			local := map[string]int{}
			type held struct {
				e    *env.Env
				vals map[string]interface{}
			}
			var keep []held
			verify := func(h held, when string) bool {
				what, table := c13r7CheckTop(h.e, h.vals, s.types)
				if what == "" {
					for k, want := range h.vals {
						if v, err := h.e.Get(k); err != nil || v != want {
							what, table = fmt.Sprintf("Get(%s) = %s (error %v), the copy held %s", k, ank.Render(v), err, ank.Render(want)), "values"
							break
						}
					}
				}
				if what != "" {
					cc.report("lifecycle-concurrent:"+sigOp+":copy-not-independent:"+table, fmt.Sprintf("%s: a copy private to copier %d, %s, no longer shows what it showed plus the copier's own writes: %s", where, r, when, what))
					return false
				}
				return true
			}
			lastPos := int64(-1)
			seq := int64(0)
			<-start
			for it := 0; !cc.stop(); it++ {
				done := atomic.LoadInt32(&ownerDone) != 0
				cp, reason := c13r7TakeCopy(op, s.e)
				if reason != "" {
					local["copy-not-judged:"+strings.SplitN(reason, ":", 2)[0]]++
					if done {
						break
					}
					runtime.Gosched()
					continue
				}
				local["copies"]++
				pos, snap, bad := c13r7Moment(cp, n)
				if bad != "" {
					cc.report("lifecycle-concurrent:"+sigOp+":copy-not-a-moment-of-the-scope:values", where+": "+bad)
					break
				}
				if pos >= 0 {
					if pos < lastPos {
						cc.report("lifecycle-concurrent:"+sigOp+":copy-goes-back:values", fmt.Sprintf("%s: copier %d took a copy that shows the owner at step %d of its program after a copy that showed it at step %d (2g = generation g being defined, 2g+1 = being deleted)", where, r, pos, lastPos))
						break
					}
					lastPos = pos
				}
				if len(snap) == 0 {
					local["copies-of-the-empty-scope"]++
				}
				h := held{cp, snap}
				// the private writes, each followed by a full read
				for w, cnt := 0, 2+next(4); w < cnt && !cc.stop(); w++ {
					seq++
					val := -(int64(r+1)*c13r7SideBase + seq)
					k := fmt.Sprintf("a%d", next(n))
					switch next(5) {
					case 0, 1:
						k = c13r7Pool[next(len(c13r7Pool))]
						cp.Define(k, val)
						h.vals[k] = val
					case 2:
						cp.Define(k, val)
						h.vals[k] = val
					case 3:
						if err := cp.Set(k, val); (err == nil) != (h.vals[k] != nil) {
							cc.report("lifecycle-concurrent:"+sigOp+":copy-not-independent:values", fmt.Sprintf("%s: Set(%s) on a copy private to copier %d: error %v, the copy binds the name: %v", where, k, r, err, h.vals[k] != nil))
						} else if err == nil {
							h.vals[k] = val
						}
					default:
						cp.Delete(k)
						delete(h.vals, k)
					}
					local["copier-writes"]++
					if next(2) == 0 {
						runtime.Gosched()
					}
					if !verify(h, "just written") {
						break
					}
				}
				keep = append(keep, h)
				if len(keep) > 2 {
					if !verify(keep[0], "read again two copies later") {
						break
					}
					keep = keep[1:]
				}
				if done {
					break
				}
			}
			for _, h := range keep {
				if cc.stop() || !verify(h, "read again at the end") {
					break
				}
			}
			cc.merge(local)
		}(r)
	}
	close(start)
	c13r5Wait(c, &wg, 120*time.Second, "lifecycles-churn-watchdog", cc.input)
}

func c13r7Lifecycles(c *wk.Case) {
	l := &c13r7Life{c: c, seen: map[string]bool{}, counts: map[string]int{}}
	nStates, nOps := len(c13r7LifeStates), len(c13r7CopyOps)
	if c.Index%2 == 0 {
		// sequential rounds: every (state, way of copying) pair three times per case
		rounds := 3 * nStates * nOps
		nontrivial := 0
		for r := 0; r < rounds; r++ {
			id := (c.Index/2)*rounds + r
			p := c13r7PlanRound(c.Rng, id)
			_, both := l.runSequential(p)
			if both {
				nontrivial++
			}
			c.Eval(fmt.Sprintf("lifecycles-sequential %v", *p), both)
			c.Tag("lifecycle-state:"+p.States[p.Target], "lifecycle-copy:"+p.Copies[0].Op)
		}
		total := 0
		for k, v := range l.counts {
			c.Count("lifecycles_sequential:"+k, v)
			total += v
		}
		c.Events(total)
		c.Tag("lifecycles-mode:sequential")
		if c.WantSample() {
			c.Sample(map[string]interface{}{"phase": "lifecycles", "mode": "sequential", "rounds": rounds, "rounds_with_both_sides_written": nontrivial, "one_round": c13r7PlanRound(c.Rng, c.Index), "counts": l.counts})
		}
		return
	}
	procs := []int{16, 2, 4, 8}[(c.Index/2)%4]
	old := runtime.GOMAXPROCS(procs)
	defer runtime.GOMAXPROCS(old)
	rounds := 2 * nStates * nOps / 2
	cc := &c13r7Conc{l: l, counts: map[string]int{}}
	ran := 0
	for r := 0; r < rounds && len(cc.panics) == 0; r++ {
		id := (c.Index/2)*rounds + r
		op := c13r7CopyOps[(id/2)%nOps]
		mode := []string{"split", "churn"}[id%2]
		var state string
		if mode == "split" {
			state = c13r7LifeStates[(id/2/nOps)%nStates]
		} else {
			state = c13r7EmptyStates[(id/2/nOps)%len(c13r7EmptyStates)]
		}
		cc.input = map[string]interface{}{"phase": "lifecycles", "mode": mode, "round": r, "lifecycle_state": state, "copies_by": op, "gomaxprocs": procs}
		atomic.StoreInt32(&cc.failed, 0) // a refuted round ends early; the next one starts afresh
		c.Begin(cc.input)
		if mode == "split" {
			cc.split(c, r, state, op)
		} else {
			cc.churn(c, r, state, op)
		}
		ran++
		c.Eval(fmt.Sprintf("lifecycles-%s %d %s %s %d", mode, r, state, op, c.Rng.Int63()), true)
		c.Tag("lifecycle-state:"+state, "lifecycle-copy:"+op)
	}
	total := 0
	for k, v := range cc.counts {
		c.Count("lifecycles_concurrent:"+k, v)
		total += v
	}
	c.Events(total)
	c.Tag("lifecycles-mode:concurrent", fmt.Sprintf("lifecycles-gomaxprocs:%d", procs))
	if len(cc.panics) > 0 {
		c.Violation("panic-in-concurrent-env-operation", cc.panics[0], cc.input)
	}
	if c.WantSample() {
		c.Sample(map[string]interface{}{"phase": "lifecycles", "mode": "concurrent", "rounds": ran, "gomaxprocs": procs, "counts": cc.counts})
	}
}
