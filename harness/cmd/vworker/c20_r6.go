package main

// C20, round 6.
//
// Statement: "The result of every operation depends only on the values of its operands, never
// on how they were obtained: an operand read from a variable, from a slice or map element, from
// a struct field, returned by a script function, or returned by a Go function declared to
// return interface{} behaves identically in every operator, statement and call position (same
// result value and dynamic type, same error-or-success)."
//
// Added here:
//
//  1. Operand kinds. Struct VALUES whose POINTER type is a fmt.Stringer / an error (c20Ver,
//     c20Fault: what url.URL, big.Int, bytes.Buffer are to a host), and a LARGE Go array
//     ([64]int64, 512 bytes). They take part in every template like any other kind.
//
//  2. Templates. ==, !=, in, switch with operands of DIFFERENT provenances (the hole against a
//     plain host variable holding an equal value: `yPlain`), switch / in with both operands
//     through the chain; string concatenation positions (`s += $X`, `"" + $X + "!"`); compound
//     field stores, stores into an element of an array field, repeated pointer-receiver calls.
//
//  3. Phase bindpos: a NAME is a name however it was bound. The operation is executed INSIDE the
//     construct that binds the hole's name: the body of a for-in loop over an untyped list, a
//     variadic tail, a list returned by Go, a []T, a [1]T, a chan T, the values of an untyped and
//     of a typed map; the body of a callee whose parameter it is (called by the script, called
//     by a Go function); a `var` statement. Reference IN POSITION: the same program with the
//     name bound by `q = e` in a block of its own. Both programs read their operand "from a
//     variable" holding the same value, so the statement demands the same result, the same
//     error-or-success and the same effects (the name read again after the operation, the
//     operand objects seen from Go) - including field / element stores and pointer-receiver
//     methods through the name, which the comparison with a HOST variable has to leave out
//     (a host variable holds a struct / array in no addressable cell; every name bound by the
//     script does, since /repo 24b1b84).
//     The value of the operation is taken by wrapping it in `wr = func(){ ... }()`; the closure
//     reads the name from the enclosing scope in the reference and in the variant alike.

import (
	"fmt"
	"reflect"
	"sort"
	"strings"

	"verifharness/internal/wk"
)

// c20Ver is handed to scripts BY VALUE; its String method and its mutator have POINTER receivers
type c20Ver struct {
	A, B int64
	T    [2]string
}

func (v *c20Ver) String() string    { return fmt.Sprintf("v%d.%d", v.A, v.B) }
func (v *c20Ver) Add(n int64) int64 { v.A += n; return v.A }

// c20Fault: a struct value whose pointer type is an error
type c20Fault struct{ Code int64 }

func (f *c20Fault) Error() string { return fmt.Sprintf("fault %d", f.Code) }

func c20BigArray(seed int64) [64]int64 {
	var a [64]int64
	for i := range a {
		a[i] = seed + int64(i)
	}
	return a
}

func c20R6Vals() []c20Val {
	return []c20Val{
		c20Go("verval", func() interface{} { return c20Ver{A: 1, B: 2, T: [2]string{"s", "t"}} }),
		c20Go("faultval", func() interface{} { return c20Fault{Code: 7} }),
		c20Go("bigarray", func() interface{} { return c20BigArray(7) }),
	}
}

// c20R6Define adds the typed containers for-in runs over in phase bindpos: a [1]T and a closed
// chan T holding x (T = the dynamic type of x)
func c20R6Define(st *c20State) {
	st.env.Define("tar", func(x interface{}) interface{} {
		a := reflect.New(reflect.ArrayOf(1, c20DynType(x))).Elem()
		if x != nil {
			a.Index(0).Set(reflect.ValueOf(x))
		}
		return a.Interface()
	})
	st.env.Define("tch", func(x interface{}) interface{} {
		t := c20DynType(x)
		ch := reflect.MakeChan(reflect.ChanOf(reflect.BothDir, t), 1)
		if x != nil {
			ch.Send(reflect.ValueOf(x))
		} else {
			ch.Send(reflect.Zero(t))
		}
		ch.Close()
		return ch.Interface()
	})
}

func c20R6Tmpls(add func(t c20Tmpl)) {
	kinds := func(ks string) map[string]bool {
		m := map[string]bool{}
		for _, k := range strings.Fields(ks) {
			m[k] = true
		}
		return m
	}
	// the two operands of an equality have DIFFERENT provenances: the hole against a plain host variable
	// holding an equal (fresh) value of the same kind
	add(c20Tmpl{id: "eq-mixed-lhs", src: "$X == $Y", ykind: "same", yPlain: true})
	add(c20Tmpl{id: "eq-mixed-rhs", src: "$Y == $X", ykind: "same", yPlain: true})
	add(c20Tmpl{id: "ne-mixed-lhs", src: "$X != $Y", ykind: "same", yPlain: true})
	add(c20Tmpl{id: "ne-mixed-rhs", src: "$Y != $X", ykind: "same", yPlain: true})
	add(c20Tmpl{id: "in-mixed-item", src: "$X in [1, $Y]", ykind: "same", yPlain: true})
	add(c20Tmpl{id: "in-mixed-list", src: "$Y in [1, $X]", ykind: "same", yPlain: true})
	const swHit = " {\ncase 1, $C:\nr = \"hit\"\ndefault:\nr = \"miss\"\n}\nr"
	sw := func(subject, cas string) string {
		return "r = \"none\"\nswitch " + subject + strings.ReplaceAll(swHit, "$C", cas)
	}
	add(c20Tmpl{id: "switch-mixed-subject", src: sw("($X)", "$Y"), ykind: "same", yPlain: true})
	add(c20Tmpl{id: "switch-mixed-case", src: sw("($Y)", "$X"), ykind: "same", yPlain: true})
	// ... and both operands through the chain
	add(c20Tmpl{id: "in-both", src: "$X in [1, $Y]", ykind: "same"})
	add(c20Tmpl{id: "switch-both", src: sw("($X)", "$Y"), ykind: "same"})

	// string concatenation formats its other operand: every position of it
	add(c20Tmpl{id: "add-str-mid", src: `"" + $X + "!"`})
	add(c20Tmpl{id: "add-assign-str-rhs", src: "s = \"got \"\ns += $X\ns"})
	add(c20Tmpl{id: "repeat-str", src: "$X * 2"})

	// field / element stores and pointer-receiver methods through a struct VALUE: against a host variable
	// they are Go's addressability (skip / c20MutatesInPlace), in phase bindpos they are compared
	add(c20Tmpl{id: "member-store-opassign-A", src: "$X.A += 4\n$X.A", skip: kinds("struct verval faultval"), hostOnlySkip: true, strNeedsAssignable: true, twice: true})
	add(c20Tmpl{id: "member-store-inc-A", src: "$X.A++\n$X.A", skip: kinds("struct verval faultval"), hostOnlySkip: true, strNeedsAssignable: true, twice: true})
	add(c20Tmpl{id: "member-store-elem-T", src: "$X.T[1] = \"x\"\n$X.T", skip: kinds("struct verval faultval"), hostOnlySkip: true, strNeedsAssignable: true, twice: true,
		kinds: kinds("verval struct pstruct map nil int")})
	add(c20Tmpl{id: "member-store-code", src: "$X.Code = 9\n$X.Code", skip: kinds("struct verval faultval"), hostOnlySkip: true, strNeedsAssignable: true, twice: true,
		kinds: kinds("faultval verval map nil")})
	add(c20Tmpl{id: "method-ptr-add-twice", src: "$X.Add(2)\n$X.Add(2)\n$X.A", kinds: kinds("verval struct pstruct map nil int"), twice: true})
	add(c20Tmpl{id: "method-ptr-inc-twice", src: "$X.Inc()\n$X.Inc()\n$X.A", kinds: kinds("struct pstruct verval map nil int"), twice: true})
	add(c20Tmpl{id: "method-ptr-string", src: "$X.String()", kinds: kinds("verval stringer ncolor struct nil")})
	add(c20Tmpl{id: "method-ptr-error", src: "$X.Error()", kinds: kinds("faultval errp struct nil")})
}

// ---------------------------------------------------------------------------
// phase bindpos

// the atoms that bind a name by a construct the operation runs inside of. "letblock" is the reference.
func c20R6WrapAtoms() []c20Atom {
	w := func(name string, open, close func(e, q string) string) c20Atom {
		return c20Atom{name: name, wrap: true, assignable: true, isName: true, apply: func(h c20Hole, n string) c20Hole {
			q := "q" + n
			if h.open != "" {
				// (a second binding construct inside the first is not generated: chainOK)
				return h
			}
			return c20Hole{pre: h.pre, open: open(h.expr, q), close: close(h.expr, q), expr: q, assignable: true, boxed: h.boxed}
		}}
	}
	end := func(s string) func(e, q string) string { return func(e, q string) string { return s } }
	return []c20Atom{
		w("letblock", func(e, q string) string { return "if true {\n" + q + " = " + e }, end("}")),
		w("varblock", func(e, q string) string { return "if true {\nvar " + q + " = " + e }, end("}")),
		w("param", func(e, q string) string { return "func(" + q + "){" }, func(e, q string) string { return "}(" + e + ")" }),
		w("param-hostcb", func(e, q string) string { return "gcb1(func(" + q + "){" }, func(e, q string) string { return "return 0\n}, " + e + ")" }),
		w("forin-list", func(e, q string) string { return "for " + q + " in [" + e + "] {" }, end("}")),
		w("forin-variadic", func(e, q string) string { return "func(rest" + q + "...){\nfor " + q + " in rest" + q + " {" },
			func(e, q string) string { return "}\n}(" + e + ")" }),
		w("forin-golist", func(e, q string) string { return "for " + q + " in id([" + e + "]) {" }, end("}")),
		w("forin-tslice", func(e, q string) string { return "for " + q + " in tsl(" + e + ") {" }, end("}")),
		w("forin-array", func(e, q string) string { return "for " + q + " in tar(" + e + ") {" }, end("}")),
		w("forin-chan", func(e, q string) string { return "for " + q + " in tch(" + e + ") {" }, end("}")),
		w("forin-mapval", func(e, q string) string { return "for k" + q + ", " + q + " in {\"k\": " + e + "} {" }, end("}")),
		w("forin-tmapval", func(e, q string) string { return "for k" + q + ", " + q + " in tmp(" + e + ") {" }, end("}")),
	}
}

const c20BindRef = "letblock"

// the hops the operand takes before it is bound (quick: none; struct / array values also from a typed
// addressable slot)
func c20BindPrefixes(tier, kind string) [][]string {
	if tier == "thorough" {
		return [][]string{{}, {"tyelem"}, {"gocall"}, {"elem"}, {"tyfield"}}
	}
	if c20ValueCellKinds[kind] {
		return [][]string{{}, {"tyelem"}}
	}
	return [][]string{{}}
}

// quick tier: the templates instantiated with EVERY operand kind (struct / array values: all of c20BindSens)
var c20BindCore = map[string]bool{}

func init() {
	for _, id := range strings.Fields("read core-typeOf arg-go-show arg-go-iface add-both eq-both neg len index-of-0 forin-1 call-1 deref-read deref-write " +
		"member-read-A member-write-A method-value-recv method-ptr-recv throw chan-send-val chan-recv inc add-assign assign add-assign-str add-str-rhs " +
		"add-assign-str-rhs elem-store-0 addr-of-name addr-writeback param-mut-1 switch-subject-nobool store-key-map lit-list spread-sfixed") {
		c20BindCore[id] = true
	}
}

// c20BindSens: the templates phase bindpos instantiates in the quick tier (thorough: all): those that
// show the value, its dynamic type, its method set, its identity, and those that store through the hole
func c20BindSens(t *c20Tmpl) bool {
	if strings.HasPrefix(t.id, "param-") {
		// (the call paths are phase typed's subject: a few of them here)
		return t.id == "param-mut-1" || t.id == "param-mut-5of5" || t.id == "param-mut-spread" || t.id == "param-mut-defer" || t.id == "param-mut-host-callback"
	}
	if t.typeSens || t.needAssignable || t.effectOnly || t.nameOnly || t.hostOnlySkip || c20MutatesInPlace(t.id) {
		return true
	}
	for _, p := range []string{"member-", "method-", "add-str", "add-assign-str", "eq-", "ne-", "in-", "switch-", "deref-", "neg", "not", "index-of-", "slice-of-", "forin-", "spread-sfixed", "cond-if", "chan-"} {
		if strings.HasPrefix(t.id, p) {
			return true
		}
	}
	return false
}

func (g *c20Engine) runBindPos(c *wk.Case, t *c20Tmpl, val *c20Val, atomIdx map[string]int, wraps []string) {
	if val.kind == "huge" && !c20HugeOK(t.id) {
		c.Excluded("huge-operand-outside-arithmetic")
		return
	}
	if t.skip[val.kind] && !t.hostOnlySkip {
		c.Excluded("template-kind:" + t.id + ":" + val.kind)
		return
	}
	if t.kinds != nil && !t.kinds[val.kind] {
		c.Excluded("position-about-other-kinds")
		return
	}
	var yval *c20Val
	if t.ykind == "same" {
		yval = val
	} else if t.ykind != "" {
		yval = g.valByKind(t.ykind)
	}
	if c.Tier != "thorough" && !c20ValueCellKinds[val.kind] && !c20BindCore[t.id] {
		c.Excluded("bindpos-quick-tier-core-templates-only")
		return
	}
	c.Tag("bindpos-tmpl:"+t.id, "bindpos-val:"+val.kind)
	type agg struct {
		n      int
		detail string
		input  interface{}
	}
	viols := map[string]*agg{}
	inst := func(chain []int) (c20Out, c20Hole, bool) {
		if ok, why := g.chainOK(t, val, chain); !ok {
			c.Excluded(why)
			return c20Out{}, c20Hole{}, false
		}
		hx := c20Chain("v", "x", g.atoms, chain)
		var hy *c20Hole
		if yval != nil {
			h := c20Chain("w", "y", g.atoms, chain)
			if t.yPlain {
				h = c20Chain("w", "y", g.atoms, nil)
			}
			hy = &h
		}
		return c20Instantiate(c, t, val, yval, hx, hy), hx, true
	}
	for _, prefix := range c20BindPrefixes(c.Tier, val.kind) {
		var pre []int
		for _, n := range prefix {
			pre = append(pre, atomIdx[n])
		}
		refChain := append(append([]int{}, pre...), atomIdx[c20BindRef])
		ref, _, ok := inst(refChain)
		if !ok {
			continue
		}
		if ref.class == "parse" {
			c.Inconclusive("bindpos-reference-does-not-parse:"+t.id, ref.errText, ref.src)
			continue
		}
		if ref.class == "timeout" {
			c.Inconclusive("bindpos-reference-timeout:"+t.id+":"+val.kind, ref.errText, ref.src)
			continue
		}
		for _, wn := range wraps {
			chain := append(append([]int{}, pre...), atomIdx[wn])
			got, _, ok := inst(chain)
			if !ok {
				continue
			}
			names := append(append([]string{}, prefix...), wn)
			c.Eval("bindpos|"+t.id+"|"+val.kind+"|"+got.src, ref.class == "ok" || got.class == "ok")
			c.Events(1)
			c.Tag("bindpos:"+wn, "bindpos-outcome:"+got.class)
			input := map[string]interface{}{"template": t.id, "value": val.kind, "chain": names, "src": got.src, "reference_src": ref.src}
			if c.W.Verbose {
				fmt.Printf("bindpos %s %s %v\n  src: %q\n  got: %s\n  ref: %s\n", t.id, val.kind, names, got.src, got.String(), ref.String())
			}
			switch got.class {
			case "parse":
				c.Inconclusive("bindpos-instantiation-does-not-parse:"+t.id+":"+wn, got.errText, input)
				continue
			case "timeout":
				c.Inconclusive("bindpos-timeout:"+t.id+":"+val.kind, got.errText, input)
				continue
			}
			d := c20Diff(t, val, &ref, &got)
			if d == "" {
				if c.WantSample() && c.Rng.Intn(8) == 0 {
					c.Sample(map[string]interface{}{"template": t.id, "value": val.kind, "chain": names, "src": got.src, "observed": got.String(), "reference": ref.String()})
				}
				continue
			}
			if d == "effect-objects" && (got.noAsync || ref.noAsync) {
				c.Inconclusive("async-effect-not-observed:"+t.id, got.String()+" // "+ref.String(), input)
				continue
			}
			sig := "bindpos:" + t.id + ":" + val.kind + ":" + wn + ":" + d
			a := viols[sig]
			if a == nil {
				a = &agg{detail: fmt.Sprintf("name bound by %v: %s  BUT the same program with the name bound by `=`: %s", names, got.String(), ref.String()), input: input}
				viols[sig] = a
			}
			a.n++
		}
	}
	sigs := make([]string, 0, len(viols))
	for s := range viols {
		sigs = append(sigs, s)
	}
	sort.Strings(sigs)
	for _, s := range sigs {
		a := viols[s]
		c.Violation(s, fmt.Sprintf("%s (%d chain(s) of this case differ the same way)", a.detail, a.n), a.input)
	}
}
