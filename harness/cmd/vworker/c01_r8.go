package main

// C01, round 8 ("volume and history"): the fuzz phase runs ~2000 small scripts per worker
// process, each once. Three phases reach what that cannot:
//
//   - history: ONE process executes 90 (thorough 300) fuzz cases' worth of scripts (> 7000 distinct
//     sources) one after another, forces garbage collections in between, and afterwards executes a
//     sample of the earliest scripts again - a process-wide table (parsed sources, types, call
//     sites, interned values) that wraps, goes stale or indexes past its end after hundreds or
//     thousands of entries panics here with its input in flight.
//   - hot: scripts of the same generators are run once and, when they end by themselves, again as
//     the body of a loop of 1100 rounds inside try/catch: every node of the script is evaluated
//     beyond the generic warm-up counts (1000, 1024) with whatever state the earlier rounds left.
//   - sizes: every container operation a script can spell, on lists, typed slices, maps and strings
//     built by the script with lengths on and next to 256, 1024, 4096 and 65536.
//
// The oracle is C01's own: no Go panic reaches the caller, the worker does not die.

import (
	"fmt"
	"runtime"
	"strings"
	"time"

	"verifharness/internal/ank"
	"verifharness/internal/corpus"
	"verifharness/internal/fw"
	"verifharness/internal/wk"
)

func c01PhasesR8(tier string) []fw.Phase {
	nh, nhot, nsz := 2, 16, len(c01SizeList)*len(c01SizeBuilders)
	if tier == "thorough" {
		nh, nhot = 8, 400
	}
	return []fw.Phase{
		{Name: "history", Cases: nh, Chunk: 1, TimeoutS: 1800, MemMB: 6144},
		{Name: "hot", Cases: nhot, Chunk: 2, TimeoutS: 1200, MemMB: 6144},
		{Name: "sizes", Cases: nsz, Chunk: 6, TimeoutS: 1200, MemMB: 6144},
	}
}

func c01RunR8(c *wk.Case) bool {
	switch c.Phase {
	case "history":
		c01History(c)
	case "hot":
		c01Hot(c)
	case "sizes":
		c01SizesR8(c)
	default:
		return false
	}
	return true
}

func c01History(c *wk.Case) {
	cor := corpus.Scripts()
	batches := 90
	if c.Tier == "thorough" {
		batches = 300
	}
	var early []string
	distinct := map[string]struct{}{}
	for b := 0; b < batches; b++ {
		for _, src := range c01GenScripts(c, cor) {
			if len(src) > 20000 {
				continue
			}
			distinct[src] = struct{}{}
			if len(early) < 600 {
				early = append(early, src)
			}
			c01RunOne(c, src, 150*time.Millisecond)
		}
		if b%10 == 9 {
			runtime.GC()
			// ask a sample of the earliest scripts again (at growing distances)
			for i := b % 7; i < len(early); i += 7 {
				c01RunOne(c, early[i], 150*time.Millisecond)
			}
		}
	}
	c.Count("history_distinct_sources_in_one_process", len(distinct))
	c.Tag(fmt.Sprintf("reached:distinct_sources_in_one_process>=%d", len(distinct)/1000*1000))
}

func c01Hot(c *wk.Case) {
	cor := corpus.Scripts()
	scripts := c01GenScripts(c, cor)
	done := 0
	for _, src := range scripts {
		if len(src) > 4000 || done >= 24 {
			continue
		}
		// goroutines and channel operations would pile up or block over 1100 rounds
		if strings.Contains(src, "go ") || strings.Contains(src, "<-") || strings.Contains(src, "chan") {
			continue
		}
		src = c01Contain(src)
		if _, perr, po := ank.Parse(src); perr != nil || po.Panicked {
			continue
		}
		// ends by itself?
		if c01RunOne(c, src, 150*time.Millisecond) == "interrupted" {
			continue
		}
		wrapped := "for hotI = 0; hotI < 1100; hotI++ {\ntry {\n" + src + "\n} catch hotE { }\n}\n"
		if _, perr, _ := ank.Parse(wrapped); perr != nil {
			continue
		}
		c.Tag("hot:wrapped")
		c01RunOne(c, wrapped, 4*time.Second)
		done++
	}
	c.Count("hot_scripts_run_1100_rounds", done)
}

var c01SizeList = []int{255, 256, 257, 1023, 1024, 1025, 4095, 4096, 4097, 65535, 65536, 65537}

// container operations at and next to the size n; $N is n, $K walks the positions around the ends
var c01SizeOps = []string{
	"x = c[$K]", "c[$K] = 1", "c[$K] = c[$K]", "x = c[$K:]", "x = c[:$K]", "x = c[$K:$N]", "x = c[1:$K:$N]", "x = c[$K:$K]",
	"c[$K:][0] = 2", "c += [1]", "c += c", "x = c + c", "x = len(c)", "for v in c { x = v }", "for i, v in c { x = v }", "x = 1 in c", "x = c == c",
	"delete(c, $K)", "x = keys(c)", "c[$N] = 1", "c[$N + 1] = 1", "x = c[len(c) - 1]", "x = toString(c)", "x = c * 2", "x = c * $K", "x = c[$K] ?? 0",
	"c2 = c; c2[$K] = 3; x = c[$K]", "f = func(a...) { return len(a) }; x = f(c...)", "x = [c, c][1][$K]", "x = {\"a\": c}.a[$K]", "c[$K] += 1", "c[$K]++",
	"a, b = c", "var a, b, d = c", "x = c[$K:][:1]", "s = c[0:$K]; s += [9]; x = c[$K]", "for i = 0; i < 3; i++ { c = c[1:] }; x = len(c)",
	"switch c { case c: x = 1 }", "x = c ? 1 : 2", "x = !c", "p = &c; x = (*p)[$K]", "p = &c; (*p)[$K] = 4", "x = toByteSlice(c)", "x = toRuneSlice(c)", "x = toString(c)[$K]",
}

var c01SizeBuilders = []string{
	"c = make([]interface, $N)\nfor i = 0; i < $N; i++ { c[i] = i }",
	"c = []\nfor i = 0; i < $N; i++ { c += [i] }",
	"c = make([]int64, $N)",
	"c = make([]string, $N)\nc[0] = \"é\"",
	"c = make([]byte, $N)",
	"c = {}\nfor i = 0; i < $N; i++ { c[i] = i }",
	"c = {}\nfor i = 0; i < $N; i++ { c[toString(i)] = i }",
	"c = make(map[int64]string)\nfor i = 0; i < $N; i++ { c[i] = \"v\" }",
	"c = \"ab\" * ($N / 2) + \"c\" * ($N % 2)",
	"c = \"é\" * ($N / 2) + \"x\" * ($N % 2)",
	"c = make([][]int64, $N)",
}

// one case = one size x one way of building the container, every operation on it
func c01SizesR8(c *wk.Case) {
	n := c01SizeList[c.Index%len(c01SizeList)]
	bi := c.Index / len(c01SizeList) % len(c01SizeBuilders)
	b := c01SizeBuilders[bi]
	if n > 5000 && bi == 1 {
		return // the quadratic builder is kept for the small sizes
	}
	ks := []string{"0", "1", fmt.Sprint(n - 2), fmt.Sprint(n - 1), fmt.Sprint(n), fmt.Sprint(n + 1), fmt.Sprint(n / 2), "-1"}
	ran := 0
	for oi, op := range c01SizeOps {
		// every op with two of the positions (all of them over the builders and ops); one for the big sizes
		for r := 0; r < 2; r++ {
			k := ks[(bi+oi*3+r*5)%len(ks)]
			if strings.Contains(op, "* $K") {
				k = "2"
			}
			src := b + "\n" + op
			src = strings.ReplaceAll(strings.ReplaceAll(src, "$N", fmt.Sprint(n)), "$K", k)
			c01RunOne(c, src, 5*time.Second)
			ran++
			if !strings.Contains(op, "$K") || n > 5000 {
				break
			}
		}
	}
	c.Count("size_scripts", ran)
	c.Tag(fmt.Sprintf("reached:container_size=%d", n))
}
