package main

// C13, round-8 extensions: VOLUME and HISTORY.
//
// The statement says that every operation on a scope is atomic, that a copy is a consistent
// snapshot, and that no update is lost. Nothing in it depends on how many symbols the scope
// holds, how many operations it has seen, how many goroutines use it at once, how often one
// symbol was read before, how many copies were taken, or what the process did earlier. The
// older phases use scopes of 3 to 400 names, a handful of goroutines and a few thousand
// operations. The phases of this file keep the older oracles (the single-writer lanes of phase
// snapshots: a whole-scope result must be a state the scope had at ONE moment; the owner
// oracle of phase owners: what a goroutine reads of symbols only it writes is fixed by its own
// order) and move the workload:
//
//	bigscopes      one scope whose value and/or type table holds 255..257, 1023..1025,
//	               4095..4097, 20000, 65537 (thorough: 65535..65537, 200000) symbols, most of
//	               them never written, a few single-writer lanes among them (2 and 3 names in
//	               lock-step, a few hundred names, a values+types lane, a presence lane, a
//	               window of names that is defined at one end and deleted at the other so that
//	               the table keeps changing its size across the threshold), 3-4 readers taking a
//	               fixed number of Copy / DeepCopy / String / GetValueSymbols / GetTypeSymbols
//	               results while the writers run; variants: thousands of goroutines reading at
//	               once (each also the owner of one symbol), chains of 257..4097 (12000) child
//	               scopes with the writers and readers working through the innermost one.
//	longruns       4-8 goroutines x tens of thousands of operations on ONE scope with an
//	               earlier history (thousands of define/delete cycles, grown to 4097 names and
//	               emptied); each goroutine owns a counter it reads back thousands of times, a
//	               window of 255..4097 names it defines at one end and deletes at the other
//	               (thousands of names over the run), a type; copies KEPT and looked at again
//	               after exactly N-1, N, N+1 own writes for N in 256, 1000, 1024, 4096; forced
//	               garbage collections, leaked copies and goroutines; variant with thousands
//	               of goroutines x few operations.
//	*-race         bounded versions of both under the race detector.
//
// No phase knows a constant of the code under test; the sizes are the generic list.

import (
	"fmt"
	"math"
	"reflect"
	"runtime"
	"sort"
	"strconv"
	"strings"
	"sync"
	"sync/atomic"
	"time"

	"github.com/mattn/anko/env"

	"verifharness/internal/fw"
	"verifharness/internal/wk"
)

const c13r8Rule = " Round 8 (volume and history; the single-writer snapshot oracle of phase snapshots and the owner oracle of phase owners, applied to every result): " +
	"phase bigscopes (plain build, GOMAXPROCS 4/8/16; one case = one process, one round per size): a scope (the root or a child of a read-only root) whose value table, type table or both hold 255, 256, 257, 1023, 1024, 1025, 4095, 4096, 4097 symbols, the value table also 20000 and 65537 (thorough: 20000 and 65535..65537 for either table, 200000 values, PRNG sizes); all but a few hundred are never written after the start, among them sit single-writer lanes (values lanes of 2 and 3 names written in lock-step and of 24-400 names, types lanes of 2 and 16-115 names, a values+types lane, a presence lane defined in order and deleted in order, each written generation after generation in item order through Set/SetValue/Define/DefineValue, Set and DefineGlobal through the innermost descendant, DefineType/DefineReflectType) and a window of 8-64 names ch_k whose only writer defines ch_hi and then deletes ch_lo for as long as the readers work, so the table size keeps crossing the threshold; 3-4 readers take a fixed number of whole-scope results (Copy, DeepCopy of the scope and of a descendant, GetValueSymbols, GetTypeSymbols, String) plus descending single reads; every result must show every lane as g..g,g-1..g-1 in item order (for two names: gen(y) <= gen(x) <= gen(y)+1), the presence lane as a prefix or suffix, the window as one contiguous run of W or W+1 names that never moves back for one reader, every never-written name exactly once and no name nobody defined, no item going back for one reader, and the final state must be every writer's last write. Variant crowd: 1025 / 2049 (thorough 4097 and 10000) goroutines released together, each defining, setting and reading back a symbol only it writes and taking 2 whole-scope results judged as above and for its own symbol. Variant chain: the scope is the root of a chain of 257, 1025, 4097 (thorough 12000) child scopes, writers write through the innermost scope, readers copy the root and deep-copy the chain, and one goroutine reads a name of its own through the chain a thousand times between shadowing it in a middle scope, deleting the shadow and re-setting it (every read must show its last write). Between rounds everything is dropped, runtime.GC() runs, and a copy of the old scope stays alive with a parked goroutine. " +
	"phase longruns (plain build): 4-8 goroutines x 20000 operations (thorough 120000) on one child scope that was first cycled through 0-5000 Define/Delete pairs and grown to 4097 names and emptied, and then (still one goroutine) a series Copy, exactly d writes, Copy for d in 1, 2, 255..257, 999..1001, 1023..1025, 4095..4097, 65535..65537 (the second copy shows the last write, the first still what it showed); each goroutine is the only writer of a counter (written 1/8 and read back 1/4 of its operations, directly and through a private descendant), of a window of 255..257, 1023..1025 (thorough 4095..4097) names it defines at the upper end and deletes at the lower end (Delete, DeleteGlobal through the descendant), of updates of names inside the window (Set outside it must fail and define nothing), and of a type; reads just outside the window must fail; listings must show its names exactly; Copy/DeepCopy must show its counter and window; one copy at a time is KEPT and, after exactly N-1, N, N+1 own writes for N in 256, 1000, 1024, 4096 (one distance after the other, rotated per goroutine), must still show what it showed while a new copy shows the present, and a write into the kept copy must not show in the scope; foreign counters never go back; every 5000 operations one goroutine forces a garbage collection and a copy is leaked; at the end the scope lists exactly what the owners left. Every third case: 1025 or 2049 (thorough also 4097) goroutines x 40 operations on one scope. " +
	"phases bigscopes-race and longruns-race: the same under the race detector, bounded (sizes 257, 1025, 4097, thorough up to 20000 and chains of 1025 and 4097; crowds of 1025, thorough 2049 and 4097; 2500 operations per goroutine, thorough 20000)."

var c13r8Assumptions = []string{
	"the number of symbols in a scope, the number of operations it has seen, the number of goroutines using it and what the process did before are not inputs of the statement: a copy or listing of a scope of 65537 names must be a state of one moment like a copy of three names",
	"round-8 phases run on the schedules the Go runtime produces; their verdicts follow from the single writers' program order only and hold for every schedule; how many results overlapped a writer is recorded (results mid-generation), the readers do a fixed number of results and the writers work until the readers are done, so the case list does not depend on the clock",
}

// ---------------------------------------------------------------------------------------------
// plan and dispatch

type c13r8Big struct {
	kind  string // values | types | both | crowd | chain
	sizes []int
	crowd int
	depth int
}

func (b c13r8Big) String() string {
	return fmt.Sprintf("%s sizes=%v crowd=%d depth=%d", b.kind, b.sizes, b.crowd, b.depth)
}

var c13r8Generic = []int{255, 256, 257, 1023, 1024, 1025, 4095, 4096, 4097}

func c13r8BigPlan(tier string, race bool) []c13r8Big {
	var p []c13r8Big
	if race {
		p = []c13r8Big{
			{kind: "values", sizes: []int{257, 1025}},
			{kind: "both", sizes: []int{4097}},
			{kind: "crowd", sizes: []int{257}, crowd: 1025},
		}
		if tier == "thorough" {
			p = append(p, c13r8Big{kind: "values", sizes: []int{255, 256, 257}}, c13r8Big{kind: "values", sizes: []int{1023, 1024, 1025}}, c13r8Big{kind: "types", sizes: []int{1025, 4097}},
				c13r8Big{kind: "crowd", sizes: []int{257}, crowd: 2049}, c13r8Big{kind: "chain", sizes: []int{64}, depth: 1025},
				c13r8Big{kind: "values", sizes: []int{20000}}, c13r8Big{kind: "types", sizes: []int{4095, 4096, 4097}},
				c13r8Big{kind: "both", sizes: []int{4097}}, c13r8Big{kind: "crowd", sizes: []int{257}, crowd: 4097}, c13r8Big{kind: "chain", sizes: []int{64}, depth: 4097})
			for i := 0; i < 12; i++ {
				p = append(p, c13r8Big{kind: "random"})
			}
		}
		return p
	}
	p = []c13r8Big{
		{kind: "values", sizes: []int{255, 256, 257}},
		{kind: "values", sizes: []int{1023, 1024, 1025}},
		{kind: "values", sizes: []int{4095, 4096, 4097}},
		{kind: "values", sizes: []int{20000}},
		{kind: "values", sizes: []int{65537}},
		{kind: "types", sizes: []int{255, 256, 257}},
		{kind: "types", sizes: []int{1023, 1024, 1025}},
		{kind: "types", sizes: []int{4095, 4096, 4097}},
		{kind: "both", sizes: []int{1025, 4097}},
		{kind: "crowd", sizes: []int{257}, crowd: 2049},
		{kind: "chain", sizes: []int{64}, depth: 257},
		{kind: "chain", sizes: []int{64}, depth: 1025},
		{kind: "chain", sizes: []int{64}, depth: 4097},
	}
	if tier == "thorough" {
		p = append(p, c13r8Big{kind: "types", sizes: []int{20000}}, c13r8Big{kind: "crowd", sizes: []int{1025}, crowd: 1025}, c13r8Big{kind: "values", sizes: []int{65535, 65536, 65537}}, c13r8Big{kind: "types", sizes: []int{65535, 65536, 65537}},
			c13r8Big{kind: "values", sizes: []int{200000}}, c13r8Big{kind: "both", sizes: []int{20000}},
			c13r8Big{kind: "crowd", sizes: []int{257}, crowd: 4097}, c13r8Big{kind: "crowd", sizes: []int{257}, crowd: 10000}, c13r8Big{kind: "chain", sizes: []int{64}, depth: 12000})
		for i := 0; i < 40; i++ {
			p = append(p, c13r8Big{kind: "random"})
		}
	}
	return p
}

func c13r8LongCases(tier string, race bool) int {
	switch {
	case tier == "thorough" && race:
		return 18
	case tier == "thorough":
		return 36
	case race:
		return 2
	}
	return 6
}

func c13r8Phases(tier string) []fw.Phase {
	return []fw.Phase{
		{Name: "bigscopes", Cases: len(c13r8BigPlan(tier, false)), Chunk: 1, TimeoutS: 900, Jobs: 5, MemMB: 8192},
		{Name: "longruns", Cases: c13r8LongCases(tier, false), Chunk: 1, TimeoutS: 900, Jobs: 5, MemMB: 8192},
		{Name: "bigscopes-race", Race: true, Cases: len(c13r8BigPlan(tier, true)), Chunk: 1, TimeoutS: 900, Jobs: 5},
		{Name: "longruns-race", Race: true, Cases: c13r8LongCases(tier, true), Chunk: 1, TimeoutS: 900, Jobs: 5},
	}
}

// c13r8Run runs a case of one of the round-8 phases; false when the phase is not one of them.
func c13r8Run(c *wk.Case) bool {
	switch c.Phase {
	case "bigscopes":
		c13r8BigCase(c, false)
	case "bigscopes-race":
		c13r8BigCase(c, true)
	case "longruns":
		c13r8Long(c, false)
	case "longruns-race":
		c13r8Long(c, true)
	default:
		return false
	}
	return true
}

// c13r8Leaked: environments (and, through c13r8Park, goroutines) earlier rounds leave alive
var c13r8Leaked []*env.Env
var c13r8LeakMu sync.Mutex

func c13r8Leak(e *env.Env) {
	c13r8LeakMu.Lock()
	if len(c13r8Leaked) < 64 {
		c13r8Leaked = append(c13r8Leaked, e)
		go c13r8Park(e)
	}
	c13r8LeakMu.Unlock()
}

// c13r8Park: a goroutine that keeps an environment alive for the rest of the process
func c13r8Park(e *env.Env) {
	ch := make(chan struct{})
	<-ch
	runtime.KeepAlive(e)
}

func c13r8Marks(c *wk.Case, name string, v int, marks []int) {
	for _, m := range marks {
		if v >= m {
			c.Tag(name + ">=" + strconv.Itoa(m))
		}
	}
}

func c13r8Xorshift(seed int64) func(int) int {
	x := uint64(seed) | 1
	return func(n int) int {
		x ^= x << 13
		x ^= x >> 7
		x ^= x << 17
		return int(x % uint64(n))
	}
}

// ---------------------------------------------------------------------------------------------
// phase bigscopes

func c13r8BigCase(c *wk.Case, race bool) {
	plan := c13r8BigPlan(c.Tier, race)
	cfg := plan[c.Index%len(plan)]
	if cfg.kind == "random" {
		r := c.Rng
		cfg.kind = []string{"values", "types", "both", "values", "chain", "crowd"}[r.Intn(6)]
		pick := func() int {
			s := c13r8Generic[r.Intn(len(c13r8Generic))]
			switch r.Intn(6) {
			case 0:
				s = 258 + r.Intn(3800)
			case 1:
				if !race {
					s = 4098 + r.Intn(30000)
				}
			}
			return s
		}
		cfg.sizes = []int{pick(), pick()}
		switch cfg.kind {
		case "chain":
			cfg.sizes = []int{64 + r.Intn(200)}
			cfg.depth = c13r8Generic[r.Intn(len(c13r8Generic))]
		case "crowd":
			cfg.sizes = []int{255 + r.Intn(3)}
			cfg.crowd = []int{1023, 1024, 1025, 2049}[r.Intn(4)]
		}
	}
	procs := []int{16, 4, 8}[c.Index%3]
	if cfg.kind == "crowd" {
		procs = 16
	}
	old := runtime.GOMAXPROCS(procs)
	defer runtime.GOMAXPROCS(old)
	input := map[string]interface{}{"phase": c.Phase, "config": cfg.String(), "gomaxprocs": procs}
	c.Begin(input)
	rep := &c13r5Reporter{viol: map[string]string{}, counts: map[string]int{}}
	var mixed, whole int64
	maxSize := 0
	for round, size := range cfg.sizes {
		m, w := c13r8BigRound(c, rep, cfg, size, race, input)
		mixed += m
		whole += w
		if size > maxSize {
			maxSize = size
		}
		c.Tag(fmt.Sprintf("%s:%s:size:%d", c.Phase, cfg.kind, size))
		if len(rep.viol) > 0 || len(rep.panics) > 0 {
			break
		}
		_ = round
		runtime.GC()
	}
	c13r8Marks(c, c.Phase+":symbols-in-one-table", maxSize, []int{257, 1025, 4097, 20000, 65537, 200000})
	c13r8Marks(c, c.Phase+":goroutines-at-once", cfg.crowd, []int{1025, 2049, 4097, 10000})
	c13r8Marks(c, c.Phase+":chain-depth", cfg.depth, []int{257, 1025, 4097, 12000})
	c.Count(c.Phase+"_whole_scope_results", int(whole))
	c.Count(c.Phase+"_results_mid_generation", int(mixed))
	c13r8Flush(c, rep, c.Phase+"_ops:", input)
	c.Eval(fmt.Sprintf("%s %s procs=%d idx=%d", c.Phase, cfg, procs, c.Index), mixed > 0)
	if c.WantSample() {
		c.Sample(map[string]interface{}{"phase": c.Phase, "config": cfg.String(), "gomaxprocs": procs, "whole_scope_results": whole, "results_mid_generation": mixed, "operation_counts": rep.counts})
	}
}

// c13r8Flush: like c13r5Reporter.flush, with the signatures marked as found by the volume regime
func c13r8Flush(c *wk.Case, rep *c13r5Reporter, prefix string, input interface{}) {
	rep.mu.Lock()
	v := map[string]string{}
	for sig, d := range rep.viol {
		v["volume:"+sig] = d
	}
	rep.viol = v
	rep.mu.Unlock()
	rep.flush(c, prefix, input)
}

type c13r8Table struct {
	nFillV, nFillT int
	churnW         int
	known          map[string]bool // names besides fillers and the window that may appear (lane items, own symbols); value = is a type
	ownPrefix      string          // crowd: names o_<id> may appear
}

// c13r8Names judges the NAMES one whole-scope result shows of one table.
// seenLo: the lowest window index this reader saw last (never moves back).
func (t *c13r8Table) names(rep *c13r5Reporter, op string, names []string, types bool, bitmap []bool, seenLo *int) {
	sig := func(what string) string {
		tb := "values"
		if types {
			tb = "types"
		}
		return "names:" + op + ":" + tb + ":" + what
	}
	nFill := t.nFillV
	fp := "f_"
	if types {
		nFill = t.nFillT
		fp = "F_"
	}
	for i := range bitmap[:nFill] {
		bitmap[i] = false
	}
	fills := 0
	var win []int
	var other map[string]bool
	for _, k := range names {
		switch {
		case strings.HasPrefix(k, fp):
			i, err := strconv.Atoi(k[2:])
			if err != nil || i < 0 || i >= nFill {
				rep.report(sig("symbol-never-defined"), fmt.Sprintf("%s shows the name %q; nobody ever defined it", op, k))
				return
			}
			if bitmap[i] {
				rep.report(sig("symbol-listed-twice"), fmt.Sprintf("%s shows the name %q twice", op, k))
				return
			}
			bitmap[i] = true
			fills++
		case !types && strings.HasPrefix(k, "ch_"):
			i, err := strconv.Atoi(k[3:])
			if err != nil {
				rep.report(sig("symbol-never-defined"), fmt.Sprintf("%s shows the name %q; nobody ever defined it", op, k))
				return
			}
			win = append(win, i)
		default:
			isT, ok := t.known[k]
			if !ok && t.ownPrefix != "" && !types && strings.HasPrefix(k, t.ownPrefix) {
				ok, isT = true, false
			}
			if !ok || isT != types {
				rep.report(sig("symbol-never-defined"), fmt.Sprintf("%s shows the name %q in this table; nobody ever defined it there", op, k))
				return
			}
			if other == nil {
				other = map[string]bool{}
			}
			if other[k] {
				rep.report(sig("symbol-listed-twice"), fmt.Sprintf("%s shows the name %q twice", op, k))
				return
			}
			other[k] = true
		}
	}
	if fills != nFill {
		miss := -1
		for i := 0; i < nFill; i++ {
			if !bitmap[i] {
				miss = i
				break
			}
		}
		rep.report(sig("symbol-missing"), fmt.Sprintf("%s shows %d of the %d names %s<i> that were defined before the start and are never written or deleted (%s%d is missing)", op, fills, nFill, fp, fp, miss))
		return
	}
	if !types && t.churnW > 0 {
		sort.Ints(win)
		for i := 1; i < len(win); i++ {
			if win[i] == win[i-1] {
				rep.report(sig("symbol-listed-twice"), fmt.Sprintf("%s shows the name ch_%d twice", op, win[i]))
				return
			}
		}
		n := len(win)
		if n == 0 || win[n-1]-win[0] != n-1 || (n != t.churnW && n != t.churnW+1) {
			lo, hi := -1, -1
			if n > 0 {
				lo, hi = win[0], win[n-1]
			}
			rep.report(sig("window-not-one-moment"), fmt.Sprintf("%s shows %d names ch_<k> between ch_%d and ch_%d; their only writer defines ch_hi and then deletes ch_lo, so at every moment the names present are %d or %d consecutive ones", op, n, lo, hi, t.churnW, t.churnW+1))
			return
		}
		if win[0] < *seenLo {
			rep.report(sig("window-went-back"), fmt.Sprintf("%s shows ch_%d; an earlier result of the same goroutine showed that its writer had already deleted everything below ch_%d", op, win[0], *seenLo))
			return
		}
		*seenLo = win[0]
	}
}

// c13r8ParseString: the lines "name = text" of Env.String: the view of the contents and the names
// (value names start with a lower-case letter, type names with an upper-case one)
func c13r8ParseString(txt string) (view c13r6View, vnames, tnames []string) {
	lines := map[string]string{}
	for _, ln := range strings.Split(txt, "\n") {
		if i := strings.Index(ln, " = "); i > 0 {
			k := ln[:i]
			lines[k] = ln[i+3:]
			if k[0] >= 'A' && k[0] <= 'Z' {
				tnames = append(tnames, k)
			} else {
				vnames = append(vnames, k)
			}
		}
	}
	return func(it c13r6Item) int {
		s, ok := lines[it.name]
		if !ok {
			return c13r6Absent
		}
		if it.isType {
			if !strings.HasPrefix(s, "[") || !strings.HasSuffix(s, "]struct {}") {
				return c13r6Unknown
			}
			s = s[1 : len(s)-len("]struct {}")]
		}
		n, err := strconv.Atoi(s)
		if err != nil || n < 0 {
			return c13r6Unknown
		}
		return n
	}, vnames, tnames
}

// c13r8BigRound: one scope of the given size, its writers and readers; returns the number of
// whole-scope results that caught a writer mid-generation and the number of results.
func c13r8BigRound(c *wk.Case, rep *c13r5Reporter, cfg c13r8Big, size int, race bool, input map[string]interface{}) (int64, int64) {
	rng := c.Rng
	chain, crowd := cfg.kind == "chain", cfg.kind == "crowd"
	onRoot := chain || rng.Intn(3) == 0
	root := env.NewEnv()
	scope := root
	if !onRoot {
		root.Define("kp", "P") // the parent is read-only
		scope = root.NewEnv()
	}
	depth := 2
	if chain {
		depth = cfg.depth
	}
	leaf := scope
	var middle *env.Env
	for i := 0; i < depth; i++ {
		leaf = leaf.NewEnv()
		if chain && i%7 == 3 {
			leaf.Define("lv", i) // some scopes of the chain have a table, most have none
		}
		if i == depth/2 {
			middle = leaf
		}
	}

	// the lanes
	type spec struct {
		kind string
		n    int
	}
	med := func(lo, span int) int {
		n := lo + rng.Intn(span)
		if lim := size / 4; n > lim {
			n = lim
		}
		if n < 4 {
			n = 4
		}
		return n
	}
	var specs []spec
	switch {
	case chain:
		specs = []spec{{c13r6Values, 2}, {c13r6Values, 16}, {c13r6Types, 2}, {c13r6Presence, 12}}
	case crowd:
		specs = []spec{{c13r6Values, 2}, {c13r6Values, med(24, 100)}, {c13r6Mixed, 4}, {c13r6Presence, med(8, 40)}}
	default:
		specs = []spec{{c13r6Values, 2}, {c13r6Values, 3}, {c13r6Values, med(24, 377)}, {c13r6Types, 2}, {c13r6Types, med(16, 100)}, {c13r6Mixed, 2 * med(2, 15)}, {c13r6Presence, med(16, 285)}}
	}
	tab := &c13r8Table{known: map[string]bool{}}
	if crowd {
		tab.ownPrefix = "o_"
	}
	var lanes []*c13r6Lane
	var laneDesc []string
	nValItems, nTypItems := 0, 0
	for li, sp := range specs {
		lane := &c13r6Lane{kind: sp.kind, gens: math.MaxInt32}
		for i := 0; i < sp.n; i++ {
			var it c13r6Item
			switch sp.kind {
			case c13r6Values:
				it = c13r6Item{false, fmt.Sprintf("a%d_%03d", li, i)}
			case c13r6Types:
				it = c13r6Item{true, fmt.Sprintf("T%d_%03d", li, i)}
			case c13r6Mixed:
				if i%2 == 0 {
					it = c13r6Item{false, fmt.Sprintf("m%d_%03d", li, i)}
				} else {
					it = c13r6Item{true, fmt.Sprintf("M%d_%03d", li, i)}
				}
			default:
				it = c13r6Item{false, fmt.Sprintf("p%d_%03d", li, i)}
			}
			lane.items = append(lane.items, it)
			tab.known[it.name] = it.isType
			switch {
			case sp.kind == c13r6Presence:
			case it.isType:
				scope.DefineReflectType(it.name, c13r6TypeOf(0))
				nTypItems++
			default:
				scope.Define(it.name, 0)
				nValItems++
			}
		}
		lanes = append(lanes, lane)
		laneDesc = append(laneDesc, fmt.Sprintf("%s:%d", sp.kind, sp.n))
	}
	// the window and the never-written names: the value table holds `size` names at the start
	// when values are what the case is about, the type table likewise
	tab.churnW = 8 + rng.Intn(57)
	if chain {
		tab.churnW = 8
	}
	bigV := cfg.kind != "types"
	bigT := cfg.kind == "types" || cfg.kind == "both"
	if bigV {
		tab.nFillV = size - nValItems - tab.churnW
		if tab.nFillV < 0 {
			tab.nFillV = 0
		}
	}
	if bigT {
		tab.nFillT = size - nTypItems
		if tab.nFillT < 0 {
			tab.nFillT = 0
		}
	}
	for i := 0; i < tab.nFillV; i++ {
		scope.Define("f_"+strconv.Itoa(i), i)
	}
	int64T := reflect.TypeOf(int64(0))
	for i := 0; i < tab.nFillT; i++ {
		scope.DefineReflectType("F_"+strconv.Itoa(i), int64T)
	}
	for k := 0; k < tab.churnW; k++ {
		scope.Define("ch_"+strconv.Itoa(k), k)
	}
	if chain {
		tab.known["own"] = false
	}

	// how much the readers do
	budget, most := 600000, 150
	if c.Tier == "thorough" {
		budget, most = 6000000, 1500
	}
	if race {
		budget /= 12
	}
	nReaders := 3 + rng.Intn(2)
	perReader := budget / (size + 200)
	if chain {
		perReader = budget / (40 * (depth + 200))
	}
	if perReader < 40 {
		perReader = 40
		if size > 30000 && c.Tier != "thorough" {
			perReader = 24
		}
	}
	if perReader > most {
		perReader = most
	}
	if crowd {
		nReaders, perReader = cfg.crowd, 2
	}
	minGens := 30

	var stop, failed int32
	var mixedTotal, wholeTotal int64
	var wg, wgW sync.WaitGroup
	start := make(chan struct{})
	lastGen := make([]int, len(lanes))
	wseeds := make([]int64, len(lanes)+2)
	for i := range wseeds {
		wseeds[i] = rng.Int63()
	}
	rseed := rng.Int63()

	// the lane writers
	for li, lane := range lanes {
		wg.Add(1)
		wgW.Add(1)
		go func(li int, lane *c13r6Lane) {
			defer wg.Done()
			defer wgW.Done()
			defer func() {
				if r := recover(); r != nil {
					rep.recovered(r)
				}
			}()
			next := c13r8Xorshift(wseeds[li])
			local := map[string]int{}
			maxGens := 4000000
			if lane.kind == c13r6Types || lane.kind == c13r6Mixed {
				maxGens = 30000 // every generation makes a type that lives as long as the process
			}
			<-start
			g := 0
			for g < maxGens && atomic.LoadInt32(&failed) == 0 && (atomic.LoadInt32(&stop) == 0 || g < minGens) {
				g++
				mode := next(8)
				typ := c13r6TypeOf(g)
				for _, it := range lane.items {
					var err error
					var op string
					switch {
					case lane.kind == c13r6Presence && g%2 == 1:
						switch m := mode % 3; {
						case m == 0:
							err, op = scope.Define(it.name, g), "Define"
						case m == 1:
							err, op = scope.DefineValue(it.name, reflect.ValueOf(g)), "DefineValue"
						case onRoot:
							err, op = leaf.DefineGlobal(it.name, g), "DefineGlobal"
						default:
							err, op = scope.Define(it.name, g), "Define"
						}
					case lane.kind == c13r6Presence:
						if mode%2 == 0 {
							scope.Delete(it.name)
							op = "Delete"
						} else {
							leaf.DeleteGlobal(it.name)
							op = "DeleteGlobal"
						}
					case it.isType:
						switch m := mode % 3; {
						case m == 0:
							err, op = scope.DefineType(it.name, reflect.Zero(typ).Interface()), "DefineType"
						case m == 1 && onRoot:
							err, op = leaf.DefineGlobalReflectType(it.name, typ), "DefineGlobalReflectType"
						default:
							err, op = scope.DefineReflectType(it.name, typ), "DefineReflectType"
						}
					default:
						switch m := mode % 7; {
						case m == 0:
							err, op = scope.SetValue(it.name, reflect.ValueOf(g)), "SetValue"
						case m == 1:
							err, op = leaf.Set(it.name, g), "Set"
						case m == 2:
							err, op = scope.Define(it.name, g), "Define"
						case m == 3:
							err, op = scope.DefineValue(it.name, reflect.ValueOf(g)), "DefineValue"
						case m == 4 && onRoot:
							err, op = leaf.DefineGlobal(it.name, g), "DefineGlobal"
						default:
							err, op = scope.Set(it.name, g), "Set"
						}
					}
					local[op]++
					if crowd {
						runtime.Gosched() // thousands of readers are woken by every write
					}
					if err != nil {
						rep.report("snapshot:writer:"+op+":fails", fmt.Sprintf("%s(%s) by the only writer of the name fails: %v", op, it.name, err))
						atomic.StoreInt32(&failed, 1)
						return
					}
				}
				lastGen[li] = g
				if next(4) == 0 {
					runtime.Gosched()
				}
			}
			rep.merge(local)
		}(li, lane)
	}
	// the window writer
	winLo, winHi := 0, tab.churnW
	wg.Add(1)
	wgW.Add(1)
	go func() {
		defer wg.Done()
		defer wgW.Done()
		defer func() {
			if r := recover(); r != nil {
				rep.recovered(r)
			}
		}()
		next := c13r8Xorshift(wseeds[len(lanes)])
		n := 0
		<-start
		for atomic.LoadInt32(&failed) == 0 && (atomic.LoadInt32(&stop) == 0 || n < minGens) && n < 4000000 {
			if err := scope.Define("ch_"+strconv.Itoa(winHi), winHi); err != nil {
				rep.report("snapshot:writer:Define:fails", fmt.Sprintf("Define(ch_%d): %v", winHi, err))
				return
			}
			winHi++
			if next(3) == 0 {
				leaf.DeleteGlobal("ch_" + strconv.Itoa(winLo))
			} else {
				scope.Delete("ch_" + strconv.Itoa(winLo))
			}
			winLo++
			n++
			if crowd || next(8) == 0 {
				runtime.Gosched()
			}
		}
		rep.merge(map[string]int{"window:Define+Delete": n})
	}()
	// chain: one goroutine reads a name of its own through the chain, shadows it in a middle scope,
	// deletes the shadow, sets it again. Nobody else writes the name anywhere.
	if chain {
		wg.Add(1)
		wgW.Add(1)
		go func() {
			defer wg.Done()
			defer wgW.Done()
			defer func() {
				if r := recover(); r != nil {
					rep.recovered(r)
				}
			}()
			next := c13r8Xorshift(wseeds[len(lanes)+1])
			scope.Define("own", 0)
			want, reads, steps, rootVal := 0, 0, 0, 0
			<-start
			for atomic.LoadInt32(&failed) == 0 && (atomic.LoadInt32(&stop) == 0 || steps < 8) && steps < 100000 {
				nr := []int{999, 1000, 1001, 1023, 1024, 1025}[next(6)]
				if race || depth > 1025 {
					nr = 255 + next(3)
				}
				for i := 0; i < nr; i++ {
					v, err := leaf.Get("own")
					reads++
					if err != nil || v != want {
						rep.report("owned-symbol:Get-through-chain:own-write-not-read-back", fmt.Sprintf("the only writer of the name own left it at %d for a lookup from the innermost scope (step %d: 0 = set on the root, 1 = shadowed in a middle scope, 2 = shadow deleted, 3 = set through the innermost scope); read %d after that step returns %v (error %v)", want, steps%4, i, v, err))
						atomic.StoreInt32(&failed, 1)
						return
					}
				}
				steps++
				switch steps % 4 {
				case 1:
					want = steps*10 + 1
					middle.Define("own", want)
				case 2:
					middle.Delete("own")
					want = rootVal
				case 3:
					rootVal = steps*10 + 3
					want = rootVal
					if err := leaf.Set("own", want); err != nil {
						rep.report("owned-symbol:Set-through-chain:fails", fmt.Sprintf("Set(own) from the innermost scope fails though the root binds it: %v", err))
						return
					}
				default:
					rootVal = steps * 10
					want = rootVal
					scope.Define("own", want)
				}
			}
			rep.merge(map[string]int{"chain:Get-own-through-chain": reads, "chain:shadow-steps": steps})
		}()
	}

	// the readers
	release := make(chan struct{})
	var arrived, wgReaders sync.WaitGroup
	arrived.Add(nReaders)
	for r := 0; r < nReaders; r++ {
		wg.Add(1)
		wgReaders.Add(1)
		go func(r int) {
			defer wg.Done()
			defer wgReaders.Done()
			defer func() {
				if r := recover(); r != nil {
					rep.recovered(r)
				}
			}()
			next := c13r8Xorshift(rseed + int64(r)*7919)
			seen := make([][]int, len(lanes))
			for i, lane := range lanes {
				seen[i] = make([]int, len(lane.items))
			}
			nb := tab.nFillV
			if tab.nFillT > nb {
				nb = tab.nFillT
			}
			bitmap := make([]bool, nb)
			seenLo := 0
			local := map[string]int{}
			var mixed, whole int64
			me := "o_" + strconv.Itoa(r)
			myVal := 0
			arrived.Done()
			<-release
			for done := 0; done < perReader && atomic.LoadInt32(&failed) == 0; {
				if crowd {
					// the goroutine's own symbol: written and read back around every result
					myVal++
					var err error
					if myVal == 1 {
						err = scope.Define(me, myVal)
					} else {
						err = leaf.Set(me, myVal)
					}
					if err != nil {
						rep.report("owned-symbol:write:fails", fmt.Sprintf("goroutine %d: write %d of its own symbol %s fails: %v", r, myVal, me, err))
					}
					if v, err := scope.Get(me); err != nil || v != myVal {
						rep.report("owned-symbol:Get:own-write-not-read-back", fmt.Sprintf("goroutine %d wrote %s=%d last and nobody else writes it, but Get returns %v (error %v)", r, me, myVal, v, err))
					}
					local["crowd:own-write+Get"]++
				}
				var view c13r6View
				var vnames, tnames []string
				var op string
				var own func() (interface{}, error)
				k := next(20)
				if size > 5000 && k >= 17 && k < 19 && next(3) != 0 {
					k = 0 // String of a big scope costs ten copies
				}
				switch {
				case k < 7:
					cp := scope.Copy()
					op, view, vnames, tnames = "Copy", c13r6EnvView(cp), cp.GetValueSymbols(), cp.GetTypeSymbols()
					own = func() (interface{}, error) { return cp.Get(me) }
				case k < 9:
					cp := scope.DeepCopy()
					op, view, vnames, tnames = "DeepCopy", c13r6EnvView(cp), cp.GetValueSymbols(), cp.GetTypeSymbols()
					own = func() (interface{}, error) { return cp.Get(me) }
				case k < 11:
					if chain && next(4) != 0 {
						continue // a deep copy of the whole chain is dear
					}
					cp := leaf.DeepCopy()
					op, view = "DeepCopy", c13r6EnvView(cp)
					own = func() (interface{}, error) { return cp.Get(me) }
				case k < 14:
					vnames = scope.GetValueSymbols()
					op, view = "GetValueSymbols", c13r6ListView(vnames, false)
					if vnames == nil {
						vnames = []string{}
					}
				case k < 16:
					tnames = scope.GetTypeSymbols()
					op, view = "GetTypeSymbols", c13r6ListView(tnames, true)
					if tnames == nil {
						tnames = []string{}
					}
				case k < 19 && !(chain && k == 16):
					op = "String"
					view, vnames, tnames = c13r8ParseString(scope.String())
					if vnames == nil {
						vnames = []string{}
					}
					if tnames == nil {
						tnames = []string{}
					}
				default:
					// single reads in descending item order
					li := next(len(lanes))
					lane := lanes[li]
					if lane.kind == c13r6Presence {
						continue
					}
					d := []*env.Env{scope, leaf}[next(2)]
					look := c13r6EnvView(d)
					i := len(lane.items) - 1 - next(2)
					prev, prevName := -1, ""
					for k := 0; k < 8 && i >= 0; k, i = k+1, i-1-next(1+len(lane.items)/6) {
						it := lane.items[i]
						g := look(it)
						what := "Get"
						if it.isType {
							what = "Type"
						}
						local[what]++
						switch {
						case g < 0:
							rep.report("ordered-reads:"+what+":"+lane.kind+":symbol-missing-or-content-never-written", fmt.Sprintf("%s(%s) answers no generation the writer stored (%d)", what, it.name, g))
						case g < prev:
							rep.report("ordered-reads:"+what+":"+lane.kind+":earlier-write-not-visible", fmt.Sprintf("%s(%s) showed generation %d, the read of %s after it shows generation %d: the lane's only writer stores a generation into %s before it stores it into %s", what, prevName, prev, it.name, g, it.name, prevName))
						case g < seen[li][i]:
							rep.report("ordered-reads:"+what+":"+lane.kind+":went-back", fmt.Sprintf("%s(%s) shows generation %d; an earlier operation of the same goroutine showed %d", what, it.name, g, seen[li][i]))
						default:
							seen[li][i] = g
						}
						prev, prevName = g, it.name
					}
					continue
				}
				done++
				whole++
				local[op]++
				for li, lane := range lanes {
					if c13r6Check(rep, op, lane, view, seen[li]) {
						mixed++
					}
				}
				if vnames != nil {
					tab.names(rep, op, vnames, false, bitmap, &seenLo)
				}
				if tnames != nil {
					tab.names(rep, op, tnames, true, bitmap, &seenLo)
				}
				if crowd && own != nil {
					if v, err := own(); err != nil || v != myVal {
						rep.report("owned-symbol:"+op+":own-write-not-read-back", fmt.Sprintf("goroutine %d wrote %s=%d last and nobody else writes it, but %s shows %v (error %v)", r, me, myVal, op, v, err))
					}
				}
				rep.mu.Lock()
				bad := len(rep.viol) > 0
				rep.mu.Unlock()
				if bad {
					atomic.StoreInt32(&failed, 1)
				}
			}
			atomic.AddInt64(&mixedTotal, mixed)
			atomic.AddInt64(&wholeTotal, whole)
			rep.merge(local)
		}(r)
	}
	// the readers do a fixed number of results; the writers stop after the generation in which the last reader ended
	go func() {
		arrived.Wait()
		close(start)
		// the writers get going before the readers are let loose together
		runtime.Gosched()
		close(release)
	}()
	go func() {
		wgReaders.Wait()
		atomic.StoreInt32(&stop, 1)
	}()
	c13r5Wait(c, &wg, 150*time.Second, c.Phase+"-watchdog", input)

	// the final state: every writer's last write
	if len(rep.panics) == 0 && len(rep.viol) == 0 {
		view := c13r6EnvView(scope)
		for li, lane := range lanes {
			for _, it := range lane.items {
				g := view(it)
				want := lastGen[li]
				if lane.kind == c13r6Presence && want%2 == 0 {
					want = c13r6Absent
				}
				if g != want {
					rep.report("snapshot:final-state:"+lane.kind+":last-write-missing", fmt.Sprintf("the writer of %s left it at generation %d (%d = deleted), at the end the scope shows %d", it.name, lastGen[li], c13r6Absent, g))
					break
				}
			}
		}
		bitmap := make([]bool, tab.nFillV+tab.nFillT+1)
		lo := 0
		tab.names(rep, "final-listing", scope.GetValueSymbols(), false, bitmap, &lo)
		tab.names(rep, "final-listing", scope.GetTypeSymbols(), true, bitmap, &lo)
		if lo != winLo && len(rep.viol) == 0 {
			rep.report("names:final-listing:values:window-not-as-left", fmt.Sprintf("the window's writer left ch_%d..ch_%d, the scope lists a window starting at ch_%d", winLo, winHi-1, lo))
		}
	}
	c.Tag(fmt.Sprintf("%s:lanes-on-root:%v", c.Phase, onRoot))
	_ = laneDesc
	// garbage and leftovers for the next round
	c13r8Leak(scope.Copy())
	return mixedTotal, wholeTotal
}

// ---------------------------------------------------------------------------------------------
// phase longruns

var c13r8Distances = []int{255, 256, 257, 999, 1000, 1001, 1023, 1024, 1025, 4095, 4096, 4097}

type c13r8Kept struct {
	cp         *env.Env
	w, lo, hi  int
	loVal      int
	hiVal      int
	due, dist  int
	typGen     int
	copiedWith string
}

func c13r8Long(c *wk.Case, race bool) {
	rng := c.Rng
	procs := []int{16, 4, 8, 2}[c.Index%4]
	old := runtime.GOMAXPROCS(procs)
	defer runtime.GOMAXPROCS(old)
	crowd := c.Index%3 == 2
	ng := 4 + rng.Intn(5)
	nops := 20000
	if c.Tier == "thorough" {
		nops = 120000
	}
	if race {
		nops /= 6
		if c.Tier != "thorough" {
			nops = 2500
		}
	}
	wins := []int{255, 256, 257, 1023, 1024, 1025}
	if c.Tier == "thorough" {
		wins = c13r8Generic
	}
	W := wins[(c.Index/3*2+c.Index%3)%len(wins)]
	if crowd {
		ng = []int{1025, 2049, 4097}[(c.Index/3)%3]
		if (race || c.Tier != "thorough") && ng > 2049 {
			ng = 1025
		}
		nops, W = 40, 3
	}
	prehist := []int{0, 300, 5000}[c.Index%3]
	root := env.NewEnv()
	root.Define("kp", "P")
	shared := root.NewEnv()
	// the earlier history of the scope
	for i := 0; i < prehist; i++ {
		k := "h_" + strconv.Itoa(i%17)
		shared.Define(k, i)
		shared.Delete(k)
	}
	if prehist > 0 {
		for i := 0; i < 4097; i++ {
			shared.Define("h_"+strconv.Itoa(i), i)
			shared.DefineType("H_"+strconv.Itoa(i), int64(0))
		}
		pre := shared.Copy()
		for i := 0; i < 4097; i++ {
			shared.Delete("h_" + strconv.Itoa(i))
		}
		c13r8Leak(pre)
	}
	// still one-at-a-time: a copy, exactly d writes, another copy - for every generic distance. The
	// second copy must show the last write, the first what it showed (one goroutine: every ordering
	// is its own order)
	seq := &c13r5Reporter{viol: map[string]string{}, counts: map[string]int{}}
	dists := append([]int{1, 2}, c13r8Distances...)
	if !race || c.Tier == "thorough" {
		dists = append(dists, 65535, 65536, 65537)
	}
	shared.Define("sq", 0)
	shared.Define("sq2", 0)
	nseq := 0
	for di, d := range dists {
		mode := (di + c.Index) % 4
		before := nseq
		cp1 := shared.Copy()
		for i := 0; i < d; i++ {
			nseq++
			switch {
			case mode == 0 || i == d-1:
				shared.Set("sq", nseq)
			case mode == 1:
				shared.Define("sq2", nseq)
			case mode == 2 && i%2 == 0:
				shared.Define("sq_t", nseq)
			case mode == 2:
				shared.Delete("sq_t")
			default:
				shared.Define("sq", nseq)
			}
		}
		cp2 := shared.Copy()
		if v, err := cp2.Get("sq"); err != nil || v != nseq {
			seq.report("sequential:Copy:write-before-the-copy-missing", fmt.Sprintf("one goroutine: Copy, %d writes to the scope (the last one sq=%d), Copy: the second copy shows sq=%v (error %v)", d, nseq, v, err))
		}
		if v, err := cp1.Get("sq"); err != nil || v != before {
			seq.report("sequential:Copy:kept-copy-changed", fmt.Sprintf("one goroutine: a copy taken when the scope held sq=%d shows sq=%v (error %v) after %d writes to the scope", before, v, err, d))
		}
		if l1, l2 := len(cp2.GetValueSymbols()), len(shared.GetValueSymbols()); l1 != l2 {
			seq.report("sequential:Copy:copy-differs-from-scope", fmt.Sprintf("one goroutine: after %d writes a copy lists %d names, the scope %d", d, l1, l2))
		}
		c.Tag(fmt.Sprintf("%s:sequential-copy-distance:%d", c.Phase, d))
	}
	shared.Delete("sq")
	shared.Delete("sq2")
	shared.Delete("sq_t")
	for g := 0; g < ng; g++ {
		shared.Define("w"+strconv.Itoa(g), 0)
	}
	seeds := make([]int64, ng)
	for i := range seeds {
		seeds[i] = rng.Int63()
	}
	input := map[string]interface{}{"phase": c.Phase, "goroutines": ng, "ops": nops, "window": W, "earlier_cycles": prehist, "gomaxprocs": procs}
	c.Begin(input)
	rep := &c13r5Reporter{viol: map[string]string{}, counts: map[string]int{}}
	for sig, d := range seq.viol {
		rep.viol[sig] = d
	}
	rep.counts["sequential-writes-between-copies"] = nseq

	type state struct {
		w, lo, hi int
		vals      map[int]int
		typGen    int
	}
	states := make([]*state, ng)
	var wg sync.WaitGroup
	var failed int32
	start := make(chan struct{})
	for g := 0; g < ng; g++ {
		wg.Add(1)
		st := &state{vals: map[int]int{}}
		states[g] = st
		go func(g int) {
			defer wg.Done()
			defer func() {
				if r := recover(); r != nil {
					rep.recovered(r)
				}
			}()
			next := c13r8Xorshift(seeds[g])
			me := "w" + strconv.Itoa(g)
			cn := func(k int) string { return "c" + strconv.Itoa(g) + "_" + strconv.Itoa(k) }
			tn := "T" + strconv.Itoa(g)
			leaf := shared.NewEnv().NewEnv()
			seen := make([]int, ng)
			local := map[string]int{}
			writes := 0
			var kept *c13r8Kept
			nextDist := g * 3
			bad := func(sig, detail string) {
				rep.report(sig, detail)
				atomic.StoreInt32(&failed, 1)
			}
			// checkCopy: what a copy taken now must show of g's symbols (get reads the copy)
			checkOwn := func(what string, get func(string) (interface{}, error), w, lo, hi, loVal, hiVal int) {
				if v, err := get(me); err != nil || v != w {
					bad("owned-symbol:"+what+":own-write-not-read-back", fmt.Sprintf("goroutine %d wrote %s=%d last (before the copy) and nobody else writes it, but %s shows %v (error %v)", g, me, w, what, v, err))
				}
				if hi > lo {
					if v, err := get(cn(lo)); err != nil || v != loVal {
						bad("owned-symbol:"+what+":own-write-not-read-back", fmt.Sprintf("goroutine %d left %s=%d and nobody else writes it, but %s shows %v (error %v)", g, cn(lo), loVal, what, v, err))
					}
					if v, err := get(cn(hi - 1)); err != nil || v != hiVal {
						bad("owned-symbol:"+what+":own-write-not-read-back", fmt.Sprintf("goroutine %d left %s=%d and nobody else writes it, but %s shows %v (error %v)", g, cn(hi-1), hiVal, what, v, err))
					}
				}
				if lo > 0 {
					if v, err := get(cn(lo - 1)); err == nil {
						bad("owned-symbol:"+what+":own-deleted-symbol-visible", fmt.Sprintf("goroutine %d deleted %s and nobody else defines it, but %s shows %v", g, cn(lo-1), what, v))
					}
				}
				if v, err := get(cn(hi)); err == nil {
					bad("owned-symbol:"+what+":symbol-never-defined", fmt.Sprintf("goroutine %d has not defined %s yet and nobody else defines it, but %s shows %v", g, cn(hi), what, v))
				}
			}
			takeCopy := func() (*env.Env, string) {
				if next(2) == 0 {
					return shared.Copy(), "Copy"
				}
				if next(2) == 0 {
					return leaf.DeepCopy(), "DeepCopy"
				}
				return shared.DeepCopy(), "DeepCopy"
			}
			// afterWrite: the kept copy is looked at again after exactly `dist` own writes
			afterWrite := func() {
				writes++
				if kept == nil || writes != kept.due {
					return
				}
				k := kept
				kept = nil
				checkOwn("kept-"+k.copiedWith, k.cp.Get, k.w, k.lo, k.hi, k.loVal, k.hiVal)
				cp, how := takeCopy()
				checkOwn(how, cp.Get, st.w, st.lo, st.hi, st.vals[st.lo], st.vals[st.hi-1])
				// a write into the kept copy stays there
				k.cp.Define(me, -7)
				k.cp.Set(me, -8)
				if v, err := shared.Get(me); err != nil || v != st.w {
					bad("owned-symbol:kept-"+k.copiedWith+":write-into-copy-shows-in-scope", fmt.Sprintf("goroutine %d wrote %s=%d last into the scope and -8 into a copy it kept; the scope now shows %v (error %v)", g, me, st.w, v, err))
				}
				if v, err := cp.Get(me); err != nil || v != st.w {
					bad("owned-symbol:kept-"+k.copiedWith+":write-into-copy-shows-in-another-copy", fmt.Sprintf("goroutine %d wrote -8 into a copy it kept; another copy, taken when the scope held %s=%d, now shows %v (error %v)", g, me, st.w, v, err))
				}
				local[fmt.Sprintf("kept-copy-looked-at-again-after-writes:%d", k.dist)]++
			}
			<-start
			for i := 1; i <= nops && atomic.LoadInt32(&failed) == 0; i++ {
				r := next(64)
				size := st.hi - st.lo
				if r >= 54 && r < 59 || r == 61 {
					// whole-scope operations cost as much as the scope holds names: thinned out for big scopes and crowds
					if crowd && next(ng/128+1) != 0 || !crowd && W > 300 && next(4) != 0 {
						continue
					}
				}
				if r < 20 {
					// keep the window near W: grow first, then define one / delete one
					switch {
					case size < W:
						r = 0
					case size > W:
						r = 10
					}
				}
				switch {
				case r < 10:
					k := st.hi
					var err error
					if next(3) == 0 {
						err = shared.DefineValue(cn(k), reflect.ValueOf(i))
					} else {
						err = shared.Define(cn(k), i)
					}
					if err != nil {
						bad("owned-symbol:define-fails", fmt.Sprintf("Define(%s): %v", cn(k), err))
					}
					st.vals[k] = i
					st.hi++
					local["Define"]++
					afterWrite()
				case r < 20:
					if size == 0 {
						continue
					}
					if next(4) == 0 {
						leaf.DeleteGlobal(cn(st.lo))
						local["DeleteGlobal"]++
					} else {
						shared.Delete(cn(st.lo))
						local["Delete"]++
					}
					delete(st.vals, st.lo)
					st.lo++
					afterWrite()
				case r < 28:
					var err error
					var name string
					switch next(4) {
					case 0:
						err, name = shared.Define(me, i), "Define"
					case 1:
						err, name = leaf.Set(me, i), "Set"
					case 2:
						err, name = shared.SetValue(me, reflect.ValueOf(i)), "SetValue"
					default:
						err, name = shared.Set(me, i), "Set"
					}
					if err != nil {
						bad("owned-symbol:"+name+":own-symbol-gone", fmt.Sprintf("goroutine %d: %s(%s, %d) fails though the symbol was defined before the start and nobody deletes it: %v", g, name, me, i, err))
					}
					st.w = i
					local[name]++
					afterWrite()
				case r < 44:
					d := shared
					if next(3) == 0 {
						d = leaf
					}
					v, err := d.Get(me)
					if err != nil || v != st.w {
						bad("owned-symbol:Get:own-write-not-read-back", fmt.Sprintf("goroutine %d wrote %s=%d last and nobody else writes it, but Get (operation %d of the goroutine) returns %v (error %v)", g, me, st.w, i, v, err))
					}
					local["Get"]++
				case r < 48:
					k := st.lo - 2 + next(size+4)
					if k < 0 {
						continue
					}
					v, err := shared.Get(cn(k))
					if want, ok := st.vals[k]; ok && (err != nil || v != want) {
						bad("owned-symbol:Get:own-write-not-read-back", fmt.Sprintf("goroutine %d wrote %s=%d last and nobody else writes it, but Get returns %v (error %v)", g, cn(k), want, v, err))
					} else if !ok && err == nil {
						bad("owned-symbol:Get:own-deleted-symbol-visible", fmt.Sprintf("goroutine %d deleted %s (or has not defined it yet) and nobody else defines it, but Get returns %v", g, cn(k), v))
					}
					local["Get"]++
				case r < 50:
					k := st.lo - 1 + next(size+2)
					if k < 0 {
						continue
					}
					err := shared.Set(cn(k), i)
					if _, ok := st.vals[k]; ok {
						if err != nil {
							bad("owned-symbol:Set:own-symbol-gone", fmt.Sprintf("goroutine %d: Set(%s) fails though it defined the name and has not deleted it: %v", g, cn(k), err))
						}
						st.vals[k] = i
						afterWrite()
					} else if err == nil {
						bad("owned-symbol:Set:succeeds-on-undefined-symbol", fmt.Sprintf("goroutine %d: Set(%s) succeeds though the name is bound nowhere (its only writer deleted it or has not defined it yet)", g, cn(k)))
					}
					local["Set"]++
				case r < 54:
					h := next(ng)
					v, err := shared.Get("w" + strconv.Itoa(h))
					n, isInt := v.(int)
					if err != nil || !isInt {
						bad("owned-symbol:Get:foreign-symbol-gone", fmt.Sprintf("goroutine %d: Get(w%d) = %v, %v though the symbol was defined before the start and nobody deletes it", g, h, v, err))
					} else if n < seen[h] {
						bad("owned-symbol:Get:foreign-read-went-back", fmt.Sprintf("goroutine %d read w%d=%d and later w%d=%d; its only writer writes growing numbers", g, h, seen[h], h, n))
					} else {
						seen[h] = n
					}
					local["Get"]++
				case r < 56:
					if !crowd && next(3) != 0 {
						continue
					}
					prefix := "c" + strconv.Itoa(g) + "_"
					n, hasMe := 0, false
					for _, k := range shared.GetValueSymbols() {
						if k == me {
							hasMe = true
						}
						if strings.HasPrefix(k, prefix) {
							j, err := strconv.Atoi(k[len(prefix):])
							if err != nil || j < st.lo || j >= st.hi {
								bad("owned-symbol:GetValueSymbols:own-deleted-symbol-visible", fmt.Sprintf("goroutine %d holds %s..%s and nobody else defines such names, but the listing shows %s", g, cn(st.lo), cn(st.hi-1), k))
								break
							}
							n++
						}
					}
					if !hasMe || n != size {
						bad("owned-symbol:GetValueSymbols:own-define-lost", fmt.Sprintf("goroutine %d holds %s and the %d names %s..%s; the listing shows %v and %d of them", g, me, size, cn(st.lo), cn(st.hi-1), hasMe, n))
					}
					local["GetValueSymbols"]++
				case r < 58:
					cp, how := takeCopy()
					var hv int
					if size > 0 {
						hv = st.vals[st.hi-1]
					}
					checkOwn(how, cp.Get, st.w, st.lo, st.hi, st.vals[st.lo], hv)
					local[how]++
					if kept == nil && !crowd {
						dist := c13r8Distances[nextDist%len(c13r8Distances)]
						if dist > 1100 && (race || nops < 100000) && nextDist%2 == 0 {
							dist = c13r8Distances[nextDist%9]
						}
						nextDist++
						kept = &c13r8Kept{cp: cp, w: st.w, lo: st.lo, hi: st.hi, loVal: st.vals[st.lo], hiVal: hv, due: writes + dist, dist: dist, copiedWith: how}
					}
				case r == 58:
					if next(16) != 0 && !crowd {
						continue
					}
					view, _, _ := c13r8ParseString(shared.String())
					if n := view(c13r6Item{false, me}); n != st.w {
						bad("owned-symbol:String:own-write-not-read-back", fmt.Sprintf("goroutine %d wrote %s=%d last and nobody else writes it, but String shows %d (%d = no such line)", g, me, st.w, n, c13r6Absent))
					}
					local["String"]++
				case r == 59:
					if st.typGen < 20000 {
						st.typGen++
						if err := shared.DefineReflectType(tn, c13r6TypeOf(st.typGen)); err != nil {
							bad("owned-symbol:DefineReflectType:fails", err.Error())
						}
						local["DefineReflectType"]++
					}
				case r == 60:
					if st.typGen > 0 {
						t, err := leaf.Type(tn)
						if err != nil || t.Kind() != reflect.Array || t.Len() != st.typGen {
							bad("owned-symbol:Type:own-write-not-read-back", fmt.Sprintf("goroutine %d defined the type %s as [%d]struct{} last and nobody else writes it, but Type returns %v (error %v)", g, tn, st.typGen, t, err))
						}
						local["Type"]++
					}
				case r == 61:
					if next(4) == 0 || crowd {
						has := false
						for _, k := range shared.GetTypeSymbols() {
							if k == tn {
								has = true
							}
						}
						if has != (st.typGen > 0) {
							bad("owned-symbol:GetTypeSymbols:own-define-lost", fmt.Sprintf("goroutine %d: its type %s is defined=%v, listed=%v", g, tn, st.typGen > 0, has))
						}
						local["GetTypeSymbols"]++
					}
				default:
					if next(8) == 0 {
						runtime.Gosched()
					}
				}
				if i%5000 == 0 {
					if g == 0 {
						runtime.GC()
						local["forced-GC"]++
					}
					if g == 1 {
						c13r8Leak(shared.Copy())
					}
				}
			}
			rep.merge(local)
		}(g)
	}
	close(start)
	c13r5Wait(c, &wg, 200*time.Second, c.Phase+"-watchdog", input)

	// the final state: exactly what the owners left
	if len(rep.panics) == 0 && len(rep.viol) == 0 {
		want := map[string]int{}
		for g, st := range states {
			want["w"+strconv.Itoa(g)] = st.w
			for k, v := range st.vals {
				want["c"+strconv.Itoa(g)+"_"+strconv.Itoa(k)] = v
			}
		}
		list := shared.GetValueSymbols()
		seen := map[string]bool{}
		for _, k := range list {
			if _, ok := want[k]; !ok || seen[k] {
				rep.report("owned-symbol:final-state:own-deleted-symbol-visible", fmt.Sprintf("at the end the scope lists %s (twice: %v); its owner deleted it last, or nobody ever defined it in this history", k, seen[k]))
				break
			}
			seen[k] = true
		}
		for k, v := range want {
			if got, err := shared.Get(k); err != nil || got != v || !seen[k] {
				rep.report("owned-symbol:final-state:own-write-missing", fmt.Sprintf("its owner left %s=%d and nobody else writes it, but at the end Get returns %v (error %v), listed=%v", k, v, got, err, seen[k]))
				break
			}
		}
	}
	total := 0
	for _, st := range states {
		total += st.hi
	}
	c13r8Marks(c, c.Phase+":names-defined-and-deleted-in-one-scope", total, []int{4097, 20000, 65537})
	c13r8Marks(c, c.Phase+":goroutines-at-once", ng, []int{1025, 2049, 4097})
	c13r8Marks(c, c.Phase+":operations-on-one-scope", ng*nops, []int{20000, 65537, 200000, 900000})
	c.Tag(fmt.Sprintf("%s:window:%d", c.Phase, W), fmt.Sprintf("%s:gomaxprocs:%d", c.Phase, procs))
	c13r8Flush(c, rep, c.Phase+"_ops:", input)
	c.Eval(fmt.Sprintf("%s g=%d ops=%d W=%d pre=%d procs=%d seed0=%d", c.Phase, ng, nops, W, prehist, procs, seeds[0]), true)
	if c.WantSample() {
		c.Sample(map[string]interface{}{"phase": c.Phase, "goroutines": ng, "ops_per_goroutine": nops, "window": W, "earlier_cycles": prehist, "gomaxprocs": procs, "operation_counts": rep.counts})
	}
}
