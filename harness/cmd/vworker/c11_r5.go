package main

// C11, round-5 phases.
//
//   ptrarg    arguments of the form `&x` (x a script variable): the address of a
//             script variable handed to a Go function or method. The statement
//             says that Go functions, and methods reached with member syntax,
//             "are called with exactly the supplied arguments - including
//             variadic parameters and `...` spreading"; the pool of parameter
//             types names pointers, and `&x` is the one way a script has to
//             supply the address of one of its variables (the library's own
//             suite: `b = 1; a(&b)` with a func(*int64) that stores through the
//             pointer leaves the stored value in b). A function that has been
//             called with the address of x and stores w through it has stored w
//             in x: that is what "the address of x" means, and the statement
//             makes no difference between the four call shapes, between
//             functions and methods, or between one `&x` argument and several.
//             Oracle per call: invoked exactly once; every ordinary argument as
//             c11RefConvert says; every pointer parameter a non-nil pointer whose
//             pointee ON ENTRY is Go's conversion of x's value to the pointee
//             type; the value Go stores through the pointer is what the script
//             reads from x after the call; all results come back.
//             The script-side type of `&x` is *interface{}. For a parameter of
//             type *interface{} this is an identity pass. For any other pointee
//             type the header of c11.go lists "pointer -> pointer of another
//             type" as UNSPECIFIED (Go has no such conversion): a call that is
//             refused with an error and zero invocations is accepted there as
//             well; an invocation is judged as above.
//             Generated: 9 callee kinds (manufactured function, the same through
//             a variable, four methods of a Go struct with pointer parameters
//             reached through a pointer holder and a value holder, a method
//             value, a function with a variadic tail of pointers) x plain /
//             spread-at-the-last-parameter / spread-over-several-parameters x
//             variable at top level / captured by a closure / local to a
//             function x `&x`, `&(x)`, `(&x)`; 1-3 pointer parameters among PRNG
//             ordinary ones, 16 pointee types, PRNG contents.
//             Outside the domain (UNSPECIFIED, not generated): the address of
//             something that is not a variable (`&a[0]`, `&m.v`: what a store
//             through a converted copy of such a pointer does), a pointer taken
//             earlier (`p = &x; f(p)`), `&x` inside the spread list, the same
//             variable addressed twice in one call, `go f(&x)`.
//   cbvar     callbacks of VARIADIC func types: "a script function handed to Go
//             as a callback of a func type is invoked with the arguments Go
//             passes". Go calls f(a, t1, .., tk); a script function with one
//             parameter for the tail receives the tail as one list of k values,
//             a variadic script function collects the k values themselves.
//   deepstore stores at PRNG paths through a Go struct bound by pointer, down to a
//             scalar leaf below by-value structs, arrays, slices of structs,
//             pointers and pointer-valued map entries ("member syntax ...
//             through a pointer, writes the Go value's own exported fields"),
//             compared with the same store made by reflect on a twin.
//   roundtrip two more routes (init at the end of this file): a value stored in
//             a container and read back by a for-in loop over the container.

import (
	"fmt"
	"math/rand"
	"reflect"
	"sort"
	"strconv"
	"strings"

	"github.com/mattn/anko/env"

	"verifharness/internal/ank"
	"verifharness/internal/wk"
)

// ---------------------------------------------------------------------------
// pending repairs of mattn/anko (see /tmp/strengthen/C11-r5-genuine.md)

// `defer f(&x)`: the deferred call stores through the pointer, x keeps its old
// value (vm/vmStmt.go callDeferredFunc calls the function without the
// write-back callExpr performs after a Go call).
const c11PendingFix_deferPtrArg = false

// a for-in loop over a slice binds the POINTEE of a non-nil pointer element
// (vm/vmStmt.go runForSliceStmt: `iv = iv.Elem()`), a loop over a map binds the
// pointer. Listed as inherited language behaviour under C16
// (pointer-message:forin-yields-pointee); non-nil pointers are kept out of the
// list-forin route until that is decided.
const c11PendingFix_forInDerefsPointer = false

// a VARIADIC script function handed to Go as a callback of a VARIADIC func type
// receives the tail Go passes as ONE list inside its own tail (xs == [[1 2 3]])
// instead of the values (vm/vmConvertToX.go convertVMFunctionToTypeContext).
const c11PendingFix_variadicCallbackTail = false

// ---------------------------------------------------------------------------
// the Go side: a recorder that also stores through pointer parameters

type c11r5Rec struct {
	calls      int
	args       [][]reflect.Value
	seen       [][]reflect.Value     // per invocation and parameter: copy of the pointee met on entry
	tailSeen   []reflect.Value       // pointer tail, first invocation: copies of the pointees met on entry
	stores     map[int]reflect.Value // parameter index -> value stored through the pointer (first invocation)
	tailPtr    bool                  // the variadic tail holds pointers
	tailStores []reflect.Value
	results    []reflect.Value
}

var c11r5Cur = &c11r5Rec{}

func (r *c11r5Rec) reset() {
	r.calls, r.args, r.seen, r.tailSeen = 0, nil, nil, nil
}

func c11r5Copy(p reflect.Value) reflect.Value {
	s := reflect.New(p.Type().Elem()).Elem()
	s.Set(p.Elem())
	return s
}

func (r *c11r5Rec) enter(in []reflect.Value) []reflect.Value {
	r.calls++
	cp := make([]reflect.Value, len(in))
	copy(cp, in)
	r.args = append(r.args, cp)
	seen := make([]reflect.Value, len(in))
	for i, a := range in {
		w, ok := r.stores[i]
		if !ok || a.Kind() != reflect.Ptr || a.IsNil() {
			continue
		}
		seen[i] = c11r5Copy(a)
		if r.calls == 1 {
			a.Elem().Set(w)
		}
	}
	r.seen = append(r.seen, seen)
	if r.tailPtr && r.calls == 1 && len(in) > 0 {
		tail := in[len(in)-1]
		for j := 0; j < tail.Len(); j++ {
			p := tail.Index(j)
			if p.IsNil() {
				r.tailSeen = append(r.tailSeen, reflect.Value{})
				continue
			}
			r.tailSeen = append(r.tailSeen, c11r5Copy(p))
			if j < len(r.tailStores) {
				p.Elem().Set(r.tailStores[j])
			}
		}
	}
	return r.results
}

func c11r5MakeFn(ft reflect.Type, rec *c11r5Rec) reflect.Value {
	return reflect.MakeFunc(ft, func(in []reflect.Value) []reflect.Value { return rec.enter(in) })
}

// C11R5Sink: methods with pointer parameters, reached with member syntax.
type C11R5Sink struct{ Tag string }

func (s *C11R5Sink) Put(dst *int64, a, b int64) int64 {
	r := c11r5Cur.enter([]reflect.Value{reflect.ValueOf(dst), reflect.ValueOf(&a).Elem(), reflect.ValueOf(&b).Elem()})
	return r[0].Interface().(int64)
}

func (s *C11R5Sink) Join(dst *string, sep string, parts ...string) int {
	r := c11r5Cur.enter([]reflect.Value{reflect.ValueOf(dst), reflect.ValueOf(&sep).Elem(), reflect.ValueOf(&parts).Elem()})
	return r[0].Interface().(int)
}

func (s C11R5Sink) VSet(p *float64, q *interface{}, xs ...float64) (int64, string) {
	r := c11r5Cur.enter([]reflect.Value{reflect.ValueOf(p), reflect.ValueOf(q), reflect.ValueOf(&xs).Elem()})
	return r[0].Interface().(int64), r[1].Interface().(string)
}

func (s C11R5Sink) VFix(tag string, p *C11MyInt, q *bool, n int64) {
	c11r5Cur.enter([]reflect.Value{reflect.ValueOf(&tag).Elem(), reflect.ValueOf(p), reflect.ValueOf(q), reflect.ValueOf(&n).Elem()})
}

// ---------------------------------------------------------------------------
// one call with `&x` arguments

var c11r5Pointees = []reflect.Type{
	c11TIface, c11TIface, c11TIface, c11TInt64, c11TInt64, c11TString, c11TString, reflect.TypeOf(float64(0)), reflect.TypeOf(true),
	reflect.TypeOf(int32(0)), reflect.TypeOf(uint8(0)), reflect.TypeOf(float32(0)), reflect.TypeOf(int(0)), reflect.TypeOf(C11MyInt(0)), reflect.TypeOf(C11MyStr("")),
	reflect.TypeOf([]int64(nil)), reflect.TypeOf([]interface{}(nil)), reflect.TypeOf(map[string]int64(nil)), reflect.TypeOf(C11Pair{}), c11TError,
}

type c11r5Var struct {
	name    string
	init    c11Val // what the variable holds before the call
	goDef   bool   // bound by the host (env.Define) instead of a script assignment
	pointee reflect.Type
	store   reflect.Value // what Go stores through the pointer (typed pointee)
}

type c11r5Arg struct {
	vi  int // >= 0: the address of variable vi; -1: an ordinary argument
	val c11Val
}

const (
	c11r5Top = iota
	c11r5Closure
	c11r5Local
)

var c11r5ScopeNames = []string{"top", "closure", "local"}

type c11r5Call struct {
	kind     string // callee kind (part of the signature)
	callee   string
	setup    string // statements before everything else
	ft       reflect.Type
	pre      []c11r5Arg
	spread   *c11Val
	vars     []*c11r5Var
	scope    int
	form     int // how the address is written: &x, &(x), (&x)
	deferred bool
	tailPtr  bool
	rec      *c11r5Rec
}

func (k *c11r5Call) addr(vi int) string {
	switch k.form {
	case 1:
		return "&(" + k.vars[vi].name + ")"
	case 2:
		return "(&" + k.vars[vi].name + ")"
	}
	return "&" + k.vars[vi].name
}

func (k *c11r5Call) callText() string {
	var parts []string
	for _, a := range k.pre {
		if a.vi >= 0 {
			parts = append(parts, k.addr(a.vi))
		} else {
			parts = append(parts, a.val.text)
		}
	}
	if k.spread != nil {
		parts = append(parts, k.spread.text+"...")
	}
	return k.callee + "(" + strings.Join(parts, ", ") + ")"
}

// src: the variables, the call, and a list [result, x0, x1, ...] read after it.
func (k *c11r5Call) src() string {
	var inits, names []string
	for _, v := range k.vars {
		if !v.goDef {
			inits = append(inits, v.name+" = "+v.init.text)
		}
		names = append(names, v.name)
	}
	back := "[" + strings.Join(append([]string{"r5r"}, names...), ", ") + "]"
	call := k.callText()
	var b strings.Builder
	b.WriteString(k.setup)
	switch {
	case k.deferred:
		b.WriteString(strings.Join(inits, "\n") + "\nr5r = nil\nfunc() {\n defer " + call + "\n return 0\n}()\n" + back)
	case k.scope == c11r5Closure:
		b.WriteString(strings.Join(inits, "\n") + "\nr5r = nil\nfunc() {\n r5r = " + call + "\n}()\n" + back)
	case k.scope == c11r5Local:
		b.WriteString("func() {\n " + strings.Join(inits, "\n ") + "\n r5r = " + call + "\n return " + back + "\n}()")
	default:
		b.WriteString(strings.Join(inits, "\n") + "\nr5r = " + call + "\n" + back)
	}
	return b.String()
}

func (k *c11r5Call) shape() string {
	n := k.ft.NumIn()
	switch {
	case !k.ft.IsVariadic() && k.spread == nil:
		return "fixed/plain"
	case !k.ft.IsVariadic():
		switch d := n - len(k.pre); {
		case d >= 2:
			return "fixed/spreadN"
		case d == 1:
			return "fixed/spread1"
		}
		return "fixed/spread0" // a list behind the last parameter (not generated)
	case k.spread == nil:
		return "variadic/plain"
	}
	return "variadic/spread"
}

type c11r5Exp struct {
	kind    int
	why     string
	orError bool      // a refusal (error, zero invocations) is accepted as well
	args    []c11Conv // per Go parameter; for a pointer parameter fed by `&x`: the expected POINTEE
	ptrVar  []int     // per Go parameter: variable index, -1 ordinary, -2 the pointer tail
	tailVar []int     // pointer tail: variable index per element
	tailPts []c11Conv // pointer tail: expected pointee per element
}

func (k *c11r5Call) expect() c11r5Exp {
	ft := k.ft
	n := ft.NumIn()
	m := n
	if ft.IsVariadic() {
		m = n - 1
	}
	ex := c11r5Exp{kind: c11OK}
	note := func(cv c11Conv) c11Conv {
		if cv.st == c11None && ex.kind != c11None {
			ex.kind, ex.why = c11None, cv.why
		}
		if cv.st == c11Unspec && ex.kind == c11OK {
			ex.kind, ex.why = c11Unspec, cv.why
		}
		return cv
	}
	ptr := func(vi int, t reflect.Type) c11Conv {
		pc := c11RefConvert(k.vars[vi].init.v, t.Elem())
		if pc.adapter {
			pc = c11Conv{st: c11Unspec, why: "script function as pointee"}
		}
		if t.Elem() != c11TIface {
			// UNSPECIFIED (header of c11.go): *interface{} -> pointer of another type
			ex.orError = true
		}
		return note(pc)
	}
	type item struct {
		vi int
		v  reflect.Value
	}
	var items []item
	for _, a := range k.pre {
		items = append(items, item{a.vi, a.val.v})
	}
	if k.spread != nil && !ft.IsVariadic() {
		sv := c11Unwrap(k.spread.v)
		if !sv.IsValid() || sv.Kind() != reflect.Slice {
			return c11r5Exp{kind: c11Unspec, why: "spread of a non-slice"}
		}
		for _, e := range c11Elems(sv) {
			items = append(items, item{-1, e})
		}
	}
	if k.spread != nil && !ft.IsVariadic() && len(k.pre) >= n {
		// UNSPECIFIED, like a list longer than the parameter list: a spread list
		// (even an empty one) written behind the last parameter; not generated
		return c11r5Exp{kind: c11Unspec, why: "spread list behind the last parameter"}
	}
	// the generator supplies as many arguments as there are parameters
	if len(items) < m || (!ft.IsVariadic() && len(items) != n) || (ft.IsVariadic() && k.spread != nil && len(items) != m) {
		return c11r5Exp{kind: c11Unspec, why: "ptrarg: arity not generated"}
	}
	for i := 0; i < m; i++ {
		if items[i].vi >= 0 {
			if ft.In(i).Kind() != reflect.Ptr {
				return c11r5Exp{kind: c11Unspec, why: "ptrarg: address for a non-pointer parameter"}
			}
			ex.args = append(ex.args, ptr(items[i].vi, ft.In(i)))
			ex.ptrVar = append(ex.ptrVar, items[i].vi)
			continue
		}
		ex.args = append(ex.args, note(c11RefConvert(items[i].v, ft.In(i))))
		ex.ptrVar = append(ex.ptrVar, -1)
	}
	if !ft.IsVariadic() {
		return ex
	}
	if k.spread != nil {
		if sv := c11Unwrap(k.spread.v); sv.IsValid() && sv.Kind() != reflect.Slice {
			return c11r5Exp{kind: c11Unspec, why: "spread of a non-slice"}
		}
		ex.args = append(ex.args, note(c11RefConvert(k.spread.v, ft.In(m))))
		ex.ptrVar = append(ex.ptrVar, -1)
		return ex
	}
	et := ft.In(m).Elem()
	if k.tailPtr {
		for _, it := range items[m:] {
			if it.vi < 0 {
				return c11r5Exp{kind: c11Unspec, why: "ptrarg: ordinary argument in a pointer tail"}
			}
			ex.tailVar = append(ex.tailVar, it.vi)
			ex.tailPts = append(ex.tailPts, ptr(it.vi, et))
		}
		ex.args = append(ex.args, c11Conv{st: c11OK})
		ex.ptrVar = append(ex.ptrVar, -2)
		return ex
	}
	// UNSPECIFIED whether the tail the call builds is nil or empty (c11NilTail)
	tail := reflect.MakeSlice(ft.In(m), 0, len(items)-m)
	for _, it := range items[m:] {
		if it.vi >= 0 {
			return c11r5Exp{kind: c11Unspec, why: "ptrarg: address in an ordinary tail"}
		}
		cv := c11RefConvert(it.v, et)
		if cv.adapter {
			cv = c11Conv{st: c11Unspec, why: "script function inside the variadic tail"}
		}
		note(cv)
		if cv.st == c11OK {
			tail = reflect.Append(tail, cv.v)
		}
	}
	ex.args = append(ex.args, c11Conv{st: c11OK, v: tail, mode: c11NilTail})
	ex.ptrVar = append(ex.ptrVar, -1)
	return ex
}

func c11r5Class(k reflect.Kind) string {
	switch k {
	case reflect.Int, reflect.Int8, reflect.Int16, reflect.Int32, reflect.Int64,
		reflect.Uint, reflect.Uint8, reflect.Uint16, reflect.Uint32, reflect.Uint64, reflect.Uintptr,
		reflect.Float32, reflect.Float64:
		return "num"
	}
	return k.String()
}

// c11r5StoreDiff: does the variable hold what Go stored through its address?
// The value must be the stored one. Its dynamic type is the one Go stored;
// UNSPECIFIED (accepted too) is the stored value converted back to the dynamic
// type the variable had before, when both are numbers / strings / the same kind.
func c11r5StoreDiff(after reflect.Value, v *c11r5Var) string {
	d := c11Diff(after, v.store, c11NilExact, v.name, 0)
	if d == "" {
		return ""
	}
	iv, wv := c11Unwrap(v.init.v), c11Unwrap(v.store)
	if iv.IsValid() && wv.IsValid() && iv.Type() != wv.Type() && c11r5Class(iv.Kind()) == c11r5Class(wv.Kind()) &&
		iv.Kind() != reflect.Array && wv.Type().ConvertibleTo(iv.Type()) {
		if c11Diff(after, wv.Convert(iv.Type()), c11NilExact, v.name, 0) == "" {
			return ""
		}
	}
	return d
}

func (k *c11r5Call) input(src string, ex c11r5Exp, o ank.Out) map[string]interface{} {
	in := map[string]interface{}{"src": src, "go_func": k.ft.String(), "shape": k.shape(), "callee": k.kind, "scope": c11r5ScopeNames[k.scope]}
	var vs []string
	for _, v := range k.vars {
		how := "script"
		if v.goDef {
			how = "env.Define"
		}
		vs = append(vs, fmt.Sprintf("%s (%s) = %s; Go stores %s through *%s", v.name, how, ank.RenderValue(v.init.v), ank.RenderValue(v.store), v.pointee))
	}
	in["variables"] = vs
	var as []string
	for _, a := range k.pre {
		if a.vi >= 0 {
			as = append(as, k.addr(a.vi))
		} else {
			as = append(as, a.val.text+" = "+ank.RenderValue(a.val.v))
		}
	}
	if k.spread != nil {
		as = append(as, k.spread.text+"... = "+ank.RenderValue(k.spread.v))
	}
	in["args"] = as
	switch ex.kind {
	case c11OK:
		var w []string
		for i, a := range ex.args {
			switch {
			case ex.ptrVar[i] >= 0:
				w = append(w, "pointer to "+ank.RenderValue(a.v))
			case ex.ptrVar[i] == -2:
				w = append(w, strconv.Itoa(len(ex.tailVar))+" pointers")
			case a.adapter:
				w = append(w, "func adapter")
			default:
				w = append(w, ank.RenderValue(a.v))
			}
		}
		in["want"] = map[string]interface{}{"invocations": 1, "args": w, "refusal_accepted": ex.orError}
	case c11None:
		in["want"] = "error and zero invocations: " + ex.why
	}
	obs := map[string]interface{}{"invocations": k.rec.calls, "err": ank.ErrText(o.Err), "value": ank.Render(o.Val), "panic": o.PanicVal}
	if len(k.rec.args) > 0 {
		obs["args"] = c11RenderArgs(k.rec.args[0])
		obs["pointees_on_entry"] = c11RenderArgs(k.rec.seen[0])
	}
	in["observed"] = obs
	return in
}

func (k *c11r5Call) judge(c *wk.Case, e *env.Env) {
	ex := k.expect()
	src := k.src()
	rec := k.rec
	rec.reset()
	c11r5Cur = rec
	c.Begin(src)
	o := ank.Exec(e, src)
	shape := k.shape()
	pre := "ptrarg:" + k.kind + ":" + shape + ":"
	if k.deferred {
		pre = "ptrarg:" + k.kind + ":deferred:" + shape + ":"
	}
	fail := func(what, detail string) { c11Report(c, pre+what, detail, k.input(src, ex, o)) }
	if o.Panicked {
		c.EvalN(1)
		fail("panic", "panic escaped vm.Execute: "+o.PanicVal+" ["+o.PanicSig+"]")
		return
	}
	if ex.kind == c11Unspec {
		// outside the statement: what arrives is not judged, but the function does not run twice
		c.Excluded(ex.why)
		c.EvalN(1)
		if rec.calls > 1 {
			fail("invocations="+strconv.Itoa(rec.calls), "the Go function was invoked more than once for one call")
		}
		return
	}
	c.Events(1 + rec.calls)
	var hb strings.Builder
	hb.WriteString(k.ft.String() + "|" + src)
	for _, v := range k.vars {
		hb.WriteString("|" + ank.RenderValue(v.init.v) + ">" + ank.RenderValue(v.store))
	}
	for _, a := range k.pre {
		if a.vi < 0 {
			hb.WriteString("|" + ank.RenderValue(a.val.v))
		}
	}
	if k.spread != nil {
		hb.WriteString("|..." + ank.RenderValue(k.spread.v))
	}
	c.Eval(hb.String(), true)
	c.Tag("ptrarg:shape:"+shape, "ptrarg:callee:"+k.kind, "ptrarg:scope:"+c11r5ScopeNames[k.scope], "ptrarg:form:"+strconv.Itoa(k.form))
	for _, v := range k.vars {
		c.Tag("ptrarg:pointee:" + c11TypeLabel(v.pointee))
	}
	if ex.kind == c11None {
		c.Tag("ptrarg:expect:conversion-error")
		if rec.calls != 0 {
			fail("invoked-despite-unconvertible", fmt.Sprintf("%s, yet the Go function was invoked %d time(s)", ex.why, rec.calls))
		} else if o.Err == nil {
			fail("no-error", fmt.Sprintf("%s, yet the call yielded %s without an error", ex.why, ank.Render(o.Val)))
		}
		return
	}
	if o.Err != nil {
		if ex.orError && rec.calls == 0 {
			// the other accepted reading of *interface{} -> *T
			for _, v := range k.vars {
				if v.pointee != c11TIface {
					c.Tag("ptrarg:refused:" + c11Label(v.init.v) + "->*" + c11TypeLabel(v.pointee))
				}
			}
			return
		}
		fail("unexpected-error", fmt.Sprintf("a conversion exists for every argument, yet the call failed: %q (invocations: %d)", o.Err.Error(), rec.calls))
		return
	}
	c.Tag("ptrarg:expect:invoked-once")
	if rec.calls != 1 {
		fail("invocations="+strconv.Itoa(rec.calls), fmt.Sprintf("the Go function was invoked %d times for one call", rec.calls))
		return
	}
	got := rec.args[0]
	if len(got) != len(ex.args) {
		fail("wrong-args", fmt.Sprintf("received %d arguments, want %d", len(got), len(ex.args)))
		return
	}
	for i, w := range ex.args {
		switch {
		case ex.ptrVar[i] >= 0:
			if got[i].Kind() != reflect.Ptr || got[i].IsNil() {
				fail("wrong-args", fmt.Sprintf("argument %d: want the address of %s, got %s", i, k.vars[ex.ptrVar[i]].name, ank.RenderValue(got[i])))
				return
			}
			if d := c11Diff(rec.seen[0][i], w.v, w.mode, "pointee of argument "+strconv.Itoa(i), 0); d != "" {
				fail("wrong-pointee", d)
				return
			}
		case ex.ptrVar[i] == -2:
			if got[i].Len() != len(ex.tailVar) || len(rec.tailSeen) != len(ex.tailVar) {
				fail("wrong-args", fmt.Sprintf("the variadic tail holds %d pointers, want %d", got[i].Len(), len(ex.tailVar)))
				return
			}
			for j, pc := range ex.tailPts {
				if !rec.tailSeen[j].IsValid() {
					fail("wrong-args", fmt.Sprintf("tail element %d: want the address of %s, got a nil pointer", j, k.vars[ex.tailVar[j]].name))
					return
				}
				if d := c11Diff(rec.tailSeen[j], pc.v, pc.mode, "pointee of tail element "+strconv.Itoa(j), 0); d != "" {
					fail("wrong-pointee", d)
					return
				}
			}
		case w.adapter:
			g := c11Unwrap(got[i])
			if !g.IsValid() || g.Kind() != reflect.Func || g.IsNil() {
				fail("wrong-args", fmt.Sprintf("argument %d: want a non-nil func adapting the script function, got %s", i, ank.RenderValue(got[i])))
				return
			}
		default:
			if d := c11Diff(got[i], w.v, w.mode, "argument "+strconv.Itoa(i), 0); d != "" {
				fail("wrong-args", d)
				return
			}
		}
	}
	lst, ok := o.Val.([]interface{})
	if !ok || len(lst) != 1+len(k.vars) {
		c.Inconclusive("ptrarg-readback", "the script's own list [result, variables...] did not come back: "+ank.Render(o.Val), src)
		return
	}
	// the stores
	for vi, v := range k.vars {
		after := reflect.ValueOf(lst[1+vi])
		d := c11r5StoreDiff(after, v)
		if d == "" {
			continue
		}
		what := "store-wrong"
		if c11Diff(after, v.init.v, c11NilEither, "", 0) == "" {
			what = "store-lost"
		}
		fail(what, fmt.Sprintf("Go stored %s through the address of %s (%s in the call), the script reads %s afterwards: %s",
			ank.RenderValue(v.store), v.name, k.addr(vi), ank.Render(lst[1+vi]), d))
		return
	}
	// the results
	switch nOut := k.ft.NumOut(); {
	case k.deferred, nOut == 0:
		// the results of a deferred call are discarded; UNSPECIFIED: the script value of a call without results
	case nOut == 1:
		if d := c11Diff(reflect.ValueOf(lst[0]), rec.results[0], c11NilExact, "result", 0); d != "" {
			fail("wrong-result", d)
		}
	default:
		rl, ok := lst[0].([]interface{})
		if !ok || len(rl) != nOut {
			fail("wrong-result", fmt.Sprintf("%d results must come back as a list of %d, got %s", nOut, nOut, ank.Render(lst[0])))
			return
		}
		for i := range rl {
			if d := c11Diff(reflect.ValueOf(rl[i]), rec.results[i], c11NilExact, "result "+strconv.Itoa(i), 0); d != "" {
				fail("wrong-result", d)
				return
			}
		}
	}
}

// ---------------------------------------------------------------------------
// generator

var c11r5Callees = []string{"func", "funcvalue", "method@pointer:Put", "method@pointer:Join", "valuemethod@pointer:VSet", "valuemethod@value:VSet", "valuemethod@value:VFix", "methodvalue:Join", "func-ptrtail"}

const c11r5Dims = 9 * 3 * 3 * 3

func c11r5PickType(r *rand.Rand) reflect.Type {
	for {
		if t := c11PickType(r); t.Kind() != reflect.Array {
			return t
		}
	}
}

// newVar makes the variable whose address feeds a parameter of type *pt.
func (k *c11r5Call) newVar(r *rand.Rand, ce *c11Env, e *env.Env, pt reflect.Type) int {
	v := &c11r5Var{name: "x" + strconv.Itoa(len(k.vars)), pointee: pt}
	v.init = ce.arg(ce.pick(r, pt, 0.93), r.Intn(2) == 0)
	pc := c11RefConvert(v.init.v, pt)
	for try := 0; try < 8; try++ {
		v.store = c11GenGo(r, pt, 1, false)
		// a store of the value the variable holds already could not be told from a lost one
		if pc.st != c11OK || pc.adapter || c11Diff(v.store, pc.v, c11NilEither, "", 0) != "" {
			break
		}
	}
	if k.scope != c11r5Local && r.Intn(7) == 0 {
		v.goDef = true
		var gi interface{}
		if u := c11Unwrap(v.init.v); u.IsValid() {
			gi = u.Interface()
		}
		e.Define(v.name, gi)
	}
	k.vars = append(k.vars, v)
	return len(k.vars) - 1
}

// fill chooses the arguments of a call of ft whose parameters isPtr take `&x`.
// shape: 0 plain, 1 the spread list sits at the last parameter (or is the
// variadic tail), 2 the spread list fills several parameters.
func (k *c11r5Call) fill(c *wk.Case, ce *c11Env, e *env.Env, isPtr map[int]bool, shape int) {
	r := c.Rng
	ft := k.ft
	n := ft.NumIn()
	m := n
	if ft.IsVariadic() {
		m = n - 1
	}
	maxPtr := -1
	for i := range isPtr {
		if i > maxPtr {
			maxPtr = i
		}
	}
	pOK := 0.95
	if r.Intn(5) == 0 {
		pOK = 0.6
	}
	inl := func() bool { return r.Intn(2) == 0 }
	cut := m
	if !ft.IsVariadic() {
		switch shape {
		case 0:
			cut = n
		case 1:
			cut = n - 1
		default:
			lo, hi := maxPtr+1, n-2
			if hi < lo {
				hi = lo
			}
			cut = lo + r.Intn(hi-lo+1)
		}
		if cut <= maxPtr {
			cut = maxPtr + 1
		}
		if cut > n {
			cut = n
		}
	}
	k.rec.stores = map[int]reflect.Value{}
	for i := 0; i < cut; i++ {
		if isPtr[i] {
			vi := k.newVar(r, ce, e, ft.In(i).Elem())
			k.rec.stores[i] = k.vars[vi].store
			k.pre = append(k.pre, c11r5Arg{vi: vi})
			continue
		}
		k.pre = append(k.pre, c11r5Arg{vi: -1, val: ce.arg(ce.pick(r, ft.In(i), pOK), inl())})
	}
	viaVar := func(lst c11Val) *c11Val {
		if (shape == 2 || r.Intn(3) == 0) && c11Unwrap(lst.v).IsValid() {
			e.Define("lst", c11Unwrap(lst.v).Interface())
			lst.text = "lst"
		}
		return &lst
	}
	if !ft.IsVariadic() {
		if shape == 0 {
			return
		}
		var rest []c11Val
		for i := cut; i < n; i++ {
			rest = append(rest, ce.arg(ce.pick(r, ft.In(i), pOK), inl()))
		}
		k.spread = viaVar(c11ListOf(rest))
		return
	}
	et := ft.In(m).Elem()
	if k.tailPtr {
		k.rec.tailPtr = true
		for j := r.Intn(3); j > 0; j-- {
			vi := k.newVar(r, ce, e, et.Elem())
			k.rec.tailStores = append(k.rec.tailStores, k.vars[vi].store)
			k.pre = append(k.pre, c11r5Arg{vi: vi})
		}
		return
	}
	if shape == 0 {
		for j := r.Intn(4); j > 0; j-- {
			k.pre = append(k.pre, c11r5Arg{vi: -1, val: ce.arg(ce.pick(r, et, pOK), inl())})
		}
		return
	}
	var rest []c11Val
	for j := r.Intn(4); j > 0; j-- {
		rest = append(rest, ce.arg(ce.pick(r, et, pOK), inl()))
	}
	lst := c11ListOf(rest)
	if r.Intn(6) == 0 {
		lst = ce.arg(ce.pick(r, ft.In(m), 0.95), inl()) // a source that is itself a list / typed slice
	}
	k.spread = viaVar(lst)
}

// c11r5Build makes one call; callee kind, shape, scope and address form are
// given (the enumerated dimensions), everything else is PRNG.
func c11r5Build(c *wk.Case, ce *c11Env, e *env.Env, callee, shape, scope, form int) *c11r5Call {
	r := c.Rng
	rec := &c11r5Rec{}
	k := &c11r5Call{kind: c11r5Callees[callee], scope: scope, form: form, rec: rec}
	if !c11PendingFix_deferPtrArg && scope == c11r5Closure && r.Intn(5) == 0 {
		k.deferred = true
	}
	isPtr := map[int]bool{}
	switch callee {
	case 0, 1, 8:
		variadic := callee == 8 || r.Intn(100) < 45
		if shape == 2 && callee != 8 {
			variadic = r.Intn(100) < 25
		}
		var n int
		switch {
		case callee == 8:
			n = 1 + r.Intn(4)
		case variadic:
			n = 2 + r.Intn(4)
		case shape == 2:
			n = 3 + r.Intn(3)
		case shape == 1:
			n = 2 + r.Intn(4) // the list fills the last parameter
		default:
			n = 1 + r.Intn(5)
		}
		in := make([]reflect.Type, n)
		for i := range in {
			in[i] = c11r5PickType(r)
		}
		// where `&x` arguments may sit: among the plainly written parameters
		limit := n
		switch {
		case variadic:
			limit = n - 1
		case shape == 1:
			limit = n - 1
		case shape == 2:
			limit = n - 2
		}
		np := 1
		switch x := r.Intn(100); {
		case x >= 95:
			np = 3
		case x >= 60:
			np = 2
		}
		if callee == 8 {
			np = r.Intn(2) // the tail carries the pointers; sometimes one more among the fixed parameters
		}
		for j := 0; j < np && limit > 0; j++ {
			i := r.Intn(limit)
			isPtr[i] = true
			in[i] = reflect.PtrTo(c11r5Pointees[r.Intn(len(c11r5Pointees))])
		}
		if variadic {
			if callee == 8 {
				in[n-1] = reflect.PtrTo(c11r5Pointees[r.Intn(len(c11r5Pointees))])
				k.tailPtr = true
			}
			in[n-1] = reflect.SliceOf(in[n-1])
		}
		out := make([]reflect.Type, r.Intn(4))
		for i := range out {
			out[i] = c11r5PickType(r)
		}
		k.ft = reflect.FuncOf(in, out, variadic)
		e.Define("f", c11r5MakeFn(k.ft, rec).Interface())
		k.callee = "f"
		if callee == 1 {
			k.setup, k.callee = "g = f\n", "g"
		}
		if callee == 8 {
			shape = 0
		}
	default:
		snk := &C11R5Sink{Tag: "t"}
		e.Define("snk", snk)
		e.Define("snkv", *snk)
		name := k.kind[strings.Index(k.kind, ":")+1:]
		k.ft = reflect.ValueOf(snk).MethodByName(name).Type()
		switch callee {
		case 2, 3, 4:
			k.callee = "snk." + name
		case 5, 6:
			k.callee = "snkv." + name
		case 7:
			k.setup, k.callee = "mv = snk."+name+"\n", "mv"
		}
		for i := 0; i < k.ft.NumIn(); i++ {
			if k.ft.In(i).Kind() == reflect.Ptr {
				isPtr[i] = true
			}
		}
	}
	rec.results = c11GenResults(r, k.ft)
	k.fill(c, ce, e, isPtr, shape)
	return k
}

func c11PhasePtrArg(c *wk.Case) {
	ce := c11NewEnv(c)
	d := c.Index % c11r5Dims
	callee, shape, scope, form := d%9, (d/9)%3, (d/27)%3, (d/81)%3
	for n := 0; n < 4; n++ {
		var k *c11r5Call
		var e *env.Env
		for try := 0; try < 6; try++ {
			e = ce.e.NewEnv() // the variables of one call do not outlive it
			k = c11r5Build(c, ce, e, callee, shape, scope, form)
			if k.expect().kind != c11Unspec {
				break
			}
		}
		k.judge(c, e)
		if n == 0 && c.WantSample() && c.Index%37 == 5 {
			c.Sample(map[string]interface{}{"src": k.src(), "go_func": k.ft.String(), "shape": k.shape()})
		}
	}
}

// ---------------------------------------------------------------------------
// phase cbvar: callbacks of variadic func types

var c11r5CbTypes = []reflect.Type{
	reflect.TypeOf((func(string, ...int64) []interface{})(nil)),
	reflect.TypeOf((func(...interface{}) []interface{})(nil)),
	reflect.TypeOf((func(int64, float64, ...string) []interface{})(nil)),
	reflect.TypeOf((func(bool, ...float64) []interface{})(nil)),
}

func c11PhaseCbVar(c *wk.Case) {
	r := c.Rng
	e := ank.NewCoreEnv()
	for ti, ft := range c11r5CbTypes {
		nFixed := ft.NumIn() - 1
		for _, scriptVariadic := range []bool{false, true} {
			for nTail := 0; nTail <= 3; nTail++ {
				// what Go passes
				var passed []reflect.Value
				for i := 0; i < nFixed; i++ {
					passed = append(passed, c11GenGo(r, ft.In(i), 1, false))
				}
				et := ft.In(nFixed).Elem()
				for j := 0; j < nTail; j++ {
					x := c11GenGo(r, et, 1, false)
					if et.Kind() == reflect.Interface {
						x = c11Box(c11GenGo(r, c11IfacePickTypes[r.Intn(6)], 1, false), et)
					}
					passed = append(passed, x)
				}
				var got []reflect.Value
				calls := 0
				host := reflect.MakeFunc(reflect.FuncOf([]reflect.Type{ft}, []reflect.Type{reflect.TypeOf([]interface{}(nil))}, false),
					func(in []reflect.Value) []reflect.Value {
						calls++
						got = in[0].Call(passed)
						return got
					})
				e.Define("host", host.Interface())
				// the script function returns [fixed..., number of tail values, tail values...]
				var ps []string
				for i := 0; i < nFixed; i++ {
					ps = append(ps, "a"+strconv.Itoa(i))
				}
				fixedList := "[" + strings.Join(ps, ", ") + "]"
				tailName := "xs"
				if scriptVariadic {
					ps = append(ps, "xs...")
				} else {
					ps = append(ps, "xs")
				}
				src := "host(func(" + strings.Join(ps, ", ") + ") {\n r = " + fixedList + "\n r += [len(" + tailName + ")]\n for x in " + tailName + " {\n  r += [x]\n }\n return r\n})"
				kind := "fixed-script-func"
				if scriptVariadic {
					kind = "variadic-script-func"
				}
				if scriptVariadic && c11PendingFix_variadicCallbackTail {
					c.Excluded("pending repair: variadic script function as callback of a variadic func type")
					continue
				}
				c.Begin(src)
				o := ank.Exec(e, src)
				c.Events(1 + calls)
				want := make([]interface{}, 0, len(passed)+1)
				for i := 0; i < nFixed; i++ {
					want = append(want, passed[i].Interface())
				}
				want = append(want, int64(nTail))
				for _, p := range passed[nFixed:] {
					want = append(want, p.Interface())
				}
				c.Eval("cbvar|"+ft.String()+"|"+src+"|"+ank.Render(want), true)
				c.Tag("cbvar:" + kind)
				input := map[string]interface{}{"src": src, "func_type": ft.String(), "go_passes": c11RenderArgs(passed), "want": ank.Render(want), "got": ank.Render(o.Val), "err": ank.ErrText(o.Err), "panic": o.PanicVal}
				sig := "cbvar:" + kind + ":" + strconv.Itoa(ti) + ":"
				switch {
				case o.Panicked:
					c11Report(c, sig+"panic", "panic escaped vm.Execute: "+o.PanicVal+" ["+o.PanicSig+"]", input)
				case o.Err != nil:
					c11Report(c, sig+"error", "the callback was handed the arguments of a plain call of its func type, yet the enclosing call failed: "+o.Err.Error(), input)
				case calls != 1:
					c11Report(c, sig+"host-invocations", fmt.Sprintf("the host function ran %d times", calls), input)
				default:
					if d := c11Diff(reflect.ValueOf(o.Val), reflect.ValueOf(want), c11NilEither, "what the callback saw", 0); d != "" {
						c11Report(c, sig+"args-differ", d, input)
					}
				}
			}
		}
	}
	// a callback that returns MORE values than the func type declares: the
	// statement says its result is converted to the declared return types.
	// UNSPECIFIED whether the surplus is an error of the enclosing call or
	// dropped; a panic out of vm.Execute is neither.
	e.Define("two", func(f func(int64) (int64, error)) []interface{} {
		a, err := f(7)
		return []interface{}{a, err}
	})
	for _, src := range []string{"two(func(x) { return x, nil, 5 })", "two(func(x) { return [x, nil, 5] })"} {
		c.Begin(src)
		o := ank.Exec(e, src)
		c.Events(1)
		c.Eval("cbvar|surplus|"+src, true)
		c.Tag("cbvar:surplus-results")
		input := map[string]interface{}{"src": src, "got": ank.Render(o.Val), "err": ank.ErrText(o.Err), "panic": o.PanicVal}
		switch {
		case o.Panicked:
			c11Report(c, "cbvar:surplus-results:panic", "panic escaped vm.Execute: "+o.PanicVal+" ["+o.PanicSig+"]", input)
		case o.Err == nil:
			if d := c11Diff(reflect.ValueOf(o.Val), reflect.ValueOf([]interface{}{int64(7), nil}), c11NilEither, "result", 0); d != "" {
				c11Report(c, "cbvar:surplus-results:wrong-result", d, input)
			}
		}
	}
}

// ---------------------------------------------------------------------------
// roundtrip: a value stored in a container and read back by a for-in loop

// c11RouteSkip: routes that leave a class of values out (reason of the exclusion).
var c11RouteSkip = map[string]func(v reflect.Value) string{}

func init() {
	c11Routes = append(c11Routes,
		struct{ name, src string }{"map-forin", `x = nil; for k, v in {"k": g} { x = v }; x`},
		struct{ name, src string }{"list-forin", `x = nil; for v in [g] { x = v }; x`},
	)
	c11RouteSkip["list-forin"] = func(v reflect.Value) string {
		v = c11Unwrap(v)
		if c11PendingFix_forInDerefsPointer && v.IsValid() && v.Kind() == reflect.Ptr && !v.IsNil() {
			return "pending decision: for-in over a slice binds the pointee of a pointer element"
		}
		return ""
	}
}

// ---------------------------------------------------------------------------
// phase deepstore: "member syntax ... through a pointer, writes the Go value's
// own exported fields" at any depth. The root is a Go struct bound by pointer;
// a PRNG path walks down through fields of struct type held BY VALUE, Go
// arrays, typed slices of structs, pointers and map values that are pointers
// (every step is one Go itself can assign through: p.A.B.X = v, p.Arr[i][j] = v,
// p.S[i].B.X = v, p.M["k"].X = v) to a scalar leaf, which is stored with =, +=
// or ++. Oracle: a twin of the root built from the same PRNG stream, on which
// the same store is made with reflect; afterwards the Go value the script
// reached through the pointer must equal the twin everywhere
// (reflect.DeepEqual: the store arrived, and nothing else changed) and the
// expression reads the stored value back. A leaf of type int given an int64
// needs a conversion: UNSPECIFIED (header of c11.go), Go's conversion or an
// error with the Go value unchanged are both accepted.

type C11R5Addr struct {
	City string
	Zip  int
	Geo  [2]float64
	Open bool
}

type C11R5Contact struct {
	Name string
	Home C11R5Addr
	Tags []string
	Alt  *C11R5Addr
	Rank int64
}

type C11R5Acct struct {
	ID      int64
	Owner   C11R5Contact
	Others  []C11R5Contact
	Quarter [2][2]int64
	Grid    [2]C11R5Addr
	Book    map[string]*C11R5Contact
	Next    *C11R5Acct
	Cells   [][2]int64
	Pair    struct{ L, R C11R5Addr }
}

func c11r5GenAddr(r *rand.Rand) C11R5Addr {
	return C11R5Addr{City: "c" + strconv.Itoa(r.Intn(100)), Zip: r.Intn(1000), Geo: [2]float64{float64(r.Intn(100)) / 4, float64(r.Intn(100)) / 4}, Open: r.Intn(2) == 0}
}

func c11r5GenContact(r *rand.Rand) C11R5Contact {
	ct := C11R5Contact{Name: "n" + strconv.Itoa(r.Intn(100)), Home: c11r5GenAddr(r), Rank: int64(r.Intn(50))}
	for i := r.Intn(3); i > 0; i-- {
		ct.Tags = append(ct.Tags, "t"+strconv.Itoa(r.Intn(10)))
	}
	if r.Intn(3) != 0 {
		a := c11r5GenAddr(r)
		ct.Alt = &a
	}
	return ct
}

func c11r5GenAcct(r *rand.Rand, depth int) *C11R5Acct {
	a := &C11R5Acct{ID: int64(r.Intn(1000)), Owner: c11r5GenContact(r)}
	for i := 1 + r.Intn(3); i > 0; i-- {
		a.Others = append(a.Others, c11r5GenContact(r))
	}
	for i := 0; i < 2; i++ {
		for j := 0; j < 2; j++ {
			a.Quarter[i][j] = int64(r.Intn(100))
		}
		a.Grid[i] = c11r5GenAddr(r)
	}
	a.Book = map[string]*C11R5Contact{}
	for _, k := range []string{"k1", "k2"} {
		ct := c11r5GenContact(r)
		a.Book[k] = &ct
	}
	for i := 1 + r.Intn(2); i > 0; i-- {
		a.Cells = append(a.Cells, [2]int64{int64(r.Intn(9)), int64(r.Intn(9))})
	}
	a.Pair.L, a.Pair.R = c11r5GenAddr(r), c11r5GenAddr(r)
	if depth < 1 {
		a.Next = c11r5GenAcct(r, depth+1)
	}
	return a
}

// c11r5Walk chooses a path from v (addressable) down to a scalar leaf. It
// returns the script text of the path, the pattern of container kinds and a
// function that finds the leaf in a value of the same shape.
func c11r5Walk(r *rand.Rand, v reflect.Value) (text, pat string, find func(root reflect.Value) reflect.Value) {
	var steps []func(reflect.Value) reflect.Value
	for depth := 0; ; depth++ {
		switch v.Kind() {
		case reflect.Ptr:
			if v.IsNil() {
				return "", "", nil
			}
			v = v.Elem()
			pat += "P"
			steps = append(steps, func(x reflect.Value) reflect.Value { return x.Elem() })
		case reflect.Struct:
			// prefer containers while the path is short, leaves when it is long
			var leaves, conts []int
			for i := 0; i < v.NumField(); i++ {
				switch v.Field(i).Kind() {
				case reflect.String, reflect.Int, reflect.Int64, reflect.Float64, reflect.Bool:
					leaves = append(leaves, i)
				case reflect.Slice, reflect.Map:
					if v.Field(i).Len() > 0 && v.Field(i).Type().Elem().Kind() != reflect.String {
						conts = append(conts, i)
					}
				case reflect.Ptr:
					if !v.Field(i).IsNil() {
						conts = append(conts, i)
					}
				default:
					conts = append(conts, i)
				}
			}
			pick := leaves
			if len(conts) > 0 && (len(leaves) == 0 || r.Intn(6) >= depth) {
				pick = conts
			}
			i := pick[r.Intn(len(pick))]
			text += "." + v.Type().Field(i).Name
			pat += "S"
			v = v.Field(i)
			steps = append(steps, func(x reflect.Value) reflect.Value { return x.Field(i) })
		case reflect.Array, reflect.Slice:
			i := r.Intn(v.Len())
			text += "[" + strconv.Itoa(i) + "]"
			if v.Kind() == reflect.Array {
				pat += "A"
			} else {
				pat += "L"
			}
			v = v.Index(i)
			steps = append(steps, func(x reflect.Value) reflect.Value { return x.Index(i) })
		case reflect.Map:
			keys := v.MapKeys()
			ks := make([]string, len(keys))
			for i, k := range keys {
				ks[i] = k.String()
			}
			sort.Strings(ks)
			key := reflect.ValueOf(ks[r.Intn(len(ks))])
			text += "[" + strconv.Quote(key.String()) + "]"
			pat += "M"
			v = v.MapIndex(key)
			steps = append(steps, func(x reflect.Value) reflect.Value { return x.MapIndex(key) })
		default:
			st := steps
			return text, pat, func(root reflect.Value) reflect.Value {
				for _, s := range st {
					root = s(root)
				}
				return root
			}
		}
	}
}

func c11PhaseDeepStore(c *wk.Case) {
	r := c.Rng
	seed := r.Int63()
	acc := c11r5GenAcct(rand.New(rand.NewSource(seed)), 0)
	twin := c11r5GenAcct(rand.New(rand.NewSource(seed)), 0)
	e := ank.NewCoreEnv()
	e.Define("acc", acc)
	e.Define("box", []interface{}{acc, "z"})
	e.Define("reg", map[string]interface{}{"p": acc})
	roots := []string{"acc", "acc", "box[0]", "reg.p", "reg[\"p\"]"}
	for n := 0; n < 40; n++ {
		path, pat, find := c11r5Walk(r, reflect.ValueOf(acc))
		if find == nil {
			continue
		}
		leaf := find(reflect.ValueOf(twin))
		root := roots[r.Intn(len(roots))]
		place := root + path
		op := []string{"=", "=", "+=", "++"}[r.Intn(4)]
		var lit string
		var nv reflect.Value
		conv := false // the stored value needs a conversion to the field's type
		switch leaf.Kind() {
		case reflect.String:
			s := "w" + strconv.Itoa(r.Intn(1000))
			lit = strconv.Quote(s)
			switch op {
			case "++":
				op = "="
				fallthrough
			case "=":
				nv = reflect.ValueOf(s)
			default:
				nv = reflect.ValueOf(leaf.String() + s)
			}
		case reflect.Int, reflect.Int64:
			x := int64(1 + r.Intn(5000))
			lit = strconv.FormatInt(x, 10)
			switch op {
			case "=":
				nv = reflect.ValueOf(x)
			case "+=":
				nv = reflect.ValueOf(leaf.Int() + x)
			default:
				nv = reflect.ValueOf(leaf.Int() + 1)
			}
			conv = leaf.Kind() == reflect.Int
			nv = nv.Convert(leaf.Type())
		case reflect.Float64:
			x := float64(1+r.Intn(400)) / 4
			lit = strconv.FormatFloat(x, 'f', 2, 64)
			switch op {
			case "++":
				op = "="
				fallthrough
			case "=":
				nv = reflect.ValueOf(x)
			default:
				nv = reflect.ValueOf(leaf.Float() + x)
			}
		case reflect.Bool:
			op = "="
			nv = reflect.ValueOf(!leaf.Bool())
			lit = strconv.FormatBool(nv.Bool())
		default:
			continue
		}
		src := place + " " + op + " " + lit + "\n" + place
		if op == "++" {
			src = place + "++\n" + place
		}
		before := leaf.Interface()
		c.Begin(src)
		o := ank.Exec(e, src)
		c.Events(1)
		c.Eval("deepstore|"+src+"|"+ank.Render(before), true)
		c.Tag("deepstore:path:"+pat, "deepstore:op:"+op)
		sig := "deepstore:" + op + ":" + pat + ":"
		input := map[string]interface{}{"src": src, "path_kinds": pat + " (P pointer, S struct field, A array element, L slice element, M map value)", "leaf_before": ank.Render(before), "want_leaf": ank.RenderValue(nv),
			"got": ank.Render(o.Val), "err": ank.ErrText(o.Err), "panic": o.PanicVal, "go_leaf_after": ank.RenderValue(find(reflect.ValueOf(acc)))}
		switch {
		case o.Panicked:
			c11Report(c, sig+"panic", "panic escaped vm.Execute: "+o.PanicVal+" ["+o.PanicSig+"]", input)
			return
		case o.Err != nil && conv:
			// UNSPECIFIED: a refused conversion; the Go value must be unchanged
			c.Tag("deepstore:conversion-refused")
		case o.Err != nil:
			c11Report(c, sig+"error", "a store Go itself can make through the pointer failed: "+o.Err.Error(), input)
		default:
			leaf.Set(nv)
			if d := c11Diff(reflect.ValueOf(o.Val), nv, c11NilExact, "value read back", 0); d != "" {
				c11Report(c, sig+"read-back", d, input)
			}
		}
		if !reflect.DeepEqual(acc, twin) {
			what := "other-field-changed"
			if got := find(reflect.ValueOf(acc)); !reflect.DeepEqual(got.Interface(), leaf.Interface()) {
				what = "store-wrong"
				if reflect.DeepEqual(got.Interface(), before) {
					what = "store-lost"
				}
			}
			c11Report(c, sig+what, "after the store the Go value reached through the pointer is not what the same store made by Go gives: leaf "+ank.RenderValue(find(reflect.ValueOf(acc)))+", want "+ank.RenderValue(leaf), input)
			return // acc and twin have diverged
		}
	}
}
