package main

// Company: the regime behind the phases named "<phase>+company" (round 9).
//
// All twenty statements quantify over schedules ("whatever the scheduling", "from
// many goroutines at once", "for every input, schedule ..."), and the embedding
// they describe is a host that runs many scripts in one process. Every engine
// but the concurrent ones (C13, C14 conc, C16, C20 concur, the C01 storms) runs
// its cases one after another on one goroutine of an otherwise idle worker
// process, so a change that is right whenever one execution runs at a time and
// wrong only while two executions OVERLAP - a package-level scratch buffer, a
// pooled object put back too early, a lazily built table published before it is
// complete, a per-node or per-type cache written during evaluation, a
// package-level "current X" - leaves no trace in them however many cases run.
//
// The regime does not touch the engines (their accounting is single-threaded
// and stays so): the cases of a phase run exactly as before on the main
// goroutine, judged by the property's own oracle, while k other goroutines of
// the same process execute the battery below without pause - small programs
// over every part of the language, each in a fresh environment of its own with
// a tree of its own (distinct source text every time, so process-wide tables
// keep churning), each self-checked against a value computed natively in Go.
// Nothing is shared between the company and the cases, or between two members
// of the company, except what the code under test shares behind their backs.
// A foreground case that is judged differently in company, or a battery item
// that computes something else than it does alone, is an observed violation of
// "an execution yields what it would yield alone"; it is reported under the
// property being checked when the foreground oracle fired (the statement of the
// property is what was refuted) or when the battery item is an instance of that
// property's statement (items carry the ids of the statements they instantiate),
// and only counted otherwise.
//
// The regime is statistical, like every schedule-dependent part of this harness
// outside the controlled scheduler of C13: what it can see is a window that
// three continuously executing goroutines hit within some thousands of
// foreground evaluations.

import (
	"context"
	"fmt"
	"math/rand"
	"reflect"
	"sort"
	"strconv"
	"strings"
	"sync"
	"sync/atomic"

	"github.com/mattn/anko/ast/astutil"
	"github.com/mattn/anko/core"
	"github.com/mattn/anko/env"
	_ "github.com/mattn/anko/packages"
	"github.com/mattn/anko/parser"
	"github.com/mattn/anko/vm"

	"verifharness/internal/wk"
)

func init() { wk.CompanyStart = companyStart; wk.CompanyBatch = companyBatch }

// companyItem is one family of self-checking programs. build returns, for the
// n-th program of the family, its source, the host bindings it needs and the
// check of what the run produced ("" = as expected).
type companyItem struct {
	name  string
	props []string
	build func(n int64, tr *companyTrace) (src string, bind map[string]interface{}, check func(v interface{}, err error) string)
}

// companyTrace is the host-side recorder of one execution (never shared).
type companyTrace struct{ ev []string }

func (t *companyTrace) p(v interface{}) interface{} {
	t.ev = append(t.ev, fmt.Sprint(v))
	return v
}

type companyRec struct {
	A, B int64
	S    string
	L    []interface{}
}

func (r companyRec) Sum() int64                       { return r.A + r.B }
func (r *companyRec) Bump(d int64) int64              { r.A += d; return r.A }
func (r companyRec) Tag(p string) string              { return p + r.S }
func companyApply(f func(int64) int64, x int64) int64 { return f(x) }
func companyJoin(sep string, parts ...string) string  { return strings.Join(parts, sep) }

func wantVal(want interface{}) func(v interface{}, err error) string {
	return func(v interface{}, err error) string {
		if err != nil {
			return "error " + err.Error() + ", expected " + fmt.Sprintf("%#v", want)
		}
		if !reflect.DeepEqual(v, want) {
			return fmt.Sprintf("got %#v (%T), expected %#v (%T)", v, v, want, want)
		}
		return ""
	}
}

func wantList(want ...interface{}) func(v interface{}, err error) string { return wantVal(want) }

var companyBattery = []companyItem{
	{"arith-int", []string{"C05", "C03", "C14"}, func(n int64, _ *companyTrace) (string, map[string]interface{}, func(interface{}, error) string) {
		a, b := n%100003+7, n%977+3
		src := fmt.Sprintf("a = %d; b = %d; [(a + b) * 3 - a %% 7, a - b * 2, -a + b, a * b %% 1000, (a | 5) & 1023, a << 2 >> 1, 1024 + b]", a, b)
		return src, nil, wantList((a+b)*3-a%7, a-b*2, -a+b, a*b%1000, (a|5)&1023, a<<2>>1, int64(1024)+b)
	}},
	{"arith-float", []string{"C05", "C14"}, func(n int64, _ *companyTrace) (string, map[string]interface{}, func(interface{}, error) string) {
		a := float64(n%4099) + 0.5
		b := n%31 + 2
		src := fmt.Sprintf("a = %s; b = %d; [a + b, a * 2, a - b, b / 2.0, a > b, a == a, b + 0.0 == b]", strconv.FormatFloat(a, 'f', 1, 64), b)
		return src, nil, wantList(a+float64(b), a*2, a-float64(b), float64(b)/2.0, a > float64(b), true, true)
	}},
	{"string-ops", []string{"C05", "C14"}, func(n int64, _ *companyTrace) (string, map[string]interface{}, func(interface{}, error) string) {
		k := n%89 + 2
		u := "u" + strconv.FormatInt(n, 36)
		src := fmt.Sprintf("s = %q; k = %d; t = s + k + \":\" + s; r = s * k; t += \"!\"; [t, len(r), r[0:len(s)] == s, r[len(r)-len(s):] == s, s + 1.5, 7 + s]", u, k)
		return src, nil, wantList(u+strconv.FormatInt(k, 10)+":"+u+"!", int64(len(u))*k, true, true, u+"1.5", "7"+u)
	}},
	{"string-long", []string{"C05", "C14"}, func(n int64, _ *companyTrace) (string, map[string]interface{}, func(interface{}, error) string) {
		unit := "ab" + strconv.FormatInt(n%7, 10) + "é"
		k := 300 + n%200
		src := fmt.Sprintf("u = %q; s = \"\"; for i = 0; i < %d; i++ { s += u }; s == u * %d && len(s) == %d", unit, k, k, int64(len(unit))*k)
		return src, nil, wantVal(true)
	}},
	{"equality", []string{"C06", "C14"}, func(n int64, _ *companyTrace) (string, map[string]interface{}, func(interface{}, error) string) {
		a := n%1000003 + 11
		f := strconv.FormatInt(a, 10) + "." + strconv.FormatInt(n%9+1, 10) + "5"
		fv, _ := strconv.ParseFloat(f, 64)
		as := strconv.FormatInt(a, 10)
		src := "a = " + as + "; f = " + f + "; [a == \"" + as + "\", \"" + as + "\" == a, a == \"" + as + ".0\", a != \"" + as + "\", a == \"" + strconv.FormatInt(a+1, 10) + "\", f == \"" + f + "\", \"" + f + "\" == f, f == \"" + as + "\", a in [1, \"x\", " + as + "], \"" + as + "\" in [a], a == a + 0.0, [a, [f, \"s\"]] == [a, [f, \"s\"]], {\"k\": a} == {\"k\": a + 1}, nil == a, a == nil]"
		_ = fv
		return src, nil, wantList(true, true, true, false, false, true, true, false, true, true, true, true, false, false, false)
	}},
	{"equality-switch", []string{"C06", "C08", "C14"}, func(n int64, _ *companyTrace) (string, map[string]interface{}, func(interface{}, error) string) {
		a := n%50021 + 5
		src := fmt.Sprintf("r = []; for x in [%d, \"%d\", %d.0, %d, \"q\", nil] { switch x { case %d: r += \"n\"; case \"q\", nil: r += \"q\"; default: r += \"d\" } }; r", a, a, a, a+1, a)
		return src, nil, wantList("n", "n", "n", "d", "q", "q")
	}},
	{"slices", []string{"C10", "C14"}, func(n int64, _ *companyTrace) (string, map[string]interface{}, func(interface{}, error) string) {
		k := n%37 + 6
		m := n%1009 + 2
		src := fmt.Sprintf("a = []; for i = 0; i < %d; i++ { a += i * %d }; b = a[1:3]; b[0] = -1; c = a[2:]; c[len(c)-1] = -2; a[len(a)] = 99; [len(a), a[1], a[2], a[%d], a[%d], len(b), len(c), b[1] == a[2]]", k, m, k-1, k)
		return src, nil, wantList(k+1, int64(-1), 2*m, int64(-2), int64(99), int64(2), k-2, true)
	}},
	{"maps", []string{"C10", "C19", "C14"}, func(n int64, _ *companyTrace) (string, map[string]interface{}, func(interface{}, error) string) {
		k := n%41 + 5
		pf := "k" + strconv.FormatInt(n%1291, 36) + "_"
		src := fmt.Sprintf("m = {}; for i = 0; i < %d; i++ { m[%q + i] = i * 3 }; delete(m, %q + 0); m[%q + 1] = \"one\"; v, ok = m[%q + 0]; s = 0; for key, val in m { if val != \"one\" { s += val } }; [len(m), len(keys(m)), m[%q + 1], ok, m[%q + %d], s, m[\"absent\"]]", k, pf, pf, pf, pf, pf, pf, k-1)
		sum := int64(0)
		for i := int64(2); i < k; i++ {
			sum += i * 3
		}
		return src, nil, wantList(k-1, k-1, "one", false, (k-1)*3, sum, nil)
	}},
	{"closures", []string{"C04", "C14"}, func(n int64, _ *companyTrace) (string, map[string]interface{}, func(interface{}, error) string) {
		k := n%100019 + 1
		src := fmt.Sprintf("x = %d; mk = func(c) { return func() { c += 1; return c } }; g = mk(x); h = mk(x * 2); g(); g(); h(); f = func() { var x = 5; x += 1; return x }; y = f(); if true { var x = -1; x = x - 1 }; fs = []; for i = 0; i < 3; i++ { fs += func() { return i } }; [g(), h(), x, y, f(), fs[0]() == fs[2]()]", k)
		return src, nil, wantList(k+3, 2*k+2, k, int64(6), int64(6), true)
	}},
	{"control", []string{"C08", "C14"}, func(n int64, _ *companyTrace) (string, map[string]interface{}, func(interface{}, error) string) {
		k := n%53 + 12
		var s, cnt int64
		for i := int64(0); i < k; i++ {
			if i%3 == 0 {
				continue
			}
			if i > k-3 {
				break
			}
			s += i
			cnt++
		}
		src := fmt.Sprintf("s = 0; c = 0; for i = 0; i < %d; i++ { if i %% 3 == 0 { continue }; if i > %d { break }; s += i; c++ }; t = 0; for v in range(%d) { if v == 5 { continue }; t += v }; w = 0; for { w++; if w >= 7 { break } }; f = func(a) { for x in [1, 2, 3] { if x == a { return x * 10 } }; return -1 }; [s, c, t, w, f(2), f(9), true ? 1 : 2, nil ?? 4]", k, k-3, k)
		t := k*(k-1)/2 - 5
		return src, nil, wantList(s, cnt, t, int64(7), int64(20), int64(-1), int64(1), int64(4))
	}},
	{"try-defer", []string{"C09", "C14"}, func(n int64, tr *companyTrace) (string, map[string]interface{}, func(interface{}, error) string) {
		e := "e" + strconv.FormatInt(n, 36)
		src := fmt.Sprintf("f = func() { defer p(\"d1\"); defer func() { p(\"d2\") }(); try { p(\"t\"); throw %q; p(\"never\") } catch err { p(err) } finally { p(\"fin\") }; p(\"after\"); return 1 }; g = func() { defer p(\"gd\"); throw \"g\" + %q }; r = f(); try { g() } catch e2 { p(e2) }; r", e, e)
		return src, map[string]interface{}{"p": tr.p}, func(v interface{}, err error) string {
			if m := wantVal(int64(1))(v, err); m != "" {
				return m
			}
			want := []string{"t", e, "fin", "after", "d2", "d1", "gd", "g" + e}
			if !reflect.DeepEqual(tr.ev, want) {
				return fmt.Sprintf("trace %q, expected %q", tr.ev, want)
			}
			return ""
		}
	}},
	{"operand-order", []string{"C07", "C14"}, func(n int64, tr *companyTrace) (string, map[string]interface{}, func(interface{}, error) string) {
		k := n%1000 + 10
		src := fmt.Sprintf("f = func(a, b, c) { return a + b + c }; l = [10, 20, 30]; m = {}; r = p(%d) + p(2) * p(3); r += f(p(4), p(5), p(6)); l[p(1)] = p(7); m[p(\"k\")] = p(8); x = p(false) && p(\"skipped\"); y = p(true) || p(\"skipped\"); z = p(nil) ?? p(9); [r, l[1], m[\"k\"], x, y, z, [p(11), p(12)][p(0)]]", k)
		return src, map[string]interface{}{"p": tr.p}, func(v interface{}, err error) string {
			if m := wantList(k+6+15, int64(7), int64(8), false, true, int64(9), int64(11))(v, err); m != "" {
				return m
			}
			want := []string{strconv.FormatInt(k, 10), "2", "3", "4", "5", "6"}
			// the statement leaves the order of an assignment's right side against its target operands open: compare as sets there
			got := append([]string(nil), tr.ev...)
			if len(got) != 17 {
				return fmt.Sprintf("trace %q: %d events, expected 17", got, len(got))
			}
			if !reflect.DeepEqual(got[:6], want) {
				return fmt.Sprintf("trace %q, expected prefix %q", got, want)
			}
			a := append([]string(nil), got[6:10]...)
			sort.Strings(a)
			if !reflect.DeepEqual(a, []string{"1", "7", "8", "k"}) {
				return fmt.Sprintf("trace %q: assignment operands %q", got, a)
			}
			if !reflect.DeepEqual(got[10:], []string{"false", "true", "<nil>", "9", "11", "12", "0"}) {
				return fmt.Sprintf("trace %q: short-circuit / literal part %q", got, got[10:])
			}
			return ""
		}
	}},
	{"go-boundary", []string{"C11", "C20", "C14"}, func(n int64, _ *companyTrace) (string, map[string]interface{}, func(interface{}, error) string) {
		a, b := n%10007+1, n%101+1
		s := "s" + strconv.FormatInt(n, 36)
		rec := &companyRec{A: a, B: b, S: s, L: []interface{}{a, s}}
		src := fmt.Sprintf("k = %d; r1 = rec.Sum(); r2 = rec.Bump(2); r3 = rec.Tag(\"<\"); r4 = apply(func(x) { return x * k }, rec.B); r5 = join(\"-\", \"a\", rec.S, \"c\"); rec.B = rec.B + 1; [r1, r2, r3, r4, r5, rec.A, rec.B, rec.L[1], len(rec.L)]", b)
		return src, map[string]interface{}{"rec": rec, "apply": companyApply, "join": companyJoin}, func(v interface{}, err error) string {
			if m := wantList(a+b, a+2, "<"+s, b*b, "a-"+s+"-c", a+2, b+1, s, int64(2))(v, err); m != "" {
				return m
			}
			if rec.A != a+2 || rec.B != b+1 {
				return fmt.Sprintf("host record after the run: A=%d B=%d, expected %d %d", rec.A, rec.B, a+2, b+1)
			}
			return ""
		}
	}},
	{"struct-members", []string{"C11", "C14", "C20"}, func(n int64, _ *companyTrace) (string, map[string]interface{}, func(interface{}, error) string) {
		a, b := n%7919+1, n%13+1
		// two programs of one shape that read DIFFERENT members of one host type at the same tree position
		if n%2 == 0 {
			return "x = v.A; y = v.A; x + y", map[string]interface{}{"v": companyRec{A: a, B: b}}, wantVal(2 * a)
		}
		return "x = v.B; y = v.B; x + y", map[string]interface{}{"v": companyRec{A: a, B: b}}, wantVal(2 * b)
	}},
	{"parse-shape", []string{"C03", "C15", "C14"}, func(n int64, _ *companyTrace) (string, map[string]interface{}, func(interface{}, error) string) {
		a, b, c := n%997+2, n%89+2, n%13+2
		src := fmt.Sprintf("# c%d\n[%d + %d * %d, (%d + %d) * %d, %d - %d - %d, -%d + %d, %d > %d && %d < %d || false, !(%d == %d), %d %% %d * %d, \"%d\" + %d * %d]", n, a, b, c, a, b, c, a, b, c, a, b, a, b, b, a, a, b, a, c, b, a, b, c)
		return src, nil, wantList(a+b*c, (a+b)*c, a-b-c, -a+b, a > b && b < a, !(a == b), a%c*b, strconv.FormatInt(a, 10)+strconv.FormatInt(b*c, 10))
	}},
	{"literals", []string{"C03", "C14"}, func(n int64, _ *companyTrace) (string, map[string]interface{}, func(interface{}, error) string) {
		a := n%1000000007 + 1
		f := float64(n%100000) + 0.125
		s := "lit" + strconv.FormatInt(n, 16) + "ü"
		src := fmt.Sprintf("[%d, 0x%x, %s, %q, `%s`, [%d, [%q]], {%q: %d}[%q], 1e3, true, nil]", a, a, strconv.FormatFloat(f, 'f', -1, 64), s, s, a, s, s, a, s)
		return src, nil, wantList(a, a, f, s, s, []interface{}{a, []interface{}{s}}, a, float64(1000), true, nil)
	}},
	{"builtins", []string{"C19", "C14"}, func(n int64, _ *companyTrace) (string, map[string]interface{}, func(interface{}, error) string) {
		a := n%1000003 + 3
		k := n%19 + 2
		src := fmt.Sprintf("strings = import(\"strings\"); sort = import(\"sort\"); l = [3, 1, 2]; sort.Slice(l, func(i, j) { return l[i] < l[j] }); [toInt(\"%d\"), toInt(%d.9), toFloat(\"%d.25\"), toString(%d), len(range(%d)), range(2, %d)[1], typeOf(%d), kindOf(\"s\"), strings.ToUpper(\"ab%d\"), len(strings.Split(\"a,b,%d\", \",\")), l, toBool(\"true\"), toInt(nil)]", a, a, a, a, k, k+5, a, n%1000, a)
		return src, nil, wantList(a, a, float64(a)+0.25, strconv.FormatInt(a, 10), k, int64(3), "int64", "string", "AB"+strconv.FormatInt(n%1000, 10), int64(3), []interface{}{int64(1), int64(2), int64(3)}, true, int64(0))
	}},
	{"provenance", []string{"C20", "C14"}, func(n int64, _ *companyTrace) (string, map[string]interface{}, func(interface{}, error) string) {
		a := n%65537 + 9
		src := fmt.Sprintf("x = %d; l = [x, \"s\", [x]]; m = {\"a\": x, \"l\": l}; f = func() { return x }; g = func() { return l }; [x + 1, l[0] + 1, m[\"a\"] + 1, f() + 1, hid(x) + 1, typeOf(l[0]), typeOf(m[\"a\"]), typeOf(hid(x)), len(m[\"l\"]), len(g()), len(hid(l)), hid(l)[2][0], m.l[1] + 1, \"p\" + hid(\"q\")]", a)
		return src, map[string]interface{}{"hid": func(v interface{}) interface{} { return v }}, wantList(a+1, a+1, a+1, a+1, a+1, "int64", "int64", "int64", int64(3), int64(3), int64(3), a, "s1", "pq")
	}},
	// no item starts a goroutine: the engines count the goroutines of the process as a completion
	// barrier for the goroutines their own cases start, and the company must stay a constant in that count
	{"env-api", []string{"C12", "C14"}, func(n int64, _ *companyTrace) (string, map[string]interface{}, func(interface{}, error) string) {
		// Go-level: a chain of two scopes of its own
		return "", nil, func(interface{}, error) string {
			e := env.NewEnv()
			c := e.NewEnv()
			nm := "v" + strconv.FormatInt(n, 36)
			if err := e.Define(nm, n); err != nil {
				return "Define: " + err.Error()
			}
			if err := c.Define("loc", "l"); err != nil {
				return "Define: " + err.Error()
			}
			if v, err := c.Get(nm); err != nil || v != n {
				return fmt.Sprintf("Get through the chain: %v %v", v, err)
			}
			if err := c.Set(nm, n+1); err != nil {
				return "Set: " + err.Error()
			}
			if v, _ := e.Get(nm); v != n+1 {
				return fmt.Sprintf("Set through the chain did not reach the parent: %v", v)
			}
			if _, err := e.Get("loc"); err == nil {
				return "the parent sees the child's binding"
			}
			c.Delete("loc")
			if _, err := c.Get("loc"); err == nil {
				return "deleted name still bound"
			}
			if err := e.Set("undefined_"+nm, 1); err == nil {
				return "Set of an unbound name succeeded"
			}
			cp := e.Copy()
			cp.Set(nm, "changed")
			if v, _ := e.Get(nm); v != n+1 {
				return fmt.Sprintf("a store in the copy reached the original: %v", v)
			}
			return ""
		}
	}},
	{"walk", []string{"C17", "C14"}, func(n int64, _ *companyTrace) (string, map[string]interface{}, func(interface{}, error) string) {
		k := n%5 + 1
		var sb strings.Builder
		for i := int64(0); i < k; i++ {
			fmt.Fprintf(&sb, "a%d = func(x) { if x > %d { return [x, {\"k\": x}] }; return x + 1 }(%d)\n", i, n%7, i)
		}
		src := sb.String()
		return "", nil, func(interface{}, error) string {
			st, err := parser.ParseSrc(src)
			if err != nil {
				return "parse: " + err.Error()
			}
			cnt := 0
			if err := astutil.Walk(st, func(interface{}) error { cnt++; return nil }); err != nil {
				return "walk: " + err.Error()
			}
			// every line contributes the same number of nodes: the count is k times that of one line
			one, _ := parser.ParseSrc(fmt.Sprintf("a%d = func(x) { if x > %d { return [x, {\"k\": x}] }; return x + 1 }(%d)\n", 0, n%7, 0))
			c1 := 0
			astutil.Walk(one, func(interface{}) error { c1++; return nil })
			// the source is one statement list around its lines
			want := int(k)*(c1-1) + 1
			if cnt != want {
				return fmt.Sprintf("walk visited %d nodes of %d lines, one line has %d", cnt, k, c1)
			}
			return ""
		}
	}},
	{"walk-stop", []string{"C17", "C14"}, func(n int64, _ *companyTrace) (string, map[string]interface{}, func(interface{}, error) string) {
		src := fmt.Sprintf("x = [1, 2, {\"k\": f(%d, g(3))}]\nfor i in x { if i == %d { break } else { y = i + 1 } }\n", n%97, n%5)
		return "", nil, func(interface{}, error) string {
			st, err := parser.ParseSrc(src)
			if err != nil {
				return "parse: " + err.Error()
			}
			total := 0
			astutil.Walk(st, func(interface{}) error { total++; return nil })
			if total < 10 {
				return fmt.Sprintf("walk visited %d nodes", total)
			}
			// the callback's own error comes back, and no node is visited after it was returned
			stopAt := int(n%int64(total)) + 1
			own := fmt.Errorf("stop-%d-at-%d", n, stopAt)
			seen, after := 0, 0
			got := astutil.Walk(st, func(interface{}) error {
				if seen >= stopAt {
					after++
				}
				seen++
				if seen == stopAt {
					return own
				}
				return nil
			})
			if got != own {
				return fmt.Sprintf("walk stopped by its callback with %v returned %v", own, got)
			}
			if after != 0 {
				return fmt.Sprintf("%d nodes visited after the callback returned an error", after)
			}
			return ""
		}
	}},
	{"string-truth", []string{"C07", "C08", "C14"}, func(n int64, tr *companyTrace) (string, map[string]interface{}, func(interface{}, error) string) {
		// which strings count as true is taken from the tree under test itself (companyCalibrate, before the
		// company starts): what is judged is that a deciding operand decides for ITS evaluation
		k := len(companyTruthStrings)
		i, j := int(n%int64(k)), int((n/7)%int64(k))
		a, b := companyTruthStrings[i], companyTruthStrings[j]
		src := fmt.Sprintf("a = %q; b = %q; r = []; for q = 0; q < 6; q++ { x = a && p(\"ar\"); y = b || p(\"br\"); z = a ? p(\"at\") : p(\"ae\"); if b { r += 1 } else { r += 0 }; c = 0; for a { c++; break }; r += c }; r", a, b)
		ta, tb := companyTruth[i], companyTruth[j]
		return src, map[string]interface{}{"p": tr.p}, func(v interface{}, err error) string {
			var want []interface{}
			var wtr []string
			for q := 0; q < 6; q++ {
				if ta {
					wtr = append(wtr, "ar")
				}
				if !tb {
					wtr = append(wtr, "br")
				}
				if ta {
					wtr = append(wtr, "at")
				} else {
					wtr = append(wtr, "ae")
				}
				bi, ai := int64(0), int64(0)
				if tb {
					bi = 1
				}
				if ta {
					ai = 1
				}
				want = append(want, bi, ai)
			}
			if m := wantVal(want)(v, err); m != "" {
				return m
			}
			if !reflect.DeepEqual(tr.ev, wtr) {
				return fmt.Sprintf("operands evaluated %q, expected %q (a counts as %v, b as %v when tested alone)", tr.ev, wtr, ta, tb)
			}
			return ""
		}
	}},
	{"typed-slices", []string{"C10", "C19", "C14"}, func(n int64, _ *companyTrace) (string, map[string]interface{}, func(interface{}, error) string) {
		a := n%100003 + 5
		k := n%300 + 3
		src := fmt.Sprintf("a = make([]int64); l = []; for i = 0; i < %d; i++ { l += %d + i }; a += l; a += [1, 2]; b = make([]string); b += [\"x%d\", \"y\"]; c = make([]float64); c += [1.5, %d]; d = toIntSlice([%d, %d.0]); f = toFloatSlice(l); s = toStringSlice([\"p%d\", \"q\"]); [len(a), a[0], a[%d], a[len(a)-1], typeOf(a), b, c[1], typeOf(c), d, f[%d], len(f), s]", k, a, a, a, a, a+1, a, k-1, k-1)
		return src, nil, wantList(k+2, a, a+k-1, int64(2), "[]int64", []string{"x" + strconv.FormatInt(a, 10), "y"}, float64(a), "[]float64", []int64{a, a + 1}, float64(a+k-1), k, []string{"p" + strconv.FormatInt(a, 10), "q"})
	}},
	{"call-kinds", []string{"C11", "C04", "C14"}, func(n int64, _ *companyTrace) (string, map[string]interface{}, func(interface{}, error) string) {
		a := n%50021 + 2
		src := fmt.Sprintf("f1 = func(x) { return x + 1 }; f4 = func(p, q, r, s) { return p * 1000 + q * 100 + r * 10 + s }; f6 = func(p, q, r, s, t, u) { return [p, u] }; fv = func(h, rest...) { return h + len(rest) }; r = []; for i = 0; i < 5; i++ { r += f1(%d + i); r += f4(1, 2, 3, i); r += f6(i, 0, 0, 0, 0, \"u\")[1]; r += fv(i, 1, 2, 3); r += apply(f1, i); r += join(\"-\", \"a\", \"b\" + i); r += apply(func(x) { return x * %d }, i) }; r", a, a)
		var want []interface{}
		for i := int64(0); i < 5; i++ {
			want = append(want, a+i+1, 1230+i, "u", i+3, i+1, "a-b"+strconv.FormatInt(i, 10), i*a)
		}
		return src, map[string]interface{}{"apply": companyApply, "join": companyJoin}, wantVal(want)
	}},
}

// companyTruthStrings are tested alone, before the company starts, for what they count as in a
// condition (the statements leave numeral- and boolean-like strings open): companyTruth.
var companyTruthStrings = []string{"", "a", "abc", "0", "0.0", "1", "true", "false", "1.5", "x y", "00", "nil", "T", "F", "-0", "1e3"}
var companyTruth []bool

func companyCalibrate() {
	companyTruth = make([]bool, len(companyTruthStrings))
	for i, s := range companyTruthStrings {
		v, _ := vm.Execute(env.NewEnv(), nil, fmt.Sprintf("%q ? 1 : 0", s))
		companyTruth[i] = v == int64(1)
	}
}

func companyStart(k int, seed int64, prop string) func() wk.CompanyReport {
	companyCalibrate()
	var stop int32
	var wg sync.WaitGroup
	var mu sync.Mutex
	rep := wk.CompanyReport{PerItem: map[string]int{}}
	var pref []*companyItem
	for i := range companyBattery {
		for _, p := range companyBattery[i].props {
			if p == prop && prop != "C14" {
				pref = append(pref, &companyBattery[i])
			}
		}
	}
	for g := 0; g < k; g++ {
		wg.Add(1)
		go func(g int) {
			defer wg.Done()
			rng := rand.New(rand.NewSource(seed + int64(g)*7919))
			runs := 0
			per := map[string]int{}
			var mis []wk.CompanyMismatch
			for i := 0; atomic.LoadInt32(&stop) == 0; i++ {
				it := &companyBattery[(i+g*5)%len(companyBattery)]
				// every other execution is a program of the statement being checked: the company then
				// overlaps with the cases, and with itself, in the code the property is anchored in
				if len(pref) > 0 && i%2 == 1 {
					it = pref[rng.Intn(len(pref))]
				}
				n := rng.Int63n(1 << 40)
				msg, src := companyRunItem(it, n)
				runs++
				per[it.name]++
				if msg != "" && len(mis) < 20 {
					judged := false
					for _, p := range it.props {
						if p == prop {
							judged = true
						}
					}
					mis = append(mis, wk.CompanyMismatch{Item: it.name, Detail: "a program executed by a goroutine of its own, in an environment and a tree of its own, while other executions ran in the process: " + msg, Src: src, Judged: judged})
				}
			}
			mu.Lock()
			rep.Runs += runs
			for n, c := range per {
				rep.PerItem[n] += c
			}
			rep.Mismatches = append(rep.Mismatches, mis...)
			mu.Unlock()
		}(g)
	}
	return func() wk.CompanyReport {
		atomic.StoreInt32(&stop, 1)
		wg.Wait()
		return rep
	}
}

// companyBatch: k goroutines, released together, execute rounds programs each (phases company-only*:
// the battery alone, judged by its own checks and, in the race build, by the race detector - two
// executions in environments and trees of their own that touch one memory location unsynchronised
// share hidden mutable state). Every goroutine starts at another item, so all pairs of items overlap.
func companyBatch(k, rounds int, seed int64, prop string) wk.CompanyReport {
	companyCalibrate()
	rep := wk.CompanyReport{PerItem: map[string]int{}}
	var mu sync.Mutex
	var wg sync.WaitGroup
	start := make(chan struct{})
	for g := 0; g < k; g++ {
		wg.Add(1)
		go func(g int) {
			defer wg.Done()
			rng := rand.New(rand.NewSource(seed + int64(g)*104729))
			per := map[string]int{}
			var mis []wk.CompanyMismatch
			<-start
			for i := 0; i < rounds; i++ {
				it := &companyBattery[(i+g*3)%len(companyBattery)]
				msg, src := companyRunItem(it, rng.Int63n(1<<40))
				per[it.name]++
				if msg != "" && len(mis) < 10 {
					mis = append(mis, wk.CompanyMismatch{Item: it.name, Detail: "a program executed by a goroutine of its own, in an environment and a tree of its own, while seven other such executions ran in the process: " + msg, Src: src, Judged: true})
				}
			}
			mu.Lock()
			rep.Runs += rounds
			for n, c := range per {
				rep.PerItem[n] += c
			}
			rep.Mismatches = append(rep.Mismatches, mis...)
			mu.Unlock()
		}(g)
	}
	close(start)
	wg.Wait()
	return rep
}

// companyRunItem executes the n-th program of an item; a Go panic out of the
// boundary call is a mismatch like any other.
func companyRunItem(it *companyItem, n int64) (msg, src string) {
	defer func() {
		if r := recover(); r != nil {
			msg = fmt.Sprintf("Go panic out of the boundary call: %v", r)
		}
	}()
	tr := &companyTrace{}
	src, bind, check := it.build(n, tr)
	if src == "" {
		return check(nil, nil), it.name
	}
	e := core.Import(env.NewEnv())
	for name, v := range bind {
		if err := e.Define(name, v); err != nil {
			return "Define: " + err.Error(), src
		}
	}
	var v interface{}
	var err error
	if n%2 == 0 {
		v, err = vm.Execute(e, nil, src)
	} else {
		ctx, cancel := context.WithCancel(context.Background())
		v, err = vm.ExecuteContext(ctx, e, nil, src)
		cancel()
	}
	return check(v, err), src
}

func init() {
	// `vworker -child company-selftest [rounds]`: every item alone, one after another (what the battery gives without company)
	wk.RegisterChild("company-selftest", func(args []string) {
		companyCalibrate()
		rounds := 300
		if len(args) > 0 {
			rounds, _ = strconv.Atoi(args[0])
		}
		rng := rand.New(rand.NewSource(1))
		bad := 0
		for i := range companyBattery {
			it := &companyBattery[i]
			for r := 0; r < rounds; r++ {
				if msg, src := companyRunItem(it, rng.Int63n(1<<40)); msg != "" {
					bad++
					if bad < 12 {
						fmt.Printf("MISMATCH %s: %s\n  %s\n", it.name, msg, src)
					}
					break
				}
			}
		}
		fmt.Printf("company-selftest: %d items x %d rounds, %d items with a mismatch\n", len(companyBattery), rounds, bad)
	})
}
