package main

// C06 extensions (round 4):
//
//   - wide switches: the matching case value sits at every position among >= 4
//     case values (separate cases, one multi-value case, a mix of both), the other
//     values being literals of the kind of the matching value;
//   - slice views: operands that are views of ONE backing array (a[i:j] vs a[k:l],
//     script slices, host slices, typed host slices, views nested in containers);
//   - a concurrent phase: the answer for a pair of values must not depend on which
//     other comparisons run at the same time (several goroutines, one vm.Execute
//     each or many short ones).

import (
	"fmt"
	"math"
	"runtime"
	"runtime/debug"
	"strconv"
	"strings"
	"sync"

	"github.com/mattn/anko/env"

	"verifharness/internal/ank"
	"verifharness/internal/wk"
)

// ---------------------------------------------------------------------------
// wide switches

// literal filler case values per kind of the matching value: a switch all of
// whose case values are literals of one scalar kind is the shape an
// implementation is most likely to treat specially (table, sorted search).
// The fillers are never ASSUMED to differ from the subject: A == filler is
// observed and enters the expectation.
var c06FillInt = []string{"1000003", "1000033", "1000037", "1000039", "1000081"}
var c06FillFloat = []string{"1000003.5", "1000033.25", "1.0000375e+06", "1000039.5", "1000081.75"}
var c06FillStr = []string{`"1000003"`, `"zq"`, `"1000033.5"`, `"1.0000375e6"`, `"zr"`}

func c06Fillers(b c06V) []string {
	switch b.k {
	case 'f':
		return c06FillFloat
	case 's':
		return c06FillStr
	}
	return c06FillInt // int; nil, bool and containers get int neighbours (mixed kinds)
}

// fillerFlags observes, in one vm.Execute, A == f and f == A for every filler.
func (r *c06Run) fillerFlags(e *env.Env, p *c06Pair, fill []string) (ab, ba []bool, ok bool) {
	ck := p.pre + "\x00" + p.A + "\x00" + p.a.key() + "\x00" + fill[0]
	if f, hit := r.fcache[ck]; hit {
		return f[0], f[1], f[0] != nil
	}
	parts := make([]string, 0, 2*len(fill))
	for _, f := range fill {
		parts = append(parts, p.A+" == "+f, f+" == "+p.A)
	}
	src := p.pre + "[" + strings.Join(parts, ", ") + "]"
	o := ank.Exec(e, src)
	r.c.Eval(src+"\x00"+p.mode+"\x00"+p.a.key(), true)
	r.c.Events(1)
	if r.fcache == nil {
		r.fcache = map[string][2][]bool{}
	}
	lst, isList := o.Val.([]interface{})
	if o.Panicked || o.Err != nil || !isList || len(lst) != 2*len(fill) {
		got := ank.Render(o.Val)
		if o.Panicked {
			got = "panic: " + o.PanicVal
		} else if o.Err != nil {
			got = "error: " + o.Err.Error()
		}
		r.viol("noresult:filler-eq:"+p.a.desc(), fmt.Sprintf("%s gave %s instead of a list of booleans", src, got), p.input(nil))
		r.fcache[ck] = [2][]bool{}
		return nil, nil, false
	}
	for j := 0; j < len(lst); j += 2 {
		x, ok1 := lst[j].(bool)
		y, ok2 := lst[j+1].(bool)
		if !ok1 || !ok2 {
			r.viol("noresult:filler-eq:"+p.a.desc(), fmt.Sprintf("%s gave %s instead of a list of booleans", src, ank.Render(o.Val)), p.input(nil))
			r.fcache[ck] = [2][]bool{}
			return nil, nil, false
		}
		ab, ba = append(ab, x), append(ba, y)
	}
	r.fcache[ck] = [2][]bool{ab, ba}
	return ab, ba, true
}

// wide: switch A over >= 4 case values, caseExpr (denoting b) at position pos.
// obs are the observations of the pair (a == b and b == a enter the expectation).
// The selected case must be the first one whose value equals the subject under
// the observed ==; where == is asymmetric (reported by the sym law) either
// operand order is accepted.
func (r *c06Run) wide(base *env.Env, p *c06Pair, obs map[string]c06Obs, caseExpr string, positions []int, withMixed bool) {
	if obs == nil {
		return
	}
	c := r.c
	e := base.NewEnv()
	if p.bind != nil {
		p.bind(e)
	}
	fill := c06Fillers(p.b)
	fab, fba, ok := r.fillerFlags(e, p, fill)
	if !ok {
		return
	}
	E, Q := obs["eq"].v, obs["qe"].v
	pairD := p.a.desc() + "," + p.b.desc()
	hkey := "wide\x00" + p.mode + "\x00" + p.a.key() + "\x00" + p.b.key()
	c.Tag("mode:wide-switch")

	// judge one statement; cases[k] lists the case values of clause k+1 as
	// (expr, A==v, v==A); bclause is the clause holding b.
	type cv struct {
		expr   string
		ab, ba bool
	}
	judge := func(form string, clauses [][]cv, bclause int) {
		var sb strings.Builder
		sb.WriteString("switch " + p.A + " {")
		want1, want2 := int64(0), int64(0)
		for k, cl := range clauses {
			if k > 0 {
				sb.WriteString(";")
			}
			sb.WriteString(" case ")
			for l, v := range cl {
				if l > 0 {
					sb.WriteString(", ")
				}
				sb.WriteString(v.expr)
				if want1 == 0 && v.ab {
					want1 = int64(k + 1)
				}
				if want2 == 0 && v.ba {
					want2 = int64(k + 1)
				}
			}
			sb.WriteString(": " + strconv.Itoa(k+1))
		}
		sb.WriteString("; default: 0 }")
		o := r.exec(e, p.pre+sb.String(), hkey, true)
		inp := func() interface{} {
			m := p.input(obs)
			m["wide_switch"] = o.src
			m["wide_switch_result"] = o.got
			m["subject_equals_filler (A==f)"] = fmt.Sprint(fab)
			return m
		}
		if !o.ok {
			r.viol("noresult:switch-wide:"+form+":"+pairD, fmt.Sprintf("%s gave %s instead of the number of a case", o.src, o.got), inp())
			return
		}
		if o.n == want1 || o.n == want2 {
			return
		}
		class := func(n int64) string {
			switch {
			case n == 0:
				return "default"
			case n == int64(bclause+1):
				return "b-case"
			}
			return "other-case"
		}
		r.viol(fmt.Sprintf("switch-wide:%s:%s:eq=%v,want=%s,took=%s", form, pairD, E, class(want1), class(o.n)),
			fmt.Sprintf("switch with %s disagrees with ==: (%s) selected %d, but (%s) = %v, (%s) = %v and the subject equals the other case values as %v: case %d expected",
				form, o.src, o.n, obs["eq"].src, E, obs["qe"].src, Q, fab, want1), inp())
	}
	bv := cv{caseExpr, E, Q}
	fv := func(j int) cv { return cv{fill[j], fab[j], fba[j]} }
	for _, pos := range positions {
		// four values, b at position pos
		vals := make([]cv, 0, 4)
		for j := 0; len(vals) < 4; {
			if len(vals) == pos {
				vals = append(vals, bv)
				continue
			}
			vals = append(vals, fv(j))
			j++
		}
		sep := make([][]cv, 4)
		for k := range vals {
			sep[k] = []cv{vals[k]}
		}
		judge("4-cases", sep, pos)
		judge("4-value-case", [][]cv{vals}, 0)
	}
	if withMixed {
		// six values in three clauses, b in the middle one
		judge("6-values-3-cases", [][]cv{{fv(0), fv(1)}, {fv(2), bv}, {fv(3), fv(4)}}, 1)
	}
}

// ---------------------------------------------------------------------------
// slice views of one backing array

// backing arrays whose views are compared. Equal elements at different offsets
// make views with different starts equal; cross-type and NaN elements exercise
// the unspecified corner (laws only).
func c06ViewBases() []c06V {
	one, two, three := c06I(1), c06I(2), c06I(3)
	return []c06V{
		c06L(one, two, three),
		c06L(one, one, one, one),
		c06L(c06S("a"), c06S("b"), c06S("a"), c06S("b")),
		c06L(c06L(one), c06L(one), c06L(two)),
		c06L(c06Nil(), c06Nil(), c06Nil()),
		c06L(c06F(1.5), c06I(2), c06S("x"), c06B(true)),
		c06L(c06M("a", one), c06M("a", one), c06M()),
		c06L(one, c06F(1), c06S("1")),
		c06L(c06F(math.NaN()), c06F(math.NaN())),
		c06L(c06I(1000000), c06I(1000000)),
		c06L(c06S("")),
		c06L(),
	}
}

func c06Sub(base c06V, i, j int) c06V {
	v := c06V{k: 'L', el: []c06V{}}
	for _, e := range base.el[i:j] {
		v.el = append(v.el, c06Copy(e))
	}
	return v
}

// spelling of the view [i:j] of the script variable name (n = len of the array)
func c06ViewExpr(name string, i, j, n, style int) string {
	switch {
	case style == 0 && i == 0 && j == n:
		return name
	case style == 1 && i == 0:
		return fmt.Sprintf("%s[:%d]", name, j)
	case style == 1 && j == n:
		return fmt.Sprintf("%s[%d:]", name, i)
	}
	return fmt.Sprintf("%s[%d:%d]", name, i, j)
}

// c06ViewPair builds the pair (base[i:j], base[k:l]) supplied in one of the view modes.
// nil when the mode is unavailable for this array (no literal / not all int64).
func c06ViewPair(base c06V, i, j, k, l int, mode string) *c06Pair {
	n := len(base.el)
	a, b := c06Sub(base, i, j), c06Sub(base, k, l)
	lit, hasLit := base.lit(1)
	switch mode {
	case "view-script":
		if !hasLit {
			return nil
		}
		return &c06Pair{a: a, b: b, pre: "arr = " + lit + "; ", A: c06ViewExpr("arr", i, j, n, 0), B: c06ViewExpr("arr", k, l, n, 0), mode: mode}
	case "view-scriptvar":
		if !hasLit {
			return nil
		}
		return &c06Pair{a: a, b: b, pre: "arr = " + lit + "; p = " + c06ViewExpr("arr", i, j, n, 1) + "; q = " + c06ViewExpr("arr", k, l, n, 1) + "; ",
			A: "p", B: "q", mode: mode}
	case "view-host":
		return &c06Pair{a: a, b: b, A: "x", B: "y", mode: mode,
			bind: func(e *env.Env) {
				arr := base.goVal().([]interface{})
				e.Define("x", arr[i:j])
				e.Define("y", arr[k:l])
			},
			bindsS: map[string]string{"arr": base.key(), "x": fmt.Sprintf("arr[%d:%d]", i, j), "y": fmt.Sprintf("arr[%d:%d]", k, l)}}
	case "view-hostsliced":
		// the host binds the array, the script takes the views
		return &c06Pair{a: a, b: b, A: c06ViewExpr("arr", i, j, n, 2), B: c06ViewExpr("arr", k, l, n, 2), mode: mode,
			bind:   func(e *env.Env) { e.Define("arr", base.goVal()) },
			bindsS: map[string]string{"arr": base.key()}}
	case "view-typed":
		if n == 0 {
			return nil
		}
		for _, el := range base.el {
			if el.k != 'i' {
				return nil
			}
		}
		return &c06Pair{a: a, b: b, A: "x", B: "y", mode: mode,
			bind: func(e *env.Env) {
				arr := make([]int64, n)
				for m, el := range base.el {
					arr[m] = el.i
				}
				e.Define("x", arr[i:j])
				e.Define("y", arr[k:l])
			},
			bindsS: map[string]string{"arr": "[]int64 " + base.key(), "x": fmt.Sprintf("arr[%d:%d]", i, j), "y": fmt.Sprintf("arr[%d:%d]", k, l)}}
	case "view-nested":
		// views as elements of separately built containers
		if !hasLit {
			return nil
		}
		return &c06Pair{a: c06L(a), b: c06L(b), pre: "arr = " + lit + "; ",
			A: "[" + c06ViewExpr("arr", i, j, n, 2) + "]", B: "[" + c06ViewExpr("arr", k, l, n, 1) + "]", mode: mode}
	case "view-member":
		if !hasLit {
			return nil
		}
		return &c06Pair{a: c06M("k", a), b: c06M("k", b), pre: "arr = " + lit + "; ",
			A: `{"k": ` + c06ViewExpr("arr", i, j, n, 1) + "}", B: `{"k": ` + c06ViewExpr("arr", k, l, n, 2) + "}", mode: mode}
	}
	return nil
}

var c06ViewModes = []string{"view-script", "view-scriptvar", "view-host", "view-hostsliced", "view-typed", "view-nested", "view-member"}

// all ordered pairs of views of one array, every view mode
func (r *c06Run) viewsOf(base *env.Env, arr c06V) {
	n := len(arr.el)
	type rg struct{ i, j int }
	var views []rg
	for i := 0; i <= n; i++ {
		for j := i; j <= n; j++ {
			views = append(views, rg{i, j})
		}
	}
	for _, va := range views {
		for _, vb := range views {
			var first map[string]c06Obs
			firstMode := ""
			for _, mode := range c06ViewModes {
				p := c06ViewPair(arr, va.i, va.j, vb.i, vb.j, mode)
				if p == nil {
					continue
				}
				r.c.Tag("mode:" + mode)
				if va.i == vb.i && va.j != vb.j {
					r.c.Tag("views:same-start-different-length")
				}
				o := r.observe(base, p)
				if o == nil {
					continue
				}
				if mode == "view-script" || mode == "view-host" {
					r.wide(base, p, o, p.B, []int{(va.j + vb.j) % 4}, false)
				}
				// one relation on values: every way of taking the two views gives the same answer.
				// Not demanded of the nested modes (they compare other values, the wrappers) nor
				// where the statement leaves the pair open (NaN / cross-type leaves: laws only).
				if mode == "view-nested" || mode == "view-member" {
					continue
				}
				if want, _ := c06Ref(p.a, p.b); want == c06Unspec {
					continue
				}
				if first == nil {
					first, firstMode = o, mode
				} else if o["eq"].v != first["eq"].v {
					r.viol(fmt.Sprintf("prov:slice,slice:%s=%v,%s=%v", firstMode, first["eq"].v, mode, o["eq"].v),
						fmt.Sprintf("views [%d:%d] and [%d:%d] of %s compare differently depending on how they are taken: (%s)=%v as %s, (%s)=%v as %s",
							va.i, va.j, vb.i, vb.j, arr.key(), first["eq"].src, first["eq"].v, firstMode, o["eq"].src, o["eq"].v, mode),
						map[string]interface{}{"array": arr.key(), "a": p.a.key(), "b": p.b.key()})
				}
			}
		}
	}
}

// a random array and two random views of it (biased to a shared start)
func (r *c06Run) randViews(base *env.Env, rng c06Rng) {
	n := rng.Intn(6)
	arr := c06V{k: 'L', el: []c06V{}}
	for m := 0; m < n; m++ {
		switch rng.Intn(4) {
		case 0:
			arr.el = append(arr.el, c06RandContainer(rng, 1))
		case 1:
			if m > 0 {
				arr.el = append(arr.el, c06Copy(arr.el[rng.Intn(m)]))
				break
			}
			fallthrough
		default:
			arr.el = append(arr.el, c06SmallLeaf(rng))
		}
	}
	rg := func() (int, int) {
		i := rng.Intn(n + 1)
		return i, i + rng.Intn(n-i+1)
	}
	i, j := rg()
	k, l := rg()
	if rng.Intn(2) == 0 {
		k = i
		l = i + rng.Intn(n-i+1)
	}
	for tries := 0; tries < 8; tries++ {
		mode := c06ViewModes[rng.Intn(len(c06ViewModes))]
		p := c06ViewPair(arr, i, j, k, l, mode)
		if p == nil {
			continue
		}
		r.c.Tag("mode:" + mode)
		o := r.observe(base, p)
		r.wide(base, p, o, p.B, []int{rng.Intn(4)}, true)
		return
	}
}

// ---------------------------------------------------------------------------
// concurrent comparisons

// exact numeral spellings of an integer that are NOT in integer format
func c06SpellNonInt(rng c06Rng, i int64) string {
	s := strconv.FormatInt(i, 10)
	neg := ""
	d := s
	if i < 0 {
		neg, d = "-", s[1:]
	}
	switch rng.Intn(6) {
	case 0:
		return s + ".0"
	case 1:
		return s + "e0"
	case 2:
		return s + ".000"
	case 3: // trailing zeros moved into the exponent
		t := strings.TrimRight(d, "0")
		if t == "" || t == d {
			return s + "e+0"
		}
		return neg + t + "e" + strconv.Itoa(len(d)-len(t))
	case 4: // scientific: d.ddd e(n-1), exact
		if len(d) == 1 {
			return neg + d + ".0e0"
		}
		return neg + d[:1] + "." + d[1:] + "e" + strconv.Itoa(len(d)-1)
	}
	// shifted the other way: digits followed by a negative exponent
	z := 1 + rng.Intn(3)
	return neg + d + strings.Repeat("0", z) + "e-" + strconv.Itoa(z)
}

type c06ConcPair struct {
	a, b c06V
}

var c06ConcForms = []struct{ name, f string }{
	{"eq", "if x%[1]d == y%[1]d { e%[1]d++ }"},
	{"qe", "if y%[1]d == x%[1]d { q%[1]d++ }"},
	{"ne", "if x%[1]d != y%[1]d { n%[1]d++ }"},
	{"in", "if x%[1]d in [y%[1]d] { i%[1]d++ }"},
	{"sw", "switch x%[1]d { case y%[1]d: s%[1]d++ }"},
	{"sw4", "switch x%[1]d { case 1000003, 1000033, 1000037, y%[1]d: w%[1]d++ }"},
}

var c06ConcCounters = []string{"e", "q", "n", "i", "s", "w"}

func c06ConcScript(npairs int) string {
	var sb strings.Builder
	var res []string
	for k := 0; k < npairs; k++ {
		for _, cn := range c06ConcCounters {
			fmt.Fprintf(&sb, "%s%d = 0; ", cn, k)
			res = append(res, fmt.Sprintf("%s%d", cn, k))
		}
	}
	sb.WriteString("\nfor it = 0; it < loops; it++ {\n")
	for k := 0; k < npairs; k++ {
		for _, f := range c06ConcForms {
			sb.WriteString("\t" + fmt.Sprintf(f.f, k) + "\n")
		}
	}
	sb.WriteString("}\n[" + strings.Join(res, ", ") + "]")
	return sb.String()
}

// one run of the counting script; counts[k*forms+f], or an error text
func c06ConcExec(pairs []c06ConcPair, src string, loops int64) ([]int64, string, string) {
	e := env.NewEnv()
	e.Define("loops", loops)
	for k, p := range pairs {
		e.Define("x"+strconv.Itoa(k), p.a.goVal())
		e.Define("y"+strconv.Itoa(k), p.b.goVal())
	}
	o := ank.Exec(e, src)
	switch {
	case o.Panicked:
		return nil, "panic: " + o.PanicVal, o.PanicSig
	case o.Err != nil:
		return nil, "error: " + o.Err.Error(), ""
	}
	lst, ok := o.Val.([]interface{})
	if !ok || len(lst) != len(pairs)*len(c06ConcForms) {
		return nil, "result " + ank.Render(o.Val), ""
	}
	out := make([]int64, len(lst))
	for j, v := range lst {
		n, ok := v.(int64)
		if !ok {
			return nil, "result " + ank.Render(o.Val), ""
		}
		out[j] = n
	}
	return out, "", ""
}

// c06Conc: G goroutines, each with its own environment and its own pairs, count
// the outcomes of every form over many iterations. Equality is a relation on
// VALUES: the outcome for a pair is the one observed for it sequentially (which
// the other phases judge against the reference rules), every single time,
// whatever else is being compared at that moment. No timing enters the verdict:
// only counts of outcomes.
func c06Conc(c *wk.Case, pool []c06V) {
	const npairs = 3
	G := 8
	if c.Index%3 == 2 {
		G = 4
	}
	// as many Ps as comparing goroutines: they really run at the same time where the machine
	// has the cores, and the process does not take more of a shared machine than that
	defer runtime.GOMAXPROCS(runtime.GOMAXPROCS(G))
	// the loops allocate little that lives long: fewer, larger collection cycles keep the
	// stop-the-world handshakes of 8 busy goroutines rare on an oversubscribed machine
	defer debug.SetGCPercent(debug.SetGCPercent(800))
	split := c.Index%2 == 1 // many short vm.Execute calls instead of one long one
	loops := int64(1500)
	execs := 1
	if split {
		loops, execs = 50, 30
	}
	rng := c.Rng
	// integers of the goroutines first: "other" numerals are numerals of the integers of other goroutines
	ints := make([]int64, G)
	for g := range ints {
		ints[g] = c06RandInt(rng)
		for d := 0; d < g; d++ {
			if ints[d] == ints[g] {
				ints[g]++
				d = -1
			}
		}
	}
	all := make([][]c06ConcPair, G)
	for g := 0; g < G; g++ {
		n := c06I(ints[g])
		same := c06S(c06SpellNonInt(rng, ints[g]))
		other := c06S(c06SpellNonInt(rng, ints[(g+1)%G]))
		ps := []c06ConcPair{{n, same}, {n, other}}
		if rng.Intn(2) == 0 {
			ps[0] = c06ConcPair{same, n}
		}
		if rng.Intn(2) == 0 {
			ps[1] = c06ConcPair{other, n}
		}
		// third pair: anything from the quantified domain
		var a, b c06V
		switch rng.Intn(4) {
		case 0:
			a, b = pool[rng.Intn(len(pool))], pool[rng.Intn(len(pool))]
		case 1:
			a = c06F(c06RandFloat(rng))
			b = c06S(c06Spell(rng, a))
		default:
			a = c06RandValue(rng)
			b = c06Derive(rng, a)
		}
		all[g] = append(ps, c06ConcPair{a, b})
	}
	src := c06ConcScript(npairs)
	nf := len(c06ConcForms)
	describe := func(g int) map[string]interface{} {
		m := map[string]interface{}{"goroutines": G, "loops": loops, "executes_per_goroutine": execs, "script": src, "goroutine": g}
		for k, p := range all[g] {
			m["x"+strconv.Itoa(k)] = p.a.key()
			m["y"+strconv.Itoa(k)] = p.b.key()
		}
		return m
	}
	c.Begin(map[string]interface{}{"goroutines": G, "loops": loops, "executes_per_goroutine": execs, "script": src})
	// sequential observation: one iteration, nothing else running
	seq := make([][]int64, G)
	for g := 0; g < G; g++ {
		cnt, errText, _ := c06ConcExec(all[g], src, 1)
		c.Eval(src+"\x00seq\x00"+fmt.Sprint(describe(g)), true)
		c.Events(npairs * nf)
		if cnt == nil {
			c.Violation("noresult:conc-sequential", "the counting script gave "+errText, describe(g))
			return
		}
		for _, v := range cnt {
			if v != 0 && v != 1 {
				c.Violation("noresult:conc-sequential", fmt.Sprintf("the counting script counted %d in one iteration", v), describe(g))
				return
			}
		}
		seq[g] = cnt
		// the sequential answers themselves against the reference rules (cheap; the enum/rand phases do this in depth)
		for k, p := range all[g] {
			want, rule := c06Ref(p.a, p.b)
			if want != c06Unspec && (cnt[k*nf] == 1) != (want == c06True) {
				c.Violation(fmt.Sprintf("%s:%s,%s:got=%v", rule, p.a.desc(), p.b.desc(), cnt[k*nf] == 1),
					fmt.Sprintf("rule %q: x%d == y%d = %v, the statement prescribes %v for %s vs %s", rule, k, k, cnt[k*nf] == 1, want, p.a.key(), p.b.key()), describe(g))
			}
		}
	}
	// concurrent
	type res struct {
		cnt     []int64
		errText string
		sig     string
	}
	results := make([]res, G)
	var wg sync.WaitGroup
	start := make(chan struct{})
	for g := 0; g < G; g++ {
		wg.Add(1)
		go func(g int) {
			defer wg.Done()
			total := make([]int64, npairs*nf)
			<-start
			for x := 0; x < execs; x++ {
				cnt, errText, sig := c06ConcExec(all[g], src, loops)
				if cnt == nil {
					results[g] = res{nil, errText, sig}
					return
				}
				for j := range cnt {
					total[j] += cnt[j]
				}
			}
			results[g] = res{cnt: total}
		}(g)
	}
	close(start)
	wg.Wait()
	N := loops * int64(execs)
	c.EvalN(G * execs)
	c.Events(G * npairs * nf * int(N))
	c.Tag(fmt.Sprintf("conc:goroutines=%d,split=%v", G, split))
	reported := map[string]bool{}
	for g := 0; g < G; g++ {
		rs := results[g]
		if rs.cnt == nil {
			sig := "noresult:conc"
			if rs.sig != "" {
				sig = "conc-" + rs.sig
			}
			if !reported[sig] {
				reported[sig] = true
				c.Violation(sig, "a comparison loop running next to others gave "+rs.errText+" (sequentially it completed)", describe(g))
			}
			continue
		}
		for k, p := range all[g] {
			c.Tag("conc-pair:" + p.a.kind() + "," + p.b.kind())
			for f, form := range c06ConcForms {
				got, want := rs.cnt[k*nf+f], seq[g][k*nf+f]*N
				if got == want {
					continue
				}
				class := "some-flipped"
				if got == N-want {
					class = "all-flipped"
				}
				sig := fmt.Sprintf("conc:%s:%s,%s:sequential=%v,concurrent=%s", form.name, p.a.desc(), p.b.desc(), seq[g][k*nf+f] == 1, class)
				if reported[sig] {
					c.Count("violations_suppressed_as_duplicates_within_case", 1)
					continue
				}
				reported[sig] = true
				m := describe(g)
				m["form"] = fmt.Sprintf(form.f, k)
				m["count_sequential_1_iteration"] = seq[g][k*nf+f]
				m["count_concurrent"] = got
				m["iterations"] = N
				c.Violation(sig,
					fmt.Sprintf("the outcome for one pair of values depends on what else is compared at the same time: `%s` with x=%s y=%s counted %d of %d iterations next to %d other goroutines, sequentially it counts %d of 1",
						fmt.Sprintf(form.f, k), p.a.key(), p.b.key(), got, N, G-1, seq[g][k*nf+f]), m)
			}
		}
	}
}
