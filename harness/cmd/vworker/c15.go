package main

// C15 — parsing is total, position-accurate and compositional.
//
// Monitor (all oracles come from the property statement):
//   (1) ParseSrc never panics                       (ank.Parse observes panics)
//   (2) ParseSrc terminates                         (in-process CPU-time/allocation budget per input, see c15Monitor)
//   (3) result is (tree, nil) or (_, err) with the dynamic type of err exactly *parser.Error
//   (4) 1 <= err.Pos.Line <= lines(input), 1 <= err.Pos.Column <= len(line)+1
//       (lines = count of '\n' + 1, so the empty line after a trailing newline counts;
//        line length in bytes, which is never smaller than its length in runes: the most permissive unit)
//   (5) no memory between calls: two parses of one text (with other parses in between) agree
//   (6) the same under concurrent calls (phase "race", -race build)
//   (7) if A and B parse alone, A+"\n"+B parses to stmts(A) ++ stmts(B) with B's nodes shifted
//       by the line count of A (number of '\n' in A, plus 1 for the joining newline)
//
// Not judged (the statement is silent): what the tree returned next to a non-nil error looks like,
// the error's Message/Fatal/Filename fields as such, which of several errors is reported, and where
// inside the permitted range a position lies.

import (
	"fmt"
	"os"
	"path/filepath"
	"reflect"
	"runtime"
	"strconv"
	"strings"
	"sync"
	"sync/atomic"
	"syscall"
	"time"
	"unicode/utf8"

	"github.com/mattn/anko/ast"
	"github.com/mattn/anko/parser"

	"verifharness/internal/ank"
	"verifharness/internal/astx"
	"verifharness/internal/corpus"
	"verifharness/internal/fw"
	"verifharness/internal/wk"
)

// ---------------------------------------------------------------------------
// termination monitor
//
// A goroutine of the worker samples the CPU time of the process (getrusage) and
// the bytes allocated while a parse is in flight. The decision is taken on consumed
// CPU seconds / allocated bytes, never on elapsed time (the sleep only paces the
// sampling). When one input has consumed more than the budget the worker dies
// with a "fatal error:" line; the orchestrator attributes the death to the
// in-flight input written by c.Begin and (Plan.CrashIsViolation) reports it as
// a violation of C15. A parse that merely sits there without consuming CPU is
// left to the orchestrator's wall-clock watchdog, which is inconclusive.

const (
	c15CPUBudget     = 20 * time.Second  // one input <= 256 KB; normal cost is < 50 ms
	c15CPUBudgetTiny = 5 * time.Second   // one input <= 4 KB; normal cost is < 1 ms
	c15CPUBudgetRace = 600 * time.Second // one batch of 8 goroutines under the race detector
	c15AllocBudget   = 1 << 30           // bytes allocated (cumulative) while one input is parsed; worst legitimate case (20000-deep nest) ~140 MB
)

var (
	c15Seq        atomic.Int64 // odd while a parse (or a race batch) is in flight
	c15Budget     atomic.Int64 // CPU budget of the section in flight, ns
	c15AllocBytes atomic.Int64 // allocation budget of the section in flight, bytes
	c15MonOnce    sync.Once
)

func c15ProcCPU() time.Duration {
	var ru syscall.Rusage
	if err := syscall.Getrusage(syscall.RUSAGE_SELF, &ru); err != nil {
		return 0
	}
	return time.Duration(ru.Utime.Nano() + ru.Stime.Nano())
}

func c15Die(msg string) {
	buf := make([]byte, 1<<20)
	buf = buf[:runtime.Stack(buf, true)]
	// keep the orchestrator's crash signature independent of where the loop was sampled:
	// the stacks are evidence (stderr of the replay file), not part of the signature
	st := strings.ReplaceAll(string(buf), "github.com/mattn/anko/", "anko:")
	fmt.Fprintf(os.Stderr, "fatal error: %s\n\n%s\n", msg, st)
	if d := os.Getenv("VERIF_TMP"); d != "" {
		os.WriteFile(filepath.Join(d, "c15-nonterm-"+strconv.Itoa(os.Getpid())), nil, 0o644)
	}
	os.Exit(2)
}

// c15MaxNontermDeaths bounds the cost of a tree on which ParseSrc diverges for a whole class of
// inputs (every such input costs a worker process and its CPU budget): once this many workers of the
// run have died that way — each death is a reported violation with its input — the remaining cases
// are reported as inconclusive instead of being executed.
const c15MaxNontermDeaths = 12

func c15TooManyDeaths() bool {
	d := os.Getenv("VERIF_TMP")
	if d == "" {
		return false
	}
	m, _ := filepath.Glob(filepath.Join(d, "c15-nonterm-*"))
	return len(m) >= c15MaxNontermDeaths
}

func c15Monitor() {
	var last int64 = -1
	var cpu0 time.Duration
	var alloc0 uint64
	var ms runtime.MemStats
	for {
		time.Sleep(25 * time.Millisecond)
		seq := c15Seq.Load()
		if seq&1 == 0 {
			last = -1
			continue
		}
		cpu := c15ProcCPU()
		runtime.ReadMemStats(&ms)
		if seq != last {
			last, cpu0, alloc0 = seq, cpu, ms.TotalAlloc
			continue
		}
		if used := cpu - cpu0; used > time.Duration(c15Budget.Load()) {
			c15Die(fmt.Sprintf("ParseSrc did not return: one input consumed more than %d CPU-seconds", int(time.Duration(c15Budget.Load())/time.Second)))
		}
		if ms.TotalAlloc-alloc0 > uint64(c15AllocBytes.Load()) {
			c15Die("ParseSrc did not return: runaway allocation (more than 1 GiB allocated while parsing one input)")
		}
	}
}

func c15Enter(budget time.Duration) {
	c15Budget.Store(int64(budget))
	if budget == c15CPUBudgetRace {
		c15AllocBytes.Store(16 * c15AllocBudget) // a whole batch of 192 concurrent parses
	} else {
		c15AllocBytes.Store(c15AllocBudget)
	}
	c15Seq.Add(1)
}

func c15Leave() { c15Seq.Add(1) }

// ---------------------------------------------------------------------------
// one observed parse

type c15Res struct {
	ok       bool
	tree     ast.Stmt
	dump     string // when ok: structural dump with positions
	err      error
	pe       *parser.Error
	errType  string
	panicked bool
	panicSig string
	panicVal string
}

// key is what must be identical between two parses of the same text.
func (r *c15Res) key() string {
	switch {
	case r.panicked:
		return "panic:" + r.panicSig
	case r.ok:
		return "ok:" + r.dump
	case r.pe != nil:
		return "err:" + r.pe.Message + "@" + strconv.Itoa(r.pe.Pos.Line) + ":" + strconv.Itoa(r.pe.Pos.Column)
	}
	return "err-type:" + r.errType
}

func c15Parse(src string, budget time.Duration, guard bool) *c15Res {
	if guard {
		if budget == c15CPUBudget && len(src) <= 4096 {
			budget = c15CPUBudgetTiny
		}
		c15Enter(budget)
	}
	st, err, o := ank.Parse(src)
	if guard {
		c15Leave()
	}
	r := &c15Res{tree: st, err: err}
	if o.Panicked {
		r.panicked, r.panicSig, r.panicVal = true, o.PanicSig, o.PanicVal
		return r
	}
	if err == nil {
		r.ok = true
		r.dump = astx.Dump(st, astx.Opts{Pos: true})
		return r
	}
	r.errType = reflect.TypeOf(err).String()
	if pe, ok := err.(*parser.Error); ok && pe != nil {
		r.pe = pe
	}
	return r
}

func c15Clip(s string) string {
	if len(s) <= 1600 {
		return strconv.Quote(s)
	}
	return strconv.Quote(s[:800]) + " …(" + strconv.Itoa(len(s)) + " bytes)… " + strconv.Quote(s[len(s)-800:])
}

func c15Input(gen, src string) map[string]interface{} {
	return map[string]interface{}{"gen": gen, "len": len(src), "src": c15Clip(src)}
}

// c15MsgClass abstracts an error message to a stable class for signatures.
func c15MsgClass(msg string) string {
	if i := strings.IndexAny(msg, ":'"); i >= 0 {
		msg = msg[:i]
	}
	msg = strings.TrimSpace(msg)
	if strings.HasPrefix(msg, "unexpected ") && msg != "unexpected EOF" && msg != "unexpected EOL" {
		msg = "unexpected <char>"
	}
	if len(msg) > 50 {
		msg = msg[:50]
	}
	return msg
}

// c15Judge applies oracles (1),(3),(4) to one result. Returns false when a violation was reported.
func c15Judge(c *wk.Case, gen, src string, r *c15Res) bool {
	if r.panicked {
		c.Violation(r.panicSig, "ParseSrc panicked: "+r.panicVal, c15Input(gen, src))
		return false
	}
	if r.ok {
		return true
	}
	if r.pe == nil {
		c.Violation("errtype:"+r.errType, fmt.Sprintf("ParseSrc returned a non-nil error of dynamic type %s (want *parser.Error): %v", r.errType, ank.ErrText(r.err)), c15Input(gen, src))
		return false
	}
	pe := r.pe
	kind := "syntax"
	if pe.Fatal {
		kind = "lexer"
	}
	cls := kind + ":" + c15MsgClass(pe.Message)
	nl := strings.Count(src, "\n") + 1
	if pe.Pos.Line < 1 || pe.Pos.Line > nl {
		rel := "line>lines"
		if pe.Pos.Line < 1 {
			rel = "line<1"
		}
		c.Violation("pos:"+rel+":"+cls, fmt.Sprintf("error %q at %d:%d but the input has %d line(s)", pe.Message, pe.Pos.Line, pe.Pos.Column, nl), c15Input(gen, src))
		return false
	}
	// the text of that line
	start := 0
	for i := 1; i < pe.Pos.Line; i++ {
		start += strings.IndexByte(src[start:], '\n') + 1
	}
	end := strings.IndexByte(src[start:], '\n')
	if end < 0 {
		end = len(src)
	} else {
		end += start
	}
	line := src[start:end]
	maxCol := len(line) + 1
	if n := utf8.RuneCountInString(line) + 1; n > maxCol {
		maxCol = n
	}
	if pe.Pos.Column < 1 || pe.Pos.Column > maxCol {
		rel := "column>len+1"
		if pe.Pos.Column < 1 {
			rel = "column<1"
		}
		c.Violation("pos:"+rel+":"+cls, fmt.Sprintf("error %q at %d:%d but line %d is %d bytes (%d runes) long", pe.Message, pe.Pos.Line, pe.Pos.Column, pe.Pos.Line, len(line), utf8.RuneCountInString(line)), c15Input(gen, src))
		return false
	}
	return true
}

func c15BeginInput(gen, src string) interface{} {
	if len(src) > 4096 {
		return c15Input(gen, src)
	}
	return map[string]string{"gen": gen, "src": strconv.Quote(src)}
}

// c15Check parses src twice (the second parse starts from whatever the first one — and, before
// it, the previous input — left behind) and applies oracles (1)-(5). It returns the first result.
func c15Check(c *wk.Case, gen, src string) *c15Res {
	c.Begin(c15BeginInput(gen, src))
	r1 := c15Parse(src, c15CPUBudget, true)
	// a parse of the opposite outcome in between: anything the parser kept from it (an error, a
	// statement list, scanner state) would show in the second parse of src
	if r1.ok {
		c15Parse(c15DisturbErr, c15CPUBudget, true)
	} else {
		c15Parse(c15DisturbOK, c15CPUBudget, true)
	}
	r2 := c15Parse(src, c15CPUBudget, true)
	c.Events(3)
	c.Eval(src, strings.TrimSpace(src) != "")
	c.Tag("gen:" + gen)
	switch {
	case r1.panicked:
		c.Tag("outcome:panic")
	case r1.ok:
		if r1.tree == nil {
			c.Tag("outcome:ok-empty-program")
		} else {
			c.Tag("outcome:ok")
		}
	case r1.pe != nil && r1.pe.Fatal:
		c.Tag("outcome:error-lexer", "err:"+c15MsgClass(r1.pe.Message))
	case r1.pe != nil:
		c.Tag("outcome:error-syntax", "err:"+c15MsgClass(r1.pe.Message))
	default:
		c.Tag("outcome:error-foreign-type")
	}
	if c.WantSample() && len(src) < 300 && len(src) > 8 {
		s := map[string]interface{}{"gen": gen, "src": src}
		if r1.ok {
			s["observed"] = "tree, nil"
			s["stmts"] = len(astx.StmtList(r1.tree))
		} else if r1.pe != nil {
			s["observed"] = fmt.Sprintf("*parser.Error %q at %d:%d (input has %d lines)", r1.pe.Message, r1.pe.Pos.Line, r1.pe.Pos.Column, strings.Count(src, "\n")+1)
		}
		c.Sample(s)
	}
	if !c15Judge(c, gen, src, r1) {
		return r1
	}
	if k1, k2 := r1.key(), r2.key(); k1 != k2 {
		c.Violation("nondet:sequential:"+c15DiffClass(r1, r2), "two sequential parses of the same text differ: "+c15ClipS(k1, 300)+"  vs  "+c15ClipS(k2, 300), c15Input(gen, src))
	}
	return r1
}

const (
	c15DisturbErr = "zz = 1\nyy = [2,\n\"open" // one complete statement, then an unterminated string on line 3
	c15DisturbOK  = "pp = 1; qq = func(a) {\n return a\n}\n"
)

// c15Recheck parses src again after the case's other inputs and compares with the earlier result r0:
// the same text must give the same result whatever was parsed in between.
func c15Recheck(c *wk.Case, gen, src string, r0 *c15Res) {
	c.Begin(c15BeginInput(gen, src))
	r := c15Parse(src, c15CPUBudget, true)
	c.Events(1)
	c.Count("reparsed_after_history", 1)
	if k0, k := r0.key(), r.key(); k0 != k && !r0.panicked {
		c.Violation("nondet:after-other-inputs:"+c15DiffClass(r0, r), "the same text parsed again after other inputs gives another result: "+c15ClipS(k0, 300)+"  vs  "+c15ClipS(k, 300), c15Input(gen, src))
	}
}

func c15ClipS(s string, n int) string {
	if len(s) > n {
		return s[:n] + "…"
	}
	return s
}

func c15DiffClass(a, b *c15Res) string {
	switch {
	case a.panicked != b.panicked:
		return "panic-vs-return"
	case a.ok != b.ok:
		return "tree-vs-error"
	case a.ok:
		return "tree"
	}
	return "error"
}

// ---------------------------------------------------------------------------
// compositionality (7)

func c15Compose(c *wk.Case, gen, a, b string, ra, rb *c15Res) {
	c15ComposeCls(c, gen, "", a, b, ra, rb)
}

// c15ComposeCls is c15Compose for generators that know which class of text they feed in: cls (when not
// empty) is appended to the signature of a violation, so that one defect of the parser shows under one
// signature whatever the individual characters of the text were, and defects about different classes of
// text under different ones. The oracle is the same. It returns the result of parsing A+"\n"+B and
// whether the law held (false: a violation was reported).
func c15ComposeCls(c *wk.Case, gen, cls, a, b string, ra, rb *c15Res) (*c15Res, bool) {
	if cls != "" {
		cls = ":" + cls
	}
	ab := a + "\n" + b
	c.Begin(c15BeginInput(gen, ab))
	rab := c15Parse(ab, c15CPUBudget, true)
	c.Events(1)
	return rab, c15ComposeJudge(c, gen, cls, a, b, ra, rb, rab)
}

// c15ComposeJudge is the oracle of c15ComposeCls applied to a result of parsing A+"\n"+B obtained by the
// caller (cls already carries its leading colon or is empty); used by the round-8 phases (c15_r8.go), whose
// goroutines parse and whose case goroutine judges.
func c15ComposeJudge(c *wk.Case, gen, cls, a, b string, ra, rb, rab *c15Res) bool {
	ab := a + "\n" + b
	sa, sb := astx.StmtList(ra.tree), astx.StmtList(rb.tree)
	c.Eval(a+"\x00"+b, len(sa) > 0 && len(sb) > 0)
	c.Tag("gen:" + gen)
	in := map[string]interface{}{"gen": gen, "A": c15Clip(a), "B": c15Clip(b)}
	if !c15Judge(c, gen, ab, rab) {
		return false
	}
	if !rab.ok {
		c.Violation("compose:concat-fails:"+c15MsgClass(rab.pe.Message)+cls, fmt.Sprintf("A and B parse alone but A+\"\\n\"+B fails: %q at %d:%d", rab.pe.Message, rab.pe.Pos.Line, rab.pe.Pos.Column), in)
		return false
	}
	sab := astx.StmtList(rab.tree)
	if len(sab) != len(sa)+len(sb) {
		c.Violation("compose:statement-count"+cls, fmt.Sprintf("stmts(A)=%d stmts(B)=%d but stmts(A+\"\\n\"+B)=%d", len(sa), len(sb), len(sab)), in)
		return false
	}
	shift := strings.Count(a, "\n") + 1
	for i, s := range sab {
		part, alone, sh := "first", ast.Stmt(nil), 0
		if i < len(sa) {
			alone = sa[i]
		} else {
			part, alone, sh = "second", sb[i-len(sa)], shift
		}
		if got, want := astx.Dump(s, astx.Opts{}), astx.Dump(alone, astx.Opts{}); got != want {
			c.Violation("compose:"+part+"-part-structure:"+c15TypeName(s)+cls,
				fmt.Sprintf("statement %d of A+\"\\n\"+B: got %s want %s", i, c15ClipS(got, 400), c15ClipS(want, 400)), in)
			return false
		} else if strings.Contains(got, "…(") && c15LongLits(s) != c15LongLits(alone) {
			// the dump shows the first 200 bytes and the length of a literal: compare the longer ones in full (c15_r8.go)
			c.Violation("compose:"+part+"-part-structure:"+c15TypeName(s)+cls,
				fmt.Sprintf("statement %d of A+\"\\n\"+B: a string literal of more than 200 bytes differs behind its first 200 bytes; got %s", i, c15ClipS(got, 400)), in)
			return false
		}
		if typ, msg := c15PosDiff(s, alone, sh); msg != "" {
			c.Violation("compose:"+part+"-part-position:"+typ+cls,
				fmt.Sprintf("statement %d of A+\"\\n\"+B (B's lines shifted by %d): %s; got %s", i, shift, msg, c15ClipS(astx.Dump(s, astx.Opts{Pos: true}), 400)), in)
			return false
		}
		c.Tag("composed-stmt:" + strings.TrimPrefix(c15TypeName(s), "*ast."))
	}
	if c.WantSample() && len(ab) < 200 && len(sa) > 0 && len(sb) > 0 {
		c.Sample(map[string]interface{}{"gen": gen, "A": a, "B": b, "observed": fmt.Sprintf("%d+%d statements, B shifted by %d lines: equal dumps", len(sa), len(sb), shift)})
	}
	return true
}

// c15PosDiff compares the positions of all nodes of two structurally equal statements: every node of
// `joined` must sit where the node of `alone` sits, `shift` lines further down. A node that carries no
// position when parsed alone (zero Position: statement lists, the shared literal 1 of x++, ...) is not a
// place in the text; for it both "still no position" and the literally shifted value are accepted.
func c15PosDiff(joined, alone ast.Stmt, shift int) (string, string) {
	nj, na := astx.Nodes(joined), astx.Nodes(alone)
	if len(nj) != len(na) {
		return "node-count", fmt.Sprintf("%d nodes vs %d nodes", len(nj), len(na))
	}
	for i := range nj {
		pj, ok1 := nj[i].Node.(ast.Pos)
		pa, ok2 := na[i].Node.(ast.Pos)
		if !ok1 || !ok2 {
			continue
		}
		j, a := pj.Position(), pa.Position()
		if a.Line == 0 && a.Column == 0 && j.Line == 0 && j.Column == 0 {
			continue
		}
		if j.Line != a.Line+shift || j.Column != a.Column {
			return nj[i].Type, fmt.Sprintf("node %d (%s, slot %s) is at %d:%d, alone it is at %d:%d", i, nj[i].Type, nj[i].Slot, j.Line, j.Column, a.Line, a.Column)
		}
	}
	return "", ""
}

// ---------------------------------------------------------------------------
// generators

var c15Keywords = []string{"func", "return", "var", "throw", "if", "for", "break", "continue", "in", "else", "new", "true", "false", "nil",
	"module", "try", "catch", "finally", "switch", "case", "default", "go", "defer", "chan", "struct", "make", "type", "len", "delete", "close", "map", "import"}

var c15Ops = []string{"!=", "!", "==", "= <-", "=<-", "=\t<-", "=\n<-", "=\r\n<-", "= \n\t<-", "=\n\n<-", "=", "??", "?", "++", "+=", "+", "--", "-=", "-", "*=", "*", "/=", "/", ">=", ">>", ">", "<-", "<=", "<<", "<",
	"||", "|=", "|", "&&", "&=", "&", "...", ".", "(", ")", ":", ";", "%", "{", "}", "[", "]", ",", "^"}

var c15Atoms = []string{"a", "b", "x1", "_", "é", "日本", "foo.bar", "1", "0", "07", "0x1f", "0b101", "1.5", "1e3", "1e+3", "2.", "9223372036854775808",
	`"s"`, `'c'`, "`r`", `"a\"b"`, `"\n"`, "`r\nw`", `""`}

var c15Junk = []string{`"`, "'", "`", "#", "//", "/*", "*/", "..", "$", "@", "\\", "~", "\x00", "\xff", "\xc3", "€", "\u00a0", "\u2028", "\ufeff", "1e", "0x", "0b", "1a", "1e1e1", "/* c */", "# c\n", "// c\n", "\r", "\r\n"}

var c15Seps = []string{"", " ", " ", " ", "\n", "\t", ";", "\r\n"}

func c15Pick(c *wk.Case, l []string) string { return l[c.Rng.Intn(len(l))] }

func c15TokenSoup(c *wk.Case) string {
	var b strings.Builder
	n := 1 + c.Rng.Intn(30)
	if c.Rng.Intn(20) == 0 {
		n = 100 + c.Rng.Intn(400)
	}
	for i := 0; i < n; i++ {
		switch r := c.Rng.Intn(20); {
		case r < 5:
			b.WriteString(c15Pick(c, c15Keywords))
		case r < 11:
			b.WriteString(c15Pick(c, c15Ops))
		case r < 17:
			b.WriteString(c15Pick(c, c15Atoms))
		default:
			b.WriteString(c15Pick(c, c15Junk))
		}
		b.WriteString(c15Pick(c, c15Seps))
	}
	return b.String()
}

const c15ByteAlphabet = "ab_z09 \t\n\r\"'`#/*\\.=<>-+!?&|%^:;,()[]{}$@~\x00\x7f\x80\xbf\xc3\xa9\xe2\x82\xac\xf0\xff"

func c15ByteSoup(c *wk.Case) string {
	n := c.Rng.Intn(40)
	if c.Rng.Intn(10) == 0 {
		n = c.Rng.Intn(2000)
	}
	b := make([]byte, n)
	full := c.Rng.Intn(4) == 0
	for i := range b {
		if full {
			b[i] = byte(c.Rng.Intn(256))
		} else {
			b[i] = c15ByteAlphabet[c.Rng.Intn(len(c15ByteAlphabet))]
		}
	}
	return string(b)
}

// c15Split cuts a text into mutation units: identifiers/numbers, quoted strings, runs of blanks, single other bytes.
func c15Split(s string) []string {
	var out []string
	isW := func(ch byte) bool {
		return ch == '_' || ch >= 0x80 || (ch >= '0' && ch <= '9') || (ch >= 'a' && ch <= 'z') || (ch >= 'A' && ch <= 'Z')
	}
	for i := 0; i < len(s); {
		j := i + 1
		switch ch := s[i]; {
		case isW(ch):
			for j < len(s) && isW(s[j]) {
				j++
			}
		case ch == ' ' || ch == '\t':
			for j < len(s) && (s[j] == ' ' || s[j] == '\t') {
				j++
			}
		case ch == '"' || ch == '\'' || ch == '`':
			for j < len(s) && s[j] != ch && (ch == '`' || s[j] != '\n') {
				if s[j] == '\\' && ch != '`' && j+1 < len(s) {
					j++
				}
				j++
			}
			if j < len(s) && s[j] == ch {
				j++
			}
		}
		out = append(out, s[i:j])
		i = j
	}
	return out
}

var c15Brackets = []string{"(", ")", "[", "]", "{", "}"}

// c15Mutate applies 1-3 mutations to a corpus script; the name of the first is returned for coverage.
func c15Mutate(c *wk.Case, scripts []string) (string, string) {
	s := scripts[c.Rng.Intn(len(scripts))]
	name := ""
	for k := 1 + c.Rng.Intn(3); k > 0; k-- {
		toks := c15Split(s)
		if len(toks) == 0 {
			toks = []string{""}
		}
		i := c.Rng.Intn(len(toks))
		var m string
		switch c.Rng.Intn(12) {
		case 11:
			// every run of blanks may become any other white space (incl. none and line breaks): tokens
			// the scanner joins over blanks ('=' ... '<-') and the line bookkeeping across them
			m = "blank-variation"
			for j, t := range toks {
				if t != "" && strings.Trim(t, " \t") == "" && c.Rng.Intn(3) == 0 {
					toks[j] = c15Pick(c, c15BlankVariants)
				}
			}
		case 0:
			m = "delete"
			toks = append(toks[:i:i], toks[i+1:]...)
		case 1:
			m = "duplicate"
			toks = append(toks[:i+1:i+1], toks[i:]...)
		case 2:
			m = "swap"
			j := c.Rng.Intn(len(toks))
			toks[i], toks[j] = toks[j], toks[i]
		case 3:
			m = "replace"
			switch c.Rng.Intn(4) {
			case 0:
				toks[i] = c15Pick(c, c15Keywords)
			case 1:
				toks[i] = c15Pick(c, c15Ops)
			case 2:
				toks[i] = c15Pick(c, c15Atoms)
			default:
				toks[i] = c15Pick(c, c15Junk)
			}
		case 4:
			m = "truncate"
			s = strings.Join(toks, "")
			if len(s) > 0 {
				s = s[:c.Rng.Intn(len(s))]
			}
			toks = []string{s}
		case 5:
			m = "bracket-insert"
			toks = append(toks[:i:i], append([]string{c15Pick(c, c15Brackets)}, toks[i:]...)...)
		case 6:
			m = "bracket-remove"
			var idx []int
			for j, t := range toks {
				if len(t) == 1 && strings.Contains("()[]{}", t) {
					idx = append(idx, j)
				}
			}
			if len(idx) > 0 {
				j := idx[c.Rng.Intn(len(idx))]
				toks = append(toks[:j:j], toks[j+1:]...)
			}
		case 7:
			m = "splice"
			o := c15Split(scripts[c.Rng.Intn(len(scripts))])
			if len(o) > 0 {
				toks = append(toks[:i:i], o[c.Rng.Intn(len(o)):]...)
			}
		case 8:
			m = "insert-byte"
			toks = append(toks[:i:i], append([]string{string([]byte{byte(c.Rng.Intn(256))})}, toks[i:]...)...)
		case 9:
			m = "newline-variation"
			for j, t := range toks {
				if t == "\n" && c.Rng.Intn(2) == 0 {
					toks[j] = []string{"\r\n", "\n\n", ";", ";\n", "\n\r", " \n\t"}[c.Rng.Intn(6)]
				}
			}
		default:
			m = "insert-junk"
			toks = append(toks[:i:i], append([]string{c15Pick(c, c15Junk)}, toks[i:]...)...)
		}
		if name == "" {
			name = m
		}
		s = strings.Join(toks, "")
	}
	return s, "mut-" + name
}

// ---- grammar-directed generator of (mostly) valid programs, operands chosen ignoring types ----

type c15Gen struct {
	c *wk.Case
	b strings.Builder
}

func (g *c15Gen) n(k int) int   { return g.c.Rng.Intn(k) }
func (g *c15Gen) w(s ...string) { g.b.WriteString(strings.Join(s, "")) }
func (g *c15Gen) ident() string {
	return []string{"a", "b", "c", "x", "y", "foo", "_t", "é", "v1"}[g.n(9)]
}
func (g *c15Gen) nl(ind int) {
	switch g.n(8) {
	case 0:
		g.w(";")
	case 1:
		g.w("; ")
	case 2:
		g.w("\n\n")
	case 3:
		g.w(" # c\n")
	case 4:
		g.w(" // c\n")
	case 5:
		g.w("\r\n")
	default:
		g.w("\n")
	}
	g.w(strings.Repeat("\t", ind)[:g.n(ind+1)])
}
func (g *c15Gen) onl() { // optional newline where the grammar has opt_newlines
	if g.n(4) == 0 {
		g.w("\n  ")
	}
}

func (g *c15Gen) block(d, ind int) {
	g.w("{")
	k := g.n(3)
	if d <= 0 {
		k = g.n(2)
	}
	if k == 0 && g.n(2) == 0 {
		g.w([]string{"", "", " ", ";", " ; ", ";;", "\n;\n", "\n\n", " # c\n"}[g.n(9)], "}")
		return
	}
	for i := 0; i < k; i++ {
		g.w("\n", strings.Repeat("\t", ind+1))
		g.stmt(d-1, ind+1)
	}
	g.w("\n", strings.Repeat("\t", ind), "}")
}

func (g *c15Gen) exprs(d, lo int) {
	k := lo + g.n(3)
	for i := 0; i < k; i++ {
		if i > 0 {
			g.w(", ")
			g.onl()
		}
		g.expr(d - 1)
	}
}

func (g *c15Gen) typ(d int) {
	switch r := g.n(12); {
	case d <= 0 || r < 5:
		g.w([]string{"int64", "string", "float64", "bool", "interface", "T"}[g.n(6)])
	case r == 5:
		g.w("a.b")
	case r == 6:
		g.w("*")
		g.typ(d - 1)
	case r == 7:
		g.w("[]")
		g.typ(d - 1)
	case r == 8:
		g.w("[][]")
		g.typ(d - 1)
	case r == 9:
		g.w("map[")
		g.typ(d - 1)
		g.w("]")
		g.typ(d - 1)
	case r == 10:
		g.w("chan ")
		g.typ(d - 1)
	default:
		g.w("struct {")
		g.onl()
		g.w("A ")
		g.typ(d - 1)
		if g.n(2) == 0 {
			g.w(", ")
			g.onl()
			g.w("B ")
			g.typ(d - 1)
		}
		g.onl()
		g.w("}")
	}
}

var c15BinOps = []string{"+", "-", "*", "/", "%", "&", "|", "^", "<<", ">>", "==", "!=", "<", "<=", ">", ">=", "&&", "||", "??", "in", "<-"}

func (g *c15Gen) expr(d int) {
	if d <= 0 {
		switch g.n(10) {
		case 0, 1, 2:
			g.w(g.ident())
		case 3:
			g.w(strconv.Itoa(g.n(1000)))
		case 4:
			g.w([]string{"1.5", "1e3", "0x1F", "0b11", "-1", "-2.5", "1e-2"}[g.n(7)])
		case 5:
			g.w([]string{`"s"`, `'q'`, "`raw`", "`r\nw`", `"a\tb\"c"`, `""`, `"é日"`}[g.n(7)])
		case 6:
			g.w([]string{"true", "false", "nil"}[g.n(3)])
		case 7:
			g.w("[]")
		case 8:
			g.w("{}")
		default:
			g.w(g.ident(), ".", g.ident())
		}
		return
	}
	switch g.n(34) {
	case 0, 1, 2, 3:
		g.expr(d - 1)
		g.w(" ", c15BinOps[g.n(len(c15BinOps))], " ")
		g.expr(d - 1)
	case 4:
		g.w([]string{"-", "!", "^", "&", "*", "<- "}[g.n(6)])
		if g.n(2) == 0 {
			g.w(g.ident())
		} else {
			g.w("(")
			g.expr(d - 1)
			g.w(")")
		}
	case 5:
		g.w("(")
		g.expr(d - 1)
		g.w(")")
	case 6:
		g.expr(d - 1)
		g.w(" ? ")
		g.expr(d - 1)
		g.w(" : ")
		g.expr(d - 1)
	case 7, 8:
		g.w("func")
		if g.n(2) == 0 {
			g.w(" ", g.ident())
		}
		g.w("(")
		k := g.n(3)
		for i := 0; i < k; i++ {
			if i > 0 {
				g.w(", ")
			}
			g.w(g.ident())
		}
		if k > 0 && g.n(4) == 0 {
			g.w("...")
		}
		g.w(") ")
		g.block(d-1, 0)
	case 9:
		g.w("[")
		g.onl()
		g.exprs(d, 1)
		if g.n(3) == 0 {
			g.w(",")
		}
		g.onl()
		g.w("]")
	case 10:
		g.w("[]")
		g.typ(1)
		g.w("{")
		g.onl()
		g.exprs(d, 1)
		g.onl()
		g.w("}")
	case 11, 12:
		g.w(g.ident(), "(")
		g.exprs(d, 0)
		g.w(")")
	case 13:
		g.w(g.ident(), "(")
		g.exprs(d, 1)
		g.w("...)")
	case 14:
		g.w("(")
		g.expr(d - 1)
		g.w(")(")
		g.exprs(d, 0)
		g.w(")")
	case 15:
		g.w(g.ident(), "[")
		g.expr(d - 1)
		g.w("]")
	case 16:
		g.w(g.ident(), ".", g.ident(), "[")
		g.expr(d - 1)
		g.w("]")
	case 17:
		g.w([]string{"len", "import"}[g.n(2)], "(")
		g.expr(d - 1)
		g.w(")")
	case 18:
		g.w([]string{"new", "make"}[g.n(2)], "(")
		g.typ(2)
		g.w(")")
	case 19:
		g.w("make(")
		g.typ(2)
		g.w(", ")
		g.expr(d - 1)
		if g.n(2) == 0 {
			g.w(", ")
			g.expr(d - 1)
		}
		g.w(")")
	case 20:
		g.w("make(type ", g.ident(), ", ")
		g.expr(d - 1)
		g.w(")")
	case 21, 22:
		g.w([]string{"{", "map{", "map[string]interface{"}[g.n(3)])
		g.onl()
		k := g.n(3)
		for i := 0; i < k; i++ {
			if i > 0 {
				g.w(", ")
				g.onl()
			}
			g.expr(d - 1)
			g.w(": ")
			g.expr(d - 1)
		}
		if k > 0 && g.n(3) == 0 {
			g.w(",")
		}
		g.onl()
		g.w("}")
	case 23, 24:
		if g.n(2) == 0 {
			g.w(g.ident())
		} else {
			g.w(g.ident(), ".", g.ident())
		}
		g.w("[")
		switch g.n(5) {
		case 0:
			g.expr(d - 1)
			g.w(":")
			g.expr(d - 1)
		case 1:
			g.expr(d - 1)
			g.w(":")
		case 2:
			g.w(":")
			g.expr(d - 1)
		case 3:
			g.w(":")
			g.expr(d - 1)
			g.w(":")
			g.expr(d - 1)
		default:
			g.expr(d - 1)
			g.w(":")
			g.expr(d - 1)
			g.w(":")
			g.expr(d - 1)
		}
		g.w("]")
	case 25:
		g.expr(d - 1)
		g.w(".", g.ident())
	case 26:
		g.w(g.ident(), []string{"++", "--"}[g.n(2)])
	case 27:
		g.w(g.ident(), " ", []string{"+=", "-=", "*=", "/=", "&=", "|="}[g.n(6)], " ")
		g.expr(d - 1)
	default:
		g.expr(0)
	}
}

func (g *c15Gen) stmt(d, ind int) {
	switch g.n(30) {
	case 0, 1, 2:
		g.w(g.ident(), " = ")
		g.expr(d)
	case 3:
		g.w(g.ident(), ", ", g.ident(), " = ")
		g.exprs(d, 2)
	case 4:
		g.w("var ", g.ident())
		if g.n(2) == 0 {
			g.w(", ", g.ident())
		}
		g.w(" = ")
		g.exprs(d, 1)
	case 5:
		g.w(g.ident(), []string{".x", "[0]", "[\"k\"]", ".x.y"}[g.n(4)], " = ")
		g.expr(d)
	case 6:
		// receive assignment: every target form, every kind of white space between '=' and '<-'
		// (whether a line break is allowed there is the parser's business: a text that does not
		// parse alone is judged as an error text and is not used for a pair)
		g.w([]string{g.ident(), g.ident() + ", " + g.ident(), g.ident() + ".x", g.ident() + "[0]"}[g.n(4)])
		g.w([]string{" ", " ", "", "\t"}[g.n(4)], "=", g.recvGap(), "<-", []string{" ", " ", "", "  "}[g.n(4)], g.ident())
	case 7:
		g.w([]string{"break", "continue", "return"}[g.n(3)])
	case 8:
		g.w("return ")
		g.exprs(d, 1)
	case 9:
		g.w("throw ")
		g.expr(d)
	case 10:
		g.w("module ", g.ident(), " ")
		g.block(d, ind)
	case 11, 12:
		g.w("try ")
		g.block(d, ind)
		g.w(" catch ")
		if g.n(2) == 0 {
			g.w(g.ident(), " ")
		}
		g.block(d, ind)
		if g.n(2) == 0 {
			g.w(" finally ")
			g.block(d, ind)
		}
	case 13:
		g.w([]string{"go ", "defer "}[g.n(2)])
		if g.n(2) == 0 {
			g.w(g.ident())
		} else {
			g.w("func() ")
			g.block(d-1, ind)
		}
		g.w("(")
		g.exprs(d, 0)
		g.w(")")
	case 14:
		g.w("delete(")
		g.expr(d - 1)
		if g.n(2) == 0 {
			g.w(", ")
			g.expr(d - 1)
		}
		g.w(")")
	case 15:
		g.w("close(", g.ident(), ")")
	case 16, 17, 18:
		g.w("if ")
		g.expr(d - 1)
		g.w(" ")
		g.block(d, ind)
		for k := g.n(3); k > 0; k-- {
			g.w(" else if ")
			g.expr(d - 1)
			g.w(" ")
			g.block(d, ind)
		}
		if g.n(2) == 0 {
			g.w(" else ")
			g.block(d, ind)
		}
	case 19, 20, 21:
		g.w("for ")
		switch g.n(6) {
		case 0:
		case 1:
			g.w(g.ident(), " in ")
			g.expr(d - 1)
			g.w(" ")
		case 2:
			g.w(g.ident(), ", ", g.ident(), " in ")
			g.expr(d - 1)
			g.w(" ")
		case 3:
			g.expr(d - 1)
			g.w(" ")
		case 4:
			g.w(g.ident(), " = 0; ", g.ident(), " < 3; ", g.ident(), "++ ")
		default:
			if g.n(2) == 0 {
				g.w("var ", g.ident(), " = 1")
			}
			g.w("; ")
			if g.n(2) == 0 {
				g.expr(d - 1)
			}
			g.w("; ")
			if g.n(2) == 0 {
				g.expr(d - 1)
				g.w(" ")
			}
		}
		g.block(d, ind)
	case 22, 23:
		g.w("switch ")
		g.expr(d - 1)
		g.w(" {")
		g.onl()
		def := false
		for k := g.n(4); k > 0; k-- {
			g.w("\n", strings.Repeat("\t", ind))
			if !def && g.n(4) == 0 {
				def = true
				g.w("default:")
			} else {
				g.w("case ")
				g.exprs(d, 1)
				g.w(":")
			}
			for j := g.n(3); j > 0; j-- {
				g.w("\n", strings.Repeat("\t", ind+1))
				g.stmt(d-1, ind+1)
			}
		}
		g.w("\n", strings.Repeat("\t", ind), "}")
	default:
		g.expr(d)
	}
}

// c15Program renders a program of 0..5 statements with varied separators, comments and blank lines.
func c15Program(c *wk.Case) string {
	g := &c15Gen{c: c}
	if g.n(6) == 0 {
		g.w([]string{"\n", "# head\n", "/* multi\n line */ ", "  ", ";", "\r\n\n"}[g.n(6)])
	}
	k := g.n(6)
	for i := 0; i < k; i++ {
		if i > 0 {
			g.nl(0)
		}
		g.stmt(1+g.n(3), 0)
	}
	if g.n(3) == 0 {
		g.w([]string{"\n", ";", " # tail", " // tail", "\n\n", " /* c */", "\r\n", ";\n", "\t"}[g.n(9)])
	}
	return g.b.String()
}

// ---- scanner-bookkeeping families: deterministic lists (phase "scan") ----

type c15Family struct {
	name string
	gen  func() []string
}

func c15Prefixes(texts ...string) []string {
	var out []string
	for _, t := range texts {
		for k := 0; k <= len(t); k++ {
			out = append(out, t[:k])
		}
		for k := 1; k < len(t); k++ {
			out = append(out, t[k:])
		}
	}
	return out
}

func c15Rep(s string, n int) string { return strings.Repeat(s, n) }

var c15NestDepths = []int{1, 2, 15, 16, 17, 100, 1000, 5000, 20000}

func c15Nest(open, mid, close string) func() []string {
	return func() []string {
		var out []string
		for _, n := range c15NestDepths {
			out = append(out,
				c15Rep(open, n)+mid+c15Rep(close, n),                 // balanced
				c15Rep(open, n)+mid+c15Rep(close, n-1),               // one close missing
				c15Rep(open, n)+mid+c15Rep(close, n+1),               // one close too many
				c15Rep(open, n)+mid,                                  // never closed
				c15Rep(open, n),                                      // opens only
				"x = 1\n"+c15Rep(open, n)+mid+c15Rep(close, n)+"\n$", // error on the last line after a deep construct
			)
			if close != "" {
				out = append(out, c15Rep(close, n), mid+c15Rep(close, n))
			}
		}
		return out
	}
}

var c15OpPrefixes = []string{".", "..", "...", "=", "= ", "= <", "= <-", "==", "<", "<-", "<<", "<=", "&", "&&", "&=", "|", "||", "|=", "!", "!=", "?", "??",
	"+", "++", "+=", "-", "--", "-=", "*", "*=", "/", "/=", "//", "/*", "/**", "/*/", ">", ">>", ">=", ":", "%", "^", ",", ";", "(", "[", "{", ")", "]", "}"}

func c15Families() []c15Family {
	return append(c15ScanFamilies(), c15TypeFamilies()...) // type-expression families: c15_types.go
}

func c15ScanFamilies() []c15Family {
	return []c15Family{
		{"unterminated-every-offset", func() []string {
			return c15Prefixes(
				"a = \"abc\\n d\\\"e\\\\\" + 'it\\'s'\nb = `raw\nstring` + \"x\"\nc",
				"x = 1 /* c * ** / *** */ + 2 /***/ /**/ # tail\ny // c2\n/* multi\nline\n*/ z = `r` '",
				"a = \"é日本\\u00e9\" + 'ü' # ñ\n`ß\n€` + ü_1\n\"\\",
				"f(\"a\\\nb\", 'c\\\nd') // string continued over an escaped newline\n\"x\ny\"",
				"s = \"\\b\\f\\r\\n\\t\\q\\\"\\'\\\\\"; t = '\\''; u = `\\`; v = \"'\" + '\"' + `\"'`",
			)
		}},
		{"comment-star-runs", func() []string {
			var out []string
			for k := 0; k <= 40; k++ {
				st := c15Rep("*", k)
				out = append(out, "/*"+st+"/", "/*"+st, "/*"+st+"/ a", "a /*"+st+"/ b $", "/*"+st+"\n/", "/*"+st+"\n"+st+"/ x = ", "/* "+st+" /"+st+"/ 1 +",
					"/*"+st+" */\n/*"+st+"*/\n\"", "/"+st+"/", "/*"+st+"/*"+st+"/*/")
			}
			return out
		}},
		{"crlf-mixes", func() []string {
			var out []string
			for _, sep := range []string{"\n", "\r\n", "\r", "\n\r", "\r\r\n", "\n\n", " \r\n\t", ";\r\n", "\r\n\r\n"} {
				for _, tail := range []string{"", "$", "a =", "\"open", "`open", "/* open", "1 +", ")", "a b", "1e", "..", "'x\r"} {
					for n := 0; n <= 4; n++ {
						out = append(out, c15Rep("a = 1"+sep, n)+tail, c15Rep(sep, n)+tail, c15Rep("x"+sep+"# c"+sep, n)+tail+sep)
					}
				}
			}
			return out
		}},
		{"non-ascii-and-invalid-utf8", func() []string {
			units := []string{"é", "日本語", "ñ_1", "_é9", "€", "\u00a0", "\u2028", "\u2029", "\ufeff", "😀", "\u0301", "ǅ", "٣", "Ⅷ", "\x80", "\xff", "\xc3", "\xe2\x82", "\xf0\x9f\x98",
				"\xc0\x80", "\xed\xa0\x80", "\xf4\x90\x80\x80", "\x00", "\x7f", "\x1b", "\v", "\f", "\ufffd"}
			ctx := []string{"%s", "a = %s", "%s = 1", "a = \"%s\"", "a = \"%s", "a = `%s", "# %s", "/* %s */ $", "/* %s", "%s %s", "x\n%s%s $", "%s\n$", "é%s = 1\n\"", "1 + %s +", "a.%s", "%s(", "\"日本\" %s", "日本 = %s )"}
			var out []string
			for _, u := range units {
				for _, cx := range ctx {
					out = append(out, strings.ReplaceAll(cx, "%s", u))
				}
			}
			return out
		}},
		{"operators-split-by-eof", func() []string {
			var out []string
			for _, op := range c15OpPrefixes {
				for _, cx := range []string{"%s", "a %s", "a %s b", "%s\n", "a%s", "a %s\n", "a %s ", "%s b", "a = b %s", "a\n%s", "%s%s", "a %s %s b", "(%s", "a %s\r", "a %s#", "a %s//", "a %s/*", "a %s\"", "1%s", "1 %s 2"} {
					out = append(out, strings.ReplaceAll(cx, "%s", op))
				}
			}
			return out
		}},
		{"lone-quotes-and-eof-comments", func() []string {
			var out []string
			for _, q := range []string{"'", "\"", "`"} {
				for _, cx := range []string{"%s", "a = %s", "%s\n", "a = %s\n", "%s%s", "%s%s%s", "%s\\", "%s\\%s", "%s\\\\%s", "%s\\\n", "a%s", "%sa", "%sa\n%s", "\n\n%s", "a = %sx%s %s", "f(%s)", "[%s]", "%s\n\n\n"} {
					out = append(out, strings.ReplaceAll(cx, "%s", q))
				}
			}
			for _, cm := range []string{"#", "//", "# x", "// x", "#\n", "//\n", "/**/", "/* x */", "/*\n*/", "/* \n \n */"} {
				for _, cx := range []string{"%s", "a %s", "a = %s", "%s a", "%s $", "a\n%s", "%s\n$", "a =\n%s", "%s%s", "a %s\n b = ", "\"s\" %s", "1 + %s\n 2", "f(%s)", "f(1, %s\n2)"} {
					out = append(out, strings.ReplaceAll(cx, "%s", cm))
				}
			}
			return out
		}},
		{"numbers", func() []string {
			var out []string
			for _, n := range []string{"0", "00", "08", "0x", "0X", "0xg", "0b", "0b2", "0b12", "0x1p3", "1.", "1..", "1.2.3", "1e", "1e+", "1e-", "1e1e1", "1E5", "1ee", "1e+-1", ".5", "1.e3", "1_000", "1a", "0xfz", "0b1z", "1é",
				"9223372036854775807", "9223372036854775808", "-9223372036854775808", "-9223372036854775809", "0x7fffffffffffffff", "0xffffffffffffffff", "-0x8000000000000000", "1e400", "-1e400", "1e-400", "0b" + c15Rep("1", 64), "-0b1", "- 1", "-1", "--1", "-0x1", "1.5.", "1...2"} {
				for _, cx := range []string{"%s", "a = %s", "%s + 1", "a[%s]", "%s\n$", "x = 1\ny = %s\nz"} {
					out = append(out, strings.ReplaceAll(cx, "%s", n))
				}
			}
			return out
		}},
		{"long-identifier", func() []string {
			id := c15Rep("a", 1<<16)
			return []string{id, id + " = 1", id + " $", "é" + c15Rep("é", 1<<15), id + "(", "x." + id, id + "\n" + id + "\n)"}
		}},
		{"long-numbers", func() []string {
			return []string{c15Rep("1", 1<<16), "0x" + c15Rep("f", 1<<16), "0b" + c15Rep("1", 1<<16), "1." + c15Rep("0", 1<<16), "1e" + c15Rep("9", 1<<16), c15Rep("1", 1<<16) + "a", "a = " + c15Rep("7", 1<<16) + "\n$", "1" + c15Rep(".", 1<<16)}
		}},
		{"long-strings-and-comments", func() []string {
			z := 1 << 16
			return []string{"\"" + c15Rep("s", z) + "\"", "\"" + c15Rep("s", z), "`" + c15Rep("r\n", z/2) + "`", "`" + c15Rep("r\n", z/2), "'" + c15Rep("\\'", z/2) + "'", "# " + c15Rep("c", z), "// " + c15Rep("c", z) + "\n$",
				"/*" + c15Rep("*", z) + "/", "/*" + c15Rep("*", z), "/*" + c15Rep("\n", z) + "*/ $", "/*" + c15Rep("* /", z/3), "\"" + c15Rep("\\", z) + "\"", "\"" + c15Rep("\\", z+1) + "\""}
		}},
		{"long-runs", func() []string {
			z := 1 << 16
			return []string{c15Rep("\n", z), c15Rep("\n", z) + "$", c15Rep("\n", z) + "a =", c15Rep(";", z), c15Rep(";\n", z/2) + ")", c15Rep(" ", z), c15Rep(" ", z) + "$", c15Rep("\r\n", z/2) + "\"", c15Rep("\t", z) + "a b",
				c15Rep("a\n", z/2), c15Rep("a\n", z/2) + "(", c15Rep("a;", z/2) + "}", c15Rep("$", z), c15Rep("\x00", z), c15Rep("\xff", z), c15Rep("a ", z/2), c15Rep("1,", z/2), "[" + c15Rep("1,\n", z/3) + "]", "[" + c15Rep("1,\n", z/3) + "}",
				"f(" + c15Rep("a, ", z/3) + "a)", "{" + c15Rep("\"k\": 1,\n", z/8) + "}", c15Rep("a = 1 # c\n", z/10) + "/*"}
		}},
		{"nest-paren", c15Nest("(", "1", ")")},
		{"nest-bracket", c15Nest("[", "1", "]")},
		{"nest-brace-map", c15Nest("{\"k\":", "1", "}")},
		{"nest-block-func", c15Nest("func(){", "a", "}")},
		{"nest-block-if", c15Nest("if a {", "b", "}")},
		{"nest-block-for-newline", c15Nest("for {\n", "b\n", "}\n")},
		{"nest-call", c15Nest("f(", "x", ")")},
		{"nest-index", c15Nest("a[", "0", "]")},
		{"nest-unary", func() []string {
			var out []string
			for _, n := range c15NestDepths {
				for _, op := range []string{"-", "!", "^", "&", "*", "<-", "- ", "-(", "!!-"} {
					out = append(out, c15Rep(op, n)+"a", c15Rep(op, n))
				}
			}
			return out
		}},
		{"chains", func() []string {
			var out []string
			for _, n := range c15NestDepths {
				out = append(out, "a"+c15Rep(".b", n), "a"+c15Rep("[0]", n), "f"+c15Rep("()", n), "1"+c15Rep("+1", n), "1"+c15Rep(" +\n1", n)+" +", "a"+c15Rep(" ? b : c", n), c15Rep("a ? ", n)+"b"+c15Rep(" : c", n),
					c15Rep("a = ", n)+"1", c15Rep("a, ", n)+"a = 1", "a"+c15Rep(" ?? b", n), c15Rep("if a {} else ", n)+"{}", "a"+c15Rep(" <- b", n), "x = "+c15Rep("[]", n)+"int64{}", "a"+c15Rep(".b", n)+".", "a"+c15Rep("[0]", n)+"[",
					"switch a {"+c15Rep("\ncase 1:\n b", n)+"\n}", "switch a {"+c15Rep("\ncase 1:\n b", n), c15Rep("a\n", n)+"b", c15Rep("a;\n\n", n)+")")
			}
			return out
		}},
		{"mismatched-brackets", func() []string {
			var out []string
			br := []string{"(", ")", "[", "]", "{", "}"}
			// every bracket string of length <= 4, bare and around an operand
			var rec func(prefix string, k int)
			rec = func(prefix string, k int) {
				out = append(out, prefix, "a"+prefix, prefix+"a", "f"+prefix+"1"+prefix)
				if k == 0 {
					return
				}
				for _, b := range br {
					rec(prefix+b, k-1)
				}
			}
			rec("", 4)
			return out
		}},
	}
}

// valid edge texts for the compositional check (each must parse alone to be used; the engine checks)
var c15EdgeTexts = []string{"", "\n", "\n\n", "# c", "// c", "/* c */", "/* c\n d */", ";", ";\n", " ", "\t\r", "a", "a;", "a\n", "a;\n", "a # c", "a // c", "a /* c\n */", "x = `r\nw`", "x = \"a\\\nb\"",
	"a\r", "a\r\n", "return", "return 1", "break", "continue", "f()", "{}", "[]", "[1]", "(1)", "-1", "- 1", "<- c", "!a", "*p", "&a", "a++", "if a {}", "if a {} else {}", "for {}", "func() {}", "func f() {}",
	"try {} catch {}", "switch a {}", "switch a {\ncase 1:\n}", "switch a {\ncase 1:\n b\n}", "switch a {\ndefault:\n b\n\n}", "a = 1", "a, b = 1, 2", "var a = 1", "a = <- c", "a <- 1", "go f()", "defer f()", "delete(a)", "close(a)", "throw a",
	"module m {}", "module m {\n a = 1\n}", "a.b", "a[0]", "a[1:2]", "{\"a\": 1}", "map{}", "make(int64)", "new(int64)", "len(a)", "a ? b : c", "a ?? b", "a in b", "1 +\n2", "[1,\n2]", "f(1,\n2)", "{\n\"a\": 1,\n}",
	"if a {\n} else if b {\n} else {\n}", "a = func() {\n return 1\n}", "a;b", "a;;b", "a\n\nb", "a;\nb", ";a", ";;", "\n;\n", "a ;", "\r\n", "é = 1", "\"é\"", "x = [\n]", "1", "1.5", "\"s\"", "'c'", "`r`", "nil", "true",
	"if a { ; }", "if a {\n;\n}", "f = func() { ;; }", "f = func() { ;y }", "for { \n ; \n }", "module m { ; }", "try { ; } catch { ; } finally { ; }", "switch a {\ncase 1:\n;\n}", "switch a {\ncase 1:\ndefault:\n}",
	"if a { x } else { ; }", "if a { x; y }\nif b { ;\n }", "a\n\n;\n;b", ";\n;", ";a;", "\n\na\n\n", "a = 1 # c\n# d\n", "/* a */ b /* c */", "a\n/* c\n*/", "a\n# c", "\ufeffa", "\x00", "$"}

// ---------------------------------------------------------------------------
// engine

var (
	c15ValidOnce sync.Once
	c15Valid     []string // corpus scripts that parse alone
)

func c15ValidCorpus() []string {
	c15ValidOnce.Do(func() {
		for _, s := range corpus.Scripts() {
			if _, err, o := ank.Parse(s); err == nil && !o.Panicked {
				c15Valid = append(c15Valid, s)
			}
		}
	})
	return c15Valid
}

// c15ValidText draws a text that parses alone (nil result = none found in this draw).
func c15ValidText(c *wk.Case) (string, string, *c15Res) {
	for try := 0; try < 20; try++ {
		var s, gen string
		switch r := c.Rng.Intn(20); {
		case r < 10:
			v := c15ValidCorpus()
			if len(v) == 0 {
				continue
			}
			s, gen = v[c.Rng.Intn(len(v))], "corpus"
		case r < 15:
			s, gen = c15Program(c), "program"
		case r < 18:
			s, gen = c15Pick(c, c15EdgeTexts), "edge"
		default:
			s, gen = c15Mutate(c, corpus.Scripts())
		}
		c.Begin(c15BeginInput(gen, s))
		r := c15Parse(s, c15CPUBudget, true)
		c.Events(1)
		if r.ok {
			return s, gen, r
		}
		if !c15Judge(c, gen, s, r) { // a panic / bad error found on the way is still a finding
			return "", "", nil
		}
	}
	return "", "", nil
}

func c15RunFuzz(c *wk.Case) {
	scripts := corpus.Scripts()
	var keep []c15Kept
	for k := 0; k < 100; k++ {
		var src, gen string
		switch r := c.Rng.Intn(20); {
		case r < 4:
			src, gen = c15TokenSoup(c), "token-soup"
		case r < 7:
			src, gen = c15ByteSoup(c), "byte-soup"
		case r < 10:
			src, gen = c15Program(c), "program"
		case len(scripts) == 0:
			src, gen = c15TokenSoup(c), "token-soup"
		default:
			src, gen = c15Mutate(c, scripts)
		}
		r := c15Check(c, gen, src)
		if k%10 == 0 {
			keep = append(keep, c15Kept{gen, src, r})
		}
		if r.ok && r.tree != nil {
			// whatever the generator meant the text to be: it parses alone, so it composes (c15_r6.go)
			c15ComposeWithPartner(c, "pair:fuzz+partner", src, r, c.Index+k)
		}
	}
	c15RunFuzzOpenEnds(c, scripts) // c15_r6.go; draws from c.Rng only after the inputs above
	for _, k := range keep {
		c15Recheck(c, k.gen, k.src, k.r)
	}
}

type c15Kept struct {
	gen, src string
	r        *c15Res
}

func c15RunCorpus(c *wk.Case) {
	scripts := corpus.Scripts()
	if c.Index >= len(scripts) {
		return
	}
	s := scripts[c.Index]
	r := c15Check(c, "corpus", s)
	if r.ok {
		for _, st := range astx.StmtList(r.tree) {
			c.Tag("stmt:" + strings.TrimPrefix(reflect.TypeOf(st).String(), "*ast."))
		}
	}
	// truncation at every byte offset, and every suffix
	for k := 0; k < len(s); k++ {
		if rp := c15Check(c, "corpus-prefix", s[:k]); rp.ok && rp.tree != nil {
			// a truncated script that parses alone is a valid first part (c15_r6.go)
			c15ComposeWithPartner(c, "pair:corpus-prefix+partner", s[:k], rp, k)
		}
		if k > 0 {
			c15Check(c, "corpus-suffix", s[k:])
		}
	}
	// with every line terminator variant (line bookkeeping)
	if strings.Contains(s, "\n") {
		c15Check(c, "corpus-crlf", strings.ReplaceAll(s, "\n", "\r\n"))
		c15Check(c, "corpus-cr", strings.ReplaceAll(s, "\n", "\r"))
	}
	c15Check(c, "corpus-trailing-garbage", s+"\n$")
	c15Check(c, "corpus-trailing-open", s+"\n\n(")
	c15Recheck(c, "corpus", s, r)
}

func c15RunPairs(c *wk.Case, n int) {
	for k := 0; k < n; k++ {
		a, ga, ra := c15ValidText(c)
		if ra == nil {
			c.Excluded("no-valid-text-drawn")
			continue
		}
		b, gb, rb := c15ValidText(c)
		if rb == nil {
			c.Excluded("no-valid-text-drawn")
			continue
		}
		c15Compose(c, "pair:"+c15GenClass(ga)+"+"+c15GenClass(gb), a, b, ra, rb)
	}
}

func c15GenClass(g string) string {
	if strings.HasPrefix(g, "mut-") {
		return "mutant"
	}
	return g
}

// c15RunEdgePairs: the complete square of the hand-written edge texts that parse (deterministic).
func c15RunEdgePairs(c *wk.Case) {
	if c.Index >= len(c15EdgeTexts) {
		return
	}
	a := c15EdgeTexts[c.Index]
	ra := c15Check(c, "edge", a)
	if !ra.ok {
		c.Excluded("edge-text-does-not-parse-alone")
		return
	}
	for _, b := range c15EdgeTexts {
		c.Begin(c15BeginInput("edge", b))
		rb := c15Parse(b, c15CPUBudget, true)
		c.Events(1)
		if !rb.ok {
			continue
		}
		c15Compose(c, "pair:edge+edge", a, b, ra, rb)
	}
	// and against every valid corpus script on either side, for a slice of the corpus
	v := c15ValidCorpus()
	for i := c.Index; i < len(v); i += len(c15EdgeTexts) {
		c.Begin(c15BeginInput("corpus", v[i]))
		rv := c15Parse(v[i], c15CPUBudget, true)
		c.Events(1)
		if !rv.ok {
			continue
		}
		c15Compose(c, "pair:edge+corpus", a, v[i], ra, rv)
		c15Compose(c, "pair:corpus+edge", v[i], a, rv, ra)
	}
}

func c15RunScan(c *wk.Case) {
	fams := c15Families()
	if c.Index >= len(fams) {
		return
	}
	f := fams[c.Index]
	var keep []c15Kept
	for i, s := range f.gen() {
		r := c15Check(c, "scan:"+f.name, s)
		if i%16 == 0 && len(keep) < 40 {
			keep = append(keep, c15Kept{"scan:" + f.name, s, r})
		}
	}
	for _, k := range keep {
		c15Recheck(c, k.gen, k.src, k.r)
	}
}

// c15RunRace: 8 goroutines parse the same and different texts concurrently; every result must equal
// the sequential one. Data races are reported by the race detector through the orchestrator.
func c15RunRace(c *wk.Case) {
	scripts := corpus.Scripts()
	var texts []string
	for len(texts) < 6 {
		var s string
		switch r := c.Rng.Intn(10); {
		case r < 4 && len(scripts) > 0:
			s = scripts[c.Rng.Intn(len(scripts))]
		case r < 6:
			s = c15Program(c)
		case r < 7:
			s = c15TokenSoup(c)
		case r < 8 && len(scripts) > 0:
			s, _ = c15Mutate(c, scripts)
		case r < 9:
			n := 1 + c.Rng.Intn(300)
			s = c15Rep("(", n) + "a++" + c15Rep(")", n-c.Rng.Intn(2))
		default:
			s = c15Pick(c, c15EdgeTexts)
		}
		texts = append(texts, s)
	}
	want := make([]string, len(texts))
	for i, s := range texts {
		c.Begin(c15BeginInput("race-seq", s))
		r := c15Parse(s, c15CPUBudgetRace, true)
		c15Judge(c, "race-seq", s, r)
		want[i] = r.key()
		c.Eval(s, strings.TrimSpace(s) != "")
	}
	const G = 8
	const reps = 4
	c.Begin(map[string]interface{}{"gen": "race-batch", "texts": func() []string {
		q := make([]string, len(texts))
		for i, s := range texts {
			q[i] = c15Clip(s)
		}
		return q
	}()})
	type diff struct {
		text     int
		got      string
		sameText bool
	}
	var mu sync.Mutex
	var diffs []diff
	var wg sync.WaitGroup
	start := make(chan struct{})
	c15Enter(c15CPUBudgetRace)
	for g := 0; g < G; g++ {
		wg.Add(1)
		go func(g int) {
			defer wg.Done()
			<-start
			for rep := 0; rep < reps; rep++ {
				for j := range texts {
					// even repetitions: every goroutine parses the SAME text at the same time;
					// odd repetitions: rotated, so different texts are in flight together
					i := j
					if rep%2 == 1 {
						i = (j + g) % len(texts)
					}
					r := c15Parse(texts[i], 0, false)
					if k := r.key(); k != want[i] {
						mu.Lock()
						diffs = append(diffs, diff{i, k, rep%2 == 0})
						mu.Unlock()
					}
				}
			}
		}(g)
	}
	close(start)
	wg.Wait()
	c15Leave()
	c.Events(G * reps * len(texts))
	c.Tag("gen:race-batch")
	c.Count("concurrent_parses", G*reps*len(texts))
	seen := map[int]bool{}
	for _, d := range diffs {
		if seen[d.text] {
			continue
		}
		seen[d.text] = true
		cls := "error"
		switch {
		case strings.HasPrefix(d.got, "panic:"):
			cls = "panic"
		case strings.HasPrefix(d.got, "ok:") != strings.HasPrefix(want[d.text], "ok:"):
			cls = "tree-vs-error"
		case strings.HasPrefix(d.got, "ok:"):
			cls = "tree"
		}
		c.Violation("nondet:concurrent:"+cls, "a concurrent parse differs from the sequential parse of the same text: "+c15ClipS(d.got, 300)+"  vs  "+c15ClipS(want[d.text], 300),
			c15Input("race-batch", texts[d.text]))
	}
}

func init() {
	nFam := len(c15Families())
	wk.Register(&wk.Engine{
		ID: "C15",
		Plan: func(tier string) fw.Plan {
			nFuzz, nPairs, nRace, nTypes, nBlankChains := 1200, 400, 64, 300, 100
			if tier == "thorough" {
				nFuzz, nPairs, nRace, nTypes, nBlankChains = 40000, 10000, 1200, 10000, 5000
			}
			nCorpus := len(corpus.Scripts())
			return fw.Plan{
				Level: "exploration",
				Rule: "every input is parsed twice by parser.ParseSrc (panics observed, CPU/allocation budget per input) and judged: result is (tree,nil) or (_,*parser.Error) with 1<=line<=count('\\n')+1 and 1<=column<=len(line)+1; the two parses — separated by a parse of a fixed text of the opposite outcome — agree (dump with positions / error message+position), and so does a third parse of sampled texts at the end of the case, after all its other inputs. " +
					"phase scan: deterministic scanner-bookkeeping families (unterminated strings/raw strings/comments at every offset, /*…*/ with runs of *, CR/LF mixes, non-ASCII letters, invalid UTF-8, NUL, brackets/blocks/unary/chains nested to 20000, 64 KB identifiers/numbers/strings/comments/runs, operators split by EOF, lone quotes, comments at EOF, all bracket strings of length<=4; type expressions: every type form (*T, []T, [][]T, chan T, map[..]T, map[T].., struct{..T}, struct over several lines, T.B) applied to every type form to depth 3 (depth 4 over one leaf) inside new()/make(), to depth 2 inside make(T,len[,cap]), typed array and map literals, make(type ..) and nested uses, plus every single-token deletion/duplication/junk insertion and every truncation of the depth<=2 types). " +
					"phase types: PRNG type expressions (all forms, blanks/newlines where the grammar allows them, a dotted path after every form, depth<=5) at every use site of a type (new, make with 1-3 arguments, make(type ..), typed array/map literals, as element of pointer/slice/chan/map/struct types, nested in calls/operators/statements), one third with 1-2 token edits of the type (delete/duplicate/swap/replace/truncate/insert); the texts that parse are composed pairwise as in phase pairs. " +
					"phase corpus: every script of the repository's corpus, every prefix and every suffix of it, CRLF/CR variants. phase fuzz: token soup, byte soup, grammar-generated programs, 1-3 mutations of a corpus script (delete/duplicate/swap/replace/truncate/bracket insert+remove/splice/insert byte/newline variation/blank-run variation/junk); generated programs and token soup spell the receive assignment with every target form and every white space (none, blanks, tab, LF, CRLF, several) between '=' and '<-'. " +
					"phase recvassign: deterministic list - every target form x every gap between '=' and '<-' (none, blank, tab, LF, CRLF, CR, several line breaks with indentation, FF, VT, NBSP, NEL, U+2028, U+3000, comments with and without line breaks) x receive operands; each spelling alone, in " + strconv.Itoa(len(c15RecvErrCtx)) + " contexts that put a syntax/lexer error behind it (same line, next line, after an empty line, after a longer or shorter line, inside blocks, twice in a row) and at every truncation, judged by the error-position oracle; each spelling (bare and inside blocks/statement lists) that parses alone is composed with " + strconv.Itoa(len(c15RecvPartners)) + " partner texts in both orders as in phase edgepairs. " +
					"phase openends: deterministic list - every operator, keyword and atom at the end of " + strconv.Itoa(len(c15OpenStems)) + " stems x gap (none, blank, line break) x " + strconv.Itoa(len(c15OpenTails)) + " tails (all of them behind " + strconv.Itoa(c15OpenStemsFull) + " stems, " + strconv.Itoa(len(c15OpenTailsCore)) + " - one of every kind - behind the others; unterminated raw string/string/char/block comment at EOF, at a line end, after a backslash; half-written numbers, '..', stray and invalid bytes; control group: the terminated counterparts, line comments, plain operands); every text is judged by the totality/position/determinism oracles, and each one that parses alone - whatever it ends in - is the first part of a concatenation with " + strconv.Itoa(len(c15OpenPartners)) + " partner texts (containing back quotes, quotes, comment ends, several lines) and the second part with 3 of them. The same composition is applied to every prefix of a corpus script that parses alone (phase corpus, one partner each), to every fuzz input that parses alone, and to 30 open-end mutants per fuzz case (cut inside a quoted token, closing quote removed, open tail after an '=' or after any token, unterminated raw string in front of the rest of the text). " +
					"phase blanks: characters that are blank, invisible or padding for some layer but not for the scanner (" + strconv.Itoa(len(c15WSChars)) + " of them: Unicode White_Space FF, VT, NEL, NBSP, U+1680, U+2000-200A, LS, PS, NNBSP, MMSP, IDSP; byte order marks whole, cut and as UTF-16 bytes; zero-width and format characters; NUL, SUB, EOT, FS-US, BS, DEL; the Latin-1 bytes 85 and A0) - one deterministic case per character: texts made only of it (alone, repeated, runs of 1000, with the scanner's blanks, CR, LF and CRLF around and between, with a second such character), the character next to terminators and comments in texts without a statement, at the start, at the end, at both ends, on a line of its own before/after/between, next to a ';' and between the tokens of " + strconv.Itoa(len(c15WSStems)) + " valid stems, and - control group - inside strings, raw strings and comments; every text is judged by the totality/position/determinism oracles, and each one that parses alone is composed with " + strconv.Itoa(len(c15WSPartners)+1) + " partners (empty, newline, blanks, comments, ';', statements over one and several lines, the character inside a string and a comment), with itself and with a slice of the corpus, in both orders, the texts made only of such characters also with three more texts of that kind; then PRNG cases of 20 chains each: 2-5 pieces (runs of such characters mixed with blanks and line breaks, blank runs, empty, comment-only, terminator-only, valid texts, valid texts with such a run at an end, on a line of its own, behind a ';' or between two tokens) folded from the left or from the right - whenever the text so far and the next piece both parse alone the clause is applied to them, and the joined text is the text so far of the next step (a text embedded in a longer source). " +
					"phase edgepairs: complete square of hand-written valid edge texts and edge x corpus both ways; phase pairs: PRNG pairs (corpus, generated, mutated-but-valid, edge) — A, B parse alone => A+\"\\n\"+B parses to stmts(A)++stmts(B), compared statement by statement by reflective dump with B's lines shifted by count('\\n',A)+1. " +
					"phase race (-race build): 8 goroutines parse the same text simultaneously and different texts interleaved; every result equals the sequential one. " +
					"An evaluation is non-trivial when the text is not blank (pairs: both sides have >=1 statement); distinct = distinct text (pair)." + c15R8Rule + c15R9Rule,
				Assumptions: []string{
					"termination is restated as a budget: one input may consume at most 20 CPU-seconds (5 CPU-seconds when it is <= 4 KB) and allocate at most 1 GiB (normal: < 50 ms and < 1 MB; worst legitimate case, a 20000-deep nest: ~0.1 s and ~140 MB; inputs are <= 256 KB); exceeding it is reported as a violation with the in-flight input; a wall-clock watchdog expiry alone is inconclusive",
					"lines of the input = number of '\\n' + 1 (the empty line after a trailing newline counts); line length taken in bytes, the more permissive unit",
					"what accompanies a non-nil error (partial tree), the error message and the Fatal flag are not judged; determinism compares outcome class, tree dump with positions, and error message+position",
					"astx.Dump (reflection over all exported fields, positions via ast.Pos) is the tree identity",
					"which white space may stand between the '=' and the '<-' of a receive assignment is not judged (the statement is silent): a spelling that fails is judged as an error text, one that parses alone must compose like every other text",
					"which characters are blank is not judged (the statement is silent): a text made of Unicode white space, byte order marks, zero-width or control characters - alone or around a valid text - may fail or parse; if it fails it is judged as an error text, if ParseSrc accepts it alone it is a text that parses on its own and must compose like every other, as first and as second part (violations found with such texts carry the kind of text and the class of character in their signature)",
					"a text that ends in an unterminated string, raw string or comment is not required to fail (the statement does not say which texts are programs): if ParseSrc accepts it, it is a text that parses on its own and must compose like every other; if not, it is judged as an error text",
					c15R8Assumptions[0], c15R8Assumptions[1], c15R8Assumptions[2], c15R8Assumptions[3], c15R8Assumptions[4], c15R8Assumptions[5],
				},
				CrashIsViolation: true,
				Phases: append([]fw.Phase{
					{Name: "scan", Cases: nFam, Chunk: 1, TimeoutS: 900},
					{Name: "corpus", Cases: nCorpus, Chunk: 50, TimeoutS: 900},
					{Name: "edgepairs", Cases: len(c15EdgeTexts), Chunk: 8, TimeoutS: 900},
					{Name: "recvassign", Cases: c15RecvCases(), Chunk: 16, Jobs: 4, MemMB: 3072, TimeoutS: 900},
					{Name: "openends", Cases: c15OpenCases(), Chunk: 8, Jobs: 4, MemMB: 3072, TimeoutS: 900},
					{Name: "blanks", Cases: c15BlankDetCases() + nBlankChains, Chunk: 24, TimeoutS: 900},
					{Name: "fuzz", Cases: nFuzz, Chunk: 25, TimeoutS: 900},
					{Name: "pairs", Cases: nPairs, Chunk: 25, TimeoutS: 900},
					{Name: "types", Cases: nTypes, Chunk: 25, TimeoutS: 900},
					{Name: "race", Race: true, Cases: nRace, Chunk: 4, TimeoutS: 1200},
				}, append(c15R8Phases(tier), c15R9Phases(tier)...)...), // bigsrc, history, hot, racehist: c15_r8.go; overlap: c15_r9.go
			}
		},
		Init: func(w *wk.Worker) {
			c15MonOnce.Do(func() { go c15Monitor() })
		},
		Run: func(c *wk.Case) {
			if !c.W.Replay && c15TooManyDeaths() {
				c.Inconclusive("not-run-after-12-nontermination-violations", "ParseSrc already failed to return on 12 inputs of this run (each reported as a violation); this case was not executed", nil)
				return
			}
			if c15R8Run(c) || c15R9Run(c) { // c15_r8.go, c15_r9.go
				return
			}
			switch c.Phase {
			case "scan":
				c15RunScan(c)
			case "corpus":
				c15RunCorpus(c)
			case "edgepairs":
				c15RunEdgePairs(c)
			case "fuzz":
				c15RunFuzz(c)
			case "pairs":
				c15RunPairs(c, 50)
			case "types":
				c15RunTypes(c)
			case "recvassign":
				c15RunRecvAssign(c) // c15_r5.go
			case "openends":
				c15RunOpenEnds(c) // c15_r6.go
			case "blanks":
				c15RunBlanks(c) // c15_r7.go
			case "race":
				c15RunRace(c)
			}
		},
	})
}
