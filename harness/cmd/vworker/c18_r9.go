package main

// C18, round 9: three phases that drive the built command and the library
// driver over scripts the earlier phases never wrote.
//
//   err-shapes  uncaught errors of every shape reaching the top level of the
//               command: the TEXT (empty, blank, long, several lines, not UTF-8,
//               equal to what the command itself prints) x the VALUE thrown
//               (string, number, nil, bool, list, map, error values made by
//               bundled packages, Go errors returned by bundled functions) x
//               the PLACE (top level, nested functions, closures, deferred
//               functions, loops, catch/finally blocks, goroutines joined by
//               the main script) x after k prints, x file / -e. Controls:
//               the same values caught, dropped in a goroutine, or merely
//               being the value of the last statement (no error: exit 0).
//   sigfd       scripts that provoke signals and descriptor-level failures
//               that are not about the command's standard output (a write on a
//               pipe whose read end is closed, on a closed file, on a
//               descriptor that was never open, a reset loopback connection, a
//               signal the script handles through os/signal and sends to itself,
//               child processes, a long computation, os.Exit with every code)
//               and then keep printing a dozen lines.
//   overlap     N goroutines of one script print K self-identifying records
//               each through every printer the command offers at overlapping
//               times and are joined before the script ends; the records on
//               standard output must be exactly the records printed: each one
//               whole, each one once, each goroutine's in order.
//
// The oracle of the first two phases is the byte-level one of the earlier
// phases (c18Judge + c18JudgeSpell) against a library driver that also reports
// when the SCRIPT ended the process (os.Exit). The oracle of the third phase is
// computed from the generator's own description of the script (the interleaving
// is free, everything else is fixed) and applied to both sides: the library
// driver's output must satisfy it as well, otherwise the case is not judged.
//
// A deviation is reported only when it shows again in at least one of three
// further runs of the command while the library driver repeats itself.

import (
	"bytes"
	"context"
	"fmt"
	"io"
	"math/rand"
	"os"
	"os/exec"
	"path/filepath"
	"strconv"
	"strings"
	"time"
	"unicode/utf8"

	"github.com/mattn/anko/core"
	"github.com/mattn/anko/env"
	"github.com/mattn/anko/parser"

	"verifharness/internal/ank"
	"verifharness/internal/wk"
)

// ---------------------------------------------------------------------------
// library driver that says how it ended

// c18Lib9Child is c18LibChild plus a status file (VERIF_C18_STATUS): the class
// of the run is written there when vm.Execute has returned. A driver process
// that ends without the file having been written was ended by the script
// (os.Exit of the bundled os package) or killed.
func c18Lib9Child(args []string) {
	src, err := io.ReadAll(os.Stdin)
	if err != nil {
		fmt.Fprintln(os.Stderr, "c18lib9: cannot read source:", err)
		os.Exit(3)
	}
	status := os.Getenv("VERIF_C18_STATUS")
	os.Unsetenv("VERIF_C18_STATUS")
	e := env.NewEnv()
	e.Define("args", append([]string{}, args...))
	core.Import(e)
	o := ank.Exec(e, string(src))
	os.Stdout.Sync()
	class, code := "ok", c18ExitOK
	switch {
	case o.Panicked:
		class, code = "panic", c18ExitPanic
		fmt.Fprint(os.Stderr, o.PanicSig)
	case o.Err != nil:
		class, code = "run-error", c18ExitRun
		if _, ok := o.Err.(*parser.Error); ok {
			class, code = "parse-error", c18ExitParse
		}
		fmt.Fprint(os.Stderr, o.Err.Error())
	}
	if status != "" {
		os.WriteFile(status, []byte(class), 0o644)
	}
	os.Exit(code)
}

func c18Exec9(bin string, argv []string, dir string, stdin []byte, extraEnv []string, capBytes int) c18Proc {
	ctx, cancel := context.WithTimeout(context.Background(), 120*time.Second)
	defer cancel()
	cmd := exec.CommandContext(ctx, bin, argv...)
	cmd.Dir = dir
	if stdin != nil {
		cmd.Stdin = bytes.NewReader(stdin)
	}
	if len(extraEnv) > 0 {
		cmd.Env = append(os.Environ(), extraEnv...)
	}
	out := &c18Cap{max: capBytes, cancel: cancel}
	errb := &c18Cap{max: 1 << 20}
	cmd.Stdout = out
	cmd.Stderr = errb
	err := cmd.Run()
	p := c18Proc{Stdout: out.buf.String(), Stderr: errb.buf.String(), Capped: out.capped}
	if cmd.ProcessState != nil {
		p.Exit = cmd.ProcessState.ExitCode() // -1: ended by a signal
	} else if err != nil {
		p.StartErr = err.Error()
		p.Exit = -2
	}
	if ctx.Err() == context.DeadlineExceeded {
		p.TimedOut = true
	}
	return p
}

const c18R9Cap = 64 << 20

// c18RunLib9: classes ok | parse-error | run-error | panic | script-exit | died
func c18RunLib9(x *c18Ctx, src string, args []string) c18Lib {
	status := filepath.Join(filepath.Dir(x.dir), filepath.Base(x.dir)+".status")
	os.Remove(status)
	argv := append([]string{"-child", "c18lib9", "--"}, args...)
	p := c18Exec9(x.self, argv, x.dir, []byte(src), []string{"VERIF_C18_STATUS=" + status}, c18R9Cap)
	b, err := os.ReadFile(status)
	os.Remove(status)
	l := c18Lib{Stdout: p.Stdout, ErrText: p.Stderr, Proc: p}
	switch {
	case p.TimedOut || p.Capped || p.StartErr != "":
		l.Class = "died"
	case err != nil:
		if p.Exit >= 0 {
			l.Class = "script-exit"
		} else {
			l.Class = "died"
		}
	default:
		switch c := string(b); c {
		case "ok", "parse-error", "run-error", "panic":
			l.Class = c
		default:
			l.Class = "died"
		}
	}
	return l
}

// ---------------------------------------------------------------------------
// oracle

// c18Judge9: exit status first (so that one defect has one signature whatever
// the output looked like when it struck), then standard output.
func c18Judge9(lib c18Lib, cli c18Proc) (what, detail string) {
	if lib.Class == "script-exit" {
		// the script ended the process with os.Exit(n): the same call ends the
		// command, after the same output
		switch {
		case cli.Exit != lib.Proc.Exit:
			what = fmt.Sprintf("exit=%d,want=%d", cli.Exit, lib.Proc.Exit)
		case cli.Stdout != lib.Stdout:
			what = "stdout-differs"
			if strings.HasPrefix(lib.Stdout, cli.Stdout) {
				what = "stdout-truncated"
			} else if strings.HasPrefix(cli.Stdout, lib.Stdout) {
				what = "stdout-extra-output"
			}
		}
		if what != "" {
			detail = fmt.Sprintf("library driver: the script ended the process with status %d after stdout=%q; CLI stdout=%q exit=%d stderr=%q", lib.Proc.Exit, c18Clip(lib.Stdout), c18Clip(cli.Stdout), cli.Exit, c18Clip(cli.Stderr))
		}
		return
	}
	what, detail = c18Judge(lib, cli)
	if what == "" {
		return c18JudgeSpell(lib, cli)
	}
	if i := strings.Index(what, "+exit="); i >= 0 {
		detail = what[:i] + ": " + detail
		what = what[i+1:]
	}
	return
}

// ---------------------------------------------------------------------------
// cases

type c18R9Script struct {
	c18Script
	Args []string    // never flag-like: the same vector is positional in both modes
	Spec *c18Overlap // nil: byte comparison with the library driver
}

func (x *c18Ctx) judge9(k *c18R9Script, lib c18Lib, cli c18Proc) (string, string) {
	if k.Spec != nil {
		return k.Spec.judge(lib, cli)
	}
	return c18Judge9(lib, cli)
}

// libUsable: is this library observation one the command can be compared with?
func (x *c18Ctx) libUsable(k *c18R9Script, lib *c18Lib, input interface{}, report bool) bool {
	c := x.c
	switch {
	case lib.Class == "died":
		if report {
			c.Inconclusive("library-driver-died", fmt.Sprintf("exit=%d timeout=%v capped=%v start=%q stderr=%q", lib.Proc.Exit, lib.Proc.TimedOut, lib.Proc.Capped, lib.Proc.StartErr, c18Clip(lib.Proc.Stderr)), input)
		}
		return false
	case lib.Class == "panic":
		if report {
			c.Excluded("library-panicked")
		}
		return false
	case c18AddrRe.MatchString(lib.Stdout) || c18AddrRe.MatchString(lib.ErrText):
		if report {
			c.Excluded("script-prints-an-address")
		}
		return false
	}
	if k.Spec != nil {
		if lib.Class == "script-exit" || lib.Class == "parse-error" {
			if report {
				c.Inconclusive("overlap-script-did-not-run-to-its-end", lib.Class+": "+c18Clip(lib.ErrText), input)
			}
			return false
		}
		if bad := k.Spec.verify(lib.Stdout, ""); bad != "" {
			// not a matter of the command: the library itself does not deliver the
			// records (or the generator's description of the script is wrong)
			if report {
				c.Inconclusive("overlap-library-output-not-as-described", bad, input)
			}
			return false
		}
	}
	return true
}

func (x *c18Ctx) check9(mode string, k *c18R9Script, argv []string, lib *c18Lib) {
	c := x.c
	input := map[string]interface{}{"mode": mode, "src": c18ClipSrc(k.Src), "argv": c18ClipArgv(argv), "want_args": k.Args}
	if k.Spec != nil {
		input["overlap"] = k.Spec.describe()
	}
	if !x.libUsable(k, lib, input, true) {
		return
	}
	c.Begin(input)
	cli := c18Exec9(x.anko, argv, x.dir, nil, nil, c18R9Cap)
	if cli.TimedOut || cli.Capped || cli.StartErr != "" {
		c.Inconclusive("cli-run-not-completed", fmt.Sprintf("timeout=%v capped=%v start=%q", cli.TimedOut, cli.Capped, cli.StartErr), input)
		return
	}
	c.Eval(c18Key(mode+"/r9", k.Src, k.Args), true)
	if k.Spec != nil {
		c.Events(k.Spec.total())
		c.Count("overlap-records-checked", k.Spec.total())
		c.Count("overlap-bytes-checked", len(cli.Stdout))
	} else {
		c.Events(1 + strings.Count(cli.Stdout, "\n"))
	}
	c.Tag("mode:"+mode, "class:"+lib.Class, "mode-class:"+mode+":"+lib.Class)
	if lib.Class == "script-exit" {
		c.Tag("script-exit-status:" + strconv.Itoa(lib.Proc.Exit))
	}
	if lib.Class == "run-error" || lib.Class == "parse-error" {
		c.Tag("error-text:" + c18TextClass(lib.ErrText))
		if lib.Stdout != "" {
			c.Tag("error-after-output:" + lib.Class)
		}
	}
	if c.WantSample() {
		c.Sample(map[string]interface{}{"mode": mode, "src": c18Clip(k.Src), "library_class": lib.Class, "library_stdout": c18Clip(lib.Stdout),
			"library_err": c18Clip(lib.ErrText), "cli_stdout": c18Clip(cli.Stdout), "cli_exit": cli.Exit})
	}
	what, detail := x.judge9(k, *lib, cli)
	if what == "" {
		return
	}
	// the library driver must repeat itself ...
	lib2 := c18RunLib9(x, k.Src, k.Args)
	if !x.libUsable(k, &lib2, input, false) || lib2.Class != lib.Class || lib2.Proc.Exit != lib.Proc.Exit || (k.Spec == nil && lib2.Stdout != lib.Stdout) {
		c.Inconclusive("nondeterministic-script", fmt.Sprintf("two library runs differ: %s %q / %s %q", lib.Class, c18Clip(lib.Stdout), lib2.Class, c18Clip(lib2.Stdout)), input)
		return
	}
	// ... and the command must deviate again
	again, runs := 0, 0
	for runs < 3 {
		runs++
		cli2 := c18Exec9(x.anko, argv, x.dir, nil, nil, c18R9Cap)
		if cli2.TimedOut || cli2.Capped || cli2.StartErr != "" {
			continue
		}
		if w2, _ := x.judge9(k, lib2, cli2); w2 != "" {
			again++
		}
	}
	if again == 0 {
		c.Inconclusive("cli-observation-not-reproducible", fmt.Sprintf("first run: %s (%s); none of %d further runs deviated", what, detail, runs), input)
		return
	}
	c.Violation(mode+":"+lib.Class+":"+what, fmt.Sprintf("%s | deviated again in %d of %d further runs", detail, again, runs), input)
}

func c18ClipSrc(s string) string {
	if len(s) > 20000 {
		return s[:12000] + "\n/* ... " + strconv.Itoa(len(s)) + " bytes, replay regenerates the script ... */\n" + s[len(s)-4000:]
	}
	return s
}

func c18ClipArgv(a []string) []string {
	out := make([]string, len(a))
	for i, s := range a {
		out[i] = c18ClipSrc(s)
	}
	return out
}

// c18TextClass: what kind of error text was it (evidence only)
func c18TextClass(t string) string {
	switch {
	case t == "":
		return "empty"
	case strings.TrimSpace(t) == "":
		return "blank"
	case len(t) > 2000:
		return "long"
	case strings.ContainsAny(t, "\r\n"):
		return "several-lines"
	case !validUTF8(t):
		return "not-utf8"
	case strings.Contains(t, "error:"):
		return "looks-like-a-diagnostic"
	}
	return "plain"
}

func validUTF8(s string) bool { return utf8.ValidString(s) }

// run9 supplies one script both ways. The library driver runs once: the
// argument vector holds no flag-like word, so both modes hand the script the
// same args.
func (x *c18Ctx) run9(k *c18R9Script, fileName, eForm string) {
	c := x.c
	path := filepath.Join(x.dir, fileName)
	if err := os.WriteFile(path, []byte(k.Src), 0o644); err != nil {
		c.Inconclusive("cannot-write-script", err.Error(), nil)
		return
	}
	defer os.Remove(path)
	for _, f := range k.Feats {
		c.Tag("feat:" + f)
	}
	c.Begin(map[string]interface{}{"src": c18ClipSrc(k.Src), "args": k.Args, "stage": "library"})
	lib := c18RunLib9(x, k.Src, k.Args)
	c.Tag("library-runs")
	x.check9("file", k, append([]string{fileName}, k.Args...), &lib)
	if strings.Contains(k.Src, "\x00") || len(k.Src) > 100000 {
		c.Excluded("source cannot be an argv word")
		return
	}
	var argv []string
	if eForm == "e=" {
		argv = append([]string{"-e=" + k.Src}, k.Args...)
	} else {
		argv = append([]string{"-e", k.Src}, k.Args...)
	}
	x.check9(eForm, k, argv, &lib)
}

// ---------------------------------------------------------------------------
// phase err-shapes

type c18Text struct{ Name, Val string }

func c18R9Texts(r *rand.Rand, thorough bool) c18Text {
	long := []int{300, 4096, 20000}
	if thorough {
		long = []int{300, 4096, 20000, 65536, 90000}
	}
	n := long[r.Intn(len(long))]
	pool := []c18Text{
		{"empty", ""}, {"empty", ""}, {"empty", ""}, {"empty", ""}, {"empty", ""}, {"empty", ""},
		{"space", " "}, {"spaces", "   "}, {"tab", "\t"}, {"newline", "\n"}, {"newlines", "\n\n\n"}, {"crlf", "\r\n"},
		{"blank-mix", " \t\n \r\n\t "}, {"nbsp", "\u00a0"}, {"zero-width", "\u200b"}, {"nul", "\x00"}, {"bell", "\a"},
		{"one-char", "x"}, {"plain", "disk full"}, {"zero", "0"}, {"nil-word", "<nil>"}, {"false-word", "false"}, {"percent", "100%"},
		{"two-lines", "first\nsecond"}, {"three-lines", "a\nb\nc"}, {"trailing-newline", "failed\n"}, {"leading-newline", "\nfailed"},
		{"blank-line-inside", "a\n\nb"}, {"tabs-inside", "a\tb\tc"},
		{"long", strings.Repeat("x", n)}, {"long-words", strings.TrimSpace(strings.Repeat("word ", n/5))}, {"long-lines", strings.Repeat("line\n", n/5)},
		{"long-blank", strings.Repeat(" ", n)},
		{"not-utf8", "\xff\xfe"}, {"not-utf8-inside", "caf\xe9 closed"}, {"lone-continuation", "\x80\x80"}, {"utf8", "héllo wörld 日本語"}, {"surrogate-ish", "\xed\xa0\x80"},
		{"own-prefix", "Execute error:"}, {"own-prefix-space", "Execute error: "}, {"own-diagnostic", "Execute error: boom"},
		{"own-read-diagnostic", "ReadFile error: open s.ank: no such file or directory"}, {"own-interrupt", "execution interrupted"},
		{"prompt", "> "}, {"version", "0.1.8"}, {"backslash-n", "a\\nb"}, {"quote", "say \"hi\""}, {"backquote-free-raw", "C:\\dir\\file"},
	}
	return pool[r.Intn(len(pool))]
}

// c18TextExpr spells val as an anko expression: a literal where a literal can
// hold it, otherwise built from its bytes (the lexer reads runes and knows no \x
// escape; the bundled strconv has no Unquote).
func c18TextExpr(val string) (expr string, needsHelper bool) {
	plain := validUTF8(val)
	for i := 0; i < len(val) && plain; i++ {
		if c := val[i]; c < 0x20 && c != '\n' && c != '\r' && c != '\t' {
			plain = false
		}
	}
	if plain && !strings.Contains(val, "\u200b") && !strings.Contains(val, "\u00a0") {
		return c18AnkoQuote(val), false
	}
	var b strings.Builder
	b.WriteString("c18str([")
	for i := 0; i < len(val); i++ {
		if i > 0 {
			b.WriteString(", ")
		}
		b.WriteString(strconv.Itoa(int(val[i])))
	}
	b.WriteString("])")
	return b.String(), true
}

const c18StrHelper = "func c18str(codes) {\n  b = make([]byte, len(codes))\n  for i = 0; i < len(codes); i++ {\n    b[i] = codes[i]\n  }\n  return toString(b)\n}\n"

type c18Thrown struct {
	Name string
	Pre  string // statements before the throw (define `err` ...)
	Expr string
	Pkgs []string
}

func c18R9Thrown(r *rand.Rand) c18Thrown {
	pool := []c18Thrown{
		{Name: "string", Expr: "T"}, {Name: "string", Expr: "T"}, {Name: "string", Expr: "T"},
		{Name: "errors.New", Expr: "errors.New(T)", Pkgs: []string{"errors"}}, {Name: "errors.New", Expr: "errors.New(T)", Pkgs: []string{"errors"}},
		{Name: "fmt.Errorf-s", Expr: "fmt.Errorf(\"%s\", T)", Pkgs: []string{"fmt"}},
		{Name: "fmt.Errorf-wrapped", Expr: "fmt.Errorf(\"%s%s\", T, T)", Pkgs: []string{"fmt"}},
		{Name: "fmt.Errorf-w", Expr: "fmt.Errorf(\"%w\", errors.New(T))", Pkgs: []string{"fmt", "errors"}},
		{Name: "host-error:strconv.Atoi", Pre: "_, err = strconv.Atoi(T)", Expr: "err", Pkgs: []string{"strconv"}},
		{Name: "host-error:os.Open", Pre: "_, err = os.Open(\"nosuch-dir/\" + T)", Expr: "err", Pkgs: []string{"os"}},
		{Name: "host-error:time.ParseDuration", Pre: "_, err = time.ParseDuration(T)", Expr: "err", Pkgs: []string{"time"}},
		{Name: "host-error:regexp.Compile", Pre: "_, err = regexp.Compile(\"(\" + T)", Expr: "err", Pkgs: []string{"regexp"}},
		{Name: "host-error:json.Unmarshal", Pre: "err = json.Unmarshal(toByteSlice(T), {})", Expr: "err", Pkgs: []string{"encoding/json"}},
		{Name: "list-of-text", Expr: "[T]"}, {Name: "list-mixed", Expr: "[T, 1, nil]"}, {Name: "map-of-text", Expr: "{\"k\": T}"}, {Name: "map-keyed-by-text", Expr: "{T: 1, \"b\": 2}"},
		{Name: "bytes-of-text", Expr: "toByteSlice(T)"}, {Name: "runes-of-text", Expr: "toRuneSlice(T)"},
		{Name: "nil", Expr: "nil"}, {Name: "zero", Expr: "0"}, {Name: "negative", Expr: "-1"}, {Name: "float", Expr: "1.5"}, {Name: "true", Expr: "true"}, {Name: "false", Expr: "false"},
		{Name: "empty-list", Expr: "[]"}, {Name: "empty-map", Expr: "{}"}, {Name: "list-of-nil", Expr: "[nil]"}, {Name: "nested-list", Expr: "[[], [T]]"},
		{Name: "caught-error-value", Pre: "err = nil\ntry {\n  throw T\n} catch e0 {\n  err = e0\n}", Expr: "err"},
		{Name: "len-of-text", Expr: "len(T)"}, {Name: "text-plus-text", Expr: "T + T"},
	}
	return pool[r.Intn(len(pool))]
}

var c18R9Places = []string{"top", "top", "top-parens", "func", "func-deep", "closure", "method-of-module", "deferred", "deferred-after-error", "loop", "if-else", "switch",
	"try-finally", "catch-rethrow", "catch-throws-other", "finally-throws", "goroutine-relay", "goroutine-relay-waitgroup", "func-arg", "for-in-func",
	// controls: no error reaches the top level
	"ctl-caught", "ctl-goroutine-dropped", "ctl-last-value", "ctl-returned-value", "ctl-printed-only"}

func c18PrintsBefore(r *rand.Rand, b *strings.Builder, feat *[]string) {
	k := r.Intn(6)
	if r.Intn(3) == 0 {
		k = 0
	}
	for i := 0; i < k; i++ {
		switch r.Intn(5) {
		case 0:
			fmt.Fprintf(b, "println(\"line\", %d)\n", i)
		case 1:
			fmt.Fprintf(b, "printf(\"%%d of %%d\\n\", %d, %d)\n", i, k)
		case 2:
			fmt.Fprintf(b, "print(\"p%d\\n\")\n", i)
		case 3:
			fmt.Fprintf(b, "println(\"Execute error: not really, line %d\")\n", i)
		default:
			fmt.Fprintf(b, "println(%d * %d)\n", i, i+1)
		}
	}
	*feat = append(*feat, "prints-before:"+strconv.Itoa(k))
	if r.Intn(12) == 0 {
		n := 2000 + r.Intn(4000)
		fmt.Fprintf(b, "for q = 0; q < %d; q++ {\n  println(\"bulk line\", q, \"of %d ....................................\")\n}\n", n, n)
		*feat = append(*feat, "prints-before:thousands")
	}
	if k > 0 && r.Intn(4) == 0 {
		b.WriteString("print(\"partial line \")\n")
		*feat = append(*feat, "partial-line-before")
	}
}

func c18GenErrShape(r *rand.Rand, thorough bool) c18R9Script {
	t := c18R9Texts(r, thorough)
	th := c18R9Thrown(r)
	place := c18R9Places[r.Intn(len(c18R9Places))]
	feats := []string{"text:" + t.Name, "thrown:" + th.Name, "place:" + place}
	texpr, unq := c18TextExpr(t.Val)
	pk := map[string]bool{}
	for _, p := range th.Pkgs {
		pk[p] = true
	}
	if place == "goroutine-relay-waitgroup" {
		pk["sync"] = true
	}
	var b strings.Builder
	for _, p := range []string{"errors", "fmt", "strconv", "os", "time", "regexp", "encoding/json", "sync"} {
		if pk[p] {
			name := p
			if p == "encoding/json" {
				name = "json"
			}
			fmt.Fprintf(&b, "%s = import(%q)\n", name, p)
		}
	}
	if unq {
		b.WriteString(c18StrHelper)
	}
	fmt.Fprintf(&b, "T = %s\n", texpr)
	c18PrintsBefore(r, &b, &feats)
	pre := ""
	if th.Pre != "" {
		pre = th.Pre + "\n"
	}
	throw := "throw " + th.Expr
	if r.Intn(3) == 0 || place == "top-parens" {
		throw = "throw(" + th.Expr + ")"
	}
	body := pre + throw + "\n" // statements that raise the error where they stand
	ind := func(s string) string {
		return "  " + strings.Replace(strings.TrimSuffix(s, "\n"), "\n", "\n  ", -1) + "\n"
	}
	switch place {
	case "top", "top-parens":
		b.WriteString(body)
	case "func":
		b.WriteString("func fail() {\n" + ind(body) + "}\nfail()\n")
	case "func-deep":
		d := 2 + r.Intn(4)
		for i := d; i >= 1; i-- {
			if i == d {
				fmt.Fprintf(&b, "func f%d(n) {\n  println(\"depth\", n)\n%s}\n", i, ind(body))
			} else {
				fmt.Fprintf(&b, "func f%d(n) {\n  return f%d(n + 1)\n}\n", i, i+1)
			}
		}
		b.WriteString("x = f1(1)\nprintln(\"never\", x)\n")
	case "closure":
		b.WriteString("mk = func() {\n  return func() {\n" + ind(ind(body)) + "  }\n}\nmk()()\n")
	case "method-of-module":
		b.WriteString("module m {\n  func fail() {\n" + ind(ind(body)) + "  }\n}\nm.fail()\n")
	case "deferred":
		b.WriteString("func f() {\n  defer func() {\n" + ind(ind(body)) + "  }()\n  println(\"in f\")\n}\nf()\nprintln(\"after f\")\n")
	case "deferred-after-error":
		b.WriteString("func f() {\n  defer func() {\n" + ind(ind(body)) + "  }()\n  println(\"in f\")\n  throw \"first error\"\n}\nf()\nprintln(\"after f\")\n")
	case "loop":
		fmt.Fprintf(&b, "for i = 0; i < 5; i++ {\n  println(\"iteration\", i)\n  if i == %d {\n%s  }\n}\n", r.Intn(5), ind(ind(body)))
	case "if-else":
		b.WriteString("if len(args) > 7 {\n  println(\"many\")\n} else {\n" + ind(body) + "}\n")
	case "switch":
		b.WriteString("switch len(args) {\ncase 9:\n  println(\"nine\")\ndefault:\n" + ind(body) + "}\n")
	case "try-finally":
		b.WriteString("try {\n" + ind(body) + "} catch e {\n  throw e\n} finally {\n  println(\"finally\")\n}\nprintln(\"never\")\n")
	case "catch-rethrow":
		b.WriteString("try {\n" + ind(body) + "} catch e {\n  println(\"passing it on\")\n  throw e\n}\n")
	case "catch-throws-other":
		b.WriteString("try {\n  throw \"inner\"\n} catch e {\n" + ind(body) + "}\n")
	case "finally-throws":
		b.WriteString("try {\n  println(\"in try\")\n} catch e {\n  println(\"not reached\")\n} finally {\n" + ind(body) + "}\nprintln(\"after\")\n")
	case "goroutine-relay":
		b.WriteString("ch = make(chan interface, 1)\ngo func() {\n  try {\n" + ind(ind(body)) + "  } catch e {\n    ch <- e\n    return\n  }\n  ch <- \"no error\"\n}()\ngot = <-ch\nprintln(\"joined\")\nthrow got\n")
	case "goroutine-relay-waitgroup":
		b.WriteString("wg = make(sync.WaitGroup)\nres = [nil]\nwg.Add(1)\ngo func() {\n  defer wg.Done()\n  try {\n" + ind(ind(body)) + "  } catch e {\n    res[0] = e\n  }\n}()\nwg.Wait()\nprintln(\"joined\")\nif res[0] != nil {\n  throw res[0]\n}\nthrow T\n")
	case "func-arg":
		b.WriteString("func check(v) {\n  throw v\n}\n" + pre + "println(check(" + th.Expr + "))\n")
	case "for-in-func":
		b.WriteString("func each(xs) {\n  for x in xs {\n    println(\"item\", x)\n    if x == 2 {\n" + ind(ind(ind(body))) + "    }\n  }\n}\neach([1, 2, 3])\n")
	case "ctl-caught":
		b.WriteString("try {\n" + ind(body) + "} catch e {\n  println(\"caught [\" + toString(e) + \"]\")\n}\nprintln(\"fine\")\n")
	case "ctl-goroutine-dropped":
		b.WriteString("done = make(chan int)\ngo func() {\n  defer func() {\n    done <- 1\n  }()\n" + ind(body) + "}()\n<-done\nprintln(\"joined\")\n")
	case "ctl-last-value":
		b.WriteString("println(\"about to end\")\n" + pre + th.Expr + "\n")
	case "ctl-returned-value":
		b.WriteString("func f() {\n" + ind(pre) + "  return " + th.Expr + "\n}\nv = f()\nprintln(\"got a value\")\nv\n")
	case "ctl-printed-only":
		b.WriteString(pre + "println(\"Execute error:\", " + th.Expr + ")\n")
	}
	k := c18R9Script{c18Script: c18Script{Src: b.String(), Feats: feats}}
	if r.Intn(3) == 0 {
		k.Args = []string{"x", "y z"}
	}
	return k
}

var c18FixedErrShapes = []c18Fixed{
	{Name: "throw-empty-string", Src: "throw \"\"\n"},
	{Name: "throw-empty-string-after-output", Src: "println(\"working\")\nthrow(\"\")\n"},
	{Name: "throw-empty-error-value", Src: "errors = import(\"errors\")\nprintln(\"a\")\nthrow errors.New(\"\")\n"},
	{Name: "throw-empty-from-function", Src: "func check(n) {\n  if n > 1 {\n    throw \"\"\n  }\n  return n\n}\nprintln(check(1))\nprintln(check(2))\nprintln(\"never\")\n"},
	{Name: "throw-empty-errorf", Src: "fmt = import(\"fmt\")\nthrow fmt.Errorf(\"\")\n"},
	{Name: "throw-space", Src: "println(\"a\")\nthrow \" \"\n"},
	{Name: "throw-newline-only", Src: "throw \"\\n\"\n"},
	{Name: "throw-tabs-and-newlines", Src: "print(\"partial \")\nthrow \"\\t\\n \\n\"\n"},
	{Name: "throw-nil", Src: "println(\"a\")\nthrow nil\n"},
	{Name: "throw-zero", Src: "throw 0\n"},
	{Name: "throw-false", Src: "throw false\n"},
	{Name: "throw-empty-list", Src: "throw []\n"},
	{Name: "throw-empty-map", Src: "throw {}\n"},
	{Name: "throw-own-diagnostic-text", Src: "println(\"Execute error: x\")\nthrow \"Execute error: x\"\n"},
	{Name: "print-diagnostic-lookalike-and-succeed", Src: "println(\"Execute error: not an error\")\n"},
	{Name: "empty-caught", Src: "try {\n  throw \"\"\n} catch e {\n  println(\"caught [\" + toString(e) + \"]\")\n}\nprintln(\"fine\")\n"},
	{Name: "empty-dropped-in-goroutine", Src: "done = make(chan int)\ngo func() {\n  defer func() {\n    done <- 1\n  }()\n  throw \"\"\n}()\n<-done\nprintln(\"joined\")\n"},
	{Name: "empty-from-deferred", Src: "func f() {\n  defer func() {\n    throw \"\"\n  }()\n  println(\"in f\")\n}\nf()\nprintln(\"after\")\n"},
	{Name: "empty-relayed-from-goroutine", Src: "ch = make(chan interface, 1)\ngo func() {\n  try {\n    throw \"\"\n  } catch e {\n    ch <- e\n  }\n}()\ne = <-ch\nprintln(\"joined\")\nthrow e\n"},
	{Name: "error-value-as-last-value", Src: "errors = import(\"errors\")\nprintln(\"a\")\nerrors.New(\"not thrown\")\n"},
	{Name: "empty-string-as-last-value", Src: "println(\"a\")\n\"\"\n"},
	{Name: "long-text", Src: "strings = import(\"strings\")\nprintln(\"a\")\nthrow strings.Repeat(\"x\", 70000)\n"},
	{Name: "long-text-of-lines", Src: "strings = import(\"strings\")\nthrow strings.Repeat(\"line\\n\", 5000)\n"},
	{Name: "not-utf8-text", Src: c18StrHelper + "s = c18str([255, 254, 99, 233])\nprintln(len(s))\nthrow s\n"},
	{Name: "nul-text", Src: c18StrHelper + "throw c18str([0])\n"},
	{Name: "not-utf8-error-value-from-function", Src: c18StrHelper + "errors = import(\"errors\")\nfunc f() {\n  throw errors.New(c18str([128, 128]))\n}\nprintln(\"a\")\nf()\n"},
	{Name: "parse-error-in-empty-looking-source", Src: " \n\t\n)\n"},
}

func c18RunErrShapes(x *c18Ctx, c *wk.Case) {
	if c.Index < len(c18FixedErrShapes) {
		fx := c18FixedErrShapes[c.Index]
		c.Tag("fixed:" + fx.Name)
		for i, as := range [][]string{nil, {"x", "y"}} {
			eForm := "e"
			if (c.Index+i)%3 == 2 {
				eForm = "e="
			}
			k := &c18R9Script{c18Script: c18Script{Src: fx.Src}, Args: as}
			x.run9(k, c18FileNames[(c.Index+i)%len(c18FileNames)], eForm)
		}
		return
	}
	r := c.Rng
	k := c18GenErrShape(r, c.Tier == "thorough")
	eForm := "e"
	if r.Intn(6) == 0 {
		eForm = "e="
	}
	x.run9(&k, c18FileNames[r.Intn(len(c18FileNames))], eForm)
}

// ---------------------------------------------------------------------------
// phase sigfd

type c18Provocation struct {
	Name string
	Pkgs []string
	Src  func(r *rand.Rand, n int) string // n: a number making the names of this snippet unique
}

var c18Provocations = []c18Provocation{
	{"pipe-reader-closed", []string{"os"}, func(r *rand.Rand, n int) string {
		w := fmt.Sprintf("r%d, w%d, _ = os.Pipe()\nr%d.Close()\n", n, n, n)
		k := 1 + r.Intn(3)
		for i := 0; i < k; i++ {
			switch r.Intn(3) {
			case 0:
				w += fmt.Sprintf("cnt, err = w%d.WriteString(\"x\")\nprintln(\"write on a pipe nobody reads:\", cnt, err)\n", n)
			case 1:
				w += fmt.Sprintf("cnt, err = w%d.Write(toByteSlice(\"some bytes\"))\nprintln(\"wrote\", cnt, err != nil)\n", n)
			default:
				w += fmt.Sprintf("w%d.WriteString(\"ignored\")\n", n)
			}
		}
		if r.Intn(2) == 0 {
			w += fmt.Sprintf("w%d.Close()\n", n)
		}
		return w
	}},
	{"pipe-reader-closed-in-function", []string{"os"}, func(r *rand.Rand, n int) string {
		return fmt.Sprintf("func send%d(text) {\n  r, w, _ = os.Pipe()\n  r.Close()\n  cnt, err = w.WriteString(text)\n  w.Close()\n  return err\n}\nprintln(\"send:\", send%d(\"hello\"))\n", n, n)
	}},
	{"pipe-reader-closed-in-goroutine", []string{"os"}, func(r *rand.Rand, n int) string {
		return fmt.Sprintf("r%d, w%d, _ = os.Pipe()\nr%d.Close()\nfin%d = make(chan int)\ngo func() {\n  for i = 0; i < 4; i++ {\n    w%d.WriteString(\"x\")\n  }\n  fin%d <- 1\n}()\n<-fin%d\nprintln(\"writer goroutine done\")\n", n, n, n, n, n, n, n)
	}},
	{"pipe-fully-used-then-closed", []string{"os", "io/ioutil"}, func(r *rand.Rand, n int) string {
		return fmt.Sprintf("r%d, w%d, _ = os.Pipe()\nw%d.WriteString(\"through the pipe\")\nw%d.Close()\ndata, _ = ioutil.ReadAll(r%d)\nprintln(toString(data))\nr%d.Close()\ncnt, err = w%d.WriteString(\"late\")\nprintln(cnt, err)\n", n, n, n, n, n, n, n)
	}},
	{"closed-file-write", []string{"os"}, func(r *rand.Rand, n int) string {
		return fmt.Sprintf("f%d, _ = os.Create(\"scratch-%d.txt\")\nf%d.WriteString(\"kept\")\nf%d.Close()\ncnt, err = f%d.WriteString(\"lost\")\nprintln(\"write on a closed file:\", cnt, err)\nprintln(\"second close:\", f%d.Close())\nos.Remove(\"scratch-%d.txt\")\n", n, n, n, n, n, n, n)
	}},
	{"read-only-file-write", []string{"os"}, func(r *rand.Rand, n int) string {
		return fmt.Sprintf("f%d, _ = os.Open(\"other.ank\")\ncnt, err = f%d.WriteString(\"x\")\nprintln(\"write on a read-only descriptor:\", cnt, err)\nf%d.Close()\n", n, n, n)
	}},
	{"never-open-descriptor", []string{"os"}, func(r *rand.Rand, n int) string {
		return fmt.Sprintf("f%d = os.NewFile(%d, \"nofd\")\ncnt, err = f%d.Write(toByteSlice(\"x\"))\nprintln(\"write on a descriptor never opened:\", cnt, err)\nprintln(f%d.Close())\n", n, 900+r.Intn(90), n, n)
	}},
	{"directory-read", []string{"os", "io/ioutil"}, func(r *rand.Rand, n int) string {
		return fmt.Sprintf("d%d, _ = os.Open(\"adir\")\ndata, err = ioutil.ReadAll(d%d)\nprintln(len(data), err)\nd%d.Close()\n", n, n, n)
	}},
	{"stdin-closed", []string{"os"}, func(r *rand.Rand, n int) string {
		return "os.Stdin.Close()\nprintln(\"stdin closed\")\n"
	}},
	{"connection-reset", []string{"net"}, func(r *rand.Rand, n int) string {
		return fmt.Sprintf("l%d, lerr = net.Listen(\"tcp\", \"127.0.0.1:0\")\nif lerr == nil {\n  cl, _ = net.Dial(\"tcp\", toString(l%d.Addr()))\n  sv, _ = l%d.Accept()\n  sv.Close()\n  for i = 0; i < 4; i++ {\n    cl.Write(toByteSlice(\"x\"))\n  }\n  cl.Close()\n  l%d.Close()\n}\nprintln(\"wrote to a connection the peer closed\")\n", n, n, n, n)
	}},
	{"signal-handled-and-sent-to-self", []string{"os", "os/signal"}, func(r *rand.Rand, n int) string {
		s := fmt.Sprintf("sig%d = make(chan os.Signal, 4)\nsignal.Notify(sig%d, os.Interrupt)\nself, _ = os.FindProcess(os.Getpid())\n", n, n)
		k := 1 + r.Intn(2)
		for i := 0; i < k; i++ {
			s += fmt.Sprintf("self.Signal(os.Interrupt)\nprintln(\"handled:\", <-sig%d)\n", n)
		}
		if r.Intn(2) == 0 {
			s += fmt.Sprintf("signal.Stop(sig%d)\n", n)
		}
		return s
	}},
	{"signal-handler-installed-unused", []string{"os", "os/signal"}, func(r *rand.Rand, n int) string {
		return fmt.Sprintf("sig%d = make(chan os.Signal, 1)\nsignal.Notify(sig%d, os.Interrupt)\nprintln(\"handler installed\")\nsignal.Stop(sig%d)\n", n, n, n)
	}},
	{"child-process", []string{"os/exec"}, func(r *rand.Rand, n int) string {
		return "out, err = exec.Command(\"/bin/sh\", \"-c\", \"echo from a child\").Output()\nprint(toString(out))\nprintln(err)\n"
	}},
	{"child-process-failing", []string{"os/exec"}, func(r *rand.Rand, n int) string {
		return fmt.Sprintf("err = exec.Command(\"/bin/sh\", \"-c\", \"exit %d\").Run()\nprintln(\"child:\", err)\n", 1+r.Intn(5))
	}},
	{"ignored-signals-from-a-child", []string{"os/exec"}, func(r *rand.Rand, n int) string {
		// signals whose default action is to be ignored, sent to the command by its child
		return "err = exec.Command(\"/bin/sh\", \"-c\", \"kill -WINCH $PPID; kill -CONT $PPID; kill -URG $PPID; kill -CHLD $PPID\").Run()\nprintln(\"signalled:\", err)\n"
	}},
	{"many-descriptors", []string{"os"}, func(r *rand.Rand, n int) string {
		k := 20 + r.Intn(40)
		return fmt.Sprintf("held%d = []\nfor i = 0; i < %d; i++ {\n  pr, pw, perr = os.Pipe()\n  if perr != nil {\n    println(\"pipe\", i, perr)\n    break\n  }\n  held%d += pr\n  held%d += pw\n}\nprintln(\"descriptors held:\", len(held%d))\nfor f in held%d {\n  f.Close()\n}\n", n, k, n, n, n, n)
	}},
	{"long-computation", nil, func(r *rand.Rand, n int) string {
		return fmt.Sprintf("busy%d = 0\nfor i = 0; i < %d; i++ {\n  busy%d += i %% 3\n}\nprintln(\"busy:\", busy%d)\n", n, 20000+r.Intn(30000), n, n)
	}},
	{"collector-run", []string{"runtime"}, func(r *rand.Rand, n int) string {
		return "runtime.GC()\nprintln(\"collected\")\n"
	}},
}

var c18ExitCodes = []int{0, 0, 1, 2, 3, 4, 5, 7, 10, 11, 12, 42, 77, 125, 255}

func c18PkgName(p string) string {
	if i := strings.LastIndex(p, "/"); i >= 0 {
		return p[i+1:]
	}
	return p
}

func c18GenSigFd(r *rand.Rand) c18R9Script {
	var feats []string
	pk := map[string]bool{"time": true}
	np := 1 + r.Intn(3)
	if r.Intn(3) == 0 {
		np = 1
	}
	var provs []c18Provocation
	for i := 0; i < np; i++ {
		p := c18Provocations[r.Intn(len(c18Provocations))]
		provs = append(provs, p)
		for _, q := range p.Pkgs {
			pk[q] = true
		}
		feats = append(feats, "provoke:"+p.Name)
	}
	exitAt, exitCode, exitForm := -1, 0, 0
	ending := "ends-ok"
	switch k := r.Intn(10); {
	case k < 2:
		ending = "script-exit"
		pk["os"] = true
		exitCode = c18ExitCodes[r.Intn(len(c18ExitCodes))]
		exitForm = r.Intn(5)
	case k < 4:
		ending = "ends-with-error"
	}
	feats = append(feats, "ending:"+ending)
	var b strings.Builder
	for _, p := range []string{"os", "os/signal", "os/exec", "io/ioutil", "net", "runtime", "time"} {
		if pk[p] {
			fmt.Fprintf(&b, "%s = import(%q)\n", c18PkgName(p), p)
		}
	}
	b.WriteString("println(\"start\")\n")
	for i, p := range provs {
		b.WriteString(p.Src(r, i+1))
	}
	lines := 12 + r.Intn(6)
	if ending == "script-exit" {
		exitAt = r.Intn(lines)
	}
	pause := r.Intn(3) // 0: none, 1: one pause, 2: a pause before every line
	feats = append(feats, "pauses:"+[]string{"none", "one", "every-line"}[pause])
	fill := []int{0, 50, 300, 1500}[r.Intn(4)]
	for j := 0; j < lines; j++ {
		if pause == 2 || (pause == 1 && j == 1) {
			fmt.Fprintf(&b, "time.Sleep(time.Millisecond * %d)\n", 1+r.Intn(2))
		}
		if fill > 0 {
			fmt.Fprintf(&b, "acc = 0\nfor i = 0; i < %d; i++ {\n  acc += i %% 7\n}\n", fill)
		} else {
			b.WriteString("acc = 0\n")
		}
		switch r.Intn(4) {
		case 0:
			fmt.Fprintf(&b, "printf(\"line %%d of %%d: %%d\\n\", %d, %d, acc)\n", j, lines)
		case 1:
			fmt.Fprintf(&b, "print(\"line %d \", acc, \"\\n\")\n", j)
		default:
			fmt.Fprintf(&b, "println(\"line\", %d, acc)\n", j)
		}
		if j == exitAt {
			switch exitForm {
			case 0:
				fmt.Fprintf(&b, "os.Exit(%d)\n", exitCode)
			case 1:
				fmt.Fprintf(&b, "func leave(code) {\n  println(\"leaving with\", code)\n  os.Exit(code)\n}\nleave(%d)\n", exitCode)
			case 2:
				fmt.Fprintf(&b, "func leave() {\n  defer os.Exit(%d)\n  println(\"leaving\")\n}\nleave()\n", exitCode)
			case 3:
				fmt.Fprintf(&b, "never = make(chan int)\ngo func() {\n  os.Exit(%d)\n}()\n<-never\n", exitCode)
			default:
				fmt.Fprintf(&b, "try {\n  os.Exit(%d)\n} catch e {\n  println(\"caught\", e)\n} finally {\n  println(\"finally\")\n}\n", exitCode)
			}
			feats = append(feats, "os.Exit-form:"+[]string{"top", "function", "deferred", "goroutine", "inside-try"}[exitForm])
		}
	}
	if ending == "ends-with-error" {
		b.WriteString([]string{"throw \"failed after all that\"\n", "throw \"\"\n", "x = undefinedName + 1\n", "import(\"no/such/package\")\n"}[r.Intn(4)])
	} else {
		b.WriteString("println(\"end\")\n")
	}
	k := c18R9Script{c18Script: c18Script{Src: b.String(), Feats: feats}}
	if r.Intn(4) == 0 {
		k.Args = []string{"a", "b"}
	}
	return k
}

var c18FixedSigFd = []c18Fixed{
	{Name: "write-on-pipe-nobody-reads", Src: "os = import(\"os\")\nr, w, err = os.Pipe()\nr.Close()\nn, err = w.WriteString(\"x\")\nprintln(\"write:\", n, err)\nfor j = 0; j < 12; j++ {\n  acc = 0\n  for i = 0; i < 400; i++ {\n    acc += i % 7\n  }\n  println(\"line\", j, acc)\n}\n"},
	{Name: "write-on-pipe-nobody-reads-then-pause", Src: "os = import(\"os\")\ntime = import(\"time\")\nr, w, err = os.Pipe()\nr.Close()\nw.WriteString(\"x\")\nfor j = 0; j < 12; j++ {\n  time.Sleep(time.Millisecond)\n  println(\"line\", j)\n}\n"},
	{Name: "handled-interrupt", Src: "os = import(\"os\")\nsignal = import(\"os/signal\")\ntime = import(\"time\")\nc = make(chan os.Signal, 1)\nsignal.Notify(c, os.Interrupt)\np, _ = os.FindProcess(os.Getpid())\np.Signal(os.Interrupt)\nprintln(\"got\", <-c)\nfor j = 0; j < 12; j++ {\n  time.Sleep(time.Millisecond)\n  println(\"line\", j)\n}\n"},
	{Name: "exit-3-after-output", Src: "os = import(\"os\")\nprintln(\"a\")\nprint(\"partial\")\nos.Exit(3)\nprintln(\"never\")\n"},
	{Name: "exit-0-after-output", Src: "os = import(\"os\")\nfor i = 0; i < 12; i++ {\n  println(\"line\", i)\n}\nos.Exit(0)\nthrow \"never\"\n"},
	{Name: "exit-4-without-error", Src: "os = import(\"os\")\nprintln(\"a\")\nos.Exit(4)\n"},
	{Name: "child-then-lines", Src: "exec = import(\"os/exec\")\nout, err = exec.Command(\"/bin/sh\", \"-c\", \"echo child\").Output()\nprint(toString(out))\nfor j = 0; j < 12; j++ {\n  println(\"line\", j)\n}\n"},
	{Name: "closed-file-then-error", Src: "os = import(\"os\")\nf, _ = os.Create(\"scratch.txt\")\nf.Close()\nn, err = f.WriteString(\"x\")\nprintln(n, err)\nos.Remove(\"scratch.txt\")\nfor j = 0; j < 12; j++ {\n  println(\"line\", j)\n}\nthrow err\n"},
}

func c18RunSigFd(x *c18Ctx, c *wk.Case) {
	if c.Index < len(c18FixedSigFd) {
		fx := c18FixedSigFd[c.Index]
		c.Tag("fixed:" + fx.Name)
		k := &c18R9Script{c18Script: c18Script{Src: fx.Src}}
		if c.Index%2 == 1 {
			k.Args = []string{"x", "y"}
		}
		x.run9(k, c18FileNames[c.Index%len(c18FileNames)], "e")
		return
	}
	r := c.Rng
	k := c18GenSigFd(r)
	eForm := "e"
	if r.Intn(6) == 0 {
		eForm = "e="
	}
	x.run9(&k, c18FileNames[r.Intn(len(c18FileNames))], eForm)
}

// ---------------------------------------------------------------------------
// phase overlap

// the ways a script can put a record on standard output
type c18Printer struct {
	Name  string
	Term  string // what follows the record: "\n" or nothing
	Tiny  bool   // the record is one letter naming the goroutine
	Stmt  string // statement printing the record; g, i, p (payload) and s (the whole record text) are in scope
	Pkgs  []string
	NeedS bool
}

var c18Printers = []c18Printer{
	{Name: "println", Term: "\n", Stmt: "println(s)", NeedS: true},
	{Name: "print-with-newline", Term: "\n", Stmt: "print(s + \"\\n\")", NeedS: true},
	{Name: "print-no-newline", Term: "", Stmt: "print(s)", NeedS: true},
	{Name: "print-operands", Term: "\n", Stmt: "print(\"<\", g, \":\", i, \":\", p, \">\\n\")"},
	{Name: "printf", Term: "\n", Stmt: "printf(\"<%d:%d:%s>\\n\", g, i, p)"},
	{Name: "printf-no-newline", Term: "", Stmt: "printf(\"<%d:%d:%s>\", g, i, p)"},
	{Name: "printf-v", Term: "\n", Stmt: "printf(\"%v\\n\", s)", NeedS: true},
	{Name: "fmt.Println", Term: "\n", Stmt: "fmt.Println(s)", Pkgs: []string{"fmt"}, NeedS: true},
	{Name: "fmt.Printf", Term: "\n", Stmt: "fmt.Printf(\"<%d:%d:%s>\\n\", g, i, p)", Pkgs: []string{"fmt"}},
	{Name: "fmt.Print-no-newline", Term: "", Stmt: "fmt.Print(s)", Pkgs: []string{"fmt"}, NeedS: true},
	{Name: "fmt.Fprintln-stdout", Term: "\n", Stmt: "fmt.Fprintln(os.Stdout, s)", Pkgs: []string{"fmt", "os"}, NeedS: true},
	{Name: "os.Stdout.WriteString", Term: "\n", Stmt: "os.Stdout.WriteString(s + \"\\n\")", Pkgs: []string{"os"}, NeedS: true},
	{Name: "println-and-fmt.Println-in-turn", Term: "\n", Stmt: "if i % 2 == 0 {\n      println(s)\n    } else {\n      fmt.Println(s)\n    }", Pkgs: []string{"fmt"}, NeedS: true},
	{Name: "print-and-os.Stdout.WriteString-in-turn", Term: "", Stmt: "if i % 2 == 0 {\n      print(s)\n    } else {\n      os.Stdout.WriteString(s)\n    }", Pkgs: []string{"os"}, NeedS: true},
	{Name: "println-one-letter", Term: "\n", Tiny: true, Stmt: "println(c)"},
	{Name: "print-one-letter", Term: "", Tiny: true, Stmt: "print(c)"},
}

// printers of the command itself come first; the PRNG prefers them
const c18OwnPrinters = 7

type c18Overlap struct {
	N       int   // goroutines
	K       []int // records per goroutine
	Printer []int // index into c18Printers per goroutine
	Lens    []int // payload lengths, chosen by (i*7+g) % len(Lens)
	Join    string
	MainToo bool // the last "goroutine" is the main script itself
	Fails   bool // the script throws after the join
	pad     string
}

const c18PadPeriod = 61

func c18Pad(n int) string {
	const unit = "abcdefghijklmnopqrstuvwxyzABCDEFGHIJKLMNOPQRSTUVWXYZ0123456789-_+=."
	var b strings.Builder
	for b.Len() < n {
		b.WriteString(unit)
	}
	return b.String()[:n]
}

func (s *c18Overlap) total() int {
	t := 0
	for _, k := range s.K {
		t += k
	}
	return t
}

func (s *c18Overlap) describe() map[string]interface{} {
	names := make([]string, s.N)
	for g := range names {
		names[g] = c18Printers[s.Printer[g]].Name
	}
	return map[string]interface{}{"goroutines": s.N, "records": s.K, "printers": names, "payload_lengths": s.Lens, "join": s.Join, "main_prints_too": s.MainToo, "throws_after_join": s.Fails}
}

func (s *c18Overlap) record(g, i int) string {
	p := c18Printers[s.Printer[g]]
	if p.Tiny {
		return string(rune('a'+g)) + p.Term
	}
	n := s.Lens[(i*7+g)%len(s.Lens)]
	o := (g*5 + i) % c18PadPeriod
	return "<" + strconv.Itoa(g) + ":" + strconv.Itoa(i) + ":" + s.pad[o:o+n] + ">" + p.Term
}

const c18OverlapFailText = "joined, then failed"

// verify: out must be BEGIN, then the records of all goroutines in some
// interleaving that keeps each goroutine's order, then END, then rest.
func (s *c18Overlap) verify(out, rest string) string {
	head := "BEGIN " + strconv.Itoa(s.N) + "\n"
	if !strings.HasPrefix(out, head) {
		return fmt.Sprintf("output does not start with %q: %q", head, c18Clip(out))
	}
	tail := "END\n" + rest
	p := len(head)
	next := make([]int, s.N)
	where := func(p int) string {
		lo, hi := p-120, p+200
		if lo < 0 {
			lo = 0
		}
		if hi > len(out) {
			hi = len(out)
		}
		return fmt.Sprintf("at byte %d of %d: ...%q | %q...", p, len(out), out[lo:p], out[p:hi])
	}
	for p < len(out) {
		b := out[p]
		g, i := -1, -1
		switch {
		case b == '<':
			q := p + 1
			num := func() int {
				v, st := 0, q
				for q < len(out) && out[q] >= '0' && out[q] <= '9' && q-st < 9 {
					v = v*10 + int(out[q]-'0')
					q++
				}
				if q == st || q >= len(out) || out[q] != ':' {
					return -1
				}
				q++
				return v
			}
			g = num()
			if g >= 0 {
				i = num()
			}
			if g < 0 || i < 0 || g >= s.N || c18Printers[s.Printer[g]].Tiny {
				return "torn record (no whole record starts here) " + where(p)
			}
		case b >= 'a' && int(b-'a') < s.N && c18Printers[s.Printer[int(b-'a')]].Tiny:
			g = int(b - 'a')
			i = next[g]
		case b == 'E':
			if out[p:] != tail {
				return "something else where a record or the end was expected " + where(p)
			}
			for g := range next {
				if next[g] != s.K[g] {
					return fmt.Sprintf("goroutine %d: %d of its %d records arrived before END (lost)", g, next[g], s.K[g])
				}
			}
			return ""
		default:
			return "torn record (no record starts here) " + where(p)
		}
		if i != next[g] {
			kind := "lost"
			if i < next[g] {
				kind = "duplicated"
			}
			return fmt.Sprintf("goroutine %d: record %d where its record %d was expected (%s) %s", g, i, next[g], kind, where(p))
		}
		if i >= s.K[g] {
			return fmt.Sprintf("goroutine %d: more than its %d records %s", g, s.K[g], where(p))
		}
		exp := s.record(g, i)
		if !strings.HasPrefix(out[p:], exp) {
			return fmt.Sprintf("torn record: goroutine %d record %d is %q (%d bytes) %s", g, i, c18Clip(exp), len(exp), where(p))
		}
		p += len(exp)
		next[g]++
	}
	return "output ends without END " + where(len(out))
}

func (s *c18Overlap) judge(lib c18Lib, cli c18Proc) (what, detail string) {
	wantExit, rest := 0, ""
	if lib.Class != "ok" {
		wantExit = 4
	}
	if cli.Exit != wantExit {
		what = fmt.Sprintf("exit=%d,want=%d", cli.Exit, wantExit)
		detail = fmt.Sprintf("library(%s) err=%q; CLI exit=%d, %d bytes of stdout ending %q, stderr=%q", lib.Class, c18Clip(lib.ErrText), cli.Exit, len(cli.Stdout), c18Tail(cli.Stdout), c18Clip(cli.Stderr))
		return
	}
	out := cli.Stdout
	if lib.Class != "ok" {
		// the diagnostic is the last line
		body := strings.TrimSuffix(out, "\n")
		j := strings.LastIndex(body, "\n")
		rest = out[j+1:]
		if !strings.HasSuffix(out, "\n") || !strings.Contains(rest, c18DiagEscape(lib.ErrText)) || strings.HasPrefix(rest, "END") {
			return "diagnostic-line-missing-after-concurrent-output", fmt.Sprintf("library err=%q; CLI stdout ends %q", c18Clip(lib.ErrText), c18Tail(out))
		}
	}
	if bad := s.verify(out, rest); bad != "" {
		return "concurrent-output-is-not-the-records-printed", bad
	}
	return "", ""
}

func c18Tail(s string) string {
	if len(s) > 300 {
		return s[len(s)-300:]
	}
	return s
}

// source of the script the description stands for
func (s *c18Overlap) source() string {
	var b strings.Builder
	pk := map[string]bool{}
	used := map[int]bool{}
	for _, pi := range s.Printer {
		used[pi] = true
		for _, q := range c18Printers[pi].Pkgs {
			pk[q] = true
		}
	}
	if s.Join == "waitgroup" {
		pk["sync"] = true
	}
	for _, p := range []string{"fmt", "os", "sync"} {
		if pk[p] {
			fmt.Fprintf(&b, "%s = import(%q)\n", p, p)
		}
	}
	fmt.Fprintf(&b, "pad = %q\n", s.pad)
	b.WriteString("lens = [")
	for i, n := range s.Lens {
		if i > 0 {
			b.WriteString(", ")
		}
		b.WriteString(strconv.Itoa(n))
	}
	b.WriteString("]\nletters = \"abcdefghijklmnopqrstuvwxyz\"\n")
	switch s.Join {
	case "channel":
		b.WriteString("done = make(chan int)\nfin = func(g) {\n  done <- g\n}\n")
	case "buffered-channel":
		fmt.Fprintf(&b, "done = make(chan int, %d)\nfin = func(g) {\n  done <- g\n}\n", s.N)
	default:
		b.WriteString("wg = make(sync.WaitGroup)\nfin = func(g) {\n  wg.Done()\n}\n")
	}
	for pi := range c18Printers {
		if !used[pi] {
			continue
		}
		p := c18Printers[pi]
		fmt.Fprintf(&b, "func w%d(g, k, fin) {\n", pi)
		if p.Tiny {
			b.WriteString("  c = letters[g:g+1]\n  for i = 0; i < k; i++ {\n    " + p.Stmt + "\n  }\n")
		} else {
			fmt.Fprintf(&b, "  for i = 0; i < k; i++ {\n    n = lens[(i * 7 + g) %% %d]\n    o = (g * 5 + i) %% %d\n    p = pad[o:o+n]\n", len(s.Lens), c18PadPeriod)
			if p.NeedS {
				b.WriteString("    s = \"<\" + toString(g) + \":\" + toString(i) + \":\" + p + \">\"\n")
			}
			b.WriteString("    " + p.Stmt + "\n  }\n")
		}
		b.WriteString("  fin(g)\n}\n")
	}
	fmt.Fprintf(&b, "println(\"BEGIN\", %d)\n", s.N)
	bg := s.N
	if s.MainToo {
		bg--
	}
	if s.Join == "waitgroup" {
		fmt.Fprintf(&b, "wg.Add(%d)\n", bg)
	}
	for g := 0; g < bg; g++ {
		fmt.Fprintf(&b, "go w%d(%d, %d, fin)\n", s.Printer[g], g, s.K[g])
	}
	if s.MainToo {
		fmt.Fprintf(&b, "w%d(%d, %d, func(g) {\n})\n", s.Printer[bg], bg, s.K[bg])
	}
	if s.Join == "waitgroup" {
		b.WriteString("wg.Wait()\n")
	} else {
		fmt.Fprintf(&b, "for j = 0; j < %d; j++ {\n  <-done\n}\n", bg)
	}
	b.WriteString("println(\"END\")\n")
	if s.Fails {
		fmt.Fprintf(&b, "throw %q\n", c18OverlapFailText)
	}
	return b.String()
}

func c18GenOverlap(r *rand.Rand, thorough bool, fixed int) c18R9Script {
	s := &c18Overlap{}
	// volume: goroutines x records
	s.N = 2 + r.Intn(15)
	totals := []int{200, 1000, 3000, 6000, 12000, 12000, 16000}
	maxBytes := 3 << 20
	if thorough {
		totals = []int{200, 1000, 4000, 12000, 16000, 24000, 32000}
		maxBytes = 12 << 20
	}
	total := totals[r.Intn(len(totals))]
	profile := r.Intn(6) // 0-2 short, 3-4 mixed, 5 long
	own := r.Intn(3) > 0 // only the command's own printers
	samePrinter := r.Intn(3) == 0
	switch fixed {
	case 1:
		s.N, total, profile, own, samePrinter = 8, 12000, 0, true, true
	case 2:
		s.N, total, profile, own, samePrinter = 16, 12000, 3, true, false
	case 3:
		s.N, total, profile, own, samePrinter = 4, 8000, 0, true, false
	case 4:
		s.N, total, profile, own, samePrinter = 6, 9000, 1, false, false
	}
	nl := 4 + r.Intn(13)
	s.Lens = make([]int, nl)
	for i := range s.Lens {
		switch {
		case profile <= 2:
			s.Lens[i] = r.Intn(48)
		case profile <= 4:
			s.Lens[i] = r.Intn(64)
			if r.Intn(5) == 0 {
				s.Lens[i] = 200 + r.Intn(1800)
			}
		default:
			s.Lens[i] = []int{0, 1, r.Intn(100), 1000 + r.Intn(3000), 4090 + r.Intn(12), 8192 - 16 - r.Intn(4000), 8192}[r.Intn(7)]
		}
	}
	if profile > 4 && r.Intn(2) == 0 {
		s.Lens[r.Intn(nl)] = 8192
	}
	sum := 0
	for _, n := range s.Lens {
		sum += n + 12
	}
	avg := sum / nl
	if total*avg > maxBytes {
		total = maxBytes / avg
	}
	if total < 2*s.N {
		total = 2 * s.N
	}
	s.pad = c18Pad(c18PadPeriod + 8192)
	per := total / s.N
	if per > 2000 {
		per = 2000
	}
	if per < 50 && !(profile > 4) {
		per = 50
	}
	s.K = make([]int, s.N)
	s.Printer = make([]int, s.N)
	first := -1
	for g := 0; g < s.N; g++ {
		s.K[g] = per
		if r.Intn(4) == 0 {
			s.K[g] = per/2 + r.Intn(per/2+1)
		}
		pi := r.Intn(len(c18Printers))
		if own {
			pi = r.Intn(c18OwnPrinters)
			if r.Intn(8) == 0 {
				pi = len(c18Printers) - 2 + r.Intn(2)
			}
		}
		if first < 0 {
			first = pi
		} else if samePrinter {
			pi = first
		}
		s.Printer[g] = pi
	}
	switch fixed {
	case 1:
		for g := range s.Printer {
			s.Printer[g] = 0
		}
	case 3:
		for g := range s.Printer {
			s.Printer[g] = []int{2, 5}[g%2]
		}
	}
	s.Join = []string{"channel", "buffered-channel", "waitgroup"}[r.Intn(3)]
	s.MainToo = r.Intn(4) == 0
	s.Fails = r.Intn(8) == 0
	feats := []string{"overlap:goroutines:" + strconv.Itoa(s.N), "overlap:join:" + s.Join, "overlap:lengths:" + []string{"short", "short", "short", "mixed", "mixed", "up-to-8KiB"}[profile]}
	seen := map[int]bool{}
	for _, pi := range s.Printer {
		if !seen[pi] {
			seen[pi] = true
			feats = append(feats, "overlap:printer:"+c18Printers[pi].Name)
		}
	}
	switch t := s.total(); {
	case t >= 10000:
		feats = append(feats, "overlap:records:10000+")
	case t >= 2000:
		feats = append(feats, "overlap:records:2000+")
	default:
		feats = append(feats, "overlap:records:<2000")
	}
	if s.MainToo {
		feats = append(feats, "overlap:main-prints-too")
	}
	if s.Fails {
		feats = append(feats, "overlap:throws-after-join")
	}
	return c18R9Script{c18Script: c18Script{Src: s.source(), Feats: feats}, Spec: s}
}

const c18FixedOverlap = 4

func c18RunOverlap(x *c18Ctx, c *wk.Case) {
	r := c.Rng
	fixed := 0
	if c.Index < c18FixedOverlap {
		fixed = c.Index + 1
	}
	k := c18GenOverlap(r, c.Tier == "thorough", fixed)
	x.run9(&k, c18FileNames[r.Intn(len(c18FileNames))], "e")
}

func init() { wk.RegisterChild("c18lib9", c18Lib9Child) }

// ---------------------------------------------------------------------------
// plan texts

const c18R9Rule = "phase err-shapes (c18_r9.go): hand-written scripts first (throw \"\", errors.New(\"\"), blank texts, nil / 0 / false / [] / {} thrown, the command's own diagnostic as a text, 70000 characters, 5000 lines, bytes that are not UTF-8, NUL; caught, dropped in a goroutine and merely-a-value controls), then PRNG scripts = text (empty, blank of every kind, one character, several lines, 300..20000 characters [thorough: 90000], not UTF-8, invisible characters, texts the command prints itself) x thrown value (the text, errors.New / fmt.Errorf of it, Go errors that strconv / os / time / regexp / encoding/json return for it, lists / maps / byte and rune slices holding it, nil, numbers, booleans, empty containers, an error value caught earlier) x place (top level, function, 2-5 nested calls, closure, module function, deferred function with and without an earlier error, loop iteration, if / switch branch, try-finally, rethrown from catch, thrown in catch or finally, thrown in a goroutine / caught there / handed to the main script through a channel or a WaitGroup-guarded slot and thrown again; controls: caught and printed, dropped inside a goroutine that is joined, value of the last statement, returned value, printed behind 'Execute error:') after 0-5 printed lines (some looking like diagnostics), sometimes 2000-6000 more, and possibly a partial line. " +
	"phase sigfd: hand-written scripts first, then PRNG scripts that do 1-3 of: write on an os.Pipe whose read end is closed (top level, function, goroutine, after a full use), write on a closed / read-only / never-opened descriptor, read a directory, close standard input, write to a loopback connection the peer closed, install an os/signal handler for os.Interrupt and send the signal to the own process (received through the channel), install and remove a handler, run a child process (succeeding, failing, one that sends the command WINCH / CONT / URG / CHLD), hold 40-120 descriptors at once, compute for 20000-50000 iterations, run the collector; then print 12-17 more lines with 0-1500 loop iterations and possibly a 1-2 ms time.Sleep before each; the script then ends, fails (throw, throw \"\", undefined name, unknown import) or calls os.Exit(0..255) at top level / in a function / deferred / in a goroutine / inside try-catch-finally. " +
	"phase overlap: 2-16 goroutines of one script (one of them possibly the main script) print 50-2000 records each at overlapping times - '<goroutine:sequence:payload>' with payloads of 0 bytes..8 KiB cut from a fixed pad, or a single letter - through println, print (with and without a line end, one operand or seven), printf (with and without a line end, %v) of the command and Println / Printf / Print / Fprintln(os.Stdout) of the bundled fmt and os.Stdout.WriteString, one printer per goroutine or two taken in turn (println / fmt.Println, print / os.Stdout.WriteString); joined through an unbuffered or buffered channel or a sync.WaitGroup; BEGIN before, END after, sometimes a throw after END. Judged from the description of the script, not from a byte comparison: standard output must be BEGIN, every record whole, exactly once, each goroutine's in its order, END (and the one diagnostic line); the same is demanded of the library driver's output first (otherwise not judged). An evaluation = one CLI run; events = records checked. Quick: up to 16000 records / 3 MB per script; thorough: 32000 / 12 MB. "

var c18R9Assumptions = []string{
	"phases err-shapes / sigfd / overlap: a deviation of the command is reported when it shows again in at least one of three further runs while a second library run repeats the first (class, exit status, output / conformance); signatures put the exit status first",
	"a script that calls os.Exit(n) of the bundled os package ends the process: the library driver reports that it never returned from vm.Execute (no status file), and the command must have written the same output and end with the same status n - the statement's exit codes describe runs that return from vm.Execute",
	"phase overlap: each call of a printer is one record and reaches standard output whole (as in the library driver, where print/println/printf are fmt's and one call is one write on the descriptor); the order between goroutines is free, the order within one goroutine is the order of its calls; goroutines not joined before the script ends are outside the domain (never generated)",
	"phase sigfd: scripts only print texts that do not depend on timing (results of writes on a reset connection are not printed); signals are only sent by the script to its own process after it installed a handler",
}
