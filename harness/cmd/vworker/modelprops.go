package main

// C04, C08, C09 — generated programs executed on the real interpreter; the
// recorded probe trace, result and error status are checked offline against
// the reference model (internal/refmodel), which is written from the property
// statements and enumerates the readings they leave open.

import (
	"fmt"
	"sort"
	"strconv"
	"strings"

	"verifharness/internal/ank"

	"verifharness/internal/fw"
	"verifharness/internal/gen"
	"verifharness/internal/realrun"
	"verifharness/internal/wk"
)

// directProg is a program judged by a direct oracle written from the statement
// (for constructs the reference model does not cover): either the multiset of its
// probe events is given, or a sibling program must produce exactly the same trace.
type directProg struct {
	name    string
	src     string
	want    []string // expected events as a multiset (nil: use sameAs)
	sameAs  string   // a sibling program whose trace must be identical
	wantErr string   // substring required in the error text of src ("" = no requirement)
	sig     string
	noCtx   bool // run with vm.Execute (a context that cannot be cancelled)
	ordered bool // want is the exact sequence, not a multiset
	// passes (round 9, modelprops_r9.go): the program records under the names given here ("rd c=...",
	// "rd s=...", ...); every pass must show the same multiset of records, and want (when given) is
	// that multiset with the pass name taken off
	passes []string
}

type modelProp struct {
	volume  []volScenario // round 8: volume / history scenarios (modelprops_r8.go)
	direct  []directProg
	id      string
	prof    gen.Profile
	rule    string
	nontriv func(feat map[string]int) bool
	fixed   [][]gen.Stmt
	genf    func(g *gen.G, c *wk.Case) []gen.Stmt
	nQuick  int
	nThor   int
}

func lit(i int64) gen.Expr { return &gen.IntLit{V: i} }

// fixed programs exercising the listed known finding deterministically
func tryControlFixed() [][]gen.Stmt {
	ret := []gen.Stmt{
		&gen.ExprStmt{X: &gen.FuncLit{Name: "f1", Body: []gen.Stmt{
			&gen.Try{Body: []gen.Stmt{&gen.Return{Exprs: []gen.Expr{lit(1)}}}, Catch: []gen.Stmt{&gen.ExprStmt{X: gen.P(1)}}},
			&gen.ExprStmt{X: gen.P(2)},
			&gen.Return{Exprs: []gen.Expr{lit(2)}}}}},
		&gen.ExprStmt{X: &gen.Call{Fn: "f1"}},
	}
	brk := []gen.Stmt{
		&gen.Assign{LHS: []gen.Expr{&gen.Name{N: "n1"}}, RHS: []gen.Expr{lit(0)}},
		&gen.Loop{Cond: &gen.Binary{Op: "<", L: &gen.Name{N: "n1"}, R: lit(2)}, Body: []gen.Stmt{
			&gen.ExprStmt{X: &gen.OpAssign{Target: &gen.Name{N: "n1"}, Op: "+"}},
			&gen.Try{Body: []gen.Stmt{&gen.Break{}}, Catch: []gen.Stmt{&gen.ExprStmt{X: gen.P(1)}}},
			&gen.ExprStmt{X: gen.P(2)}}},
		&gen.ExprStmt{X: gen.P(3)},
	}
	cont := []gen.Stmt{
		&gen.CFor{Init: &gen.Assign{LHS: []gen.Expr{&gen.Name{N: "n1"}}, RHS: []gen.Expr{lit(0)}},
			Cond: &gen.Binary{Op: "<", L: &gen.Name{N: "n1"}, R: lit(2)},
			Post: &gen.OpAssign{Target: &gen.Name{N: "n1"}, Op: "+"},
			Body: []gen.Stmt{
				&gen.Try{Body: []gen.Stmt{&gen.Continue{}}, Catch: []gen.Stmt{&gen.ExprStmt{X: gen.P(1)}}},
				&gen.ExprStmt{X: gen.P(2)}}},
		&gen.ExprStmt{X: gen.P(3)},
	}
	return [][]gen.Stmt{ret, brk, cont}
}

func hasAny(f map[string]int, names ...string) bool {
	for _, n := range names {
		if f[n] > 0 {
			return true
		}
	}
	return false
}

func registerModelProp(mp *modelProp) {
	wk.Register(&wk.Engine{
		ID: mp.id,
		Plan: func(tier string) fw.Plan {
			n := 32000
			if mp.nQuick > 0 {
				n = mp.nQuick
			}
			if tier == "thorough" {
				n = 1500000
				if mp.nThor > 0 {
					n = mp.nThor
				}
			}
			return fw.Plan{
				Level: "exploration",
				Rule:  mp.rule,
				Assumptions: []string{
					"the reference model (internal/refmodel) is the executable reading of the statement; readings the statement leaves open are enumerated as variants and any of them is accepted",
					"programs leaving the determined domain (model raises Unspec) are excluded, not judged",
				},
				Phases: append([]fw.Phase{{Name: "programs", Cases: n, Chunk: 250, TimeoutS: 900}}, r8Phases(mp, tier)...),
			}
		},
		Run: func(c *wk.Case) {
			if r8Run(c, mp) {
				return
			}
			if c.Index >= len(mp.fixed) && c.Index < len(mp.fixed)+len(mp.direct) {
				runDirect(c, mp, mp.direct[c.Index-len(mp.fixed)])
				return
			}
			var prog []gen.Stmt
			feat := map[string]int{}
			if c.Index < len(mp.fixed) {
				prog = mp.fixed[c.Index]
				feat["fixed"] = 1
			} else {
				g := gen.New(c.Rng, mp.prof)
				if mp.genf != nil {
					prog = mp.genf(g, c)
				} else {
					prog = g.Program(25 + c.Rng.Intn(80))
				}
				feat = g.Feat
			}
			src := gen.Source(prog)
			c.Begin(src)
			real := realrun.Run(src)
			v := realrun.Judge(prog, real)
			nontriv := c.Index < len(mp.fixed) || mp.nontriv(feat)
			c.Eval(src, nontriv && v.Kind != "excluded")
			c.Events(len(real.Trace) + len(real.GTrace))
			for f := range feat {
				c.Tag("feat:" + f)
			}
			c.Tag("verdict:" + v.Kind)
			input := map[string]interface{}{"source": src, "observed_trace": real.Trace, "observed_value": real.Value, "observed_error": real.ErrText}
			switch v.Kind {
			case "ok":
				c.Tag("variant:" + v.Variant)
				if c.WantSample() {
					c.Sample(map[string]interface{}{"source": src, "observed_trace": real.Trace, "value": real.Value, "error": real.Err, "matched_variant": v.Variant})
				}
			case "finding":
				c.Violation("finding:"+v.Finding, "explained only by the finding flag "+v.Finding+" (variant "+v.Variant+")", input)
			case "violation":
				sig := v.Sig
				if !strings.HasPrefix(sig, "panic:") {
					sig = mp.id + ":" + sig
				}
				c.Violation(sig, v.Detail, input)
			case "excluded":
				c.Excluded("model-unspec")
				c.Tag("unspec:" + v.Detail)
			case "inconclusive":
				c.Inconclusive("watchdog", v.Detail, input)
			}
		},
	})
}

func runDirect(c *wk.Case, mp *modelProp, d directProg) {
	c.Begin(d.src)
	c.Tag("direct:" + d.name)
	for rep := 0; rep < 6; rep++ {
		real := realrun.Run(d.src)
		if d.noCtx {
			real = realrun.RunNoCtx(d.src)
		}
		c.Eval("direct|"+d.name+"|"+d.src, true)
		c.Events(len(real.Trace))
		input := map[string]interface{}{"source": d.src, "observed_trace": real.Trace, "observed_error": real.ErrText}
		if real.Panicked {
			c.Violation(real.PanicSig, real.PanicVal, input)
			return
		}
		if real.TimedOut || real.Overflow {
			c.Inconclusive("watchdog", d.name, input)
			return
		}
		if d.wantErr != "" && !strings.Contains(real.ErrText, d.wantErr) {
			c.Violation(mp.id+":"+d.sig+":error", "the run ended with error "+strconv.Quote(real.ErrText)+", expected one containing "+strconv.Quote(d.wantErr), input)
			return
		}
		if len(d.passes) > 0 {
			if sig, msg := judgePasses(d, real.Trace, real.ErrText, input); sig != "" {
				c.Violation(mp.id+":"+d.sig+":"+sig, msg+" (run "+strconv.Itoa(rep+1)+")", input)
				return
			}
			c.Count("overlap_records", len(real.Trace))
			continue
		}
		want := d.want
		got := append([]string(nil), real.Trace...)
		if want == nil {
			ref := realrun.Run(d.sameAs)
			want = ref.Trace
			input["sibling_source"] = d.sameAs
			input["sibling_trace"] = ref.Trace
		} else {
			want = append([]string(nil), want...)
			if !d.ordered {
				sort.Strings(want)
				sort.Strings(got)
			}
		}
		if strings.Join(got, "\n") != strings.Join(want, "\n") {
			input["expected"] = want
			c.Violation(mp.id+":"+d.sig, "observed events differ from what the statement fixes for this program (run "+strconv.Itoa(rep+1)+")", input)
			return
		}
	}
}

// judgePasses compares the records of the passes of an overlap program (modelprops_r9.go).
func judgePasses(d directProg, trace []string, errText string, input map[string]interface{}) (sig, msg string) {
	delete(input, "observed_trace") // thousands of records: the witness names the differing ones
	if errText != "" {
		return "error", "the run ended with error " + strconv.Quote(errText)
	}
	by := map[string][]string{}
	for _, ev := range trace {
		ok := false
		for _, p := range d.passes {
			if strings.HasPrefix(ev, "rd "+p+"=") {
				by[p] = append(by[p], ev[len("rd "+p+"="):])
				ok = true
				break
			}
		}
		if !ok {
			return "stray-record", "a record under none of the pass names: " + clipS(ev, 300)
		}
	}
	diff := func(a, b []string) (onlyA, onlyB []string) {
		cnt := map[string]int{}
		for _, x := range a {
			cnt[x]++
		}
		for _, x := range b {
			cnt[x]--
		}
		for x, n := range cnt {
			for ; n > 0 && len(onlyA) < 6; n-- {
				onlyA = append(onlyA, clipS(x, 300))
			}
			for ; n < 0 && len(onlyB) < 6; n++ {
				onlyB = append(onlyB, clipS(x, 300))
			}
		}
		sort.Strings(onlyA)
		sort.Strings(onlyB)
		return
	}
	if d.want != nil {
		for _, p := range d.passes {
			if a, b := diff(by[p], d.want); len(a)+len(b) > 0 {
				input["pass"], input["records_not_expected"], input["expected_records_missing"] = p, a, b
				kind := "overlapping"
				if p == "s" {
					kind = "one-at-a-time"
				}
				return kind, "pass " + p + " (" + kind + " invocations) recorded something else than the statement fixes: " + strconv.Itoa(len(by[p])) + " records, " + strconv.Itoa(len(d.want)) + " expected"
			}
		}
		return "", ""
	}
	ref := by["s"]
	if len(ref) == 0 {
		return "no-records", "the one-at-a-time pass recorded nothing"
	}
	for _, p := range d.passes {
		if p == "s" {
			continue
		}
		if a, b := diff(by[p], ref); len(a)+len(b) > 0 {
			input["pass"], input["records_only_in_overlapping_pass"], input["records_only_in_one_at_a_time_pass"] = p, a, b
			return "overlapping", "pass " + p + " (goroutines of one run doing the same work at once) recorded something else than the same work done one after another"
		}
	}
	return "", ""
}

func clipS(s string, n int) string {
	if len(s) > n {
		return s[:n] + "..."
	}
	return s
}

// C08: for-in visits every map entry once, also when keys of different types print alike.
func c08Direct() []directProg {
	entries := [][2]interface{}{{int64(1), "int"}, {"1", "str"}, {int64(2), "two"}, {true, "bool"}, {"true", "strue"}, {1.5, "flt"}, {"1.5", "sflt"}, {"2", "stwo"}}
	var lits, want []string
	for _, e := range entries {
		lits = append(lits, ank.Render(e[0])[strings.Index(ank.Render(e[0]), "(")+1:len(ank.Render(e[0]))-1]+": "+strconv.Quote(e[1].(string)))
	}
	_ = lits
	src := "m = {1: \"int\", \"1\": \"str\", 2: \"two\", true: \"bool\", \"true\": \"strue\", 1.5: \"flt\", \"1.5\": \"sflt\", \"2\": \"stwo\"}\n" +
		"for k, v in m { rd(\"e\", [typeOf(k), v]) }\nfor k in m { rd(\"k\", typeOf(k)) }\nn = 0\nfor k, v in m { n++ }\nrd(\"n\", n)"
	for _, e := range entries {
		t := map[bool]string{true: "string", false: ""}[false]
		switch e[0].(type) {
		case int64:
			t = "int64"
		case string:
			t = "string"
		case bool:
			t = "bool"
		case float64:
			t = "float64"
		}
		want = append(want, "rd e="+ank.Render([]interface{}{t, e[1]}), "rd k="+ank.Render(t))
	}
	want = append(want, "rd n="+ank.Render(int64(len(entries))))
	progs := []directProg{{name: "forin-map-keys-that-print-alike", src: src, want: want, sig: "forin-map:entries-visited"}}
	// truthiness classes of condition values of host types: zero / non-zero numbers of every Go
	// number kind, empty / non-empty typed containers and strings - in if, else-if and loop conditions
	cond := func(name, mk string, kinds []string) directProg {
		var b strings.Builder
		var w []string
		for _, k := range kinds {
			for _, n := range []int64{0, 3} {
				t := int64(0)
				if n != 0 {
					t = 1
				}
				fmt.Fprintf(&b, "v = %s(%q, %d)\nif v { rd(\"if\", [%q, %d, 1]) } else { rd(\"if\", [%q, %d, 0]) }\n", mk, k, n, k, n, k, n)
				fmt.Fprintf(&b, "if false { rd(\"x\", 0) } else if v { rd(\"elif\", [%q, %d, 1]) } else { rd(\"elif\", [%q, %d, 0]) }\n", k, n, k, n)
				fmt.Fprintf(&b, "c = 0\nfor v { c++; break }\nrd(\"loop\", [%q, %d, c])\n", k, n)
				fmt.Fprintf(&b, "c = 0\nfor i = 0; %s(%q, %d) && i < 2; i++ { c++ }\nrd(\"cfor\", [%q, %d, c])\n", mk, k, n, k, n)
				w = append(w, "rd if="+ank.Render([]interface{}{k, n, t}), "rd elif="+ank.Render([]interface{}{k, n, t}),
					"rd loop="+ank.Render([]interface{}{k, n, t}), "rd cfor="+ank.Render([]interface{}{k, n, 2 * t}))
			}
		}
		return directProg{name: name, src: b.String(), want: w, sig: "truthiness:" + name}
	}
	progs = append(progs, cond("host-number-kinds", "hnum", realrun.HostNumKinds), cond("host-container-types", "hcont", realrun.HostContKinds))
	// break / continue act on the innermost enclosing loop of THEIR program only: a stray one in
	// a nested run that a Go function reports by panicking (what load() does) is an error of
	// the calling run, never a signal for the caller's loop
	for _, sig := range []string{"break", "continue"} {
		for li, loop := range []string{"for i = 0; i < 3; i++ { rd(\"i\", i); hrun(%q); rd(\"after\", i) }", "for i in [0, 1, 2] { rd(\"i\", i); hrun(%q); rd(\"after\", i) }",
			"i = 0\nfor { rd(\"i\", i); hrun(%q); rd(\"after\", i); i++; if i > 2 { break } }"} {
			progs = append(progs, directProg{name: "stray-" + sig + "-of-a-nested-run-" + strconv.Itoa(li), src: fmt.Sprintf(loop, sig) + "\nrd(\"end\", 1)",
				want: []string{"rd i=" + ank.Render(int64(0))}, wantErr: "unexpected " + sig + " statement", sig: "nested-run-signal"})
		}
	}
	return progs
}

// C09: every deferred call runs exactly once, in reverse order, with the arguments of its
// defer statement, when the invocation ends - also when what ends it is the cancellation
// of the context (only Go functions are deferred here: a script callee would be cut short).
func c09Direct() []directProg {
	mk := func(end string) string {
		return "func cf(q) {\n  defer h1(1)\n  defer hv(2, 3, 4)\n  for i = 0; i < 3; i++ {\n    defer h2(5, i + q)\n  }\n  if q > 0 {\n    defer h3(6, 7, 8)\n  }\n  p(9)\n  " + end + "\n  p(10)\n}\n" +
			"func outer() {\n  defer h2(11, 12)\n  defer h1(13)\n  cf(1)\n  p(14)\n}\ndefer h1(15)\ndefer hv(16, 17)\nouter()\np(18)"
	}
	top := func(end string) string {
		return "defer h1(1)\ndefer h2(2, 3)\nfor i = 0; i < 2; i++ {\n  defer hv(4, i)\n}\np(5)\n" + end + "\np(6)\ndefer h1(7)"
	}
	return []directProg{
		{name: "defers-after-cancel-in-nested-functions", src: mk("hcancel()"), sameAs: mk("throw \"X\""), wantErr: "execution interrupted", sig: "defers-after-cancel"},
		{name: "defers-after-cancel-at-top-level", src: top("hcancel()"), sameAs: top("throw \"X\""), wantErr: "execution interrupted", sig: "defers-after-cancel"},
	}
}

func init() {
	registerModelProp(&modelProp{
		id: "C07", prof: gen.ProfControl, nQuick: 30000, nThor: 3000000, direct: c07Overlap(),
		volume: []volScenario{{"hot-sites-0", c07HotSites(0)}, {"hot-sites-1", c07HotSites(1)}, {"hot-sites-2", c07HotSites(2)}, {"hot-sites-3", c07HotSites(3)}},
		fixed: [][]gen.Stmt{{
			&gen.ExprStmt{X: &gen.FuncLit{Name: "f0", Body: []gen.Stmt{&gen.Return{Exprs: []gen.Expr{&gen.Call{Fn: "hv", Args: []gen.Expr{lit(100)}}}}}}},
			&gen.ExprStmt{X: &gen.Call{Fn: "f0", Spread: true, Args: []gen.Expr{gen.P(1), &gen.ListLit{Elems: []gen.Expr{gen.P(2)}}}}},
			&gen.ExprStmt{X: gen.P(3)},
		}},
		genf:    func(g *gen.G, c *wk.Case) []gen.Stmt { return g.OrderProgram() },
		rule:    "PRNG-generated programs whose statements are expression forms with side-effecting probe leaves p(k)/pv(k,v)/pe(k): every call path (script functions of 0-7 parameters i.e. direct and reflect paths, variadic script functions, Go functions fixed/variadic with interface and typed parameters) x {plain, spread literal, spread variable} x {direct, go, defer, anonymous callee, member callee} x {right count, one too few, one too many} x {operands succeed, one fails, one has an unconvertible type}; list/map literals, all binary operators, index, 2- and 3-index slices, return lists, multi-var/assign, in, switch subject, len, op-assign on an indexed target; && || ?: ?? with every truthiness/nil/failing deciding operand. The recorded probe trace must equal the model's unique left-to-right exactly-once short-circuit trace (a call refused for its argument count may have evaluated any prefix of its operands, each at most once). Non-trivial = at least 3 probe events observed; distinct = distinct source text.",
		nontriv: func(f map[string]int) bool { return true },
	})
	exits := []string{"break", "continue", "return", "throw", "runtime-error"}
	registerModelProp(&modelProp{
		id: "C04", prof: gen.ProfScope, fixed: tryControlFixed(), direct: append(c04Direct(), c04Overlap()...),
		volume:  []volScenario{{"bigscope-a", c04BigScope}, {"bigscope-b", c04BigScope}, {"bigscope-c", c04BigScope}, {"bigscope-d", c04BigScope}, {"closures", c04Closures}, {"recursion", c04Recursion}, {"fresh-invocation", c04FreshInvocation}, {"hot-name", c04HotName}},
		rule:    "PRNG-generated terminating programs (scope profile: a 4-name pool assigned, var-declared and read back at every nesting level of if/else-if/else, the loop forms, for-in, switch, try/catch/finally, module, function literals, closures, recursion; every block left by every exit path) run on the real interpreter; the recorded read-back trace, result and error status must be admitted by a variant of the reference model. Non-trivial = the program contains at least one shadowing declaration and at least one non-normal exit (break/continue/return/throw/runtime error); distinct = distinct source text.",
		nontriv: func(f map[string]int) bool { return hasAny(f, "shadow") && hasAny(f, exits...) },
	})
	registerModelProp(&modelProp{
		id: "C08", prof: gen.ProfControl, fixed: tryControlFixed(), direct: append(append(c08Direct(), c08ReturnDirect()...), c08Overlap()...),
		volume: []volScenario{{"cond-stream-a", c08CondStream}, {"cond-stream-b", c08CondStream}, {"long-loops", c08LongLoops}, {"wide-branches", c08WideBranches}, {"switch-vs-eq", c08SwitchVsEq}},
		rule:   "PRNG-generated terminating programs (control profile: nested if/else-if/else, switch with multi-expression cases and default in any position, the three loop forms with probing conditions and post expressions, for-in over lists and maps, break/continue/return at every position, conditions from every truthiness class) run on the real interpreter; the recorded probe trace, result and error status must be admitted by a variant of the reference model. Non-trivial = contains a loop or switch and at least one of break/continue/return; distinct = distinct source text.",
		nontriv: func(f map[string]int) bool {
			return hasAny(f, "loop-forever", "loop-cond", "loop-cfor", "loop-forin-list", "loop-forin-map", "switch") && hasAny(f, "break", "continue", "return")
		},
	})
	registerModelProp(&modelProp{
		id: "C09", prof: gen.ProfError, fixed: tryControlFixed(), direct: append(append(c09Direct(), c09SentinelDirect()...), c09Overlap()...),
		volume: []volScenario{{"deep-defers-a", c09DeepDefers}, {"deep-defers-b", c09DeepDefers}, {"deep-defers-c", c09DeepDefers}, {"deep-defers-d", c09DeepDefers}, {"many-defers", c09ManyDefers}, {"try-stream", c09TryStream}},
		rule:   "PRNG-generated terminating programs (error profile: try/catch/finally nested in functions, 0-5 defer statements per invocation at top level, in branches and loops, deferred host functions, closures, variadic/spread callees, failing and throwing deferred callees, throw / runtime errors / return at every point) run on the real interpreter; the recorded probe trace (including every deferred call with the arguments it received), result and error status must be admitted by a variant of the reference model. Non-trivial = contains a try or a defer and at least one throw/runtime error/return; distinct = distinct source text.",
		nontriv: func(f map[string]int) bool {
			return hasAny(f, "try", "defer") && hasAny(f, "throw", "runtime-error", "return")
		},
	})
}
