package main

// C04, C08, C09 — generated programs executed on the real interpreter; the
// recorded probe trace, result and error status are checked offline against
// the reference model (internal/refmodel), which is written from the property
// statements and enumerates the readings they leave open.

import (
	"strings"

	"verifharness/internal/fw"
	"verifharness/internal/gen"
	"verifharness/internal/realrun"
	"verifharness/internal/wk"
)

type modelProp struct {
	id      string
	prof    gen.Profile
	rule    string
	nontriv func(feat map[string]int) bool
	fixed   [][]gen.Stmt
	genf    func(g *gen.G, c *wk.Case) []gen.Stmt
	nQuick  int
	nThor   int
}

func lit(i int64) gen.Expr { return &gen.IntLit{V: i} }

// fixed programs exercising the listed known finding deterministically
func tryControlFixed() [][]gen.Stmt {
	ret := []gen.Stmt{
		&gen.ExprStmt{X: &gen.FuncLit{Name: "f1", Body: []gen.Stmt{
			&gen.Try{Body: []gen.Stmt{&gen.Return{Exprs: []gen.Expr{lit(1)}}}, Catch: []gen.Stmt{&gen.ExprStmt{X: gen.P(1)}}},
			&gen.ExprStmt{X: gen.P(2)},
			&gen.Return{Exprs: []gen.Expr{lit(2)}}}}},
		&gen.ExprStmt{X: &gen.Call{Fn: "f1"}},
	}
	brk := []gen.Stmt{
		&gen.Assign{LHS: []gen.Expr{&gen.Name{N: "n1"}}, RHS: []gen.Expr{lit(0)}},
		&gen.Loop{Cond: &gen.Binary{Op: "<", L: &gen.Name{N: "n1"}, R: lit(2)}, Body: []gen.Stmt{
			&gen.ExprStmt{X: &gen.OpAssign{Target: &gen.Name{N: "n1"}, Op: "+"}},
			&gen.Try{Body: []gen.Stmt{&gen.Break{}}, Catch: []gen.Stmt{&gen.ExprStmt{X: gen.P(1)}}},
			&gen.ExprStmt{X: gen.P(2)}}},
		&gen.ExprStmt{X: gen.P(3)},
	}
	cont := []gen.Stmt{
		&gen.CFor{Init: &gen.Assign{LHS: []gen.Expr{&gen.Name{N: "n1"}}, RHS: []gen.Expr{lit(0)}},
			Cond: &gen.Binary{Op: "<", L: &gen.Name{N: "n1"}, R: lit(2)},
			Post: &gen.OpAssign{Target: &gen.Name{N: "n1"}, Op: "+"},
			Body: []gen.Stmt{
				&gen.Try{Body: []gen.Stmt{&gen.Continue{}}, Catch: []gen.Stmt{&gen.ExprStmt{X: gen.P(1)}}},
				&gen.ExprStmt{X: gen.P(2)}}},
		&gen.ExprStmt{X: gen.P(3)},
	}
	return [][]gen.Stmt{ret, brk, cont}
}

func hasAny(f map[string]int, names ...string) bool {
	for _, n := range names {
		if f[n] > 0 {
			return true
		}
	}
	return false
}

func registerModelProp(mp *modelProp) {
	wk.Register(&wk.Engine{
		ID: mp.id,
		Plan: func(tier string) fw.Plan {
			n := 8000
			if mp.nQuick > 0 {
				n = mp.nQuick
			}
			if tier == "thorough" {
				n = 1500000
				if mp.nThor > 0 {
					n = mp.nThor
				}
			}
			return fw.Plan{
				Level: "exploration",
				Rule:  mp.rule,
				Assumptions: []string{
					"the reference model (internal/refmodel) is the executable reading of the statement; readings the statement leaves open are enumerated as variants and any of them is accepted",
					"programs leaving the determined domain (model raises Unspec) are excluded, not judged",
				},
				Phases: []fw.Phase{{Name: "programs", Cases: n, Chunk: 250, TimeoutS: 900}},
			}
		},
		Run: func(c *wk.Case) {
			var prog []gen.Stmt
			feat := map[string]int{}
			if c.Index < len(mp.fixed) {
				prog = mp.fixed[c.Index]
				feat["fixed"] = 1
			} else {
				g := gen.New(c.Rng, mp.prof)
				if mp.genf != nil {
					prog = mp.genf(g, c)
				} else {
					prog = g.Program(25 + c.Rng.Intn(80))
				}
				feat = g.Feat
			}
			src := gen.Source(prog)
			c.Begin(src)
			real := realrun.Run(src)
			v := realrun.Judge(prog, real)
			nontriv := c.Index < len(mp.fixed) || mp.nontriv(feat)
			c.Eval(src, nontriv && v.Kind != "excluded")
			c.Events(len(real.Trace) + len(real.GTrace))
			for f := range feat {
				c.Tag("feat:" + f)
			}
			c.Tag("verdict:" + v.Kind)
			input := map[string]interface{}{"source": src, "observed_trace": real.Trace, "observed_value": real.Value, "observed_error": real.ErrText}
			switch v.Kind {
			case "ok":
				c.Tag("variant:" + v.Variant)
				if c.WantSample() {
					c.Sample(map[string]interface{}{"source": src, "observed_trace": real.Trace, "value": real.Value, "error": real.Err, "matched_variant": v.Variant})
				}
			case "finding":
				c.Violation("finding:"+v.Finding, "explained only by the finding flag "+v.Finding+" (variant "+v.Variant+")", input)
			case "violation":
				sig := v.Sig
				if !strings.HasPrefix(sig, "panic:") {
					sig = mp.id + ":" + sig
				}
				c.Violation(sig, v.Detail, input)
			case "excluded":
				c.Excluded("model-unspec")
				c.Tag("unspec:" + v.Detail)
			case "inconclusive":
				c.Inconclusive("watchdog", v.Detail, input)
			}
		},
	})
}

func init() {
	registerModelProp(&modelProp{
		id: "C07", prof: gen.ProfControl, nQuick: 30000, nThor: 3000000,
		fixed: [][]gen.Stmt{{
			&gen.ExprStmt{X: &gen.FuncLit{Name: "f0", Body: []gen.Stmt{&gen.Return{Exprs: []gen.Expr{&gen.Call{Fn: "hv", Args: []gen.Expr{lit(100)}}}}}}},
			&gen.ExprStmt{X: &gen.Call{Fn: "f0", Spread: true, Args: []gen.Expr{gen.P(1), &gen.ListLit{Elems: []gen.Expr{gen.P(2)}}}}},
			&gen.ExprStmt{X: gen.P(3)},
		}},
		genf:    func(g *gen.G, c *wk.Case) []gen.Stmt { return g.OrderProgram() },
		rule:    "PRNG-generated programs whose statements are expression forms with side-effecting probe leaves p(k)/pv(k,v)/pe(k): every call path (script functions of 0-7 parameters i.e. direct and reflect paths, variadic script functions, Go functions fixed/variadic with interface and typed parameters) x {plain, spread literal, spread variable} x {direct, go, defer, anonymous callee, member callee} x {right count, one too few, one too many} x {operands succeed, one fails, one has an unconvertible type}; list/map literals, all binary operators, index, 2- and 3-index slices, return lists, multi-var/assign, in, switch subject, len, op-assign on an indexed target; && || ?: ?? with every truthiness/nil/failing deciding operand. The recorded probe trace must equal the model's unique left-to-right exactly-once short-circuit trace (a call refused for its argument count may have evaluated any prefix of its operands, each at most once). Non-trivial = at least 3 probe events observed; distinct = distinct source text.",
		nontriv: func(f map[string]int) bool { return true },
	})
	exits := []string{"break", "continue", "return", "throw", "runtime-error"}
	registerModelProp(&modelProp{
		id: "C04", prof: gen.ProfScope, fixed: tryControlFixed(),
		rule:    "PRNG-generated terminating programs (scope profile: a 4-name pool assigned, var-declared and read back at every nesting level of if/else-if/else, the loop forms, for-in, switch, try/catch/finally, module, function literals, closures, recursion; every block left by every exit path) run on the real interpreter; the recorded read-back trace, result and error status must be admitted by a variant of the reference model. Non-trivial = the program contains at least one shadowing declaration and at least one non-normal exit (break/continue/return/throw/runtime error); distinct = distinct source text.",
		nontriv: func(f map[string]int) bool { return hasAny(f, "shadow") && hasAny(f, exits...) },
	})
	registerModelProp(&modelProp{
		id: "C08", prof: gen.ProfControl, fixed: tryControlFixed(),
		rule: "PRNG-generated terminating programs (control profile: nested if/else-if/else, switch with multi-expression cases and default in any position, the three loop forms with probing conditions and post expressions, for-in over lists and maps, break/continue/return at every position, conditions from every truthiness class) run on the real interpreter; the recorded probe trace, result and error status must be admitted by a variant of the reference model. Non-trivial = contains a loop or switch and at least one of break/continue/return; distinct = distinct source text.",
		nontriv: func(f map[string]int) bool {
			return hasAny(f, "loop-forever", "loop-cond", "loop-cfor", "loop-forin-list", "loop-forin-map", "switch") && hasAny(f, "break", "continue", "return")
		},
	})
	registerModelProp(&modelProp{
		id: "C09", prof: gen.ProfError, fixed: tryControlFixed(),
		rule: "PRNG-generated terminating programs (error profile: try/catch/finally nested in functions, 0-5 defer statements per invocation at top level, in branches and loops, deferred host functions, closures, variadic/spread callees, failing and throwing deferred callees, throw / runtime errors / return at every point) run on the real interpreter; the recorded probe trace (including every deferred call with the arguments it received), result and error status must be admitted by a variant of the reference model. Non-trivial = contains a try or a defer and at least one throw/runtime error/return; distinct = distinct source text.",
		nontriv: func(f map[string]int) bool {
			return hasAny(f, "try", "defer") && hasAny(f, "throw", "runtime-error", "return")
		},
	})
}
