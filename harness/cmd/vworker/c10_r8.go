package main

// C10, round 8 ("volume and history").
//
// The statement quantifies over ALL sequences of container operations and ALL index
// values; nothing in it depends on how many elements a container holds, how it was
// built, how often one index / slice / append node has been evaluated before, on which
// containers, or what the process did earlier. The older phases build containers of a
// handful of elements, run 10-40 operations per history, evaluate every node a few
// times and live in short worker processes. The three phases of this file keep the
// oracle of the engine - every operation is its own vm.Execute call, the Go model
// applies the same Go operation, and after EVERY operation every variable is fetched
// with env.Get and walked against the model (types, contents, len, cap, sharing of
// storage) - and move the workload:
//
//	sizes   containers of 255..257, 1023..1025, 4095..4097, 65535..65537 and 200000
//	        elements / bytes / entries, built every way a script can build them (one
//	        append at a time, stores at index len, make with len and with len and cap,
//	        range(), a literal, a two- and a three-index piece of a longer list, lists
//	        and typed slices handed in by the host, concatenation; strings as literals
//	        and host values with multi-byte characters at every alignment; untyped and
//	        typed maps filled by a loop), followed by a history biased to the ends and the
//	        generic thresholds: tiny pieces of huge sources and huge pieces, every
//	        combination of len == cap / spare capacity, stores through one alias read
//	        through all others, appends that do and do not reallocate, bulk deletes.
//	hot     ONE index / store / slice / append / delete / len / in node (a script
//	        function of the prelude called again and again, or the body of a loop)
//	        evaluated thousands of times on containers of changing type and size; the
//	        model is consulted at every evaluation (own vm.Execute call each, or a host
//	        probe called from the loop body).
//	stream  one case = one long history in ONE process: the fixed histories (absolute
//	        oracle) and a set of long-lived containers are asked again and again while
//	        thousands of pairwise distinct random histories stream through the process,
//	        at distances of exactly N-1, N, N+1 operations for N in 256, 1000, 1024,
//	        4096; environments are dropped or leaked (with a goroutine blocked in them),
//	        other histories run under live and cancellable contexts, runtime.GC() is
//	        forced in between.
//
// The walker of the older phases links live and model storage element by element
// through two hash maps; on 200000 elements after every operation that is not
// affordable. fastSlice / fastMap below assert the same relation by address RANGES
// (two slices overlap in the live process exactly where they overlap in the model).

import (
	"context"
	"fmt"
	"math"
	"reflect"
	"runtime"
	"strconv"
	"strings"

	"verifharness/internal/ank"
	"verifharness/internal/fw"
	"verifharness/internal/wk"
)

const c10R8Rule = " Round 8 (volume and history; the oracle of the older phases - own vm.Execute call per operation, every variable walked against the native Go model after every operation, storage sharing asserted through address ranges): " +
	"phase sizes: one case = one container of 255..257, 1023..1025, 4095..4097, 65535..65537 or 200000 elements (thorough: also PRNG-drawn sizes next to 256, 1000, 1024, 2048, 4096, 8192, 10000, 16384, 32768, 65536, 100000, 131072) built one of 19 ways (list grown by `+=` one element at a time / by stores at index len, make([]interface, n) filled by a loop, make([]int64, n, n+spare), range(n), a literal of n elements, a two-index and a three-index piece of a longer list, []interface{} with spare capacity and []int64 handed in by the host, `x + y` of two lists, make([]string, n), make([]float64, n); a string literal and a host string with 1- to 4-byte characters at every alignment; untyped maps with integer and with string keys and map[int64]string / map[string]int64 filled by a loop) followed by 60 (thorough 300) operations: slice expressions with two and three indices whose result is a tiny piece (0-3 elements, 1/32 and 1/33 of the source +-1) at the ends, in the middle and on the positions 255..257, 1023..1025, 4095..4097, 65535..65537, or all but 0-2 elements, heads and tails, with max == high (len == cap), max == cap and in between, bound to a name, evaluated for the result only, through a call; in-range stores through every name, through a slice expression `a[i:j][k] = v` and `a[i:j:m][k] = v`, through a call; stores at index len with and without spare capacity; `+=`, `= +`, `d = p + v`, append through a call with scalars, short lists and other pieces; reads on the same positions and just outside; `len`, `in` with the needle at a late position / absent; assignment between names; for strings byte reads, substrings, single-byte stores and appends; for maps reads / stores / deletes of present and missing keys through index, member, call and an alias, one bulk delete of six keys in seven by a script loop and one read of every key (present and deleted) by a loop whose every evaluation reports to a host probe; out-of-range and non-numeric variants of everything (an error that changes nothing). " +
	"phase hot: one node evaluated 300 + W times, W in 1, 2, 255..257, 999..1001, 1023..1025, 4095..4097: for the first W evaluations the container is the same (kind A), afterwards it is drawn from untyped lists with and without spare capacity, a piece of a list, []int64, []string, a 1025-element list, a string, an untyped and a typed map; (a) eleven script functions (x[i], x[i] = v, x[i:j], x[i:j:k], x += v, delete(x, k), len(x), v in x, m[k], m[k] = v, x[i:j][k] = v), every call its own vm.Execute with in-range, at-len, out-of-range and non-numeric operands, judged like any operation; (b) seven loop bodies run in ONE vm.Execute (read, store + read through another holder, two-index slice, three-index slice + store through the piece + read through the source, `x + v` with and without spare capacity, a list grown by `+=`, map store + read + delete + len), operands taken from host lists, every evaluation handed to a host probe that advances the Go model by the same step and compares (values, len, cap, storage), the number of probe calls must be the number of rounds, and the whole state is walked after the loop. " +
	"phase stream: one case is one process history of about 19000 operations in random histories of the generator of phase random (12 profiles, pairwise distinct by construction of the PRNG stream; every third under a cancellable context, every seventh environment kept alive with a goroutine blocked in it, the others dropped, runtime.GC() every 1500 operations) while the fixed histories of phase fixed (absolute oracle) and 12 further operations on one set of long-lived containers (lists sharing storage, maps, strings, built before the stream starts) are asked again after exactly N-1, N, N+1 streamed operations for N in 256, 1000, 1024, 4096 (thorough: 8192, 16384 too)."

var c10R8Assumptions = []string{
	"the number of elements of a container, the way it was built, the number of times a node has been evaluated, the containers it saw before and what the process executed earlier are not inputs of a container operation: the reference of a big, late or repeated operation is the same Go operation as for a small first one (phases sizes / hot / stream); Go leaves the capacity after a growing append, of a literal, of range() and of a concatenation open: adopted from the live object when the container is built and after growing appends, asserted everywhere else (make, slice expressions, appends within capacity)",
	"phases sizes / hot: sharing of storage is asserted through address ranges (two slice variables overlap in the live process exactly at the element offsets at which the model's overlap) instead of the element-by-element address bijection of the older phases - the same relation; inside loop bodies only operations the Go model accepts are generated (an error would end the loop; failing operands are asked one vm.Execute at a time); a missing key of a typed map read in a loop is nil or the zero value (as in the older phases); not generated: results beyond ~450000 elements, Go arrays and pointers to slices handed in by the host, iteration (C08)",
}

// ---------------------------------------------------------------------------
// plan and dispatch

func c10R8Phases(tier string) []fw.Phase {
	nStream, hotReps := 2, 2
	if tier == "thorough" {
		nStream, hotReps = 12, 14
	}
	return []fw.Phase{
		{Name: "sizes", Cases: len(c10R8SizeCases(tier)), Chunk: 6, TimeoutS: 1200, MemMB: 6144},
		{Name: "hot", Cases: hotReps * len(c10R8HotKinds), Chunk: 3, TimeoutS: 1200, MemMB: 6144},
		{Name: "stream", Cases: nStream, Chunk: 1, TimeoutS: 1800, MemMB: 6144},
	}
}

// c10R8Run runs a case of one of the round-8 phases; false when the phase is not one of them.
func c10R8Run(c *wk.Case) bool {
	switch c.Phase {
	case "sizes":
		c10R8Sizes(c)
	case "hot":
		c10R8Hot(c)
	case "stream":
		c10R8Stream(c)
	default:
		return false
	}
	return true
}

// c10R8Clip shortens a text for a log or a detail.
func c10R8Clip(s string, n int) string {
	if len(s) <= n {
		return s
	}
	return s[:n/2] + " ...(" + strconv.Itoa(len(s)) + " bytes)... " + s[len(s)-n/2:]
}

// ---------------------------------------------------------------------------
// the walker on address ranges

type c10R8Region struct{ l, m, n uintptr }

// linkRegion records that the live array [la, la+n) plays the role of the model array
// [ma, ma+n). Two arrays overlap on one side exactly when they overlap on the other, at
// the same offset.
func (c *c10Cmp) linkRegion(la, ma, n uintptr, path string) bool {
	for _, r := range c.regs {
		lo := la < r.l+r.n && r.l < la+n
		mo := ma < r.m+r.n && r.m < ma+n
		switch {
		case lo && !mo:
			return c.bad("alias-extra", path, "live storage is shared where the Go model has separate storage")
		case mo && !lo:
			return c.bad("alias-lost", path, "the Go model shares this storage with another slice, the live object does not")
		case lo && mo && la-r.l != ma-r.m:
			return c.bad("alias-shifted", path, "the live object shares other elements with another slice than the Go model does")
		}
	}
	c.regs = append(c.regs, c10R8Region{la, ma, n})
	return true
}

// c10R8Scalar: whether a is a scalar the fast paths judge, and whether b is the same scalar.
func c10R8Scalar(a, b interface{}) (scalar, eq bool) {
	switch x := a.(type) {
	case nil:
		return true, b == nil
	case int64:
		y, ok := b.(int64)
		return true, ok && x == y
	case string:
		y, ok := b.(string)
		return true, ok && x == y
	case float64:
		y, ok := b.(float64)
		return true, ok && math.Float64bits(x) == math.Float64bits(y)
	case bool:
		y, ok := b.(bool)
		return true, ok && x == y
	}
	return false, false
}

func (c *c10Cmp) fastSlice(l, m reflect.Value, path string) bool {
	if l.Cap() > 0 {
		key := [3]uintptr{l.Pointer(), m.Pointer(), uintptr(l.Len())}
		if c.seen[key] {
			return true // this pair of headers was walked under another name
		}
		c.seen[key] = true
		if !c.linkRegion(l.Pointer(), m.Pointer(), uintptr(l.Cap())*l.Type().Elem().Size(), path) {
			return false
		}
	}
	slow := func(k int) bool { return c.cmp(l.Index(k), m.Index(k), path+"["+strconv.Itoa(k)+"]") }
	if !l.CanInterface() || !m.CanInterface() {
		for k := 0; k < l.Len(); k++ {
			if !slow(k) {
				return false
			}
		}
		return true
	}
	switch ls := l.Interface().(type) {
	case []interface{}:
		ms := m.Interface().([]interface{})
		for k := range ls {
			if sc, eq := c10R8Scalar(ls[k], ms[k]); sc && eq {
				continue
			}
			if !slow(k) {
				return false
			}
		}
	case []int64:
		ms := m.Interface().([]int64)
		for k := range ls {
			if ls[k] != ms[k] {
				return slow(k)
			}
		}
	case []string:
		ms := m.Interface().([]string)
		for k := range ls {
			if ls[k] != ms[k] {
				return slow(k)
			}
		}
	case []float64:
		ms := m.Interface().([]float64)
		for k := range ls {
			if math.Float64bits(ls[k]) != math.Float64bits(ms[k]) {
				return slow(k)
			}
		}
	default:
		for k := 0; k < l.Len(); k++ {
			if !slow(k) {
				return false
			}
		}
	}
	return true
}

// fastMap compares the entries of the common map types natively (len and identity were
// handled by the caller); done is false for other map types.
func (c *c10Cmp) fastMap(l, m reflect.Value, path string) (done, ok bool) {
	if !l.CanInterface() || !m.CanInterface() {
		return false, false
	}
	missing := func(k interface{}) (bool, bool) {
		return true, c.bad("value-mismatch", path+"["+ank.Render(k)+"]", "key missing in the live map (len "+strconv.Itoa(l.Len())+")")
	}
	switch lm := l.Interface().(type) {
	case map[interface{}]interface{}:
		for k, mv := range m.Interface().(map[interface{}]interface{}) {
			lv, has := lm[k]
			if !has {
				return missing(k)
			}
			if sc, eq := c10R8Scalar(lv, mv); sc && eq {
				continue
			}
			if !c.cmp(reflect.ValueOf(lv), reflect.ValueOf(mv), path+"["+ank.Render(k)+"]") {
				return true, false
			}
		}
		return true, true
	case map[int64]string:
		for k, mv := range m.Interface().(map[int64]string) {
			lv, has := lm[k]
			if !has {
				return missing(k)
			}
			if lv != mv {
				return true, c.bad("value-mismatch", path+"["+ank.Render(k)+"]", "got "+ank.Render(lv)+", model "+ank.Render(mv))
			}
		}
		return true, true
	case map[string]int64:
		for k, mv := range m.Interface().(map[string]int64) {
			lv, has := lm[k]
			if !has {
				return missing(k)
			}
			if lv != mv {
				return true, c.bad("value-mismatch", path+"["+ank.Render(k)+"]", "got "+ank.Render(lv)+", model "+ank.Render(mv))
			}
		}
		return true, true
	}
	return false, false
}

// ---------------------------------------------------------------------------
// shared pieces

const c10R8Prelude = `func c10r8sl3(x, i, j, k) { return x[i:j:k] }
func c10r8len(x) { return len(x) }
func c10r8in(v, x) { return v in x }
func c10r8setsl(x, i, j, k, v) { x[i:j][k] = v }`

// c10R8Probe is the host function the loop bodies of this file report to.
type c10R8Probe struct {
	calls  int
	class  string
	fail   string
	expect func(call int, i int, v interface{}) (class, detail string)
}

func newC10R8Hist(c *wk.Case) (*c10Hist, *c10R8Probe) {
	h := newC10Hist(c)
	if h.dead {
		return h, nil
	}
	h.fast = true
	p := &c10R8Probe{}
	_ = h.env.Define("c10r8chk", func(i int64, v interface{}) {
		call := p.calls
		p.calls++
		if p.fail == "" && p.expect != nil {
			if cl, d := p.expect(call, int(i), v); cl != "" {
				p.class, p.fail = cl, fmt.Sprintf("evaluation %d (round %d of the loop): %s", call, i, d)
			}
		}
	})
	if o := ank.Exec(h.env, c10R8Prelude); o.Err != nil || o.Panicked {
		c.Inconclusive("prelude-failed", ank.ErrText(o.Err)+o.PanicVal, c10R8Prelude)
		h.dead = true
	}
	return h, p
}

// r8Loop executes one loop whose body reports every evaluation to the probe.
func (h *c10Hist) r8Loop(p *c10R8Probe, opk, ck, src string, calls int, expect func(call, i int, v interface{}) (string, string), after func()) bool {
	if h.dead {
		return false
	}
	p.calls, p.class, p.fail, p.expect = 0, "", "", expect
	op := &c10Op{src: src, opk: opk, ck: ck, pk: "loop", mut: true, commit: func(reflect.Value) {
		if after != nil {
			after()
		}
	}}
	ok := h.exec(op)
	p.expect = nil
	if !ok {
		return false
	}
	if p.fail != "" {
		h.viol(op, p.class, p.fail)
		return false
	}
	if p.calls != calls {
		h.viol(op, "evaluations-lost", fmt.Sprintf("%d of %d evaluations reached the probe", p.calls, calls))
		return false
	}
	h.c.Count("r8_loop_evaluations_judged", calls)
	return true
}

var c10R8Thresholds = []int{256, 1024, 4096, 65536}

// c10R8Pos draws a position in [0, n]: the ends, the generic thresholds and their
// neighbours, fractions of n, or anywhere.
func c10R8Pos(c *wk.Case, n int) int {
	if n <= 0 {
		return 0
	}
	var cand []int
	switch r := c.Rng.Intn(100); {
	case r < 30:
		for _, t := range c10R8Thresholds {
			for d := -1; d <= 1; d++ {
				if t+d <= n {
					cand = append(cand, t+d)
				}
			}
		}
		if len(cand) > 6 && c.Rng.Intn(2) == 0 {
			cand = cand[len(cand)-6:]
		}
	case r < 55:
		cand = []int{0, 1, 2, n - 2, n - 1, n, n - 3}
	case r < 70:
		cand = []int{n / 2, n / 32, n/32 + 1, n/32 - 1, n / 33, n - n/32, n - n/33, n / 31}
	}
	if len(cand) > 0 {
		if p := cand[c.Rng.Intn(len(cand))]; p >= 0 && p <= n {
			return p
		}
	}
	return c.Rng.Intn(n + 1)
}

func c10R8Min(a, b int) int {
	if a < b {
		return a
	}
	return b
}

// ---------------------------------------------------------------------------
// phase sizes

var c10R8SizeList = []int{255, 256, 257, 1023, 1024, 1025, 4095, 4096, 4097, 65535, 65536, 65537, 200000}
var c10R8SizeBases = []int{256, 1000, 1024, 2048, 4096, 8192, 10000, 16384, 32768, 65536, 100000, 131072}

var c10R8Builders = []string{
	"append1", "atlen", "make-fill", "make-cap", "range", "literal", "piece2", "piece3", "host-list-spare", "host-int64", "concat", "make-string-slice", "make-float-slice",
	"string-literal", "string-host-multibyte",
	"map-int-keys", "map-string-keys", "map-int64-string", "map-string-int64",
}

type c10R8SizeCase struct {
	n      int // 0: drawn from the case's PRNG around one of c10R8SizeBases
	b      string
	ops    int
	varied bool
}

func c10R8SizeCases(tier string) []c10R8SizeCase {
	var out []c10R8SizeCase
	ops := 60
	if tier == "thorough" {
		ops = 300
	}
	for _, b := range c10R8Builders {
		for _, n := range c10R8SizeList {
			if b == "literal" && n > 70000 && tier != "thorough" {
				continue
			}
			o := ops
			if n > 5000 && tier != "thorough" {
				o = 40
				if strings.HasPrefix(b, "map-") {
					o = 18 // every operation walks the whole map
					if n > 70000 && b != "map-int-keys" {
						continue
					}
				}
			}
			out = append(out, c10R8SizeCase{n: n, b: b, ops: o})
		}
	}
	if tier == "thorough" {
		for rep := 0; rep < 6; rep++ {
			for _, b := range c10R8Builders {
				out = append(out, c10R8SizeCase{b: b, ops: 300, varied: true})
			}
		}
	}
	return out
}

// c10R8Gen drives the history of one case of phase sizes.
type c10R8Gen struct {
	h      *c10Hist
	c      *wk.Case
	p      *c10R8Probe
	root   string
	pieces []string
	ctr    int64
	nIn    int
	keyStr bool // map keys are decimal strings
}

func (g *c10R8Gen) rn(n int) int { return g.c.Rng.Intn(n) }

func (g *c10R8Gen) vars() []string {
	out := []string{g.root}
	for _, p := range g.pieces {
		if g.h.vars[p] != nil {
			out = append(out, p)
		}
	}
	return out
}

func (g *c10R8Gen) pickVar() string {
	vs := g.vars()
	if g.rn(100) < 45 {
		return g.root
	}
	return vs[g.rn(len(vs))]
}

// val: a fresh value an element slot of type et holds without a lossy conversion.
func (g *c10R8Gen) val(et reflect.Type) c10Val {
	g.ctr++
	switch et.Kind() {
	case reflect.Int64:
		return c10Int(1000000 + g.ctr)
	case reflect.String:
		return c10Str("w" + strconv.FormatInt(g.ctr, 10))
	case reflect.Float64:
		return c10Float(float64(g.ctr) + 0.5)
	}
	switch g.rn(10) {
	case 0:
		return c10Str("w" + strconv.FormatInt(g.ctr, 10))
	case 1:
		return c10Float(float64(g.ctr) + 0.25)
	case 2:
		return c10Nil()
	case 3:
		return c10Bool(g.ctr%2 == 0)
	}
	return c10Int(1000000 + g.ctr)
}

func c10R8IP(n int) *c10Idx { x := c10IdxInt(int64(n), "r8"); return &x }

func (g *c10R8Gen) sliceOp() *c10Op {
	h := g.h
	v := g.pickVar()
	cont := h.mget(c10P(v))
	if !cont.IsValid() {
		return nil
	}
	isStr := cont.Kind() == reflect.String
	L := cont.Len()
	C := L
	if !isStr {
		C = cont.Cap()
	}
	var lo, hi, mx *c10Idx
	l, hh := 0, L
	switch g.rn(7) {
	case 0, 1: // a tiny piece somewhere
		l = c10R8Pos(g.c, L)
		ws := []int{0, 1, 2, 3, L / 32, L/32 + 1, L/32 - 1, L / 33, C / 32, C / 33, C/32 + 1}
		w := ws[g.rn(len(ws))]
		if w < 0 {
			w = 0
		}
		hh = c10R8Min(l+w, L)
		lo, hi = c10R8IP(l), c10R8IP(hh)
	case 2: // all but a few
		l = c10R8Min(g.rn(3), L)
		hh = L - g.rn(3)
		if hh < l {
			hh = l
		}
		lo, hi = c10R8IP(l), c10R8IP(hh)
	case 3: // head
		hh = c10R8Pos(g.c, L)
		hi = c10R8IP(hh)
	case 4: // tail (often a short one)
		l = c10R8Pos(g.c, L)
		if g.rn(2) == 0 {
			l = L - c10R8Min(L, g.rn(4))
		}
		lo = c10R8IP(l)
	case 5:
		l, hh = c10R8Pos(g.c, L), c10R8Pos(g.c, L)
		if l > hh {
			l, hh = hh, l
		}
		lo, hi = c10R8IP(l), c10R8IP(hh)
	case 6: // a piece of exactly 1/32 or 1/33 of the capacity, from the start or to the end
		w := []int{C / 32, C / 33, C/32 + 1, L / 32}[g.rn(4)]
		if w > L {
			w = L
		}
		if g.rn(2) == 0 {
			l, hh = 0, w
		} else {
			l, hh = L-w, L
		}
		lo, hi = c10R8IP(l), c10R8IP(hh)
	}
	if !isStr {
		switch g.rn(6) {
		case 0, 1:
			if hi == nil {
				hi = c10R8IP(hh)
			}
			mx = c10R8IP(hh) // len == cap
		case 2:
			if hi == nil {
				hi = c10R8IP(hh)
			}
			mx = c10R8IP(C)
		case 3:
			if hi == nil {
				hi = c10R8IP(hh)
			}
			mx = c10R8IP(hh + g.rn(C-hh+1))
		}
	}
	if g.rn(100) < 6 {
		// out of range
		switch g.rn(4) {
		case 0:
			hi = c10R8IP(C + 1 + g.rn(3))
		case 1:
			lo = c10R8IP(-1 - g.rn(2))
		case 2:
			lo, hi = c10R8IP(hh+1), c10R8IP(hh)
		case 3:
			if mx != nil {
				mx = c10R8IP(C + 1)
			} else {
				lo = c10R8IP(L + 1 + g.rn(2))
			}
		}
	}
	dst := ""
	if g.rn(100) < 75 {
		dst = g.pieces[g.rn(len(g.pieces))]
	}
	if mx == nil && lo != nil && hi != nil && g.rn(100) < 15 {
		return h.opSlice(dst, c10P(v), lo, hi, nil, true)
	}
	op := h.opSlice(dst, c10P(v), lo, hi, mx, false)
	if op != nil && mx != nil && lo != nil && hi != nil && g.rn(100) < 15 {
		// the same three-index expression inside a script function
		op.src = "c10r8sl3(" + v + ", " + lo.src + ", " + hi.src + ", " + mx.src + ")"
		if dst != "" {
			op.src = dst + " = " + op.src
		}
		op.opk = "call-" + op.opk
	}
	return op
}

// store3Op: `v[i:j:k][x] = val`, in range.
func (g *c10R8Gen) store3Op(v string, i, j, k, x int, val c10Val) *c10Op {
	cont := g.h.mget(c10P(v))
	cv, st, _ := c10Conv(val.v, cont.Type().Elem())
	if st != c10CvOK {
		return nil
	}
	op := &c10Op{src: fmt.Sprintf("%s[%d:%d:%d][%d] = %s", v, i, j, k, x, val.src), opk: "sliceexpr3-index-write", ck: c10Class(cont), pk: "sliceexpr", mut: true}
	op.commit = func(reflect.Value) { cont.Slice3(i, j, k).Index(x).Set(cv) }
	return op
}

func (g *c10R8Gen) window(L int) (i, j int) {
	i = c10R8Pos(g.c, L)
	j = c10R8Min(L, i+[]int{1, 2, 3, 5, L / 32, L/33 + 1}[g.rn(6)])
	if j < i {
		j = i
	}
	return
}

func (g *c10R8Gen) writeOp() *c10Op {
	h := g.h
	v := g.pickVar()
	cont := h.mget(c10P(v))
	if !cont.IsValid() {
		return nil
	}
	L := cont.Len()
	if cont.Kind() == reflect.String {
		val := c10Str(string(rune('a' + g.rn(26))))
		switch r := g.rn(100); {
		case r < 70 && L > 0:
			return h.opWrite(c10P(v), c10IdxInt(int64(c10R8Pos(g.c, L-1)), "r8"), val, false)
		case r < 88:
			return h.opWrite(c10P(v), c10IdxInt(int64(L), "len"), c10Str("q"+string(rune('a'+g.rn(26)))), false)
		}
		return h.opWrite(c10P(v), c10IdxInt(int64(L+1+g.rn(2)), "beyond"), val, false)
	}
	val := g.val(cont.Type().Elem())
	call := g.rn(100) < 15
	switch r := g.rn(100); {
	case r < 22 && L > 0:
		i, j := g.window(L)
		if j == i {
			return nil
		}
		return h.opWrite(c10Place{root: v, sel: 's', i: i, j: j}, c10IdxInt(int64(g.rn(j-i)), "r8"), val, false)
	case r < 40 && L > 0:
		i, j := g.window(L)
		if j == i {
			return nil
		}
		k := j
		if g.rn(3) == 0 {
			k = j + g.rn(cont.Cap()-j+1)
		}
		return g.store3Op(v, i, j, k, g.rn(j-i), val)
	case r < 80 && L > 0:
		return h.opWrite(c10P(v), c10IdxInt(int64(c10R8Pos(g.c, L-1)), "r8"), val, call)
	case r < 90:
		return h.opWrite(c10P(v), c10IdxInt(int64(L), "len"), val, call)
	case r < 96:
		return h.opWrite(c10P(v), c10IdxInt([]int64{int64(L + 1), -1, 1 << 40, int64(L + 2)}[g.rn(4)], "out"), val, call)
	}
	return h.opWrite(c10P(v), c10IdxBad(c10Str("x"), "string"), val, call)
}

func (g *c10R8Gen) readOp() *c10Op {
	h := g.h
	v := g.pickVar()
	cont := h.mget(c10P(v))
	if !cont.IsValid() {
		return nil
	}
	L := cont.Len()
	call := g.rn(100) < 20
	switch r := g.rn(100); {
	case r < 80 && L > 0:
		return h.opRead(c10P(v), c10IdxInt(int64(c10R8Pos(g.c, L-1)), "r8"), call)
	case r < 95:
		return h.opRead(c10P(v), c10IdxInt([]int64{int64(L), int64(L + 1), -1, 1 << 40}[g.rn(4)], "out"), call)
	}
	return h.opRead(c10P(v), c10IdxBad(c10Nil(), "nil"), call)
}

func (g *c10R8Gen) appendOp() *c10Op {
	h := g.h
	v := g.pickVar()
	cont := h.mget(c10P(v))
	if !cont.IsValid() {
		return nil
	}
	form := []string{"+=", "+=", "=+", "d=", "expr", "call"}[g.rn(6)]
	dst := g.pieces[g.rn(len(g.pieces))]
	if cont.Kind() == reflect.String {
		if form == "call" {
			form = "d="
		}
		return h.opAppend(form, dst, c10P(v), c10Str([]string{"x", "yz", "é", ""}[g.rn(4)]))
	}
	et := cont.Type().Elem()
	var rhs c10Val
	switch r := g.rn(100); {
	case r < 65:
		rhs = g.val(et)
	case r < 88:
		rhs = c10USlice(g.val(et), g.val(et), g.val(et))
		if g.rn(2) == 0 {
			rhs = c10USlice(g.val(et))
		}
	default:
		o := g.pieces[g.rn(len(g.pieces))]
		ov := h.mget(c10P(o))
		if !ov.IsValid() || ov.Kind() != reflect.Slice || ov.Len() > 5000 || ov.Type() != cont.Type() {
			return nil
		}
		rhs = c10Val{o, ov.Interface(), "var-" + c10Class(ov)}
	}
	if cont.Len() > 450000 {
		return nil
	}
	return h.opAppend(form, dst, c10P(v), rhs)
}

func (g *c10R8Gen) inOp() *c10Op {
	h := g.h
	v := g.pickVar()
	cont := h.mget(c10P(v))
	if !cont.IsValid() || cont.Kind() != reflect.Slice {
		return nil
	}
	if cont.Len() > 5000 {
		if g.nIn >= 3 {
			return nil
		}
		g.nIn++
	}
	needle := g.val(cont.Type().Elem()) // absent: values are fresh
	if cont.Len() > 0 && g.rn(3) > 0 {
		k := cont.Len() - 1 - g.rn(c10R8Min(cont.Len(), 3))
		if g.rn(2) == 0 {
			k = c10R8Pos(g.c, cont.Len()-1)
		}
		if nv, ok := c10ValOf(cont.Index(k).Interface()); ok {
			needle = nv
		}
	}
	return h.opIn(needle, c10P(v))
}

func (g *c10R8Gen) sliceStep() *c10Op {
	switch r := g.rn(100); {
	case r < 30:
		return g.sliceOp()
	case r < 58:
		return g.writeOp()
	case r < 70:
		return g.readOp()
	case r < 84:
		return g.appendOp()
	case r < 88:
		return g.h.opLen(c10P(g.pickVar()))
	case r < 92:
		return g.inOp()
	case r < 97:
		dst := g.pieces[g.rn(len(g.pieces))]
		src := g.pickVar()
		if dst == src {
			return nil
		}
		return g.h.opAssign(dst, c10P(src))
	}
	runtime.GC()
	g.c.Tag("r8:gc-between-operations")
	return nil
}

func (g *c10R8Gen) stringStep() *c10Op {
	switch r := g.rn(100); {
	case r < 35:
		return g.sliceOp()
	case r < 55:
		return g.writeOp()
	case r < 75:
		return g.readOp()
	case r < 88:
		return g.appendOp()
	case r < 94:
		return g.h.opLen(c10P(g.pickVar()))
	}
	dst := g.pieces[g.rn(len(g.pieces))]
	src := g.pickVar()
	if dst == src {
		return nil
	}
	return g.h.opAssign(dst, c10P(src))
}

func (g *c10R8Gen) key(k int) c10Val {
	if g.keyStr {
		return c10Str("k" + strconv.Itoa(k))
	}
	return c10Int(int64(k))
}

func (g *c10R8Gen) keySrc(i string) string {
	if g.keyStr {
		return `"k" + toString(` + i + `)`
	}
	return i
}

func (g *c10R8Gen) keyVal(k int) interface{} { return g.key(k).v }

func (g *c10R8Gen) mapStep(n int) *c10Op {
	h := g.h
	v := g.pickVar()
	cont := h.mget(c10P(v))
	if !cont.IsValid() || cont.Kind() != reflect.Map {
		return nil
	}
	k := c10R8Pos(g.c, n+2) - 1 // -1 .. n+1: present, deleted and never present keys
	key := g.key(k)
	call := g.rn(100) < 15
	member := g.keyStr && g.rn(100) < 25
	switch r := g.rn(100); {
	case r < 30:
		return h.opMapRead(c10P(v), key, member && !call, call)
	case r < 58:
		return h.opMapWrite(c10P(v), key, g.val(cont.Type().Elem()), member && !call, call)
	case r < 80:
		return h.opDelete(c10P(v), key, call)
	case r < 88:
		return h.opLen(c10P(v))
	case r < 94:
		return h.opAssign(g.pieces[0], c10P(g.root))
	case r < 97:
		// an unhashable key: read nil, write / delete an error
		bad := c10USlice(c10Int(1))
		switch g.rn(3) {
		case 0:
			return h.opMapRead(c10P(v), bad, false, false)
		case 1:
			return h.opMapWrite(c10P(v), bad, g.val(cont.Type().Elem()), false, false)
		}
		return h.opDelete(c10P(v), bad, false)
	}
	runtime.GC()
	return nil
}

// bulkDelete: a script loop deletes six keys in seven.
func (g *c10R8Gen) bulkDelete(n int) *c10Op {
	cont := g.h.mget(c10P(g.root))
	src := fmt.Sprintf("for i = 0; i < %d; i++ { if i %% 7 != 3 { delete(%s, %s) } }", n, g.root, g.keySrc("i"))
	op := &c10Op{src: src, opk: "bulk-delete", ck: c10Class(cont), pk: "loop", mut: true}
	op.commit = func(reflect.Value) {
		for i := 0; i < n; i++ {
			if i%7 != 3 {
				cont.SetMapIndex(reflect.ValueOf(g.keyVal(i)), reflect.Value{})
			}
		}
	}
	return op
}

// readAll: a script loop reads every key 0..n+2 and hands the value to the probe.
func (g *c10R8Gen) readAll(n int) bool {
	cont := g.h.mget(c10P(g.root))
	typed := cont.Type().Elem().Kind() != reflect.Interface
	src := fmt.Sprintf("for i = 0; i < %d; i++ { c10r8chk(i, %s[%s]) }", n+3, g.root, g.keySrc("i"))
	return g.h.r8Loop(g.p, "loop-map-read", c10Class(cont), src, n+3, func(_, i int, v interface{}) (string, string) {
		mv := cont.MapIndex(reflect.ValueOf(g.keyVal(i)))
		if !mv.IsValid() {
			if v == nil || (typed && v == reflect.Zero(cont.Type().Elem()).Interface()) {
				return "", ""
			}
			return "result-value-mismatch", fmt.Sprintf("key %v is not in the map, read %s", g.keyVal(i), ank.Render(v))
		}
		if v != mv.Interface() {
			return "result-value-mismatch", fmt.Sprintf("key %v: read %s, model %s", g.keyVal(i), ank.Render(v), ank.RenderValue(mv))
		}
		return "", ""
	}, nil)
}

// c10R8Build returns the operations that build the container of the case (the last one binds g.root).
func (g *c10R8Gen) build(b string, n int) []*c10Op {
	h := g.h
	N := strconv.Itoa(n)
	ints := func(k int) []interface{} {
		s := make([]interface{}, k)
		for i := range s {
			s[i] = int64(i)
		}
		return s
	}
	// bind name to model after adopting the live capacity where Go leaves it open
	mk := func(name, src, opk string, model reflect.Value, adopt bool, pre func()) *c10Op {
		return &c10Op{src: src, opk: "build-" + opk, ck: c10Class(model), pk: "var", mut: true, pre: pre, commit: func(reflect.Value) {
			if adopt && model.Kind() == reflect.Slice {
				if l := h.lget(c10P(name)); l.IsValid() && l.Kind() == reflect.Slice && l.Cap() > model.Len() {
					grown := reflect.MakeSlice(model.Type(), model.Len(), l.Cap())
					reflect.Copy(grown, model)
					model = grown
				}
			}
			h.bind(name, model)
		}}
	}
	switch b {
	case "append1":
		return []*c10Op{mk("a", "a = []\nfor i = 0; i < "+N+"; i++ { a += i }", b, reflect.ValueOf(ints(n)), true, nil)}
	case "atlen":
		return []*c10Op{mk("a", "a = []\nfor i = 0; i < "+N+"; i++ { a[i] = i }", b, reflect.ValueOf(ints(n)), true, nil)}
	case "make-fill":
		return []*c10Op{mk("a", "a = make([]interface, "+N+")\nfor i = 0; i < "+N+"; i++ { a[i] = i }", b, reflect.ValueOf(ints(n)), false, nil)}
	case "make-cap":
		spare := []int{1, 3, n / 2, n/32 + 1}[g.rn(4)]
		m := make([]int64, n, n+spare)
		return []*c10Op{mk("a", fmt.Sprintf("a = make([]int64, %d, %d)", n, n+spare), b, reflect.ValueOf(m), false, nil)}
	case "range":
		m := make([]int64, n)
		for i := range m {
			m[i] = int64(i)
		}
		return []*c10Op{mk("a", "a = range("+N+")", b, reflect.ValueOf(m), true, nil)}
	case "literal":
		var sb strings.Builder
		sb.WriteString("a = [")
		for i := 0; i < n; i++ {
			if i > 0 {
				sb.WriteString(", ")
			}
			sb.WriteString(strconv.Itoa(i))
		}
		sb.WriteString("]")
		return []*c10Op{mk("a", sb.String(), b, reflect.ValueOf(ints(n)), true, nil)}
	case "piece2", "piece3":
		off, extra := 7, 33
		big := ints(n + off + extra)
		first := mk("d", fmt.Sprintf("d = make([]interface, %d)\nfor i = 0; i < %d; i++ { d[i] = i }", len(big), len(big)), "make-fill", reflect.ValueOf(big), false, nil)
		g.pieces = append(g.pieces, "d")
		if b == "piece2" {
			return []*c10Op{first, mk("a", fmt.Sprintf("a = d[%d:%d]", off, off+n), b, reflect.ValueOf(big[off:off+n]), false, nil)}
		}
		return []*c10Op{first, mk("a", fmt.Sprintf("a = d[%d:%d:%d]", off, off+n, off+n), b, reflect.ValueOf(big[off:off+n:off+n]), false, nil)}
	case "host-list-spare":
		live, model := make([]interface{}, n, n+5), make([]interface{}, n, n+5)
		copy(live, ints(n))
		copy(model, ints(n))
		return []*c10Op{mk("a", "# host: env.Define(\"a\", make([]interface{}, "+N+", "+N+"+5)) filled with 0.."+N+"-1", b, reflect.ValueOf(model), false, func() { _ = h.env.Define("a", live) })}
	case "host-int64":
		live, model := make([]int64, n), make([]int64, n)
		for i := range live {
			live[i], model[i] = int64(i)*3, int64(i)*3
		}
		return []*c10Op{mk("a", "# host: env.Define(\"a\", []int64 of "+N+" elements 3*i)", b, reflect.ValueOf(model), false, func() { _ = h.env.Define("a", live) })}
	case "concat":
		k := n / 2
		x, y := ints(k), ints(n-k)
		first := mk("d", fmt.Sprintf("d = make([]interface, %d)\nfor i = 0; i < %d; i++ { d[i] = i }", k, k), "make-fill", reflect.ValueOf(x), false, nil)
		second := mk("e", fmt.Sprintf("e = make([]interface, %d)\nfor i = 0; i < %d; i++ { e[i] = i }", n-k, n-k), "make-fill", reflect.ValueOf(y), false, nil)
		g.pieces = append(g.pieces, "d", "e")
		return []*c10Op{first, second, mk("a", "a = d + e", b, reflect.ValueOf(append(append([]interface{}{}, x...), y...)), true, nil)}
	case "make-string-slice":
		m := make([]string, n)
		for i := 0; i < n; i += 3 {
			m[i] = "e"
		}
		return []*c10Op{mk("a", "a = make([]string, "+N+")\nfor i = 0; i < "+N+"; i += 3 { a[i] = \"e\" }", b, reflect.ValueOf(m), false, nil)}
	case "make-float-slice":
		return []*c10Op{mk("a", "a = make([]float64, "+N+")", b, reflect.ValueOf(make([]float64, n)), false, nil)}
	case "string-literal":
		var sb strings.Builder
		for i := 0; sb.Len() < n; i++ {
			sb.WriteString("abcdefghijklmnopqrstuvwxyz0123456789"[i%36 : i%36+1])
		}
		s := sb.String()
		return []*c10Op{mk("a", "a = "+strconv.Quote(s), b, reflect.ValueOf(s), false, nil)}
	case "string-host-multibyte":
		// 1- to 4-byte characters; the period of 10 bytes puts every character at every alignment of any power of two
		unit := "aé日😀"
		var sb strings.Builder
		for sb.Len()+len(unit) <= n {
			sb.WriteString(unit)
		}
		for sb.Len() < n {
			sb.WriteString("z")
		}
		s := sb.String()
		return []*c10Op{mk("a", "# host: env.Define(\"a\", \"aé日😀\" repeated to "+N+" bytes)", b, reflect.ValueOf(s), false, func() { _ = h.env.Define("a", s) })}
	case "map-int-keys", "map-string-keys":
		g.keyStr = b == "map-string-keys"
		m := map[interface{}]interface{}{}
		for i := 0; i < n; i++ {
			m[g.keyVal(i)] = int64(i) * 3
		}
		return []*c10Op{mk("a", fmt.Sprintf("a = {}\nfor i = 0; i < %d; i++ { a[%s] = i * 3 }", n, g.keySrc("i")), b, reflect.ValueOf(m), false, nil)}
	case "map-int64-string":
		m := map[int64]string{}
		for i := 0; i < n; i++ {
			m[int64(i)] = "v" + strconv.Itoa(i)
		}
		return []*c10Op{mk("a", fmt.Sprintf("a = make(map[int64]string)\nfor i = 0; i < %d; i++ { a[i] = \"v\" + toString(i) }", n), b, reflect.ValueOf(m), false, nil)}
	case "map-string-int64":
		g.keyStr = true
		m := map[string]int64{}
		for i := 0; i < n; i++ {
			m["k"+strconv.Itoa(i)] = int64(i)
		}
		return []*c10Op{mk("a", fmt.Sprintf("a = make(map[string]int64)\nfor i = 0; i < %d; i++ { a[\"k\" + toString(i)] = i }", n), b, reflect.ValueOf(m), false, nil)}
	}
	return nil
}

func c10R8Sizes(c *wk.Case) {
	cases := c10R8SizeCases(c.Tier)
	sc := cases[c.Index%len(cases)]
	n := sc.n
	if sc.varied {
		n = c10R8SizeBases[c.Rng.Intn(len(c10R8SizeBases))] + c.Rng.Intn(5) - 2
	}
	h, p := newC10R8Hist(c)
	if h.dead {
		return
	}
	g := &c10R8Gen{h: h, c: c, p: p, root: "a", pieces: []string{"b", "c"}}
	c.Tag("r8:builder:"+sc.b, fmt.Sprintf("reached:container_size=%d", n))
	for _, op := range g.build(sc.b, n) {
		if !h.exec(op) {
			h.finish()
			return
		}
	}
	isMap := strings.HasPrefix(sc.b, "map-")
	isStr := strings.HasPrefix(sc.b, "string-")
	bulkAt, readAt := -1, -1
	if isMap {
		bulkAt, readAt = sc.ops/3, sc.ops*2/3
	}
	for k, tries := 0, 0; k < sc.ops && tries < sc.ops*8 && !h.dead; tries++ {
		if k == bulkAt {
			bulkAt = -1
			if !h.exec(g.bulkDelete(n)) {
				break
			}
			if !g.readAll(n) {
				break
			}
		}
		if k == readAt {
			readAt = -1
			if !g.readAll(n) {
				break
			}
		}
		var op *c10Op
		switch {
		case isMap:
			op = g.mapStep(n)
		case isStr:
			op = g.stringStep()
		default:
			op = g.sliceStep()
		}
		if op == nil {
			continue
		}
		k++
		if !h.exec(op) {
			break
		}
	}
	c.Count("r8_sizes_histories", 1)
	h.finish()
}

// ---------------------------------------------------------------------------
// phase hot

var c10R8HotKinds = []string{
	"site-get", "site-set", "site-slice2", "site-slice3", "site-append", "site-delete", "site-len", "site-in", "site-map-get", "site-map-set", "site-set-through-slice",
	"loop-read", "loop-store", "loop-slice2", "loop-slice3-store", "loop-append-expr", "loop-grow", "loop-map",
}

var c10R8Warm = []int{1, 2, 255, 256, 257, 999, 1000, 1001, 1023, 1024, 1025, 4095, 4096, 4097}

// the containers of a hot case: name, and whether it is a slice / string / map
type c10R8Cont struct {
	name string
	kind byte // 'l' slice, 's' string, 'm' map
}

func c10R8HotSetup(h *c10Hist) bool {
	big := make([]interface{}, 1025)
	var sb strings.Builder
	sb.WriteString("c = [")
	for i := range big {
		big[i] = int64(i)
		if i > 0 {
			sb.WriteString(", ")
		}
		sb.WriteString(strconv.Itoa(i))
	}
	sb.WriteString("]")
	ops := []*c10Op{
		h.opInit("a", c10USlice(c10Int(10), c10Int(11), c10Str("s2"), c10Int(13), c10Float(1.5), c10Nil(), c10Int(16))),
		nil, // b = a[1:4]
		h.opInit("ts", c10I64Lit(1, 2, 3, 4, 5)),
		h.opInit("tl", c10Val{`[]string{"p", "q", "r", "s"}`, []string{"p", "q", "r", "s"}, "tlit"}),
		h.opInit("s", c10Str("hello, world")),
		h.opInit("m", c10Val{`{"k1": 1, "k2": "v", "k3": 2.5}`, map[interface{}]interface{}{"k1": int64(1), "k2": "v", "k3": 2.5}, "umap-lit"}),
		h.opInit("tm", c10Val{`map[string]int64{"k1": 1, "k2": 2}`, map[string]int64{"k1": 1, "k2": 2}, "tmap-lit"}),
	}
	for i, op := range ops {
		if i == 1 {
			op = h.opSlice("b", c10P("a"), c10R8IP(1), c10R8IP(4), nil, false)
		}
		if !h.exec(op) {
			return false
		}
	}
	// p0 starts where a starts and is shorter; s2 / ts2 have the length and type of s / ts and other content
	if !h.exec(h.opSlice("p0", c10P("a"), c10R8IP(0), c10R8IP(3), nil, false)) ||
		!h.exec(h.opInit("s2", c10Str("HELLO; WORLD"))) || !h.exec(h.opInit("ts2", c10I64Lit(-1, -2, -3, -4, -5))) {
		return false
	}
	// the literal's capacity is Go's business: adopt it
	lit := &c10Op{src: sb.String(), opk: "build-literal", ck: "untyped-slice", pk: "var", mut: true}
	lit.commit = func(reflect.Value) {
		m := reflect.ValueOf(big)
		if l := h.lget(c10P("c")); l.IsValid() && l.Kind() == reflect.Slice && l.Cap() > len(big) {
			g := reflect.MakeSlice(m.Type(), len(big), l.Cap())
			reflect.Copy(g, m)
			m = g
		}
		h.bind("c", m)
	}
	return h.exec(lit)
}

func c10R8Hot(c *wk.Case) {
	kind := c10R8HotKinds[c.Index%len(c10R8HotKinds)]
	h, p := newC10R8Hist(c)
	if h.dead {
		return
	}
	warm := c10R8Warm[c.Rng.Intn(len(c10R8Warm))]
	if c.Tier != "thorough" && c.Index/len(c10R8HotKinds) == 0 {
		warm = []int{1023, 1024, 1025}[c.Rng.Intn(3)]
	}
	total := warm + 300
	if c.Tier == "thorough" && strings.HasPrefix(kind, "loop-") && c.Index/len(c10R8HotKinds)%5 == 4 {
		total = 70000 // beyond 65536 evaluations of one node
		if c.Rng.Intn(2) == 0 {
			warm = 65535 + c.Rng.Intn(3)
		}
	}
	c.Tag("r8:hot:"+kind, fmt.Sprintf("reached:evaluations_of_one_node>=%d", total/100*100), fmt.Sprintf("r8:warm=%d", warm))
	if !c10R8HotSetup(h) {
		h.finish()
		return
	}
	if strings.HasPrefix(kind, "site-") {
		c10R8HotSite(c, h, kind, warm, total)
	} else {
		c10R8HotLoop(c, h, p, kind, warm, total)
	}
	c.Count("r8_hot_evaluations_of_one_node", total)
	h.finish()
}

var c10R8KeyPool = []string{"k1", "k2", "k3", "k4", "x y", "", "zz"}

func c10R8HotSite(c *wk.Case, h *c10Hist, kind string, warm, total int) {
	var names []string
	switch kind {
	case "site-get", "site-slice2", "site-len":
		names = []string{"a", "b", "ts", "tl", "c", "s", "p0", "s2", "ts2"}
	case "site-set", "site-slice3", "site-append", "site-in", "site-set-through-slice":
		names = []string{"a", "b", "ts", "tl", "c", "p0", "ts2"}
	default:
		names = []string{"m", "tm"}
	}
	if kind == "site-len" {
		names = append(names, "m", "tm")
	}
	warmName := names[c.Rng.Intn(len(names))]
	g := &c10R8Gen{h: h, c: c, root: "a", pieces: []string{"d"}}
	rn := c.Rng.Intn
	idx := func(L int) c10Idx {
		switch r := rn(100); {
		case r < 78 && L > 0:
			return c10IdxInt(int64(rn(L)), "in-range")
		case r < 86:
			return c10IdxInt(int64(L), "len")
		case r < 94:
			return c10IdxInt([]int64{int64(L + 1), -1, -2, 1 << 40}[rn(4)], "out")
		}
		return c10IdxBad(c10Str("x"), "string")
	}
	rebound := -1
	for e, tries := 0, 0; e < total && tries < total*6 && !h.dead; tries++ {
		if e%41 == 40 && e != rebound {
			// identity changes between evaluations: a name is bound to a fresh container of the same type
			rebound = e
			var op *c10Op
			switch rn(5) {
			case 0:
				op = h.opInit("ts", c10I64Lit(int64(e), int64(e+1), int64(e+2), int64(e+3), int64(e+4)))
			case 1:
				op = h.opInit("s", c10Str(fmt.Sprintf("hello%07d", e)))
			case 2:
				op = h.opInit("tl", c10Val{fmt.Sprintf(`[]string{"p%d", "q", "r", "s"}`, e), []string{"p" + strconv.Itoa(e), "q", "r", "s"}, "tlit"})
			case 3:
				op = h.opInit("m", c10Val{fmt.Sprintf(`{"k1": %d, "k2": "v", "k3": 2.5}`, e), map[interface{}]interface{}{"k1": int64(e), "k2": "v", "k3": 2.5}, "umap-lit"})
			case 4:
				op = h.opInit("tm", c10Val{fmt.Sprintf(`map[string]int64{"k1": %d, "k2": 2}`, e), map[string]int64{"k1": int64(e), "k2": 2}, "tmap-lit"})
			}
			if !h.exec(op) {
				return
			}
			runtime.GC()
		}
		name := warmName
		if e >= warm {
			name = names[rn(len(names))]
		}
		P := c10P(name)
		cont := h.mget(P)
		if !cont.IsValid() {
			break
		}
		L := cont.Len()
		var op *c10Op
		switch kind {
		case "site-get":
			op = h.opRead(P, idx(L), true)
		case "site-set":
			ix := idx(L)
			if name == "c" && ix.tag == "len" && L > 3000 {
				continue
			}
			op = h.opWrite(P, ix, g.val(cont.Type().Elem()), true)
		case "site-slice2", "site-slice3":
			lo, hi := rn(L+1), rn(L+1)
			if lo > hi && rn(10) > 0 {
				lo, hi = hi, lo
			}
			dst := ""
			if rn(3) == 0 {
				dst = "d"
			}
			if kind == "site-slice2" {
				if rn(12) == 0 {
					hi = L + 1 + cont.Len() // beyond the capacity of every container here? no: beyond len+len >= cap only for full ones
					if cont.Kind() == reflect.Slice {
						hi = cont.Cap() + 1
					}
				}
				op = h.opSlice(dst, P, c10R8IP(lo), c10R8IP(hi), nil, true)
				break
			}
			mx := hi + rn(cont.Cap()-c10R8Min(hi, cont.Cap())+1)
			if rn(3) == 0 {
				mx = hi
			}
			if rn(12) == 0 {
				mx = cont.Cap() + 1
			}
			op = h.opSlice(dst, P, c10R8IP(lo), c10R8IP(hi), c10R8IP(mx), false)
			if op != nil {
				op.src = fmt.Sprintf("c10r8sl3(%s, %d, %d, %d)", name, lo, hi, mx)
				if dst != "" {
					op.src = dst + " = " + op.src
				}
				op.opk = "call-" + op.opk
			}
		case "site-append":
			if name == "c" && L > 3000 {
				continue
			}
			et := cont.Type().Elem()
			rhs := g.val(et)
			if rn(4) == 0 {
				rhs = c10USlice(g.val(et), g.val(et))
			}
			op = h.opAppend("call", "d", P, rhs)
		case "site-len":
			op = h.opLen(P)
			if op != nil {
				op.src, op.opk = "c10r8len("+name+")", "call-len"
			}
		case "site-in":
			needle := g.val(cont.Type().Elem())
			if L > 0 && rn(2) == 0 {
				if nv, ok := c10ValOf(cont.Index(rn(L)).Interface()); ok {
					needle = nv
				}
			}
			op = h.opIn(needle, P)
			if op != nil {
				op.src, op.opk = "c10r8in("+needle.src+", "+name+")", "call-in"
			}
		case "site-set-through-slice":
			if L == 0 {
				continue
			}
			i := rn(L)
			j := i + 1 + rn(c10R8Min(3, L-i))
			ix := c10IdxInt(int64(rn(j-i)), "in-range")
			if rn(8) == 0 {
				ix = c10IdxInt([]int64{int64(j - i + 1), -1}[rn(2)], "out")
			}
			val := g.val(cont.Type().Elem())
			op = h.opWrite(c10Place{root: name, sel: 's', i: i, j: j}, ix, val, false)
			if op != nil {
				op.src = fmt.Sprintf("c10r8setsl(%s, %d, %d, %s, %s)", name, i, j, ix.src, val.src)
				op.opk = "call-" + op.opk
			}
		case "site-delete", "site-map-get", "site-map-set":
			key := c10Str(c10R8KeyPool[rn(len(c10R8KeyPool))])
			if name == "m" && rn(4) == 0 {
				key = c10Int(int64(rn(5)))
			}
			if rn(20) == 0 {
				key = c10USlice(c10Int(1)) // unhashable
			}
			switch kind {
			case "site-delete":
				if e%3 == 1 {
					// put a key back (another node) so that deletes keep finding something
					if w := h.opMapWrite(P, c10Str(c10R8KeyPool[rn(4)]), g.val(cont.Type().Elem()), false, false); w != nil && !h.exec(w) {
						return
					}
				}
				op = h.opDelete(P, key, true)
			case "site-map-get":
				op = h.opMapRead(P, key, false, true)
			default:
				op = h.opMapWrite(P, key, g.val(cont.Type().Elem()), false, true)
			}
		}
		if op == nil {
			continue
		}
		e++
		if !h.exec(op) {
			return
		}
	}
}

// c10R8HotLoop: one loop body evaluated `total` times inside one vm.Execute; the host probe
// advances the model and judges every evaluation.
func c10R8HotLoop(c *wk.Case, h *c10Hist, p *c10R8Probe, kind string, warm, total int) {
	rn := c.Rng.Intn
	slices := []string{"a", "b", "ts", "tl", "c", "p0", "ts2"}
	conts := append([]string{}, slices...)
	if kind == "loop-read" || kind == "loop-slice2" {
		conts = append(conts, "s", "s2")
	}
	if kind == "loop-map" {
		conts = []string{"m", "tm"}
	}
	// cs: a list holding the containers (the model's list holds the model's headers / maps)
	var srcs []string
	mvals := make([]interface{}, 0, len(conts)) // a literal's len is its cap
	for _, n := range conts {
		srcs = append(srcs, n)
		mvals = append(mvals, h.mget(c10P(n)).Interface())
	}
	if !h.exec(h.opInit("cs", c10Val{"[" + strings.Join(srcs, ", ") + "]", mvals, "list-of-containers"})) {
		return
	}
	model := func(k int) reflect.Value { return h.mget(c10Place{root: "cs", sel: 'i', i: k}) }
	// a second holder of the live containers, made by the host
	al := make([]interface{}, len(conts))
	for k, n := range conts {
		al[k], _ = h.env.Get(n)
	}
	_ = h.env.Define("c10r8al", al)
	warmK := rn(len(conts))
	sel := make([]int64, total)
	for i := range sel {
		sel[i] = int64(warmK)
		if i >= warm {
			sel[i] = int64(rn(len(conts)))
		}
	}
	_ = h.env.Define("c10r8sel", sel)
	ctr := int64(0)
	valFor := func(et reflect.Type) interface{} {
		ctr++
		switch et.Kind() {
		case reflect.Int64:
			return 5000000 + ctr
		case reflect.String:
			return "h" + strconv.FormatInt(ctr, 10)
		}
		switch ctr % 5 {
		case 0:
			return "h" + strconv.FormatInt(ctr, 10)
		case 1:
			return float64(ctr) + 0.5
		}
		return 5000000 + ctr
	}
	conv := func(v interface{}, t reflect.Type) reflect.Value {
		cv, _, _ := c10Conv(v, t)
		return cv
	}
	cm0, ok := h.compareState()
	if !ok {
		return
	}
	judge := func(v interface{}, want reflect.Value) (string, string) {
		cc := cm0.clone()
		if cc.cmp(reflect.ValueOf(v), want, "result") {
			return "", ""
		}
		return "result-" + cc.fail, cc.detail
	}
	N := strconv.Itoa(total)
	switch kind {
	case "loop-read":
		ix := make([]int64, total)
		for i := range ix {
			ix[i] = int64(rn(model(int(sel[i])).Len()))
		}
		_ = h.env.Define("c10r8ix", ix)
		h.r8Loop(p, kind, "mixed", "for i = 0; i < "+N+"; i++ { c10r8chk(i, cs[c10r8sel[i]][c10r8ix[i]]) }", total, func(_, i int, v interface{}) (string, string) {
			m := model(int(sel[i]))
			if m.Kind() == reflect.String {
				return judge(v, reflect.ValueOf(m.String()[ix[i]:ix[i]+1]))
			}
			return judge(v, reflect.ValueOf(m.Index(int(ix[i])).Interface()))
		}, nil)
	case "loop-store":
		ix, vs := make([]int64, total), make([]interface{}, total)
		for i := range ix {
			m := model(int(sel[i]))
			ix[i], vs[i] = int64(rn(m.Len())), valFor(m.Type().Elem())
		}
		_ = h.env.Define("c10r8ix", ix)
		_ = h.env.Define("c10r8vs", vs)
		h.r8Loop(p, kind, "mixed", "for i = 0; i < "+N+"; i++ { cs[c10r8sel[i]][c10r8ix[i]] = c10r8vs[i]; c10r8chk(i, c10r8al[c10r8sel[i]][c10r8ix[i]]) }", total, func(_, i int, v interface{}) (string, string) {
			m := model(int(sel[i]))
			cv := conv(vs[i], m.Type().Elem())
			m.Index(int(ix[i])).Set(cv)
			return judge(v, reflect.ValueOf(cv.Interface()))
		}, nil)
	case "loop-slice2":
		lo, hi := make([]int64, total), make([]int64, total)
		for i := range lo {
			L := model(int(sel[i])).Len()
			a, b := rn(L+1), rn(L+1)
			if a > b {
				a, b = b, a
			}
			lo[i], hi[i] = int64(a), int64(b)
		}
		_ = h.env.Define("c10r8lo", lo)
		_ = h.env.Define("c10r8hi", hi)
		h.r8Loop(p, kind, "mixed", "for i = 0; i < "+N+"; i++ { c10r8chk(i, cs[c10r8sel[i]][c10r8lo[i]:c10r8hi[i]]) }", total, func(_, i int, v interface{}) (string, string) {
			m := model(int(sel[i]))
			if m.Kind() == reflect.String {
				return judge(v, reflect.ValueOf(m.String()[lo[i]:hi[i]]))
			}
			return judge(v, m.Slice(int(lo[i]), int(hi[i])))
		}, nil)
	case "loop-slice3-store":
		lo, hi, mx, vs := make([]int64, total), make([]int64, total), make([]int64, total), make([]interface{}, total)
		for i := range lo {
			m := model(int(sel[i]))
			L := m.Len()
			a := rn(L)
			b := a + 1 + rn(c10R8Min(L-a, 3))
			k := b
			if rn(3) == 0 {
				k = b + rn(m.Cap()-b+1)
			}
			lo[i], hi[i], mx[i], vs[i] = int64(a), int64(b), int64(k), valFor(m.Type().Elem())
		}
		_ = h.env.Define("c10r8lo", lo)
		_ = h.env.Define("c10r8hi", hi)
		_ = h.env.Define("c10r8mx", mx)
		_ = h.env.Define("c10r8vs", vs)
		h.r8Loop(p, kind, "mixed", "for i = 0; i < "+N+"; i++ { q = cs[c10r8sel[i]][c10r8lo[i]:c10r8hi[i]:c10r8mx[i]]; q[0] = c10r8vs[i]; c10r8chk(i, q); c10r8chk(i, c10r8al[c10r8sel[i]][c10r8lo[i]]) }", 2*total, func(call, i int, v interface{}) (string, string) {
			m := model(int(sel[i]))
			piece := m.Slice3(int(lo[i]), int(hi[i]), int(mx[i]))
			if call%2 == 0 {
				piece.Index(0).Set(conv(vs[i], m.Type().Elem()))
				return judge(v, piece)
			}
			return judge(v, reflect.ValueOf(piece.Index(0).Interface()))
		}, nil)
	case "loop-append-expr":
		vs := make([]interface{}, total)
		for i := range vs {
			vs[i] = valFor(model(int(sel[i])).Type().Elem())
		}
		_ = h.env.Define("c10r8vs", vs)
		h.r8Loop(p, kind, "mixed", "for i = 0; i < "+N+"; i++ { c10r8chk(i, cs[c10r8sel[i]] + c10r8vs[i]) }", total, func(_, i int, v interface{}) (string, string) {
			m := model(int(sel[i]))
			res := c10AppendModel(m, []reflect.Value{conv(vs[i], m.Type().Elem())}, c10Unwrap(reflect.ValueOf(v)))
			return judge(v, res)
		}, nil)
	case "loop-grow":
		if total > 6000 {
			total = 6000
			N = strconv.Itoa(total)
		}
		vs := make([]interface{}, total)
		for i := range vs {
			vs[i] = valFor(c10IfaceT)
		}
		_ = h.env.Define("c10r8vs", vs)
		// d starts as a piece of c with spare capacity: the first appends land in c, then d moves away
		if !h.exec(h.opSlice("d", c10P("c"), c10R8IP(1000), c10R8IP(1003), nil, false)) {
			return
		}
		h.r8Loop(p, kind, "untyped-slice", "for i = 0; i < "+N+"; i++ { d += c10r8vs[i]; c10r8chk(i, d) }", total, func(_, i int, v interface{}) (string, string) {
			md := h.mget(c10P("d"))
			res := c10AppendModel(md, []reflect.Value{conv(vs[i], c10IfaceT)}, c10Unwrap(reflect.ValueOf(v)))
			h.bind("d", res)
			cc := newC10Cmp()
			cc.fast = true
			if !cc.cmp(reflect.ValueOf(v), res, "d") {
				return "result-" + cc.fail, cc.detail
			}
			return "", ""
		}, nil)
	case "loop-map":
		ks, kd, vs := make([]interface{}, total), make([]interface{}, total), make([]interface{}, total)
		for i := range ks {
			m := model(int(sel[i]))
			ks[i], kd[i] = c10R8KeyPool[rn(len(c10R8KeyPool))], c10R8KeyPool[rn(len(c10R8KeyPool))]
			vs[i] = valFor(m.Type().Elem())
			if m.Type().Elem().Kind() == reflect.Interface && i%4 == 0 {
				vs[i] = 5000000 + int64(i)
			}
		}
		_ = h.env.Define("c10r8ks", ks)
		_ = h.env.Define("c10r8kd", kd)
		_ = h.env.Define("c10r8vs", vs)
		h.r8Loop(p, kind, "mixed", "for i = 0; i < "+N+"; i++ { cs[c10r8sel[i]][c10r8ks[i]] = c10r8vs[i]; c10r8chk(i, c10r8al[c10r8sel[i]][c10r8ks[i]]); delete(cs[c10r8sel[i]], c10r8kd[i]); c10r8chk(i, len(c10r8al[c10r8sel[i]])) }", 2*total, func(call, i int, v interface{}) (string, string) {
			m := model(int(sel[i]))
			if call%2 == 0 {
				cv := conv(vs[i], m.Type().Elem())
				m.SetMapIndex(reflect.ValueOf(ks[i]), cv)
				return judge(v, reflect.ValueOf(cv.Interface()))
			}
			m.SetMapIndex(reflect.ValueOf(kd[i]), reflect.Value{})
			return judge(v, reflect.ValueOf(int64(m.Len())))
		}, nil)
	}
}

// ---------------------------------------------------------------------------
// phase stream

// c10R8RandomHist runs one random history of the generator of phase random, at most
// budget operations long; it returns the number of operations executed.
func c10R8RandomHist(c *wk.Case, budget int, ctx context.Context, keep *[]*c10Hist, k int) (nExec int, dead bool) {
	h := newC10Hist(c)
	if h.dead {
		return 0, true
	}
	defer func() { nExec, dead = len(h.log), h.dead }()
	h.ctx = ctx
	if k%7 == 3 {
		// this environment stays alive to the end of the case, with a goroutine blocked in it
		*keep = append(*keep, h)
		ank.Exec(h.env, "c10r8ch = make(chan int64)\ngo func() { c10r8ch <- 1 }()")
		c.Tag("r8:stream:environment-leaked-with-goroutine")
	}
	g := &c10Gen{h: h, names: c10Profiles[c.Rng.Intn(len(c10Profiles))]}
	for _, n := range g.names {
		if len(h.log) >= budget {
			break
		}
		var op *c10Op
		if _, isStruct := c10ShapeOf[n]; isStruct {
			op = h.opInitStruct(n)
		} else {
			op = h.opInit(n, g.initVal(n))
		}
		if !h.exec(op) {
			h.finish()
			return
		}
	}
	nops := 10 + c.Rng.Intn(31)
	for k, tries := 0, 0; k < nops && tries < nops*6 && len(h.log) < budget; tries++ {
		op := g.op()
		if op == nil {
			continue
		}
		k++
		if !h.exec(op) {
			break
		}
	}
	h.finish()
	return
}

func c10R8Stream(c *wk.Case) {
	ns := []int{256, 1000, 1024, 4096}
	if c.Tier == "thorough" {
		ns = append(ns, 8192, 16384)
	}
	var dists []int
	for _, n := range ns {
		dists = append(dists, n-1, n, n+1)
	}
	c.Rng.Shuffle(len(dists), func(i, j int) { dists[i], dists[j] = dists[j], dists[i] })
	bad := 0 // histories that ended in a violation (or could not be judged)
	// the long-lived containers
	ref := newC10Hist(c)
	if ref.dead {
		return
	}
	rg := &c10Gen{h: ref, names: c10Profiles[0]}
	for _, n := range rg.names {
		if !ref.exec(ref.opInit(n, rg.initVal(n))) {
			ref.finish()
			return
		}
	}
	asked := 0
	ask := func() bool {
		for fi := range c10Fixed {
			h := newC10Hist(c)
			if h.dead {
				return false
			}
			outside := false
			c10Fixed[fi](h, func(op *c10Op) {
				if op == nil {
					outside = true // outside the domain: phase fixed reports that
					return
				}
				if !outside {
					h.exec(op)
				}
			})
			h.finish()
			asked += len(h.log)
			if h.dead {
				bad++
			}
		}
		for k, tries := 0, 0; k < 12 && tries < 80; tries++ {
			op := rg.op()
			if op == nil {
				continue
			}
			k++
			asked++
			if !ref.exec(op) {
				return false
			}
		}
		return bad < 3
	}
	var keep []*c10Hist
	streamed, hists, sinceGC := 0, 0, 0
	if !ask() {
		return
	}
	for _, d := range dists {
		for left := d; left > 0; {
			var ctx context.Context
			var cancel context.CancelFunc
			if hists%3 == 1 {
				ctx, cancel = context.WithCancel(context.Background())
			}
			n, dead := c10R8RandomHist(c, left, ctx, &keep, hists)
			if dead {
				bad++
			}
			if cancel != nil {
				cancel()
			}
			hists++
			if n == 0 {
				n = 1 // a history that could not start: no progress otherwise
			}
			left -= n
			streamed += n
			sinceGC += n
			if sinceGC >= 1500 {
				sinceGC = 0
				runtime.GC()
			}
			if bad >= 3 {
				return
			}
		}
		c.Tag(fmt.Sprintf("r8:stream:reference-asked-again-after=%d", d))
		if !ask() {
			break
		}
	}
	ref.finish()
	runtime.KeepAlive(keep)
	c.Count("r8_stream_operations_streamed", streamed)
	c.Count("r8_stream_histories_streamed", hists)
	c.Count("r8_stream_reference_operations", asked)
	c.Tag(fmt.Sprintf("reached:operations_in_one_process>=%d", (streamed+asked)/1000*1000))
}
