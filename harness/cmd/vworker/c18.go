package main

// C18 — the command-line tool reports exactly what the library computes.
//
// Monitor: differential between two processes.
//   * the anko executable built from the repository under test
//     (VERIF_ANKO_BIN, built by the orchestrator), driven with a script file +
//     trailing arguments and with -e <source> + positional arguments;
//   * a LIBRARY DRIVER: this worker binary re-executed as `-child c18lib`, which
//     prepares an environment the way the statement says (args, core builtins,
//     bundled packages linked) and calls vm.Execute on the same source. It runs
//     in a child because println writes to the real standard output.
//
// Oracle (from the statement):
//   stdout(CLI) == stdout(library) ++ D, where D is empty when the library
//   returned no error and exactly one (non-blank) line when it returned one;
//   exit status 0 iff no error, 4 on a parse or run error, 2 when the file
//   cannot be read; the script observes args == the trailing arguments (file
//   mode) / all positional arguments (-e mode) — checked through the scripts'
//   own output, the library driver being handed the expected args.
//
// Not judged (the statement is silent): the wording around the error text in the
// diagnostic line (phases fixed/gen/diag-env only count whether the line contains
// the library's error text; phase bytes-cwd-cr, c18_r6.go, demands that it spells
// it in the command's one-line form), standard error, the dynamic type of `args`
// (scripts never ask for it), error messages that span several lines (excluded
// while c18PendingFix_multiLineDiagnostic), interactive mode.
//
// Round 9 (c18_r9.go): phases err-shapes, sigfd and overlap, with a library
// driver that also tells when the script itself ended the process.

import (
	"bytes"
	"context"
	"fmt"
	"io"
	"math/rand"
	"os"
	"os/exec"
	"path/filepath"
	"regexp"
	"strconv"
	"strings"
	"time"

	"github.com/mattn/anko/core"
	"github.com/mattn/anko/env"
	_ "github.com/mattn/anko/packages"
	"github.com/mattn/anko/parser"

	"verifharness/internal/ank"
	"verifharness/internal/fw"
	"verifharness/internal/wk"
)

// ---------------------------------------------------------------------------
// library driver (child process)

const (
	c18ExitOK    = 0
	c18ExitParse = 10
	c18ExitRun   = 11
	c18ExitPanic = 12
)

func c18LibChild(args []string) {
	src, err := io.ReadAll(os.Stdin)
	if err != nil {
		fmt.Fprintln(os.Stderr, "c18lib: cannot read source:", err)
		os.Exit(3)
	}
	scriptArgs := append([]string{}, args...)
	// the environment of the statement: args, core builtins, bundled packages
	// (linked by the blank import above)
	e := env.NewEnv()
	e.Define("args", scriptArgs)
	core.Import(e)
	o := ank.Exec(e, string(src))
	os.Stdout.Sync()
	switch {
	case o.Panicked:
		fmt.Fprint(os.Stderr, o.PanicSig)
		os.Exit(c18ExitPanic)
	case o.Err != nil:
		fmt.Fprint(os.Stderr, o.Err.Error())
		if _, ok := o.Err.(*parser.Error); ok {
			os.Exit(c18ExitParse)
		}
		os.Exit(c18ExitRun)
	}
	os.Exit(c18ExitOK)
}

// ---------------------------------------------------------------------------
// process runner

type c18Proc struct {
	Stdout   string
	Stderr   string
	Exit     int
	TimedOut bool
	Capped   bool
	StartErr string
}

type c18Cap struct {
	buf    bytes.Buffer
	max    int
	capped bool
	cancel func()
}

func (w *c18Cap) Write(p []byte) (int, error) {
	if w.buf.Len()+len(p) > w.max {
		w.capped = true
		if w.cancel != nil {
			w.cancel()
		}
		return len(p), nil
	}
	return w.buf.Write(p)
}

// c18Exec runs one process to completion. The watchdog (120 s) and the output
// cap (16 MB) only ever produce an *inconclusive* verdict.
func c18Exec(bin string, argv []string, dir string, stdin []byte) c18Proc {
	ctx, cancel := context.WithTimeout(context.Background(), 120*time.Second)
	defer cancel()
	cmd := exec.CommandContext(ctx, bin, argv...)
	cmd.Dir = dir
	if stdin != nil {
		cmd.Stdin = bytes.NewReader(stdin)
	}
	out := &c18Cap{max: 16 << 20, cancel: cancel}
	errb := &c18Cap{max: 1 << 20}
	cmd.Stdout = out
	cmd.Stderr = errb
	err := cmd.Run()
	p := c18Proc{Stdout: out.buf.String(), Stderr: errb.buf.String(), Capped: out.capped}
	if cmd.ProcessState != nil {
		p.Exit = cmd.ProcessState.ExitCode()
	} else if err != nil {
		p.StartErr = err.Error()
		p.Exit = -2
	}
	if ctx.Err() == context.DeadlineExceeded {
		p.TimedOut = true
	}
	return p
}

type c18Lib struct {
	Stdout  string
	Class   string // ok | parse-error | run-error | panic | died
	ErrText string
	Proc    c18Proc
}

func c18RunLib(self, dir, src string, args []string) c18Lib {
	argv := append([]string{"-child", "c18lib", "--"}, args...)
	p := c18Exec(self, argv, dir, []byte(src))
	l := c18Lib{Stdout: p.Stdout, ErrText: p.Stderr, Proc: p}
	switch {
	case p.TimedOut || p.Capped || p.StartErr != "":
		l.Class = "died"
	case p.Exit == c18ExitOK:
		l.Class = "ok"
	case p.Exit == c18ExitParse:
		l.Class = "parse-error"
	case p.Exit == c18ExitRun:
		l.Class = "run-error"
	case p.Exit == c18ExitPanic:
		l.Class = "panic"
	default:
		l.Class = "died"
	}
	return l
}

// ---------------------------------------------------------------------------
// oracle

// c18PendingFix_multiLineDiagnostic: the command prints an error text that
// contains a newline (throw("a\nb")) unchanged, so "one diagnostic line" does
// not hold for it (anko.go runNonInteractive; see C18-r5-genuine.md). While
// true, failing scripts whose library error text spans lines are excluded (as
// they always were); set to false once the command keeps the diagnostic on one line.
const c18PendingFix_multiLineDiagnostic = false

func c18Clip(s string) string {
	if len(s) > 600 {
		return s[:300] + "…(" + strconv.Itoa(len(s)) + " bytes)…" + s[len(s)-200:]
	}
	return s
}

// c18Judge compares one CLI observation with the library observation.
// It returns "" when the statement holds.
func c18Judge(lib c18Lib, cli c18Proc) (what, detail string) {
	wantExit := 0
	if lib.Class != "ok" {
		wantExit = 4
	}
	got := cli.Stdout
	// standard output
	if lib.Class == "ok" {
		if got != lib.Stdout {
			switch {
			case strings.HasPrefix(got, lib.Stdout) && c18OneLine(got[len(lib.Stdout):]):
				what = "unexpected-diagnostic-line"
			case strings.HasPrefix(got, lib.Stdout):
				what = "stdout-extra-output"
			case strings.HasPrefix(lib.Stdout, got):
				what = "stdout-truncated"
			default:
				what = "stdout-differs"
			}
		}
	} else {
		switch {
		case got == lib.Stdout:
			what = "diagnostic-line-missing"
		case strings.HasPrefix(got, lib.Stdout):
			d := got[len(lib.Stdout):]
			if !c18OneLine(d) {
				what = "diagnostic-not-exactly-one-line"
				if strings.HasSuffix(d, "\n") && strings.Count(d, "\n") == 1 {
					// one line feed, at the end, but a carriage return inside the text
					what = "diagnostic-line-holds-carriage-return"
				}
			} else if strings.TrimSpace(d) == "" {
				what = "diagnostic-line-blank"
			}
		case strings.HasPrefix(lib.Stdout, got):
			what = "stdout-truncated"
		default:
			// is it the library output of a *prefix* run plus a diagnostic, or something else entirely
			what = "stdout-differs"
		}
	}
	if what != "" {
		detail = fmt.Sprintf("library(%s) stdout=%q err=%q; CLI stdout=%q exit=%d stderr=%q", lib.Class, c18Clip(lib.Stdout), c18Clip(lib.ErrText), c18Clip(got), cli.Exit, c18Clip(cli.Stderr))
		if cli.Exit != wantExit {
			what += fmt.Sprintf("+exit=%d,want=%d", cli.Exit, wantExit)
		}
		return
	}
	if cli.Exit != wantExit {
		what = fmt.Sprintf("exit=%d,want=%d", cli.Exit, wantExit)
		detail = fmt.Sprintf("library(%s) err=%q; CLI exit=%d stdout=%q stderr=%q", lib.Class, c18Clip(lib.ErrText), cli.Exit, c18Clip(got), c18Clip(cli.Stderr))
	}
	return
}

var c18AddrRe = regexp.MustCompile(`0x[0-9a-f]{5,}`)

// exactly one line: some text without a line break, then one newline. A
// carriage return is a line break as much as a line feed is (a terminal goes
// back to column one and the rest overwrites the start of the line; every
// universal-newline reader splits there), so the text holds neither. The
// statement does not say how the line is terminated: "\n" and "\r\n" are both
// accepted. Other characters some readers also break at (VT, FF, NEL, LS, PS)
// are not judged.
func c18OneLine(d string) bool {
	if !strings.HasSuffix(d, "\n") || strings.Count(d, "\n") != 1 {
		return false
	}
	text := strings.TrimSuffix(strings.TrimSuffix(d, "\n"), "\r")
	return !strings.Contains(text, "\r")
}

// c18DiagEscape: the one-line form of an error text the command documents
// (anko.go oneLine: a line feed is written \n, a carriage return \r, everything
// else as it is).
func c18DiagEscape(s string) string {
	return strings.NewReplacer("\n", "\\n", "\r", "\\r").Replace(s)
}

// c18JudgeSpell (only where c18Ctx.spell is set, after c18Judge found the shape
// right): the diagnostic line reports the error the library returned, so it
// contains that error's text in the one-line form. What else the line says
// (a prefix such as "Execute error:") is not judged.
func c18JudgeSpell(lib c18Lib, cli c18Proc) (what, detail string) {
	if lib.Class == "ok" || !strings.HasPrefix(cli.Stdout, lib.Stdout) {
		return
	}
	d := cli.Stdout[len(lib.Stdout):]
	if want := c18DiagEscape(lib.ErrText); !strings.Contains(d, want) {
		what = "diagnostic-does-not-spell-error-text"
		detail = fmt.Sprintf("library(%s) err=%q, one-line form %q; CLI diagnostic=%q exit=%d", lib.Class, c18Clip(lib.ErrText), c18Clip(want), c18Clip(d), cli.Exit)
	}
	return
}

// ---------------------------------------------------------------------------
// script generator (templates; the oracle is differential, so a script only has
// to terminate and print deterministically)

type c18Script struct {
	Src      string
	Feats    []string
	UsesArgs bool
}

var c18SafePkgs = []string{"strings", "strconv", "math", "sort", "regexp", "bytes", "encoding/json"}

var c18StrLits = []string{`"a"`, `"hello"`, `"a,b,c"`, `"héllo wörld"`, `"日本語"`, `"tab\there"`, `"q\"q"`, `""`, `"abcabc"`, `"  pad  "`, `"100%"`, "`raw\\n`", `"x y z"`, `"Zed"`}

type c18G struct {
	r       *rand.Rand
	ints    []string // integer-valued names that may be read here
	mut     []string // top-level integer variables that may be assigned (never a loop counter)
	strs    []string
	lists   []string
	funcs   []string
	pkgs    map[string]string // package path -> script name
	useArgs bool
	n       int
	feat    map[string]bool
	inLoop  int
}

func (g *c18G) f(s string) { g.feat[s] = true }

func (g *c18G) fresh(p string) string { g.n++; return p + strconv.Itoa(g.n) }

func (g *c18G) pick(xs []string) string { return xs[g.r.Intn(len(xs))] }

func (g *c18G) has(p string) bool { _, ok := g.pkgs[p]; return ok }

func (g *c18G) intLit() string {
	switch g.r.Intn(10) {
	case 0:
		return strconv.Itoa(g.r.Intn(100000))
	case 1:
		return "0"
	case 2:
		return strconv.FormatInt(g.r.Int63(), 10)
	}
	return strconv.Itoa(g.r.Intn(20))
}

func (g *c18G) intE(d int) string {
	k := g.r.Intn(12)
	if d <= 0 && k >= 4 {
		k = g.r.Intn(4)
	}
	switch k {
	case 0, 1:
		return g.intLit()
	case 2, 3:
		if len(g.ints) > 0 {
			return g.pick(g.ints)
		}
		return g.intLit()
	case 4, 5:
		return "(" + g.intE(d-1) + " " + g.pick([]string{"+", "-", "*"}) + " " + g.intE(d-1) + ")"
	case 6:
		return "(" + g.intE(d-1) + " % " + strconv.Itoa(2+g.r.Intn(7)) + ")"
	case 7:
		return "len(" + g.strE(d-1) + ")"
	case 8:
		if len(g.funcs) > 0 {
			g.f("call")
			return g.pick(g.funcs) + "(" + g.intE(d-1) + ", " + g.intE(d-1) + ")"
		}
		return "toInt(\"" + strconv.Itoa(g.r.Intn(500)) + "\")"
	case 9:
		if len(g.lists) > 0 {
			return "len(" + g.pick(g.lists) + ")"
		}
		return g.intLit()
	case 10:
		g.f("ternary")
		return "(" + g.boolE(d-1) + " ? " + g.intE(d-1) + " : " + g.intE(d-1) + ")"
	default:
		if g.useArgs {
			g.f("args-len")
			return "len(args)"
		}
		return g.intLit()
	}
}

func (g *c18G) strE(d int) string {
	k := g.r.Intn(14)
	if d <= 0 && k >= 4 {
		k = g.r.Intn(4)
	}
	switch k {
	case 0, 1:
		return g.pick(c18StrLits)
	case 2, 3:
		if len(g.strs) > 0 {
			return g.pick(g.strs)
		}
		return g.pick(c18StrLits)
	case 4:
		return "(" + g.strE(d-1) + " + " + g.strE(d-1) + ")"
	case 5:
		return "toString(" + g.intE(d-1) + ")"
	case 6, 7:
		if n, ok := g.pkgs["strings"]; ok {
			g.f("pkg-call:strings")
			switch g.r.Intn(6) {
			case 0:
				return n + ".ToUpper(" + g.strE(d-1) + ")"
			case 1:
				return n + ".Repeat(" + g.strE(d-1) + ", " + strconv.Itoa(g.r.Intn(4)) + ")"
			case 2:
				return n + ".Replace(" + g.strE(d-1) + ", \"a\", \"<A>\", -1)"
			case 3:
				return n + ".TrimSpace(" + g.strE(d-1) + ")"
			case 4:
				return n + ".ToLower(" + g.strE(d-1) + ")"
			default:
				return n + ".Join(" + n + ".Split(" + g.strE(d-1) + ", \",\"), \"|\")"
			}
		}
		return g.pick(c18StrLits)
	case 8:
		if n, ok := g.pkgs["strconv"]; ok {
			g.f("pkg-call:strconv")
			if g.r.Intn(2) == 0 {
				return n + ".Itoa(" + g.intE(d-1) + ")"
			}
			return n + ".FormatInt(" + g.intE(d-1) + ", " + g.pick([]string{"2", "8", "16", "36"}) + ")"
		}
		return g.pick(c18StrLits)
	case 9, 10, 11:
		if g.useArgs {
			i := strconv.Itoa(g.r.Intn(4))
			g.f("args-index")
			if g.r.Intn(4) == 0 {
				return "args[" + i + "]" // may be out of range: then both sides must fail alike
			}
			return "(len(args) > " + i + " ? args[" + i + "] : \"<none>\")"
		}
		return g.pick(c18StrLits)
	case 12:
		return "typeOf(" + g.intE(d-1) + ")"
	default:
		if n, ok := g.pkgs["regexp"]; ok {
			g.f("pkg-call:regexp")
			return n + ".MustCompile(\"[a-c]+\").ReplaceAllString(" + g.strE(d-1) + ", \"_\")"
		}
		return g.pick(c18StrLits)
	}
}

func (g *c18G) boolE(d int) string {
	switch g.r.Intn(8) {
	case 0:
		return g.pick([]string{"true", "false"})
	case 1, 2, 3:
		return g.intE(d-1) + " " + g.pick([]string{"<", "<=", ">", ">=", "==", "!="}) + " " + g.intE(d-1)
	case 4:
		return g.strE(d-1) + " " + g.pick([]string{"==", "!="}) + " " + g.strE(d-1)
	case 5:
		if n, ok := g.pkgs["strings"]; ok {
			g.f("pkg-call:strings")
			return n + "." + g.pick([]string{"Contains", "HasPrefix", "HasSuffix"}) + "(" + g.strE(d-1) + ", " + g.pick([]string{`"a"`, `"z"`, `""`, `"he"`}) + ")"
		}
		return "true"
	case 6:
		if d > 0 {
			return "(" + g.boolE(d-1) + " " + g.pick([]string{"&&", "||"}) + " " + g.boolE(d-1) + ")"
		}
		return "false"
	default:
		if g.useArgs {
			g.f("args-len")
			return "len(args) " + g.pick([]string{">", "==", "<"}) + " " + strconv.Itoa(g.r.Intn(4))
		}
		return "!(" + g.intE(d-1) + " == 0)"
	}
}

func (g *c18G) floatE(d int) string {
	if n, ok := g.pkgs["math"]; ok && g.r.Intn(2) == 0 {
		g.f("pkg-call:math")
		switch g.r.Intn(5) {
		case 0:
			return n + ".Sqrt(toFloat(" + g.intE(d-1) + "))"
		case 1:
			return n + ".Floor(" + g.pick([]string{"2.5", "-2.5", "7.999"}) + ")"
		case 2:
			return n + ".Max(" + g.intE(d-1) + ", 3)"
		case 3:
			return n + ".Pow(2, " + strconv.Itoa(g.r.Intn(12)) + ")"
		default:
			return n + ".Abs(-1.25)"
		}
	}
	switch g.r.Intn(3) {
	case 0:
		return g.pick([]string{"1.5", "0.25", "3.0", "1e3", "2.75"})
	case 1:
		return "(" + g.intE(d-1) + " / 4)"
	default:
		return "toFloat(" + g.intE(d-1) + ")"
	}
}

func (g *c18G) listE(d int) string {
	switch g.r.Intn(5) {
	case 0:
		if len(g.lists) > 0 {
			return g.pick(g.lists)
		}
	case 1:
		return "range(" + strconv.Itoa(g.r.Intn(5)) + ")"
	case 2:
		if n, ok := g.pkgs["strings"]; ok {
			g.f("pkg-call:strings")
			return n + ".Split(" + g.strE(d-1) + ", \",\")"
		}
	case 3:
		if g.useArgs {
			g.f("args-iter")
			return "args"
		}
	}
	k := g.r.Intn(5)
	var el []string
	for i := 0; i < k; i++ {
		el = append(el, g.intE(d-1))
	}
	return "[" + strings.Join(el, ", ") + "]"
}

// anyE: an expression and the printf verb family that fits it
func (g *c18G) anyE(d int) (string, byte) {
	switch g.r.Intn(10) {
	case 0, 1, 2:
		return g.intE(d), 'i'
	case 3, 4, 5:
		return g.strE(d), 's'
	case 6:
		return g.boolE(d), 'b'
	case 7:
		return g.floatE(d), 'f'
	case 8:
		return g.listE(d), 'l'
	default:
		return g.pick([]string{"nil", "true", "1.5", `{"k": 1, "j": "v"}`, `[1, "two", 3.5, nil]`}), 'v'
	}
}

// printStmt prints through the core builtins or, now and then, through the
// bundled fmt package (another route to the same standard output: the order of
// what the script prints must not depend on the route)
func (g *c18G) printStmt() string {
	s := g.corePrintStmt()
	if g.r.Intn(6) == 0 {
		switch {
		case strings.HasPrefix(s, "println("):
			g.f("fmt.Println")
			return "import(\"fmt\").Println(" + s[len("println("):]
		case strings.HasPrefix(s, "print("):
			g.f("fmt.Print")
			return "import(\"fmt\").Print(" + s[len("print("):]
		case strings.HasPrefix(s, "printf("):
			g.f("fmt.Printf")
			return "import(\"fmt\").Printf(" + s[len("printf("):]
		}
	}
	return s
}

func (g *c18G) corePrintStmt() string {
	switch g.r.Intn(10) {
	case 0, 1, 2, 3, 4:
		g.f("println")
		n := g.r.Intn(4)
		if g.r.Intn(12) > 0 && n == 0 {
			n = 1
		}
		var as []string
		for i := 0; i < n; i++ {
			e, _ := g.anyE(2)
			as = append(as, e)
		}
		return "println(" + strings.Join(as, ", ") + ")"
	case 5, 6:
		g.f("print")
		n := 1 + g.r.Intn(3)
		var as []string
		for i := 0; i < n; i++ {
			e, _ := g.anyE(1)
			as = append(as, e)
		}
		if g.r.Intn(3) > 0 {
			as = append(as, `"\n"`)
		}
		return "print(" + strings.Join(as, ", ") + ")"
	default:
		g.f("printf")
		n := g.r.Intn(4)
		var fs strings.Builder
		var as []string
		fs.WriteString(g.pick([]string{"", "v=", "[", "# ", "100%% "}))
		for i := 0; i < n; i++ {
			e, k := g.anyE(1)
			var verbs []string
			switch k {
			case 'i':
				verbs = []string{"%d", "%5d", "%x", "%v", "%03d", "%-4d|"}
			case 's':
				verbs = []string{"%s", "%q", "%v", "%-8s|", "%10s"}
			case 'b':
				verbs = []string{"%t", "%v"}
			case 'f':
				verbs = []string{"%.2f", "%g", "%v", "%8.3f", "%e"}
			default:
				verbs = []string{"%v"}
			}
			if i > 0 {
				fs.WriteString(g.pick([]string{" ", ",", " - ", ""}))
			}
			fs.WriteString(g.pick(verbs))
			as = append(as, e)
		}
		if g.r.Intn(5) > 0 {
			fs.WriteString(`\n`)
		}
		if len(as) == 0 {
			return "printf(\"" + fs.String() + "\")"
		}
		return "printf(\"" + fs.String() + "\", " + strings.Join(as, ", ") + ")"
	}
}

// statements that fail at run time (single-line error messages)
func (g *c18G) errStmt() string {
	cands := []string{
		"undefinedName" + strconv.Itoa(g.r.Intn(9)),
		"undefinedFn" + strconv.Itoa(g.r.Intn(9)) + "(1)",
		"throw(\"boom " + strconv.Itoa(g.r.Intn(100)) + "\")",
		"[1, 2][" + strconv.Itoa(5+g.r.Intn(5)) + "]",
		"1 % 0",
		"nil.field",
		"import(\"no/such/pkg\")",
		"notFn = 1; notFn()",
		"toInt()",
		"func() { throw(\"deep\") }()",
		"args[99]",
		"toString(1, 2, 3)",
		"{\"a\": 1}.a.b.c",
		"\"s\"[10]",
		"x, y = 1",
		"range()",
		"load(\"nosuch-file.ank\")",
		"load(\"adir\")",
	}
	if n, ok := g.pkgs["strings"]; ok {
		cands = append(cands, n+".NoSuchFunction(\"a\")", n+".Repeat(\"a\", -1)", n+".ToUpper(1, 2)")
	}
	if n, ok := g.pkgs["strconv"]; ok {
		cands = append(cands, n+".Itoa(\"x\")")
	}
	if n, ok := g.pkgs["regexp"]; ok {
		cands = append(cands, n+".MustCompile(\"(\")")
	}
	s := g.pick(cands)
	if strings.Contains(s, "args") {
		g.useArgs = true
	}
	return s
}

func (g *c18G) block(d int, ind string) string {
	ni, ns := len(g.ints), len(g.strs)
	n := 1 + g.r.Intn(3)
	var b strings.Builder
	b.WriteString("{\n")
	for i := 0; i < n; i++ {
		b.WriteString(ind + "  " + g.stmt(d-1, ind+"  ") + "\n")
	}
	b.WriteString(ind + "}")
	g.ints, g.strs = g.ints[:ni], g.strs[:ns]
	return b.String()
}

func (g *c18G) pkgStmt() string {
	var have []string
	for _, p := range c18SafePkgs {
		if g.has(p) {
			have = append(have, p)
		}
	}
	if len(have) == 0 {
		return g.printStmt()
	}
	p := g.pick(have)
	n := g.pkgs[p]
	g.f("pkg-call:" + p)
	switch p {
	case "strings":
		return "println(" + n + ".Fields(" + g.strE(1) + "), " + n + ".Index(" + g.strE(1) + ", \"b\"), " + n + ".Title(\"ab cd\"))"
	case "strconv":
		switch g.r.Intn(3) {
		case 0:
			v := g.fresh("cv")
			return v + ", " + v + "e = " + n + ".Atoi(" + g.pick([]string{`"12"`, `"12x"`, `"-7"`, `""`}) + "); println(" + v + ", " + v + "e)"
		case 1:
			v := g.fresh("cv")
			return v + ", " + v + "e = " + n + ".ParseFloat(" + g.pick([]string{`"1.5"`, `"abc"`, `"1e3"`}) + ", 64); println(" + v + ", " + v + "e)"
		default:
			return "println(" + n + ".FormatBool(" + g.boolE(1) + "), " + n + ".FormatFloat(" + g.floatE(1) + ", toRune(\"f\"), 3, 64))"
		}
	case "math":
		return "printf(\"%.4f %v %v\\n\", " + g.floatE(1) + ", " + n + ".IsNaN(" + n + ".NaN()), " + n + ".Trunc(" + g.floatE(1) + "))"
	case "sort":
		v := g.fresh("sl")
		switch g.r.Intn(3) {
		case 0:
			return v + " = [\"pear\", \"apple\", " + g.strE(0) + "]; " + n + ".Strings(" + v + "); println(" + v + ", " + n + ".StringsAreSorted(" + v + "))"
		case 1:
			return v + " = [3, 1, " + g.intE(0) + "]; " + n + ".Slice(" + v + ", func(i, j) { return " + v + "[i] < " + v + "[j] }); println(" + v + ")"
		default:
			return "println(" + n + ".SearchInts([1, 3, 5, 7], " + strconv.Itoa(g.r.Intn(9)) + "), " + n + ".IntsAreSorted([1, 2, " + g.intE(0) + "]))"
		}
	case "regexp":
		v := g.fresh("re")
		return v + " = " + n + ".MustCompile(" + g.pick([]string{`"[a-c]+"`, `"^h.*o"`, `"\\d+"`, `"(a)(b)?"`}) + "); println(" + v + ".FindAllString(" + g.strE(1) + ", -1), " + v + ".MatchString(" + g.strE(1) + "), " + v + ".String())"
	case "bytes":
		v := g.fresh("bf")
		return v + " = " + n + ".NewBufferString(" + g.strE(1) + "); " + v + ".WriteString(" + g.strE(1) + "); println(" + v + ".String(), " + v + ".Len(), " + n + ".Contains(toByteSlice(\"abc\"), toByteSlice(\"b\")))"
	default: // encoding/json
		v := g.fresh("js")
		return v + ", " + v + "e = " + n + ".Marshal(" + g.pick([]string{`[1, "a", true, nil, 2.5]`, `"str"`, `{"k": 1}`, "[" + g.intE(1) + ", " + g.strE(1) + "]"}) + "); println(toString(" + v + "), " + v + "e)"
	}
}

func (g *c18G) argsStmt() string {
	g.useArgs = true
	switch g.r.Intn(7) {
	case 0:
		g.f("args-len")
		return "println(\"nargs\", len(args))"
	case 1:
		g.f("args-iter")
		return "for a in args { printf(\"arg %q\\n\", a) }"
	case 2:
		g.f("args-print")
		return "println(args)"
	case 3:
		g.f("args-index")
		i := strconv.Itoa(g.r.Intn(3))
		return "if len(args) > " + i + " { println(\"arg" + i + "=\" + args[" + i + "]) } else { println(\"no arg" + i + "\") }"
	case 4:
		g.f("args-iter")
		return "for i = 0; i < len(args); i++ { print(i, \":\", args[i], \";\") }\nprintln()"
	case 5:
		if n, ok := g.pkgs["strings"]; ok {
			g.f("args-join")
			return "println(" + n + ".Join(args, \"|\"))"
		}
		g.f("args-index")
		return "println(args[0])"
	default:
		g.f("args-slice")
		return "println(len(args) > 1 ? args[1:] : \"short\", len(args) > 0 ? args[len(args)-1] : \"empty\")"
	}
}

func (g *c18G) stmt(d int, ind string) string {
	top := ind == ""
	k := g.r.Intn(100)
	if d <= 0 && k >= 50 {
		k = g.r.Intn(50)
	}
	switch {
	case k < 28:
		return g.printStmt()
	case k < 34:
		if g.useArgs {
			return g.argsStmt()
		}
		return g.printStmt()
	case k < 40:
		if len(g.pkgs) > 0 {
			return g.pkgStmt()
		}
		return g.printStmt()
	case k < 45:
		if top {
			v := g.fresh("x")
			s := v + " = " + g.intE(2)
			g.ints = append(g.ints, v)
			g.mut = append(g.mut, v)
			return s
		}
		if len(g.mut) == 0 {
			return g.printStmt()
		}
		g.f("op-assign")
		v := g.pick(g.mut)
		switch g.r.Intn(3) {
		case 0:
			return v + " += " + g.intE(1)
		case 1:
			return v + "++"
		default:
			return v + " = " + g.intE(1)
		}
	case k < 48:
		if top || len(g.strs) == 0 {
			v := g.fresh("s")
			s := v + " = " + g.strE(2)
			g.strs = append(g.strs, v)
			return s
		}
		return g.pick(g.strs) + " += " + g.strE(1)
	case k < 50:
		if top {
			v := g.fresh("l")
			s := v + " = " + g.listE(1)
			g.lists = append(g.lists, v)
			return s
		}
		return g.printStmt()
	case k < 60:
		g.f("if")
		s := "if " + g.boolE(1) + " " + g.block(d, ind)
		if g.r.Intn(2) == 0 {
			if g.r.Intn(3) == 0 {
				s += " else if " + g.boolE(1) + " " + g.block(d, ind)
			}
			s += " else " + g.block(d, ind)
		}
		return s
	case k < 69:
		g.f("for-in")
		v := g.fresh("it")
		l := g.listE(1)
		ni, ns := len(g.ints), len(g.strs)
		// element kind is only known for integer lists; other elements are printed, not computed with
		if strings.HasPrefix(l, "range(") || strings.HasPrefix(l, "[") {
			g.ints = append(g.ints, v)
		}
		g.inLoop++
		body := g.block(d, ind)
		g.inLoop--
		g.ints, g.strs = g.ints[:ni], g.strs[:ns]
		return "for " + v + " in " + l + " " + strings.Replace(body, "{\n", "{\n"+ind+"  println(\"it\", "+v+")\n", 1)
	case k < 73:
		g.f("for-c")
		v := g.fresh("i")
		ni := len(g.ints)
		g.ints = append(g.ints, v)
		g.inLoop++
		body := g.block(d, ind)
		g.inLoop--
		g.ints = g.ints[:ni]
		return "for " + v + " = 0; " + v + " < " + strconv.Itoa(g.r.Intn(5)) + "; " + v + "++ " + body
	case k < 76:
		g.f("for-break")
		v := g.fresh("n")
		lim := strconv.Itoa(1 + g.r.Intn(4))
		s := ""
		if top {
			s = v + " = 0\n"
		} else {
			s = "var " + v + " = 0\n" + ind
		}
		return s + "for {\n" + ind + "  " + v + "++\n" + ind + "  if " + v + " > " + lim + " { break }\n" + ind + "  if " + v + " == 2 { continue }\n" + ind + "  println(\"loop\", " + v + ")\n" + ind + "}"
	case k < 82:
		if top {
			g.f("func")
			name := g.fresh("fn")
			ni, ns := len(g.ints), len(g.strs)
			g.ints = append(g.ints, "pa", "pb")
			save := g.inLoop
			g.inLoop = 0
			var b strings.Builder
			b.WriteString("func " + name + "(pa, pb) {\n")
			for i, n := 0, g.r.Intn(3); i < n; i++ {
				b.WriteString("  " + g.stmt(1, "  ") + "\n")
			}
			b.WriteString("  return " + g.intE(2) + "\n}")
			g.inLoop = save
			g.ints, g.strs = g.ints[:ni], g.strs[:ns]
			g.funcs = append(g.funcs, name)
			return b.String()
		}
		return g.printStmt()
	case k < 84:
		if top {
			g.f("closure")
			name := g.fresh("cl")
			base := g.fresh("x")
			g.ints = append(g.ints, base)
			return base + " = " + g.intLit() + "\n" + name + " = func(q) { " + base + " += q; return " + base + " }\nprintln(" + name + "(1), " + name + "(2), " + base + ")"
		}
		return g.printStmt()
	case k < 90:
		g.f("try")
		ev := g.fresh("e")
		var body string
		if g.r.Intn(3) > 0 {
			body = "{\n" + ind + "  " + g.printStmt() + "\n" + ind + "  " + g.errStmt() + "\n" + ind + "  println(\"not reached?\")\n" + ind + "}"
		} else {
			body = g.block(d, ind)
		}
		s := "try " + body + " catch " + ev + " {\n" + ind + "  println(\"caught:\", " + ev + ")\n" + ind + "}"
		if g.r.Intn(3) == 0 {
			g.f("finally")
			s += " finally {\n" + ind + "  " + g.printStmt() + "\n" + ind + "}"
		}
		return s
	case k < 93:
		g.f("switch")
		var b strings.Builder
		b.WriteString("switch " + g.intE(1) + " % 3 {\n")
		for i := 0; i < 2; i++ {
			b.WriteString(ind + "case " + strconv.Itoa(i) + ":\n" + ind + "  " + g.printStmt() + "\n")
		}
		if g.r.Intn(2) == 0 {
			b.WriteString(ind + "default:\n" + ind + "  " + g.printStmt() + "\n")
		}
		b.WriteString(ind + "}")
		return b.String()
	case k < 96:
		if top {
			g.f("map")
			v := g.fresh("m")
			return v + " = {\"b\": " + g.intE(1) + ", \"a\": " + g.strE(1) + "}\n" + v + "[\"c\"] = " + g.intE(1) + "\nprintln(" + v + ", len(" + v + "), " + v + ".a, " + v + "[\"b\"], " + v + "[\"zz\"])"
		}
		return g.printStmt()
	case k < 97:
		if top {
			g.f("multi-assign")
			a, b := g.fresh("x"), g.fresh("x")
			g.ints = append(g.ints, a, b)
			return a + ", " + b + " = " + g.intE(1) + ", " + g.intE(1) + "\n" + a + ", " + b + " = " + b + ", " + a
		}
		return g.printStmt()
	case k < 98:
		if top {
			g.f("module")
			m := g.fresh("Mod")
			return "module " + m + " {\n  v = " + g.intLit() + "\n  func get() { return v }\n}\nprintln(" + m + ".get(), " + m + ".v)"
		}
		return g.printStmt()
	case k < 99:
		g.f("expr-stmt")
		e, _ := g.anyE(1)
		return e // a value nobody prints: the CLI must not print it either
	default:
		g.f("comment")
		return "# " + g.pick([]string{"note", "println(\"not code\")", "}", "héllo"})
	}
}

// c18Tokens: byte offsets at which a token starts (comments are skipped)
func c18Tokens(src string) []int {
	var out []int
	isW := func(c byte) bool {
		return c == '_' || c >= 0x80 || (c >= '0' && c <= '9') || (c >= 'a' && c <= 'z') || (c >= 'A' && c <= 'Z')
	}
	two := map[string]bool{"++": true, "--": true, "+=": true, "-=": true, "*=": true, "/=": true, "==": true, "!=": true, "<=": true, ">=": true, "&&": true, "||": true, "<-": true, "<<": true, ">>": true}
	i := 0
	for i < len(src) {
		ch := src[i]
		switch {
		case ch == ' ' || ch == '\t' || ch == '\n' || ch == '\r':
			i++
		case ch == '#':
			for i < len(src) && src[i] != '\n' {
				i++
			}
		case ch == '"':
			out = append(out, i)
			i++
			for i < len(src) && src[i] != '"' {
				if src[i] == '\\' {
					i++
				}
				i++
			}
			i++
		case ch == '`':
			out = append(out, i)
			i++
			for i < len(src) && src[i] != '`' {
				i++
			}
			i++
		case isW(ch):
			out = append(out, i)
			for i < len(src) && (isW(src[i]) || (src[i] == '.' && i+1 < len(src) && src[i+1] >= '0' && src[i+1] <= '9' && src[i-1] >= '0' && src[i-1] <= '9')) {
				i++
			}
		default:
			out = append(out, i)
			if i+1 < len(src) && two[src[i:i+2]] {
				i += 2
			} else {
				i++
			}
		}
	}
	return out
}

// garbage that cannot turn a terminating program into a non-terminating one:
// unbalanced brackets, lexical junk, misplaced keywords (no operators that
// could flip a loop condition or a recursion argument)
var c18Garbage = []string{")", "]", "}", "{", "(", "[", ",", "@", "$", "`", "\"", "'", "else", "catch", "func", "= =", "..", "0x", "1.2.3", "?", ":", "&&", "case", "in", "=>", "\\"}

// c18Gen builds one script. kind: 0 plain, 1 parse-error injection, 2 run-error injection.
func c18Gen(r *rand.Rand, kind int) c18Script {
	g := &c18G{r: r, pkgs: map[string]string{}, feat: map[string]bool{}}
	g.useArgs = r.Intn(100) < 45
	var stmts []string
	if r.Intn(100) < 55 {
		n := 1 + r.Intn(3)
		for i := 0; i < n; i++ {
			p := c18SafePkgs[r.Intn(len(c18SafePkgs))]
			if g.has(p) {
				continue
			}
			name := p
			if j := strings.LastIndex(p, "/"); j >= 0 {
				name = p[j+1:]
			}
			if r.Intn(6) == 0 {
				name = "p" + name
			}
			stmts = append(stmts, name+" = import(\""+p+"\")")
			g.pkgs[p] = name
			g.f("pkg:" + p)
		}
	}
	n := 3 + r.Intn(10)
	for i := 0; i < n; i++ {
		stmts = append(stmts, g.stmt(3, ""))
	}
	if g.useArgs && r.Intn(2) == 0 {
		stmts = append(stmts, g.argsStmt())
	}
	if r.Intn(4) > 0 {
		stmts = append(stmts, g.printStmt())
	}
	if kind == 2 {
		// a statement failing at run time, after k of the top-level statements (hence after their prints)
		es := g.errStmt()
		switch r.Intn(6) {
		case 0:
			es = "func() {\n  println(\"in func\")\n  " + es + "\n}()"
			g.f("inject:run:in-func")
		case 1:
			es = "for ei in range(5) {\n  println(\"ei\", ei)\n  if ei == 2 {\n    " + es + "\n  }\n}"
			g.f("inject:run:in-loop")
		case 2:
			es = "print(\"partial line \")\n" + es
			g.f("inject:run:after-partial-line")
		default:
			g.f("inject:run:top-level")
		}
		at := r.Intn(len(stmts) + 1)
		stmts = append(stmts[:at], append([]string{es}, stmts[at:]...)...)
	}
	src := strings.Join(stmts, "\n")
	switch r.Intn(20) {
	case 0:
		g.f("layout:no-final-newline")
	case 1:
		src = strings.Replace(src, "\n", "\r\n", -1) + "\r\n"
		g.f("layout:crlf")
	case 2:
		src = "#!/usr/bin/env anko\n" + src + "\n"
		g.f("layout:shebang")
	case 3:
		src = "\n\n  \n" + src + "\n\n"
		g.f("layout:blank-lines")
	default:
		src += "\n"
	}
	if kind == 1 {
		toks := c18Tokens(src)
		if len(toks) > 0 {
			if r.Intn(5) == 0 {
				// the source ends early at a token boundary
				p := toks[r.Intn(len(toks))]
				src = src[:p]
				g.f("inject:parse:truncate")
			} else {
				p := len(src)
				if j := r.Intn(len(toks) + 1); j < len(toks) {
					p = toks[j]
				}
				gb := c18Garbage[r.Intn(len(c18Garbage))]
				src = src[:p] + gb + " " + src[p:]
				g.f("inject:parse:insert")
			}
		}
	}
	sc := c18Script{Src: src, UsesArgs: strings.Contains(src, "args")}
	for f := range g.feat {
		sc.Feats = append(sc.Feats, f)
	}
	return sc
}

var c18ArgPool = []string{"a", "b c", "", "ünï", "1", "0", "*", "$HOME", "a\nb", "'q'", "\"dq\"", "nosuch.ank", "other.ank", "x=y", "a,b", "%d", "\\n", "..", "~", "file with spaces.txt"}
var c18DashArgPool = []string{"-x", "--flag=1", "-e", "-v", "-", "--", "-e=println(1)", "-h"}

func c18GenArgs(r *rand.Rand) []string {
	n := r.Intn(4)
	args := make([]string, 0, n)
	dashy := r.Intn(5) == 0
	for i := 0; i < n; i++ {
		if dashy && r.Intn(2) == 0 {
			args = append(args, c18DashArgPool[r.Intn(len(c18DashArgPool))])
		} else {
			args = append(args, c18ArgPool[r.Intn(len(c18ArgPool))])
		}
	}
	return args
}

// ---------------------------------------------------------------------------
// fixed list (deterministic; run at the start of every check)

type c18Fixed struct {
	Name string
	Src  string
	Args bool // the script observes args: run it against the full list of argument vectors
}

var c18FixedArgs = [][]string{{}, {"a"}, {"a", "b c", ""}, {"x", "y", "z"}, {"-x", "1"}, {"-v"}, {"--", "-e", "q"}, {"other.ank", "a\nb"}}

var c18FixedScripts = []c18Fixed{
	{Name: "hello", Src: "println(\"hello\")\n"},
	{Name: "empty-file", Src: ""},
	{Name: "whitespace-only", Src: " \n\t\n"},
	{Name: "comment-only", Src: "# nothing\n"},
	{Name: "value-not-printed", Src: "1 + 1\n"},
	{Name: "last-value-string", Src: "x = \"v\"\nx\n"},
	{Name: "no-final-newline", Src: "println(1)\nprintln(2)"},
	{Name: "print-without-newline", Src: "print(\"abc\")"},
	{Name: "three-printers", Src: "print(1, \"a\", 2.5)\nprintln()\nprintln(\"x\", 1, nil, true)\nprintf(\"%d-%s-%q-%v|%5.2f\\n\", 7, \"s\", \"q\", [1, 2], 1.5)\n"},
	{Name: "crlf", Src: "println(1)\r\nprintln(2)\r\n"},
	{Name: "shebang", Src: "#!/usr/bin/env anko\nprintln(\"after shebang\")\n"},
	{Name: "unicode", Src: "s = \"héllo 日本\"\nprintln(s, len(s))\n"},
	{Name: "multi-line-then-last-line-prints", Src: "a = 1\nb = 2\nfunc f(x) {\n  return x * 2\n}\nprintln(f(a + b))\n"},
	{Name: "parse-error-first-line", Src: "x = = 1\nprintln(\"never\")\n"},
	{Name: "parse-error-after-prints", Src: "println(\"one\")\nprintln(\"two\")\nif {\n"},
	{Name: "parse-error-last-token", Src: "println(\"one\")\nfor i in [1, 2] { println(i) }\n)"},
	{Name: "lexer-error", Src: "println(\"one\")\nx = \"unterminated\n"},
	{Name: "run-error-first", Src: "nosuch\nprintln(\"never\")\n"},
	{Name: "run-error-after-prints", Src: "println(\"one\")\nprintln(\"two\")\nnosuch()\nprintln(\"never\")\n"},
	{Name: "run-error-after-partial-line", Src: "print(\"partial\")\n1 % 0\n"},
	{Name: "run-error-in-function", Src: "func f() {\n  println(\"in f\")\n  throw(\"boom\")\n}\nprintln(\"before\")\nf()\nprintln(\"never\")\n"},
	{Name: "run-error-in-loop", Src: "for i in range(5) {\n  println(i)\n  if i == 2 {\n    [1][7]\n  }\n}\n"},
	{Name: "throw-caught", Src: "try {\n  throw(\"boom\")\n} catch e {\n  println(\"caught\", e)\n} finally {\n  println(\"fin\")\n}\nprintln(\"after\")\n"},
	{Name: "top-level-return", Src: "println(\"a\")\nreturn 5\nprintln(\"b\")\n"},
	{Name: "top-level-break", Src: "println(\"a\")\nbreak\nprintln(\"b\")\n"},
	{Name: "error-value-not-thrown", Src: "strconv = import(\"strconv\")\nn, err = strconv.Atoi(\"zz\")\nprintln(n, err)\n"},
	{Name: "import-missing-package", Src: "println(\"a\")\nimport(\"no/such\")\n"},
	{Name: "pkg-strings", Src: "strings = import(\"strings\")\nprintln(strings.ToUpper(\"abc\"), strings.Split(\"a,b\", \",\"), strings.Repeat(\"ab\", 3))\n"},
	{Name: "pkg-strconv", Src: "strconv = import(\"strconv\")\nprintln(strconv.Itoa(42) + \"!\", strconv.FormatInt(255, 16))\n"},
	{Name: "pkg-math", Src: "math = import(\"math\")\nprintf(\"%.4f %v %v\\n\", math.Sqrt(2.0), math.Floor(2.5), math.Max(1, 2))\n"},
	{Name: "pkg-sort", Src: "sort = import(\"sort\")\nl = [\"pear\", \"apple\", \"fig\"]\nsort.Strings(l)\nprintln(l, sort.SearchInts([1, 3, 5], 3))\n"},
	{Name: "pkg-regexp", Src: "regexp = import(\"regexp\")\nre = regexp.MustCompile(\"[a-c]+\")\nprintln(re.FindAllString(\"abcxxab\", -1), re.MatchString(\"zzz\"))\n"},
	{Name: "pkg-bytes", Src: "bytes = import(\"bytes\")\nb = bytes.NewBufferString(\"ab\")\nb.WriteString(\"cd\")\nprintln(b.String(), b.Len())\n"},
	{Name: "pkg-json", Src: "json = import(\"encoding/json\")\nb, err = json.Marshal([1, \"a\", true, nil])\nprintln(toString(b), err)\n"},
	{Name: "pkg-go-panic-becomes-error", Src: "strings = import(\"strings\")\nprintln(\"a\")\nstrings.Repeat(\"a\", -1)\nprintln(\"never\")\n"},
	{Name: "core-builtins", Src: "println(keys({\"a\": 1}), range(3), typeOf(1), kindOf(\"s\"), defined(\"args\"), defined(\"zz\"), toInt(\"12\"), toString(5), toFloat(2), toBool(\"true\"))\n"},
	{Name: "load-missing-top-level", Src: "println(\"a\")\nload(\"nosuch-file.ank\")\nprintln(\"never\")\n"},
	{Name: "load-missing-in-function", Src: "func f() {\n  load(\"nosuch-file.ank\")\n}\nprintln(\"a\")\nf()\nprintln(\"never\")\n"},
	{Name: "load-missing-caught", Src: "try {\n  load(\"nosuch-file.ank\")\n} catch e {\n  println(\"caught\")\n}\nprintln(\"after\")\n"},
	{Name: "load-directory", Src: "println(\"a\")\nload(\"adir\")\n"},
	{Name: "load-uses-loader-names", Src: "shared = 41\nfunc twice(v) { return v * 2 }\nload(\"lib.ank\")\nprintln(fromlib, defined(\"fromlib\"))\n"},
	{Name: "load-with-parse-error", Src: "println(\"a\")\nload(\"badlib.ank\")\nprintln(\"never\")\n"},
	{Name: "defined-own-names", Src: "x = 1\nfunc f() { return 2 }\nvar y = 3\nmodule M { z = 1 }\nprintln(defined(\"x\"), defined(\"f\"), defined(\"y\"), defined(\"M\"), defined(\"nope\"), defined(\"println\"))\nfunc g() { var loc = 1\n return [defined(\"loc\"), defined(\"x\")] }\nprintln(g())\n"},
	{Name: "deep-recursion-that-succeeds", Src: "func depth(n) {\n  if n == 0 {\n    return 0\n  }\n  return 1 + depth(n - 1)\n}\nprintln(depth(40000), len(args))\n"},
	{Name: "deep-recursion-then-error", Src: "func depth(n) {\n  if n == 0 {\n    return nosuch\n  }\n  return 1 + depth(n - 1)\n}\nprintln(\"start\")\nprintln(depth(30000))\n"},
	{Name: "pkg-log-goes-to-stderr", Src: "log = import(\"log\")\nlog.Println(\"progress a\")\nlog.Printf(\"%d\\n\", 5)\nprintln(\"done\", args)\n", Args: true},
	{Name: "pkg-log-redirected-then-error", Src: "log = import(\"log\")\nos = import(\"os\")\nlog.SetOutput(os.Stderr)\nlog.SetPrefix(\"p: \")\nlog.SetFlags(0)\nprintln(\"start\")\nnosuch()\n"},
	{Name: "pkg-log-logs-then-error", Src: "log = import(\"log\")\nprintln(\"start\")\nlog.Print(\"about to fail\")\n[1][5]\n"},
	{Name: "pkg-os-stderr-write", Src: "os = import(\"os\")\nfmt = import(\"fmt\")\nfmt.Fprintln(os.Stderr, \"to stderr\")\nfmt.Fprintln(os.Stdout, \"to stdout\")\nprintln(\"end\")\n"},
	{Name: "latin1-byte-in-comment", Src: "# caf\xe9 cr\xe8me\nprintln(\"ok\", 1, true)\n"},
	{Name: "latin1-byte-in-string", Src: "s = \"caf\xe9\"\nprintln(len(s) > 0, \"x\")\n"},
	{Name: "invalid-utf8-then-error", Src: "# \xff\xfe\nprintln(\"a\")\nnosuch\n"},
	{Name: "nul-byte-in-comment", Src: "# a\x00b\nprintln(\"after nul\")\n"},
	{Name: "big-output", Src: "s = \"0123456789abcdefghijklmnopqrstuvwxyz0123456789abcdefghijklmnopqrstuvwxyz\"\nfor i in range(4000) {\n  println(i, s)\n}\n"},
	{Name: "big-output-then-error", Src: "for i in range(3000) {\n  println(\"line\", i, \"........................................\")\n}\nnosuch\n"},
	{Name: "args-count", Src: "println(len(args))\n", Args: true},
	{Name: "args-each-quoted", Src: "println(\"n\", len(args))\nfor a in args {\n  printf(\"%q\\n\", a)\n}\n", Args: true},
	{Name: "args-print", Src: "println(args)\n", Args: true},
	{Name: "args-first-or-error", Src: "println(\"first\", args[0])\n", Args: true},
	{Name: "args-last", Src: "if len(args) > 0 {\n  println(args[len(args)-1])\n} else {\n  println(\"none\")\n}\n", Args: true},
	{Name: "args-join", Src: "strings = import(\"strings\")\nprintln(strings.Join(args, \"|\"))\n", Args: true},
	{Name: "args-then-error", Src: "for a in args {\n  println(a)\n}\nnosuch\n", Args: true},
	{Name: "args-with-parse-error", Src: "println(args)\n}\n", Args: true},
}

type c18Unreadable struct {
	Kind string // missing | directory
	Path string
}

var c18FixedUnreadable = []c18Unreadable{
	{"missing", "nosuch-c18.ank"},
	{"missing", "sub/dir/nosuch.ank"},
	{"missing", ""},
	{"missing", "adir/inner.ank"},
	{"directory", "adir"},
	{"directory", "."},
	{"directory", "dir.ank"},
}

// ---------------------------------------------------------------------------
// case execution

type c18Ctx struct {
	c    *wk.Case
	anko string
	self string
	dir  string // working directory of every process started (CLI and library driver)
	// phase bytes-cwd-cr (c18_r6.go)
	spell bool   // also judge the text of the diagnostic line (c18JudgeSpell)
	place string // name of the (working directory, script path form) pair, "" = script in the working directory
}

func c18Setup(c *wk.Case) (*c18Ctx, func()) {
	x := &c18Ctx{c: c, anko: os.Getenv("VERIF_ANKO_BIN"), self: os.Getenv("VERIF_WORKER_BIN")}
	if x.self == "" {
		x.self, _ = os.Executable()
	}
	if x.anko == "" {
		c.Inconclusive("no-anko-binary", "VERIF_ANKO_BIN is not set (the phase must be run by the orchestrator)", nil)
		return nil, func() {}
	}
	base := os.Getenv("VERIF_TMP")
	var err error
	if base == "" {
		x.dir, err = os.MkdirTemp("", "c18-")
	} else {
		x.dir = filepath.Join(base, fmt.Sprintf("c18-%d-%s-%d", os.Getpid(), c.Phase, c.Index))
		err = os.MkdirAll(x.dir, 0o755)
	}
	if err != nil {
		c.Inconclusive("no-scratch-dir", err.Error(), nil)
		return nil, func() {}
	}
	// furniture: two directories and a readable second script (used as an argument value)
	os.Mkdir(filepath.Join(x.dir, "adir"), 0o755)
	os.Mkdir(filepath.Join(x.dir, "dir.ank"), 0o755)
	os.WriteFile(filepath.Join(x.dir, "other.ank"), []byte("println(\"OTHER SCRIPT MUST NOT RUN\")\n"), 0o644)
	os.WriteFile(filepath.Join(x.dir, "lib.ank"), []byte("println(\"lib sees\", shared, twice(shared))\nfromlib = shared + 1\n"), 0o644)
	os.WriteFile(filepath.Join(x.dir, "badlib.ank"), []byte("println(\"badlib\")\nx = = 1\n"), 0o644)
	return x, func() { os.RemoveAll(x.dir) }
}

func c18Key(mode, src string, args []string) string {
	return mode + "\x00" + src + "\x00" + strings.Join(args, "\x01")
}

func c18SameArgs(a, b []string) bool {
	if len(a) != len(b) {
		return false
	}
	for i := range a {
		if a[i] != b[i] {
			return false
		}
	}
	return true
}

// check one (script, mode) pair. argv is the complete CLI argument vector,
// scriptArgs what the script must observe as `args`.
func (x *c18Ctx) check(mode string, sc *c18Script, argv, scriptArgs []string, lib *c18Lib) {
	c := x.c
	input := map[string]interface{}{"mode": mode, "src": sc.Src, "argv": argv, "want_args": scriptArgs}
	if x.place != "" {
		input["place"] = x.place
		input["cwd"] = x.dir
	}
	judge := func(l c18Lib, p c18Proc) (string, string) {
		w, d := c18Judge(l, p)
		if w == "" && x.spell {
			w, d = c18JudgeSpell(l, p)
		}
		return w, d
	}
	if lib.Class == "died" {
		c.Inconclusive("library-driver-died", fmt.Sprintf("exit=%d timeout=%v capped=%v start=%q stderr=%q", lib.Proc.Exit, lib.Proc.TimedOut, lib.Proc.Capped, lib.Proc.StartErr, c18Clip(lib.Proc.Stderr)), input)
		return
	}
	if lib.Class == "panic" {
		// vm.Execute panicked: there is no error status to agree with (other properties own panics)
		c.Excluded("library-panicked")
		return
	}
	if c18PendingFix_multiLineDiagnostic && lib.Class != "ok" && strings.Contains(strings.TrimRight(lib.ErrText, "\n"), "\n") {
		// an error text that spans lines is printed as it is, so the diagnostic has as
		// many lines (reported in C18-r5-genuine.md; judged like any other once repaired)
		c.Excluded("multi-line-error-text")
		return
	}
	if c18AddrRe.MatchString(lib.Stdout) {
		// the script printed a function/pointer value: its text is a code or heap
		// address, which differs between two executables — not "what the script prints"
		// in any comparable sense
		c.Excluded("script-prints-an-address")
		return
	}
	c.Begin(input)
	cli := c18Exec(x.anko, argv, x.dir, nil)
	if cli.TimedOut || cli.Capped || cli.StartErr != "" {
		c.Inconclusive("cli-run-not-completed", fmt.Sprintf("timeout=%v capped=%v start=%q", cli.TimedOut, cli.Capped, cli.StartErr), input)
		return
	}
	nontrivial := lib.Stdout != "" || lib.Class != "ok"
	c.Eval(c18Key(mode+x.place, sc.Src, scriptArgs), nontrivial)
	c.Events(1 + strings.Count(cli.Stdout, "\n"))
	c.Tag("mode:"+mode, "class:"+lib.Class, "mode-class:"+mode+":"+lib.Class, "nargs:"+strconv.Itoa(len(scriptArgs)))
	if lib.Stdout != "" && lib.Class != "ok" {
		c.Tag("error-after-output:" + lib.Class)
	}
	if lib.Class != "ok" && !strings.HasSuffix(lib.Stdout, "\n") && lib.Stdout != "" {
		c.Tag("error-after-partial-line")
	}
	if lib.Class != "ok" {
		if strings.Contains(cli.Stdout, strings.TrimSpace(lib.ErrText)) {
			c.Tag("diagnostic-contains-library-error-text:yes")
		} else {
			c.Tag("diagnostic-contains-library-error-text:no")
		}
	}
	if cli.Stderr != "" {
		c.Tag("cli-stderr-nonempty")
	}
	if c.WantSample() && nontrivial {
		c.Sample(map[string]interface{}{"mode": mode, "src": c18Clip(sc.Src), "argv_tail": scriptArgs, "library_class": lib.Class, "library_stdout": c18Clip(lib.Stdout),
			"library_err": lib.ErrText, "cli_stdout": c18Clip(cli.Stdout), "cli_exit": cli.Exit})
	}
	what, detail := judge(*lib, cli)
	if what == "" {
		return
	}
	// reproduce before reporting: a script whose output is not a function of
	// (source, args) cannot be judged differentially
	lib2 := c18RunLib(x.self, x.dir, sc.Src, scriptArgs)
	if lib2.Class != lib.Class || lib2.Stdout != lib.Stdout {
		c.Inconclusive("nondeterministic-script", fmt.Sprintf("two library runs differ: %q / %q", c18Clip(lib.Stdout), c18Clip(lib2.Stdout)), input)
		return
	}
	cli2 := c18Exec(x.anko, argv, x.dir, nil)
	if what2, _ := judge(lib2, cli2); what2 != what {
		c.Inconclusive("cli-observation-not-reproducible", fmt.Sprintf("first run: %s (%s); second run: %q", what, detail, what2), input)
		return
	}
	sig := mode + ":" + lib.Class + ":" + what
	if sc.UsesArgs && strings.HasPrefix(what, "stdout") {
		sig += ":script-reads-args"
		// which arguments did the script see? (diagnosis only)
		detail += " | want args=" + fmt.Sprintf("%q", scriptArgs)
	}
	c.Violation(sig, detail, input)
}

// runScript supplies one script both ways.
func (x *c18Ctx) runScript(sc *c18Script, args []string, fileName, eForm string) {
	c := x.c
	path := filepath.Join(x.dir, fileName)
	if err := os.WriteFile(path, []byte(sc.Src), 0o644); err != nil {
		c.Inconclusive("cannot-write-script", err.Error(), nil)
		return
	}
	defer os.Remove(path)
	c.Begin(map[string]interface{}{"src": sc.Src, "args": args, "stage": "library"})
	lib := c18RunLib(x.self, x.dir, sc.Src, args)
	c.Tag("library-runs")
	// file mode: everything after the file name is a script argument (flag parsing stops at the first positional)
	x.check("file", sc, append([]string{fileName}, args...), args, &lib)

	// -e mode: all positional arguments are script arguments. Words that look like
	// flags cannot be positional there, so they are left out.
	// an empty -e source is a source like any other: it is executed (and prints nothing)
	if strings.Contains(sc.Src, "\x00") || len(sc.Src) > 100000 {
		c.Excluded("source cannot be an argv word")
		return
	}
	var eargs []string
	for _, a := range args {
		if !strings.HasPrefix(a, "-") {
			eargs = append(eargs, a)
		}
	}
	libE := &lib
	if !c18SameArgs(eargs, args) {
		l2 := c18RunLib(x.self, x.dir, sc.Src, eargs)
		c.Tag("library-runs")
		libE = &l2
	}
	var argv []string
	if eForm == "e=" {
		argv = append([]string{"-e=" + sc.Src}, eargs...)
	} else {
		argv = append([]string{"-e", sc.Src}, eargs...)
	}
	x.check(eForm, sc, argv, eargs, libE)
}

// runUnreadable: the file cannot be read — exit status 2. Standard output:
// the script printed nothing, so at most the one diagnostic line is allowed
// (the statement does not say whether an unreadable file counts as "it fails",
// so both no line and one line are accepted).
func (x *c18Ctx) runUnreadable(u c18Unreadable, args []string) {
	c := x.c
	argv := append([]string{u.Path}, args...)
	input := map[string]interface{}{"mode": "file", "unreadable": u.Kind, "argv": argv}
	c.Begin(input)
	cli := c18Exec(x.anko, argv, x.dir, nil)
	if cli.TimedOut || cli.Capped || cli.StartErr != "" {
		c.Inconclusive("cli-run-not-completed", fmt.Sprintf("timeout=%v capped=%v start=%q", cli.TimedOut, cli.Capped, cli.StartErr), input)
		return
	}
	c.Eval(c18Key("unreadable", u.Path, args), true)
	c.Events(1)
	c.Tag("mode:file", "class:unreadable-"+u.Kind, "nargs:"+strconv.Itoa(len(args)))
	if cli.Stdout == "" {
		c.Tag("unreadable-diagnostic:none")
	} else {
		c.Tag("unreadable-diagnostic:one-line")
	}
	var what []string
	if cli.Stdout != "" && !c18OneLine(cli.Stdout) {
		what = append(what, "stdout-more-than-one-diagnostic-line")
	}
	if cli.Exit != 2 {
		what = append(what, fmt.Sprintf("exit=%d,want=2", cli.Exit))
	}
	if len(what) > 0 {
		c.Violation("file:unreadable-"+u.Kind+":"+strings.Join(what, "+"), fmt.Sprintf("CLI exit=%d stdout=%q stderr=%q", cli.Exit, c18Clip(cli.Stdout), c18Clip(cli.Stderr)), input)
	}
}

var c18FileNames = []string{"s.ank", "./s.ank", "script", "s 1.ank", "ünï.ank", "adir/inner.ank", "s.txt", "e", "v"}

func c18FixedCount() int { return len(c18FixedScripts) + len(c18FixedUnreadable) }

func init() {
	wk.RegisterChild("c18lib", c18LibChild)
	wk.Register(&wk.Engine{
		ID: "C18",
		Plan: func(tier string) fw.Plan {
			nGen := 1500
			chunk := 24
			if tier == "thorough" {
				nGen = 60000
				chunk = 250
			}
			nf := c18FixedCount()
			nR5 := len(c18FixedR5) + 96
			if tier == "thorough" {
				nR5 = len(c18FixedR5) + 8000
			}
			nR6 := len(c18FixedR6) + 120
			chunkR6 := 16
			if tier == "thorough" {
				nR6 = len(c18FixedR6) + 9000
				chunkR6 = 250
			}
			nErr, nSig, nOvl := len(c18FixedErrShapes)+70, len(c18FixedSigFd)+36, c18FixedOverlap+14
			chunkR9, chunkOvl := 8, 2
			if tier == "thorough" {
				nErr, nSig, nOvl = len(c18FixedErrShapes)+6000, len(c18FixedSigFd)+2500, c18FixedOverlap+400
				chunkR9, chunkOvl = 250, 20
			}
			return fw.Plan{
				Level: "exploration",
				Rule: "every script is run three ways: by the library driver (vm.Execute in a child of the worker, environment = args + core.Import + linked packages, stdout captured), by the built anko executable as a file argument with 0-3 trailing arguments, and by the executable with -e (same source, same positional arguments). " +
					"phase fixed: hand-written scripts (each printer, layouts, parse/lexer errors before and after prints, run errors at top level / in a function / in a loop / after a partial line, every safe package, big outputs, args observers x 8 argument vectors incl. flag-like words after the file name) and unreadable paths (missing, directory, empty path) with and without trailing arguments. " +
					"phase gen: PRNG template programs (prints through println/print/printf, control flow, functions, try/catch, maps, modules, imports from the safe list, args observers): 40% unchanged, 28% with garbage inserted at / source truncated at a PRNG-chosen token, 28% with a failing statement inserted after k top-level statements, 4% unreadable paths. " +
					"phase diag-env (c18_r5.go): hand-written scripts first, then PRNG scripts of two families, each placed at top level / in a function / a loop / a closure / a try whose catch prints or throws again / a try with finally / after a partial line: (A) failing scripts whose error text carries script data with a '%' in it (a trailing %, %d, %s, %!, %[1]d, ...; thrown strings and Go error values, import/load of missing names, Go errors and panics quoting an operand, an argument of the command line), (B) scripts that use or ask defined() about a name no scope defines: names of bundled packages without an import (strings, os, fmt, json, ...), names of the command's own source (e, file, version, ...), in expression, call, member, assignment, loop, switch and type positions, next to scripts that import the package under that name. " +
					"phase bytes-cwd-cr (c18_r6.go): hand-written scripts first, then PRNG scripts of three families: (A) files whose bytes a text-minded reader might touch - raw string literals spanning lines under CR LF / lone CR / LF CR / mixed line ends (length, bytes, quoted form printed; compared with escaped spellings; a throw that depends on the length), lone CRs between tokens, trailing blanks, BOM, ^Z, no final line end; (B) the command started in a working directory other than the script's (script named by absolute path, ../proj/x, proj/x, a path with .., a symbolic link; the script's own directory as control) with scripts that load / read / stat / open / glob relative paths existing only next to the script, only in the working directory, in both or nowhere, loaded files loading again - the library driver runs in the same working directory; (C) failing scripts whose error text holds CR without LF, CR LF, LF CR (thrown strings, Go errors, import/load names, command-line arguments, raw literals with the bytes, Go panics) at top level / in functions / loops / catch blocks, and unreadable paths with such names. In this phase the diagnostic line must also contain the library's error text in the command's one-line form. " +
					c18R9Rule +
					"An evaluation = one CLI run compared with the library run; non-trivial when the library printed something or returned an error; distinct = distinct (mode, source, args).",
				Assumptions: []string{
					"the library driver's environment (env.NewEnv, Define args []string, core.Import, blank import of packages) is 'an equally prepared environment'",
					"Go flag conventions: flags precede positionals; after the file name every word is a script argument; flag-like words are not positional in -e mode (left out there)",
					"the diagnostic line's wording is not specified: any single non-blank line is accepted in phases fixed, gen and diag-env (its relation to the library's error text is only counted); one line = no line break inside, a carriage return counts as a line break like a line feed, the line may end in LF or CR LF",
					"phase bytes-cwd-cr: 'reports what the library computes' is read as: the diagnostic line contains the text of the error vm.Execute returned, written the way the command documents (anko.go oneLine: LF as \\n, CR as \\r, everything else unchanged); what else the line says is not judged. Scripts of that phase never write to standard error, which is where the library driver reports its error text",
					"the source of a script file is the file's bytes, unchanged (the library driver is given exactly the bytes written to the file); a relative path in a script means the process's working directory for the command as for vm.Execute (the library has no notion of a script file) - the library driver is run in the same working directory as the command",
					"for an unreadable file both 'no output' and 'one diagnostic line' are accepted on stdout; stderr is never judged",
					"error texts spanning several lines are excluded while c18PendingFix_multiLineDiagnostic is set (reported defect); library panics and interactive mode are outside the domain",
					"'the bundled packages available' means importable with import(): a name that no scope defines is undefined for the command exactly when it is for vm.Execute in the library driver's environment, whatever the name is",
					"a mismatch is reported only when it reproduces on a second run of both sides (otherwise inconclusive)",
					c18R9Assumptions[0], c18R9Assumptions[1], c18R9Assumptions[2], c18R9Assumptions[3],
				},
				Phases: []fw.Phase{
					{Name: "fixed", Cases: nf, Chunk: (nf + 15) / 16, TimeoutS: 900, NeedsAnko: true},
					{Name: "gen", Cases: nGen, Chunk: chunk, TimeoutS: 1800, NeedsAnko: true},
					{Name: "diag-env", Cases: nR5, Chunk: chunk, Jobs: 4, MemMB: 3072, TimeoutS: 1800, NeedsAnko: true},
					{Name: "bytes-cwd-cr", Cases: nR6, Chunk: chunkR6, Jobs: 4, MemMB: 3072, TimeoutS: 1800, NeedsAnko: true},
					{Name: "err-shapes", Cases: nErr, Chunk: chunkR9, Jobs: 4, MemMB: 3072, TimeoutS: 1800, NeedsAnko: true},
					{Name: "sigfd", Cases: nSig, Chunk: chunkR9, Jobs: 4, MemMB: 3072, TimeoutS: 1800, NeedsAnko: true},
					{Name: "overlap", Cases: nOvl, Chunk: chunkOvl, Jobs: 3, MemMB: 4096, TimeoutS: 1800, NeedsAnko: true},
				},
			}
		},
		Run: func(c *wk.Case) {
			x, cleanup := c18Setup(c)
			defer cleanup()
			if x == nil {
				return
			}
			if c.Phase == "diag-env" {
				c18RunR5(x, c)
				return
			}
			if c.Phase == "bytes-cwd-cr" {
				c18RunR6(x, c)
				return
			}
			switch c.Phase {
			case "err-shapes":
				c18RunErrShapes(x, c)
				return
			case "sigfd":
				c18RunSigFd(x, c)
				return
			case "overlap":
				c18RunOverlap(x, c)
				return
			}
			if c.Phase == "fixed" {
				if c.Index < len(c18FixedScripts) {
					fx := c18FixedScripts[c.Index]
					sc := &c18Script{Src: fx.Src, UsesArgs: fx.Args}
					c.Tag("fixed:" + fx.Name)
					argsets := [][]string{{}, {"x", "y"}}
					if fx.Args {
						argsets = c18FixedArgs
					}
					for i, as := range argsets {
						eForm := "e"
						if i%3 == 2 {
							eForm = "e="
						}
						x.runScript(sc, as, c18FileNames[(c.Index+i)%len(c18FileNames)], eForm)
					}
					return
				}
				u := c18FixedUnreadable[c.Index-len(c18FixedScripts)]
				for _, as := range [][]string{{}, {"a", "b"}, {"-x"}} {
					x.runUnreadable(u, as)
				}
				return
			}
			r := c.Rng
			roll := r.Intn(100)
			if roll < 4 {
				u := c18Unreadable{Kind: "missing", Path: "missing-" + strconv.Itoa(r.Intn(1000)) + ".ank"}
				if r.Intn(2) == 0 {
					u = c18Unreadable{Kind: "directory", Path: []string{"adir", "dir.ank", ".", "adir/"}[r.Intn(4)]}
				}
				x.runUnreadable(u, c18GenArgs(r))
				return
			}
			kind := 0
			switch {
			case roll < 32:
				kind = 1
			case roll < 60:
				kind = 2
			}
			sc := c18Gen(r, kind)
			args := c18GenArgs(r)
			for _, f := range sc.Feats {
				c.Tag("feat:" + f)
			}
			if sc.UsesArgs {
				c.Tag("feat:script-reads-args")
			}
			eForm := "e"
			if r.Intn(10) == 0 {
				eForm = "e="
			}
			x.runScript(&sc, args, c18FileNames[r.Intn(len(c18FileNames))], eForm)
		},
	})
}
